//! C01, API level: ingest generated tables through LocustDB::ingest_efficient (EventBuffer /
//! TableBuffer / ColumnData in every representation, several batches, columns missing from some
//! batches, optionally through EventBuffer::serialize -> deserialize), then `SELECT cols FROM t` in
//! row and column format, memory-only or on disk with force_flush between segments, and compare
//! every cell with what was supplied.
use crate::colbuf::{nontrivial, shape_of, shape_tag, V};
use crate::dump::{install_panic_hook, last_panic_location, panics_seen, skeleton, take_panics};
use crate::ops::*;
use crate::values::*;
use locustdb::{BasicTypeColumn, LocustDB, Options, Value};
use locustdb_serialization::api::AnyVal;
use locustdb_serialization::event_buffer::{ColumnBuffer, ColumnData, EventBuffer, TableBuffer};
use lvharness::rng::Rng;
use lvharness::suite::{panic_message, Case, Outcome, Suite};
use lvharness::sx::Sx;
use std::collections::{BTreeMap, HashMap};
use std::sync::atomic::{AtomicUsize, Ordering};
use std::sync::OnceLock;
use std::time::Duration;

pub fn suites() -> Vec<Box<dyn Suite>> {
    vec![Box::new(Api), Box::new(Csv)]
}

pub struct Api;

fn runtime() -> &'static tokio::runtime::Runtime {
    static RT: OnceLock<tokio::runtime::Runtime> = OnceLock::new();
    RT.get_or_init(|| tokio::runtime::Builder::new_multi_thread().worker_threads(2).enable_all().build().unwrap())
}

// ------------------------------------------------------------------------------------------------
// case syntax

#[derive(Clone, Debug)]
pub struct Cfg {
    pub disk: bool,
    pub mem_lz4: bool,
    pub batch_size: usize,
    /// on disk: evict the cached columns after the last flush, so that SELECT reads them back from
    /// the partition files (lz4_or_pco_decode on load when mem_lz4 is off, LZ4/Pco operators otherwise)
    pub evict: bool,
}

/// how a batch column is handed over
#[derive(Clone, Debug)]
pub enum ColSpec {
    /// TableBuffer::new with this ColumnData; cells are the logical content (length = rows)
    Data(String, Vec<Cell>), // kind: dense | i64 | string | mixed | empty | sparse | sparse-i64
    /// built by push_row_and_timestamp from per-row cells
    Rows(Vec<Cell>),
}

#[derive(Clone, Debug)]
pub struct Batch {
    pub build_rows: bool,
    pub wire: bool,
    pub rows: usize,
    pub cols: Vec<(String, ColSpec)>,
}

fn cfg_sx(c: &Cfg) -> Sx {
    let mut v = vec![Sx::a(if c.disk { "disk" } else { "mem" }), Sx::boolean(c.mem_lz4), Sx::int(c.batch_size)];
    if c.evict {
        v.push(Sx::a("evict"));
    }
    Sx::l(v)
}
fn parse_cfg(x: &Sx) -> Cfg {
    let l = x.items();
    Cfg { disk: l[0].atom() == "disk", mem_lz4: l[1].as_bool(), batch_size: l[2].as_usize(), evict: l.len() > 3 }
}
fn batch_sx(b: &Batch) -> Sx {
    Sx::l(vec![
        Sx::a(if b.build_rows { "rows" } else { "cols" }),
        Sx::a(if b.wire { "wire" } else { "native" }),
        Sx::int(b.rows),
        Sx::L(b
            .cols
            .iter()
            .map(|(n, s)| match s {
                ColSpec::Data(k, cells) => Sx::l(vec![Sx::a(n), Sx::a(k), cells_sx(cells)]),
                ColSpec::Rows(cells) => Sx::l(vec![Sx::a(n), Sx::a("cells"), cells_sx(cells)]),
            })
            .collect()),
    ])
}
fn parse_batch(x: &Sx) -> Batch {
    let l = x.items();
    let build_rows = l[0].atom() == "rows";
    Batch {
        build_rows,
        wire: l[1].atom() == "wire",
        rows: l[2].as_usize(),
        cols: l[3]
            .items()
            .iter()
            .map(|c| {
                let c = c.items();
                let cells: Vec<Cell> = c[2].items().iter().map(Cell::parse).collect();
                let spec = if c[1].atom() == "cells" { ColSpec::Rows(cells) } else { ColSpec::Data(c[1].atom().to_string(), cells) };
                (c[0].atom().to_string(), spec)
            })
            .collect(),
    }
}

// ------------------------------------------------------------------------------------------------
// building the real TableBuffer

fn anyval(c: &Cell) -> AnyVal {
    match c {
        Cell::Int(i) => AnyVal::Int(*i),
        Cell::Float(b) => AnyVal::Float(f64::from_bits(*b)),
        Cell::Str(s) => AnyVal::Str(String::from_utf8(s.clone()).unwrap()),
        Cell::Null => AnyVal::Null,
    }
}

fn column_data(kind: &str, cells: &[Cell]) -> ColumnData {
    let f = |c: &Cell| match c {
        Cell::Float(b) => f64::from_bits(*b),
        other => panic!("generator: {:?} in a float column", other),
    };
    let i = |c: &Cell| match c {
        Cell::Int(i) => *i,
        other => panic!("generator: {:?} in an int column", other),
    };
    match kind {
        "dense" => ColumnData::Dense(cells.iter().map(f).collect()),
        "i64" => ColumnData::I64(cells.iter().map(i).collect()),
        "string" => ColumnData::String(
            cells
                .iter()
                .map(|c| match c {
                    Cell::Str(s) => String::from_utf8(s.clone()).unwrap(),
                    other => panic!("generator: {:?} in a string column", other),
                })
                .collect(),
        ),
        "mixed" => ColumnData::Mixed(cells.iter().map(anyval).collect()),
        "sparse" => ColumnData::Sparse(cells.iter().enumerate().map(|(k, c)| (k as u64, f(c))).collect()),
        "sparse-i64" => ColumnData::SparseI64(cells.iter().enumerate().map(|(k, c)| (k as u64, i(c))).collect()),
        _ => ColumnData::Empty,
    }
}

fn build_table(b: &Batch) -> TableBuffer {
    if b.build_rows {
        let mut t = TableBuffer::default();
        for r in 0..b.rows {
            let mut row: Vec<(String, AnyVal)> = vec![("timestamp".to_string(), AnyVal::Float(r as f64))];
            for (n, spec) in &b.cols {
                if let ColSpec::Rows(cells) = spec {
                    row.push((n.clone(), anyval(&cells[r])));
                }
            }
            t.push_row_and_timestamp(row);
        }
        t
    } else {
        let mut cols = HashMap::new();
        for (n, spec) in &b.cols {
            if let ColSpec::Data(kind, cells) = spec {
                cols.insert(n.clone(), ColumnBuffer { data: column_data(kind, cells) });
            }
        }
        TableBuffer::new(cols)
    }
}

fn cell_of_anyval(v: &AnyVal) -> Sx {
    match v {
        AnyVal::Int(i) => Cell::Int(*i).sx(),
        AnyVal::Float(f) => Cell::Float(f.to_bits()).sx(),
        AnyVal::Str(s) => Cell::Str(s.as_bytes().to_vec()).sx(),
        AnyVal::Null => Cell::Null.sx(),
    }
}

/// the ColumnData the engine actually receives, in the model's syntax
fn coldata_sx(d: &ColumnData) -> Sx {
    let pair = |(i, v): (&u64, Sx)| Sx::l(vec![Sx::int(i), v]);
    match d {
        ColumnData::Empty => Sx::a("empty"),
        ColumnData::Dense(v) => Sx::l(vec![Sx::a("dense"), Sx::list(v, |f| Sx::int(f.to_bits()))]),
        ColumnData::Sparse(v) => Sx::l(vec![Sx::a("sparse"), Sx::L(v.iter().map(|(i, f)| pair((i, Sx::int(f.to_bits())))).collect())]),
        ColumnData::I64(v) => Sx::l(vec![Sx::a("i64"), Sx::list(v, |i| Sx::int(i))]),
        ColumnData::SparseI64(v) => Sx::l(vec![Sx::a("sparse-i64"), Sx::L(v.iter().map(|(i, x)| pair((i, Sx::int(x)))).collect())]),
        ColumnData::String(v) => Sx::l(vec![Sx::a("string"), Sx::list(v, |s| Sx::bytes(s.as_bytes()))]),
        ColumnData::Mixed(v) => Sx::l(vec![Sx::a("mixed"), Sx::list(v, cell_of_anyval)]),
    }
}

fn floats_of_coldata(d: &ColumnData, out: &mut Vec<u64>) {
    match d {
        ColumnData::Dense(v) => out.extend(v.iter().map(|f| f.to_bits())),
        ColumnData::Sparse(v) => out.extend(v.iter().map(|(_, f)| f.to_bits())),
        ColumnData::I64(v) => out.extend(v.iter().map(|i| (*i as f64).to_bits())),
        ColumnData::SparseI64(v) => out.extend(v.iter().map(|(_, i)| (*i as f64).to_bits())),
        ColumnData::Mixed(v) => {
            for x in v {
                match x {
                    AnyVal::Float(f) => out.push(f.to_bits()),
                    AnyVal::Int(i) => out.push((*i as f64).to_bits()),
                    _ => {}
                }
            }
        }
        _ => {}
    }
}

// ------------------------------------------------------------------------------------------------
// the specification at table level (independent of ColumnData and of the model)

/// logical cells a batch supplies for a column, after the documented int+float -> float
/// degradation inside one row-built batch
fn batch_cells(spec: &ColSpec) -> Vec<Cell> {
    match spec {
        ColSpec::Data(_, cells) => cells.clone(),
        ColSpec::Rows(cells) => {
            let has_f = cells.iter().any(|c| matches!(c, Cell::Float(_)));
            cells
                .iter()
                .map(|c| match c {
                    Cell::Int(i) if has_f => Cell::Float((*i as f64).to_bits()),
                    other => other.clone(),
                })
                .collect()
        }
    }
}

fn cells_to_ops(cells: &[Cell]) -> Vec<Op> {
    // one push per cell: `expected` only depends on the order of cells and their types
    cells
        .iter()
        .map(|c| match c {
            Cell::Int(i) => Op::Ints(vec![*i], None),
            Cell::Float(f) => Op::Floats(vec![*f], None),
            Cell::Str(s) => Op::Strs(vec![String::from_utf8(s.clone()).unwrap()], None),
            Cell::Null => Op::Nulls(1),
        })
        .collect()
}

/// expected cells of one column over one segment (= one table buffer)
fn expected_segment(seg: &[Batch], col: &str) -> Vec<Cell> {
    let mut ops = vec![];
    for b in seg {
        match b.cols.iter().find(|(n, _)| n == col) {
            Some((_, spec)) => {
                let cells = batch_cells(spec);
                assert_eq!(cells.len(), b.rows);
                ops.extend(cells_to_ops(&cells));
            }
            None => ops.push(Op::Nulls(b.rows)),
        }
    }
    expected(&ops)
}

/// known-finding shape tags of one column (union over the table buffers it lives in)
fn column_tag(cfg: &Cfg, segs: &[Vec<Batch>], c: &str) -> String {
    let mut tags = std::collections::BTreeSet::new();
    for seg in segs {
        let mut ops = vec![];
        for b in seg {
            match b.cols.iter().find(|(n, _)| n == c) {
                Some((_, spec)) => ops.extend(cells_to_ops(&batch_cells(spec))),
                None => ops.push(Op::Nulls(b.rows)),
            }
        }
        for t in shape_tag(&shape_of(&ops), cfg.batch_size).split('+') {
            if t != "-" {
                tags.insert(t.to_string());
            }
        }
    }
    if tags.is_empty() { "-".into() } else { tags.into_iter().collect::<Vec<_>>().join("+") }
}

fn table_tag(cfg: &Cfg, segs: &[Vec<Batch>], colnames: &[String]) -> String {
    let mut s = std::collections::BTreeSet::new();
    for c in colnames {
        for t in column_tag(cfg, segs, c).split('+') {
            if t != "-" {
                s.insert(t.to_string());
            }
        }
    }
    if s.is_empty() { "-".to_string() } else { s.into_iter().collect::<Vec<_>>().join("+") }
}

// ------------------------------------------------------------------------------------------------
// running the database

struct Db {
    db: Option<LocustDB>,
    dir: Option<std::path::PathBuf>,
}

impl Drop for Db {
    fn drop(&mut self) {
        drop(self.db.take());
        if let Some(d) = &self.dir {
            let _ = std::fs::remove_dir_all(d);
        }
    }
}

/// remove scratch directories left behind by harness processes that no longer exist
fn cleanup_stale_scratch() {
    static ONCE: std::sync::Once = std::sync::Once::new();
    ONCE.call_once(|| {
        if let Ok(rd) = std::fs::read_dir("/verif/.cache/scratch") {
            for e in rd.flatten() {
                let name = e.file_name().to_string_lossy().to_string();
                if let Some(rest) = name.strip_prefix("col-") {
                    if let Some(pid) = rest.split('-').next().and_then(|p| p.parse::<u32>().ok()) {
                        if pid != std::process::id() && !std::path::Path::new(&format!("/proc/{}", pid)).exists() {
                            let _ = std::fs::remove_dir_all(e.path());
                        }
                    }
                }
            }
        }
    });
}

static DB_COUNTER: AtomicUsize = AtomicUsize::new(0);

fn open_db(cfg: &Cfg) -> Db {
    let dir = if cfg.disk {
        let base = std::path::Path::new("/verif/.cache/scratch");
        let _ = std::fs::create_dir_all(base);
        let d = base.join(format!("col-{}-{}", std::process::id(), DB_COUNTER.fetch_add(1, Ordering::SeqCst)));
        let _ = std::fs::remove_dir_all(&d);
        Some(d)
    } else {
        None
    };
    let opts = Options {
        threads: 2,
        read_threads: 1,
        db_path: dir.clone(),
        mem_lz4: cfg.mem_lz4,
        batch_size: cfg.batch_size,
        partition_combine_factor: 999, // no compaction: that is C07's second decoder
        metrics_table_name: None,
        ..Options::default()
    };
    Db { db: Some(LocustDB::new(&opts)), dir }
}

fn value_cell(v: &Value) -> Cell {
    match v {
        Value::Int(i) => Cell::Int(*i),
        Value::Float(f) => Cell::Float(f.0.to_bits()),
        Value::Str(s) => Cell::Str(s.as_bytes().to_vec()),
        Value::Null => Cell::Null,
    }
}

/// column format: the engine's in-band NULL markers are NULL (they are outside the value domain)
fn column_cells(c: &BasicTypeColumn) -> Vec<Cell> {
    match c {
        BasicTypeColumn::Int(v) => v.iter().map(|i| if *i == I64_NULL { Cell::Null } else { Cell::Int(*i) }).collect(),
        BasicTypeColumn::Float(v) => v.iter().map(|f| if f.to_bits() == F64_NULL { Cell::Null } else { Cell::Float(f.to_bits()) }).collect(),
        BasicTypeColumn::String(v) => v.iter().map(|s| Cell::Str(s.as_bytes().to_vec())).collect(),
        BasicTypeColumn::Null(n) => vec![Cell::Null; *n],
        BasicTypeColumn::Mixed(v) => v.iter().map(value_cell).collect(),
    }
}

pub enum Fail {
    Panic(String, String),
    Error(String),
    Hang(String),
}

struct Selected {
    rows: BTreeMap<String, Vec<Cell>>,
    columns: BTreeMap<String, Vec<Cell>>,
}

fn run_table(cfg: &Cfg, segs: &[Vec<Batch>], colnames: &[String], tables: &[Vec<TableBuffer>]) -> Result<Selected, Fail> {
    let cfg = cfg.clone();
    let colnames = colnames.to_vec();
    let tables: Vec<Vec<(bool, TableBuffer)>> =
        segs.iter().zip(tables.iter()).map(|(s, t)| s.iter().zip(t.iter()).map(|(b, t)| (b.wire, t.clone())).collect()).collect();
    let (tx, rx) = std::sync::mpsc::channel();
    let dir_slot: std::sync::Arc<std::sync::Mutex<Option<std::path::PathBuf>>> = Default::default();
    let dir_slot2 = dir_slot.clone();
    // the whole database lifetime runs on its own thread so that a hang can be reported
    std::thread::spawn(move || {
        let r = std::panic::catch_unwind(move || -> Result<Selected, Fail> {
            let holder = open_db(&cfg);
            *dir_slot2.lock().unwrap() = holder.dir.clone();
            let db = holder.db.as_ref().unwrap();
            let rt = runtime();
            let nseg = tables.len();
            for (k, seg) in tables.into_iter().enumerate() {
                for (wire, t) in seg {
                    let mut eb = EventBuffer::default();
                    eb.tables.insert("t".to_string(), t);
                    let eb = if wire {
                        let bytes = eb.serialize();
                        EventBuffer::deserialize(&bytes).map_err(|e| Fail::Error(format!("deserialize: {:?}", e)))?
                    } else {
                        eb
                    };
                    rt.block_on(db.ingest_efficient(eb));
                }
                if cfg.disk && (k + 1 < nseg || nseg == 1) {
                    db.force_flush();
                }
            }
            if cfg.disk && cfg.evict {
                db.evict_cache();
            }
            let quoted: Vec<String> = colnames.iter().map(|c| format!("\"{}\"", c)).collect();
            let q = format!("SELECT {} FROM t", quoted.join(", "));
            let mut sel = Selected { rows: BTreeMap::new(), columns: BTreeMap::new() };
            for rowformat in [true, false] {
                let fut = db.run_query(&q, false, rowformat, vec![]);
                let out = rt.block_on(async { tokio::time::timeout(Duration::from_secs(6), fut).await });
                let out = match out {
                    Err(_) => return Err(Fail::Hang(format!("query did not complete within 6 s (rowformat={})", rowformat))),
                    Ok(Err(e)) => return Err(Fail::Error(format!("{:?}", e))),
                    Ok(Ok(o)) => o,
                };
                if rowformat {
                    let rows = out.rows.ok_or_else(|| Fail::Error("row format requested, no rows returned".into()))?;
                    for (i, c) in out.colnames.iter().enumerate() {
                        sel.rows.insert(c.clone(), rows.iter().map(|r| value_cell(&r[i])).collect());
                    }
                } else {
                    for (name, col) in &out.columns {
                        sel.columns.insert(name.clone(), column_cells(col));
                    }
                }
            }
            drop(holder);
            *dir_slot2.lock().unwrap() = None;
            Ok(sel)
        });
        let r = match r {
            Ok(r) => r,
            Err(p) => Err(Fail::Panic(panic_message(p), last_panic_location())),
        };
        let _ = tx.send(r);
    });
    // wait; once some thread of the database has panicked give the call 3 more seconds, otherwise 60
    let t0 = std::time::Instant::now();
    let mut panic_seen_at: Option<std::time::Instant> = None;
    loop {
        match rx.recv_timeout(Duration::from_millis(50)) {
            Ok(r) => return r,
            Err(std::sync::mpsc::RecvTimeoutError::Disconnected) => return Err(Fail::Hang("database thread vanished".into())),
            Err(std::sync::mpsc::RecvTimeoutError::Timeout) => {
                if panic_seen_at.is_none() && panics_seen() > 0 {
                    panic_seen_at = Some(std::time::Instant::now());
                }
                let give_up = match panic_seen_at {
                    Some(t) => t.elapsed() > Duration::from_secs(2),
                    None => t0.elapsed() > Duration::from_secs(60),
                };
                if give_up {
                    if let Some(d) = dir_slot.lock().unwrap().take() {
                        let _ = std::fs::remove_dir_all(d);
                    }
                    return Err(Fail::Hang(format!(
                        "the call did not return ({} s after {})",
                        if panic_seen_at.is_some() { 2 } else { 60 },
                        if panic_seen_at.is_some() { "a panic in a database thread" } else { "it started" }
                    )));
                }
            }
        }
    }
}

// ------------------------------------------------------------------------------------------------
// one child process per case

static CASE_COUNTER: AtomicUsize = AtomicUsize::new(0);

/// A worker process runs cases one after the other for as long as they are clean; after a case in
/// which anything panicked or hung it is killed and replaced (its database may have live
/// background threads with poisoned locks).
struct Worker {
    child: std::process::Child,
    stdin: std::process::ChildStdin,
    lines: std::sync::mpsc::Receiver<String>,
}

static WORKER: std::sync::Mutex<Option<Worker>> = std::sync::Mutex::new(None);

fn spawn_worker() -> Worker {
    let exe = std::env::current_exe().expect("current_exe");
    let mut child = std::process::Command::new(exe)
        .args(["replay", "c01_api", "--input", "(worker)"])
        .env("LV_COL_CHILD", "1")
        .env("RUST_LOG", "off")
        .stdin(std::process::Stdio::piped())
        .stdout(std::process::Stdio::piped())
        .stderr(std::process::Stdio::null())
        .spawn()
        .expect("cannot spawn worker");
    let stdin = child.stdin.take().unwrap();
    let stdout = child.stdout.take().unwrap();
    let (tx, rx) = std::sync::mpsc::channel();
    std::thread::spawn(move || {
        use std::io::BufRead;
        for line in std::io::BufReader::new(stdout).lines() {
            match line {
                Ok(l) => {
                    if tx.send(l).is_err() {
                        break;
                    }
                }
                Err(_) => break,
            }
        }
    });
    Worker { child, stdin, lines: rx }
}

fn kill_worker(mut w: Worker) {
    let pid = w.child.id();
    let _ = w.child.kill();
    let _ = w.child.wait();
    if let Ok(rd) = std::fs::read_dir("/verif/.cache/scratch") {
        for e in rd.flatten() {
            if e.file_name().to_string_lossy().starts_with(&format!("col-{}-", pid)) {
                let _ = std::fs::remove_dir_all(e.path());
            }
        }
    }
}

fn run_in_child(suite: &str, input: &Sx) -> Vec<Outcome> {
    use std::io::Write;
    cleanup_stale_scratch();
    let base = std::path::Path::new("/verif/.cache/scratch");
    let _ = std::fs::create_dir_all(base);
    let path = base.join(format!("col-{}-case{}.sx", std::process::id(), CASE_COUNTER.fetch_add(1, Ordering::SeqCst)));
    std::fs::write(&path, input.to_string()).expect("write case file");
    let mut guard = WORKER.lock().unwrap_or_else(|e| e.into_inner());
    let mut w = guard.take().unwrap_or_else(spawn_worker);
    let mut outs = vec![];
    let mut verdict = "died";
    if writeln!(w.stdin, "{}\t{}", suite, path.display()).and_then(|_| w.stdin.flush()).is_ok() {
        let t0 = std::time::Instant::now();
        loop {
            match w.lines.recv_timeout(Duration::from_millis(200)) {
                Ok(line) => {
                    if let Some(rest) = line.strip_prefix("@@END ") {
                        verdict = if rest.trim() == "clean" { "clean" } else { "tainted" };
                        break;
                    }
                    if !line.starts_with('{') {
                        continue;
                    }
                    let v: serde_json::Value = match serde_json::from_str(&line) {
                        Ok(v) => v,
                        Err(_) => continue,
                    };
                    let s = |k: &str| v.get(k).and_then(|x| x.as_str()).map(|x| x.to_string());
                    let model_input = if v.get("case_input").is_some() { s("input").and_then(|x| Sx::parse(&x).ok()) } else { None };
                    outs.push(Outcome {
                        model: s("model"),
                        model_input,
                        impl_out: s("impl").and_then(|x| Sx::parse(&x).ok()),
                        oracle: s("oracle"),
                        signature: s("signature"),
                        nontrivial: v.get("nontrivial").and_then(|x| x.as_bool()).unwrap_or(true),
                    });
                }
                Err(std::sync::mpsc::RecvTimeoutError::Timeout) => {
                    if t0.elapsed() > Duration::from_secs(120) {
                        verdict = "timeout";
                        break;
                    }
                }
                Err(std::sync::mpsc::RecvTimeoutError::Disconnected) => break,
            }
        }
    }
    let _ = std::fs::remove_file(&path);
    if verdict == "clean" {
        *guard = Some(w);
    } else {
        kill_worker(w);
    }
    if verdict == "timeout" || verdict == "died" {
        outs.push(Outcome {
            model: None,
            model_input: None,
            impl_out: Some(Sx::a(format!("worker-{}", verdict))),
            oracle: Some(if verdict == "timeout" { "the case did not finish within 120 s".to_string() } else { "the process running the case died without finishing its report".to_string() }),
            signature: Some(format!("api-worker-{}", verdict)),
            nontrivial: true,
        });
    }
    outs
}

/// worker side: case file paths on stdin, outcomes and an @@END line on stdout
fn worker_loop() {
    use std::io::{BufRead, Write};
    let stdin = std::io::stdin();
    for line in stdin.lock().lines() {
        let line = match line {
            Ok(l) => l,
            Err(_) => break,
        };
        let (suite_name, path) = match line.split_once('\t') {
            Some((a, b)) => (a.to_string(), b.to_string()),
            None => break,
        };
        let text = match std::fs::read_to_string(path.trim()) {
            Ok(t) => t,
            Err(_) => break,
        };
        let inp = Sx::parse(text.trim()).expect("case file syntax");
        let outs = if suite_name == "c01_csv" { Csv.run(&inp) } else { Api.run(&inp) };
        let tainted = outs.iter().any(|o| match &o.signature {
            Some(s) => s.starts_with("api-panic") || s.starts_with("api-hang") || s.starts_with("api-error") || s.starts_with("api-background"),
            None => false,
        });
        let stdout = std::io::stdout();
        let mut out = stdout.lock();
        for o in &outs {
            lvharness::suite::emit(&mut out, &suite_name, "replay", &inp, o);
        }
        let _ = writeln!(out, "@@END {}", if tainted { "tainted" } else { "clean" });
        let _ = out.flush();
        if tainted {
            break;
        }
    }
}

// ------------------------------------------------------------------------------------------------
// generator

fn v_cell(v: &Option<V>) -> Cell {
    match v {
        None => Cell::Null,
        Some(V::I(i)) => Cell::Int(*i),
        Some(V::F(f)) => Cell::Float(*f),
        Some(V::S(s)) => Cell::Str(s.as_bytes().to_vec()),
    }
}

fn gen_column_cells(r: &mut Rng, ty: &str, rows: usize, allow_nulls: bool) -> (String, Vec<Cell>) {
    let pattern = if allow_nulls { *r.pick(&NULL_PATTERNS) } else { "none" };
    let (class, n_hint) = match ty {
        "int" => (*r.pick(&INT_CLASSES), rows),
        "float" => (*r.pick(&FLOAT_CLASSES), rows),
        _ => (*r.pick(&["dict-low", "dict-threshold", "packed-unique", "unicode", "hex-lower", "hex-upper", "hex-digits", "hex-threshold", "empty", "numeric", "prefixes"]), rows),
    };
    // generate exactly `rows` cells: values for the present positions
    let present = gen_present(r, pattern, rows);
    let k = present.iter().filter(|p| **p).count();
    let vals: Vec<V> = match ty {
        "int" => gen_ints(r, class, k.max(1)).into_iter().map(V::I).collect(),
        "float" => gen_floats(r, class, k.max(1)).into_iter().map(V::F).collect(),
        _ => {
            let mut s = gen_strings(r, class, k.max(1));
            while s.len() < k {
                let x = s[r.below(s.len() as u64) as usize].clone();
                s.push(x);
            }
            s.into_iter().map(V::S).collect()
        }
    };
    let _ = n_hint;
    let mut it = vals.into_iter();
    let cells = present.iter().map(|p| if *p { v_cell(&it.next()) } else { Cell::Null }).collect();
    (format!("{}:{}:{}", ty, class, pattern), cells)
}

fn gen_batch(r: &mut Rng, names: &[(&str, &str)], rows: usize, first: bool) -> (Batch, Vec<String>) {
    let build_rows = r.chance(1, 2);
    let wire = r.chance(1, 3);
    let mut cols = vec![];
    let mut labels = vec![];
    for (name, ty) in names {
        // a column is missing from a batch with probability 1/4 (never all of them: see below)
        if !first && r.chance(1, 4) {
            labels.push(format!("{}:missing", ty));
            continue;
        }
        if build_rows {
            // row API: strings must be present in every row; numbers may be NULL anywhere;
            // ints and floats may meet in one column
            match *ty {
                "str" => {
                    // since /repo 1c4a1c7 the last rows may leave a string column out (NULL padding)
                    let (l, mut cells) = gen_column_cells(r, "str", rows, false);
                    let mut l = l;
                    if rows > 1 && r.chance(1, 3) {
                        let k = r.usize(1, rows - 1);
                        for c in cells.iter_mut().skip(rows - k) {
                            *c = Cell::Null;
                        }
                        l = format!("str-short:{}", l);
                    }
                    labels.push(l);
                    cols.push((name.to_string(), ColSpec::Rows(cells)));
                }
                "mixed" => {
                    // int + float in one row-built column
                    let (l1, mut a) = gen_column_cells(r, "int", rows, true);
                    let (_, b) = gen_column_cells(r, "float", rows, true);
                    for (i, c) in b.into_iter().enumerate() {
                        if i % 3 == 1 {
                            a[i] = c;
                        }
                    }
                    labels.push(format!("int+float:{}", l1));
                    cols.push((name.to_string(), ColSpec::Rows(a)));
                }
                t => {
                    let (l, cells) = gen_column_cells(r, t, rows, true);
                    labels.push(l);
                    cols.push((name.to_string(), ColSpec::Rows(cells)));
                }
            }
        } else {
            match *ty {
                "int" => {
                    let (l, cells) = gen_column_cells(r, "int", rows, false);
                    let kind = if r.chance(1, 5) { "sparse-i64" } else { "i64" };
                    labels.push(format!("{}:{}", kind, l));
                    cols.push((name.to_string(), ColSpec::Data(kind.into(), cells)));
                }
                "float" => {
                    let (l, cells) = gen_column_cells(r, "float", rows, false);
                    let kind = if r.chance(1, 5) { "sparse" } else { "dense" };
                    labels.push(format!("{}:{}", kind, l));
                    cols.push((name.to_string(), ColSpec::Data(kind.into(), cells)));
                }
                "str" => {
                    let (l, cells) = gen_column_cells(r, "str", rows, false);
                    labels.push(format!("string:{}", l));
                    cols.push((name.to_string(), ColSpec::Data("string".into(), cells)));
                }
                _ => {
                    // ColumnData::Mixed: any cell type incl. NULL; or ColumnData::Empty
                    if r.chance(1, 6) {
                        labels.push("empty".into());
                        cols.push((name.to_string(), ColSpec::Data("empty".into(), vec![Cell::Null; rows])));
                    } else {
                        let tys = ["int", "float", "str"];
                        let t1 = *r.pick(&tys);
                        let t2 = *r.pick(&tys);
                        let (_, a) = gen_column_cells(r, t1, rows, true);
                        let (_, b) = gen_column_cells(r, t2, rows, true);
                        let cut = r.usize(0, rows);
                        let cells: Vec<Cell> = (0..rows).map(|i| if i < cut { a[i].clone() } else { b[i].clone() }).collect();
                        labels.push(format!("mixed:{}+{}", t1, t2));
                        cols.push((name.to_string(), ColSpec::Data("mixed".into(), cells)));
                    }
                }
            }
        }
    }
    (Batch { build_rows, wire, rows, cols }, labels)
}

/// a row-built batch only materialises a column if at least one cell is non-NULL, and needs the
/// timestamp column to carry the length; a cols-built batch needs at least one non-empty column.
fn batch_is_wellformed(b: &Batch) -> bool {
    if b.build_rows {
        true
    } else {
        b.cols.iter().any(|(_, s)| matches!(s, ColSpec::Data(k, _) if k != "empty"))
    }
}

impl Suite for Api {
    fn name(&self) -> &'static str {
        "c01_api"
    }

    fn generate(&self, seed: u64, tier: &str) -> Vec<Case> {
        let mut r0 = Rng::new(seed ^ 0xA91_C01);
        let n_cases = if tier == "thorough" { 1_400 } else { 200 };
        let mut cases = vec![];
        for i in 0..n_cases {
            let mut r = r0.fork(i as u64);
            let disk = r.chance(2, 5);
            let cfg = Cfg {
                disk,
                mem_lz4: r.chance(1, 2),
                batch_size: *r.pick(&[1024usize, 1024, 1024, 8, 16, 64]),
                evict: disk && r.chance(1, 2),
            };
            let ncols = r.usize(1, 4);
            let tys = ["int", "int", "float", "str", "str", "mixed"];
            let names: Vec<(String, &str)> = (0..ncols).map(|k| (format!("c{}", k), *r.pick(&tys))).collect();
            let names_ref: Vec<(&str, &str)> = names.iter().map(|(n, t)| (n.as_str(), *t)).collect();
            let nseg = if cfg.disk { r.usize(1, 3) } else { 1 };
            let mut segs = vec![];
            let mut labels = vec![];
            let mut first = true;
            for _ in 0..nseg {
                let nb = r.usize(1, 3);
                let mut seg = vec![];
                for _ in 0..nb {
                    // since /repo 1eb96cd a table buffer without rows is legal (and adds nothing)
                    if !first && r.chance(1, 8) {
                        labels.push("empty-table-buffer".to_string());
                        seg.push(Batch { build_rows: true, wire: r.chance(1, 3), rows: 0, cols: vec![] });
                        continue;
                    }
                    let rows = match r.below(8) {
                        0 => *r.pick(&[1usize, 7, 8, 9, 63, 64, 65]),
                        1 => r.usize(100, 260),
                        _ => r.usize(1, 40),
                    };
                    let mut tries = 0;
                    loop {
                        let (b, l) = gen_batch(&mut r, &names_ref, rows, first);
                        tries += 1;
                        if batch_is_wellformed(&b) || tries > 5 {
                            if batch_is_wellformed(&b) {
                                labels.extend(l);
                                seg.push(b);
                            }
                            break;
                        }
                    }
                    first = false;
                }
                if !seg.is_empty() {
                    segs.push(seg);
                }
            }
            if segs.is_empty() {
                continue;
            }
            // (until /repo 4a8ac11 tables in the classes of F4 / F10 / F19 / F27 were kept at a small
            // share of the budget; since the fixes they are ordinary cases)
            let colnames_v: Vec<String> = names.iter().map(|(n, _)| n.clone()).collect();
            let known = table_tag(&cfg, &segs, &colnames_v);
            labels.sort();
            labels.dedup();
            let class = format!(
                "{}{}/{}",
                if known != "-" { "formerly-known-shape:" } else { "" },
                if cfg.disk { "disk" } else { "mem" },
                labels.iter().map(|l| l.split(':').next().unwrap_or("").to_string()).collect::<std::collections::BTreeSet<_>>().into_iter().collect::<Vec<_>>().join("+")
            );
            let colnames = Sx::L(names.iter().map(|(n, _)| Sx::a(n)).collect());
            cases.push(Case {
                class,
                input: Sx::l(vec![cfg_sx(&cfg), colnames, Sx::L(segs.iter().map(|s| Sx::list(s, batch_sx)).collect())]),
            });
        }
        cases
    }

    fn run(&self, input: &Sx) -> Vec<Outcome> {
        // Every database lifetime gets its own process: a LocustDB whose flush or worker thread has
        // panicked keeps background threads that panic later (poisoned locks) and would be
        // attributed to the next case.
        if std::env::var("LV_COL_CHILD").is_err() {
            return run_in_child("c01_api", input);
        }
        if matches!(input, Sx::L(l) if l.len() == 1 && matches!(&l[0], Sx::A(a) if a == "worker")) {
            worker_loop();
            std::process::exit(0);
        }
        install_panic_hook();
        let _ = take_panics();
        let it = input.items();
        let cfg = parse_cfg(&it[0]);
        let colnames: Vec<String> = it[1].items().iter().map(|a| a.atom().to_string()).collect();
        let segs: Vec<Vec<Batch>> = it[2].items().iter().map(|s| s.items().iter().map(parse_batch).collect()).collect();
        let mut outs = vec![];

        // build the real table buffers (a panic here is a malformed case, not a finding of C01)
        let built = std::panic::catch_unwind(|| segs.iter().map(|s| s.iter().map(build_table).collect::<Vec<_>>()).collect::<Vec<_>>());
        let tables = match built {
            Ok(t) => t,
            Err(e) => {
                outs.push(Outcome {
                    model: None,
                    model_input: None,
                    impl_out: Some(Sx::a("rejected-by-client-library")),
                    oracle: None,
                    signature: Some(format!("client-build-panic:{}", skeleton(&panic_message(e)))),
                    nontrivial: false,
                });
                return outs;
            }
        };

        // expected cells per column
        let mut exp: BTreeMap<String, Vec<Cell>> = BTreeMap::new();
        for c in &colnames {
            let mut v = vec![];
            for seg in &segs {
                v.extend(expected_segment(seg, c));
            }
            exp.insert(c.clone(), v);
        }
        // shape facts per column (for the known-finding signatures)
        let tag_of = |c: &str| -> String { column_tag(&cfg, &segs, c) };
        let table_tag = table_tag(&cfg, &segs, &colnames);

        let sel = match run_table(&cfg, &segs, &colnames, &tables) {
            Ok(s) => s,
            Err(f) => {
                let (kind, msg, file) = match f {
                    Fail::Panic(m, f) => ("panic", m, f),
                    Fail::Error(m) => ("error", m, String::new()),
                    Fail::Hang(m) => ("hang", m, String::new()),
                };
                // the first panic of any thread identifies the defect; what the caller sees
                // (panic / error value / hang) is the consequence
                let panics = take_panics();
                let (file, msg) = match panics.first() {
                    Some((f, m)) if kind != "panic" => (f.clone(), format!("{} [caller saw {}: {}]", m, kind, msg)),
                    _ => (file, msg),
                };
                let kind = if panics.is_empty() { kind } else { "panic" };
                outs.push(Outcome {
                    model: None,
                    model_input: None,
                    impl_out: Some(Sx::l(vec![Sx::a(kind), Sx::a(skeleton(&msg))])),
                    oracle: Some(format!("ingest + SELECT failed ({} {}): {}", kind, file, msg)),
                    signature: Some(format!("api-{}:{}:{}:{}", kind, file, skeleton(msg.split(" [caller saw").next().unwrap_or("")), table_tag)),
                    nontrivial: true,
                });
                return outs;
            }
        };

        let stray = take_panics();
        if let Some((f, m)) = stray.first() {
            outs.push(Outcome {
                model: None,
                model_input: None,
                impl_out: Some(Sx::a("background-panic")),
                oracle: Some(format!("a database thread panicked during the case although every call returned: {} {}", f, m)),
                signature: Some(format!("api-background-panic:{}:{}:{}", f, m, table_tag)),
                nontrivial: true,
            });
        }

        // model inputs: the ColumnData the engine received, per column and segment
        let mut floats = vec![];
        for seg in &tables {
            for t in seg {
                for (_, cb) in t.columns() {
                    floats_of_coldata(&cb.data, &mut floats);
                }
            }
        }
        let tbl = float_table(floats.iter());

        for c in &colnames {
            let e = &exp[c];
            let nt = nontrivial(e);
            let tag = tag_of(c);
            let items = Sx::L(tables
                .iter()
                .map(|seg| {
                    Sx::L(seg
                        .iter()
                        .map(|t| {
                            let d = t.columns().find(|(n, _)| *n == c).map(|(_, cb)| coldata_sx(&cb.data));
                            Sx::l(vec![Sx::opt(d), Sx::int(t.len())])
                        })
                        .collect())
                })
                .collect());
            let model_input = Sx::l(vec![tbl.clone(), items]);
            for (fmt, got) in [("rows", sel.rows.get(c)), ("columns", sel.columns.get(c))] {
                let got = match got {
                    Some(g) => g.clone(),
                    None => {
                        outs.push(Outcome {
                            model: None,
                            model_input: None,
                            impl_out: Some(Sx::a("column-missing")),
                            oracle: Some(format!("column {} is missing from the {} output", c, fmt)),
                            signature: Some(format!("api-column-missing:{}", fmt)),
                            nontrivial: nt,
                        });
                        continue;
                    }
                };
                let diff = first_diff(e, &got);
                let sig = diff.as_ref().map(|_| format!("api-{}:{}:{}", diff_signature(e, &got), fmt, tag));
                let model_ok = true;
                outs.push(Outcome {
                    model: if fmt == "rows" && model_ok { Some("api_table_col".into()) } else { None },
                    model_input: if fmt == "rows" && model_ok { Some(model_input.clone()) } else { None },
                    impl_out: Some(cells_sx(&got)),
                    oracle: diff.map(|d| format!("column {} ({} format): {}", c, fmt, d)),
                    signature: sig,
                    nontrivial: nt,
                });
            }
        }
        outs
    }
}


// ================================================================================================
// CSV ingestion: LocustDB::load_csv (oracle only: the CSV type inference is not modelled)
// ================================================================================================

pub struct Csv;

fn csv_field(c: &Cell) -> String {
    match c {
        Cell::Null => String::new(),
        Cell::Int(i) => i.to_string(),
        // Debug always prints a fraction or an exponent, so the cell is not read as an integer
        Cell::Float(b) => format!("{:?}", f64::from_bits(*b)),
        Cell::Str(s) => {
            let s = String::from_utf8(s.clone()).unwrap();
            if s.contains(',') || s.contains('"') || s.contains('\n') || s.starts_with(' ') || s.ends_with(' ') {
                format!("\"{}\"", s.replace('"', "\"\""))
            } else {
                s
            }
        }
    }
}

/// what load_csv must yield for one column of one partition_size-row batch: the loader infers one
/// type per batch and column (string > float > int); empty cells are NULL (allow_nulls_all_columns)
fn csv_expected_batch(cells: &[Cell]) -> Vec<Cell> {
    let has_s = cells.iter().any(|c| matches!(c, Cell::Str(_)));
    let has_f = cells.iter().any(|c| matches!(c, Cell::Float(_)));
    cells
        .iter()
        .map(|c| match c {
            Cell::Int(i) if has_s => Cell::Str(i.to_string().into_bytes()),
            Cell::Float(b) if has_s => Cell::Str(format!("{:?}", f64::from_bits(*b)).into_bytes()),
            Cell::Int(i) if has_f => Cell::Float((*i as f64).to_bits()),
            other => other.clone(),
        })
        .collect()
}

impl Suite for Csv {
    fn name(&self) -> &'static str {
        "c01_csv"
    }

    fn generate(&self, seed: u64, tier: &str) -> Vec<Case> {
        let mut r0 = Rng::new(seed ^ 0xC5F_C01);
        let n_cases = if tier == "thorough" { 500 } else { 70 };
        let mut cases = vec![];
        for i in 0..n_cases {
            let mut r = r0.fork(i as u64);
            let disk = r.chance(1, 3);
            let cfg = Cfg { disk, mem_lz4: r.chance(1, 2), batch_size: *r.pick(&[1024usize, 1024, 8, 64]), evict: disk && r.chance(1, 2) };
            let rows = match r.below(6) {
                0 => *r.pick(&[1usize, 7, 8, 9, 63, 64, 65]),
                1 => r.usize(100, 300),
                _ => r.usize(2, 50),
            };
            let partition_size = match r.below(3) {
                0 => rows + 5,
                1 => *r.pick(&[7usize, 8, 16, 64]),
                _ => (rows / 2).max(1),
            };
            let ncols = r.usize(1, 4);
            let mut cols = vec![];
            let mut labels = vec![];
            for k in 0..ncols {
                let ty = *r.pick(&["int", "int", "float", "str", "int+float"]);
                let allow_nulls = r.chance(1, 2);
                let (l, mut cells) = match ty {
                    "int+float" => {
                        let (l, mut a) = gen_column_cells(&mut r, "int", rows, allow_nulls);
                        let (_, b) = gen_column_cells(&mut r, "float", rows, allow_nulls);
                        for (i, c) in b.into_iter().enumerate() {
                            if i % 4 == 2 {
                                a[i] = c;
                            }
                        }
                        (format!("int+float:{}", l), a)
                    }
                    "str" => {
                        // text that is neither empty nor a number
                        let (l, cells) = gen_column_cells(&mut r, "str", rows, allow_nulls);
                        let cells = cells
                            .into_iter()
                            .map(|c| match c {
                                Cell::Str(s) => {
                                    let mut t = String::from_utf8(s).unwrap().replace('\n', " ").replace('\r', " ");
                                    if t.is_empty() || t.parse::<f64>().is_ok() || t.trim() != t {
                                        t = format!("s{}", t.trim());
                                    }
                                    Cell::Str(t.into_bytes())
                                }
                                o => o,
                            })
                            .collect();
                        (l, cells)
                    }
                    t => gen_column_cells(&mut r, t, rows, allow_nulls),
                };
                // NaN payloads and signs do not survive a text representation
                for c in cells.iter_mut() {
                    if let Cell::Float(b) = c {
                        if f64::from_bits(*b).is_nan() {
                            *c = Cell::Float((1.5f64).to_bits());
                        }
                    }
                }
                labels.push(l.split(':').next().unwrap_or("").to_string());
                cols.push(Sx::l(vec![Sx::a(format!("c{}", k)), cells_sx(&cells)]));
            }
            // A batch in which every cell is NULL becomes a partition of size 0, which plan_compaction
            // merges whatever the combine factor is; compaction is C07's subject, keep it out of here.
            {
                let mut colsv: Vec<(String, Vec<Cell>)> = cols.iter().map(|c| (c.items()[0].atom().to_string(), c.items()[1].items().iter().map(Cell::parse).collect())).collect();
                let mut start = 0;
                while start < rows {
                    let end = (start + partition_size).min(rows);
                    if colsv.iter().all(|(_, c)| c[start..end].iter().all(|x| *x == Cell::Null)) {
                        let filler = colsv[0].1.iter().find(|x| **x != Cell::Null).cloned().unwrap_or(Cell::Int(1));
                        colsv[0].1[start] = filler;
                    }
                    start = end;
                }
                cols = colsv.iter().map(|(n, c)| Sx::l(vec![Sx::a(n), cells_sx(c)])).collect();
            }
            let tag = {
                let colsv: Vec<(String, Vec<Cell>)> = cols.iter().map(|c| (c.items()[0].atom().to_string(), c.items()[1].items().iter().map(Cell::parse).collect())).collect();
                csv_table_tag(&cfg, partition_size, &colsv)
            };
            labels.sort();
            labels.dedup();
            cases.push(Case {
                class: format!("{}csv-{}/{}", if tag != "-" { "formerly-known-shape:" } else { "" }, if cfg.disk { "disk" } else { "mem" }, labels.join("+")),
                input: Sx::l(vec![cfg_sx(&cfg), Sx::int(partition_size), Sx::L(cols)]),
            });
        }
        cases
    }

    fn run(&self, input: &Sx) -> Vec<Outcome> {
        if std::env::var("LV_COL_CHILD").is_err() {
            return run_in_child("c01_csv", input);
        }
        install_panic_hook();
        let _ = take_panics();
        let it = input.items();
        let cfg = parse_cfg(&it[0]);
        let partition_size = it[1].as_usize();
        let cols: Vec<(String, Vec<Cell>)> = it[2]
            .items()
            .iter()
            .map(|c| (c.items()[0].atom().to_string(), c.items()[1].items().iter().map(Cell::parse).collect()))
            .collect();
        let rows = cols[0].1.len();
        let table_tag = csv_table_tag(&cfg, partition_size, &cols);
        let mut outs = vec![];

        let mut text = cols.iter().map(|(n, _)| n.clone()).collect::<Vec<_>>().join(",");
        text.push('\n');
        for r in 0..rows {
            let line = cols.iter().map(|(_, c)| csv_field(&c[r])).collect::<Vec<_>>().join(",");
            // a blank line is not a record: a single empty field has to be quoted
            text.push_str(if line.is_empty() { "\"\"" } else { &line });
            text.push('\n');
        }
        let mut exp: BTreeMap<String, Vec<Cell>> = BTreeMap::new();
        for (n, cells) in &cols {
            let mut v = vec![];
            for chunk in cells.chunks(partition_size) {
                v.extend(csv_expected_batch(chunk));
            }
            exp.insert(n.clone(), v);
        }

        let cfg2 = cfg.clone();
        let colnames: Vec<String> = cols.iter().map(|(n, _)| n.clone()).collect();
        let colnames2 = colnames.clone();
        let (tx, rx) = std::sync::mpsc::channel();
        let dir_slot: std::sync::Arc<std::sync::Mutex<Vec<std::path::PathBuf>>> = Default::default();
        let dir_slot2 = dir_slot.clone();
        std::thread::spawn(move || {
            let r = std::panic::catch_unwind(move || -> Result<Selected, Fail> {
                let base = std::path::Path::new("/verif/.cache/scratch");
                let _ = std::fs::create_dir_all(base);
                let file = base.join(format!("col-{}-{}.csv", std::process::id(), DB_COUNTER.fetch_add(1, Ordering::SeqCst)));
                std::fs::write(&file, &text).map_err(|e| Fail::Error(format!("write csv: {}", e)))?;
                dir_slot2.lock().unwrap().push(file.clone());
                let holder = open_db(&cfg2);
                if let Some(d) = &holder.dir {
                    dir_slot2.lock().unwrap().push(d.clone());
                }
                let db = holder.db.as_ref().unwrap();
                let rt = runtime();
                let opts = locustdb::LoadOptions::new(&file, "t").with_partition_size(partition_size).allow_nulls_all_columns();
                let fut = db.load_csv(opts);
                match rt.block_on(async { tokio::time::timeout(Duration::from_secs(30), fut).await }) {
                    Err(_) => return Err(Fail::Hang("load_csv did not complete within 30 s".into())),
                    Ok(Err(e)) => return Err(Fail::Error(format!("load_csv: {}", e))),
                    Ok(Ok(())) => {}
                }
                if cfg2.disk && cfg2.evict {
                    db.evict_cache();
                }
                let quoted: Vec<String> = colnames2.iter().map(|c| format!("\"{}\"", c)).collect();
                let q = format!("SELECT {} FROM t", quoted.join(", "));
                let mut sel = Selected { rows: BTreeMap::new(), columns: BTreeMap::new() };
                for rowformat in [true, false] {
                    let fut = db.run_query(&q, false, rowformat, vec![]);
                    let out = rt.block_on(async { tokio::time::timeout(Duration::from_secs(6), fut).await });
                    let out = match out {
                        Err(_) => return Err(Fail::Hang(format!("query did not complete within 6 s (rowformat={})", rowformat))),
                        Ok(Err(e)) => return Err(Fail::Error(format!("{:?}", e))),
                        Ok(Ok(o)) => o,
                    };
                    if rowformat {
                        let rows = out.rows.ok_or_else(|| Fail::Error("row format requested, no rows returned".into()))?;
                        for (i, c) in out.colnames.iter().enumerate() {
                            sel.rows.insert(c.clone(), rows.iter().map(|r| value_cell(&r[i])).collect());
                        }
                    } else {
                        for (name, col) in &out.columns {
                            sel.columns.insert(name.clone(), column_cells(col));
                        }
                    }
                }
                drop(holder);
                let _ = std::fs::remove_file(&file);
                dir_slot2.lock().unwrap().clear();
                Ok(sel)
            });
            let r = match r {
                Ok(r) => r,
                Err(p) => Err(Fail::Panic(panic_message(p), last_panic_location())),
            };
            let _ = tx.send(r);
        });
        let t0 = std::time::Instant::now();
        let mut panic_seen_at: Option<std::time::Instant> = None;
        let res = loop {
            match rx.recv_timeout(Duration::from_millis(50)) {
                Ok(r) => break r,
                Err(std::sync::mpsc::RecvTimeoutError::Disconnected) => break Err(Fail::Hang("database thread vanished".into())),
                Err(std::sync::mpsc::RecvTimeoutError::Timeout) => {
                    if panic_seen_at.is_none() && panics_seen() > 0 {
                        panic_seen_at = Some(std::time::Instant::now());
                    }
                    let give_up = match panic_seen_at {
                        Some(t) => t.elapsed() > Duration::from_secs(2),
                        None => t0.elapsed() > Duration::from_secs(60),
                    };
                    if give_up {
                        break Err(Fail::Hang("the call did not return after a panic in a database thread".into()));
                    }
                }
            }
        };
        for p in dir_slot.lock().unwrap().drain(..) {
            let _ = std::fs::remove_dir_all(&p);
            let _ = std::fs::remove_file(&p);
        }
        let sel = match res {
            Ok(s) => s,
            Err(f) => {
                let (kind, msg, file) = match f {
                    Fail::Panic(m, f) => ("panic", m, f),
                    Fail::Error(m) => ("error", m, String::new()),
                    Fail::Hang(m) => ("hang", m, String::new()),
                };
                let panics = take_panics();
                let (file, msg) = match panics.first() {
                    Some((f, m)) if kind != "panic" => (f.clone(), format!("{} [caller saw {}: {}]", m, kind, msg)),
                    _ => (file, msg),
                };
                let kind = if panics.is_empty() { kind } else { "panic" };
                outs.push(Outcome {
                    model: None,
                    model_input: None,
                    impl_out: Some(Sx::l(vec![Sx::a(kind), Sx::a(skeleton(&msg))])),
                    oracle: Some(format!("load_csv + SELECT failed ({} {}): {}", kind, file, msg)),
                    signature: Some(format!("api-{}:{}:{}:{}", kind, file, skeleton(msg.split(" [caller saw").next().unwrap_or("")), table_tag)),
                    nontrivial: true,
                });
                return outs;
            }
        };
        for c in &colnames {
            let e = &exp[c];
            let nt = nontrivial(e);
            for (fmt, got) in [("rows", sel.rows.get(c)), ("columns", sel.columns.get(c))] {
                let got = match got {
                    Some(g) => g.clone(),
                    None => {
                        outs.push(Outcome {
                            model: None,
                            model_input: None,
                            impl_out: Some(Sx::a("column-missing")),
                            oracle: Some(format!("column {} is missing from the {} output", c, fmt)),
                            signature: Some(format!("api-column-missing:{}", fmt)),
                            nontrivial: nt,
                        });
                        continue;
                    }
                };
                let diff = first_diff(e, &got);
                let sig = diff.as_ref().map(|_| format!("csv-{}:{}:{}", diff_signature(e, &got), fmt, table_tag));
                outs.push(Outcome {
                    model: None,
                    model_input: None,
                    impl_out: Some(cells_sx(&got)),
                    oracle: diff.map(|d| format!("column {} ({} format) after load_csv: {}", c, fmt, d)),
                    signature: sig,
                    nontrivial: nt,
                });
            }
        }
        outs
    }
}

/// known-finding shapes of a CSV table: every partition_size-row batch is one table buffer
fn csv_table_tag(cfg: &Cfg, partition_size: usize, cols: &[(String, Vec<Cell>)]) -> String {
    let mut tags = std::collections::BTreeSet::new();
    for (_, cells) in cols {
        for chunk in cells.chunks(partition_size) {
            let ops = cells_to_ops(&csv_expected_batch(chunk));
            for t in shape_tag(&shape_of(&ops), cfg.batch_size).split('+') {
                if t != "-" {
                    tags.insert(t.to_string());
                }
            }
        }
    }
    if tags.is_empty() { "-".into() } else { tags.into_iter().collect::<Vec<_>>().join("+") }
}
