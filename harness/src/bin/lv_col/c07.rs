//! C07, column level (exported for the `store` cluster's C07 check as suite `c07_compaction_column`):
//! the column rebuild of compaction.  Every part's column is built by the real column writer, then
//! decoded by the SECOND decoder (the free `column::decode`, via DataSource::decode) and re-pushed
//! into one ColumnBuffer exactly as InnerLocustDB::compact does; the rebuilt column is compared with
//! the Coq model's (structure) and SELECTed through the query engine: its cells must be the
//! concatenation of the parts' cells (maintenance does not change content).
use crate::colbuf::{chunk, gen_typed_cells, nontrivial, shape_of, shape_tag, V};
use crate::dump::*;
use crate::ops::*;
use crate::values::*;
use locustdb::verif::engine::data_types::EncodingType;
use locustdb::verif::mem_store::column_buffer::ColumnBuffer;
use locustdb::verif::mem_store::{Column, DataSource};
use lvharness::rng::Rng;
use lvharness::suite::{panic_message, Case, Outcome, Suite};
use lvharness::sx::Sx;
use std::sync::Arc;

pub fn suites() -> Vec<Box<dyn Suite>> {
    vec![Box::new(Compaction)]
}

pub struct Compaction;

/// transcription of the per-part body of the `for part in &data` loop of InnerLocustDB::compact
fn repush(builder: &mut ColumnBuffer, col: &Arc<Column>) {
    let decoded = DataSource::decode(&**col);
    match decoded.get_type() {
        EncodingType::F64 => builder.push_floats(decoded.cast_ref_f64().iter().cloned(), None),
        EncodingType::I64 => builder.push_ints(decoded.cast_ref_i64().iter().cloned(), None),
        EncodingType::Str => builder.push_strings(decoded.cast_ref_str().iter().copied(), None),
        EncodingType::NullableF64 => {
            builder.push_floats(decoded.cast_ref_f64().iter().cloned(), Some(decoded.cast_ref_null_map()))
        }
        EncodingType::Null => builder.push_nulls(decoded.len()),
        EncodingType::NullableStr => {
            builder.push_strings(decoded.cast_ref_str().iter().copied(), Some(decoded.cast_ref_null_map()))
        }
        EncodingType::NullableI64 => {
            builder.push_ints(decoded.cast_ref_i64().iter().cloned(), Some(decoded.cast_ref_null_map()))
        }
        _ => panic!("Unsupported encoding type for add: {:?}", decoded.get_type()),
    }
}

fn rebuild(parts: &[Arc<Column>]) -> Result<Arc<Column>, (String, String)> {
    let parts = parts.to_vec();
    std::panic::catch_unwind(move || {
        let mut builder = ColumnBuffer::default();
        for p in &parts {
            repush(&mut builder, p);
        }
        builder.finalize("c")
    })
    .map_err(|e| (panic_message(e), last_panic_location()))
}

/// section 0 decompressed again (what the disk loader does when mem_lz4 is off)
fn decompressed(col: Arc<Column>) -> Arc<Column> {
    let mut c = Arc::try_unwrap(col).ok().expect("unshared column");
    c.lz4_or_pco_decode();
    Arc::new(c)
}

struct PartFacts {
    has_null_map: bool,
    hex_packed: bool,
    compression: &'static str,
    kind: &'static str,
}

fn part_facts(col: &Column) -> PartFacts {
    use locustdb::verif::mem_store::CodecOp;
    let ops = col.codec().ops().to_vec();
    let has_null_map = ops.iter().any(|o| matches!(o, CodecOp::Nullable));
    let hex_packed = ops.iter().any(|o| matches!(o, CodecOp::UnhexpackStrings(..)));
    let kind = match col.basic_type() {
        locustdb::verif::engine::data_types::BasicType::String => "str",
        locustdb::verif::engine::data_types::BasicType::Integer => "int",
        locustdb::verif::engine::data_types::BasicType::Float => "float",
        locustdb::verif::engine::data_types::BasicType::Null => "null",
        _ => "other",
    };
    PartFacts { has_null_map, hex_packed, compression: compression_of(col), kind }
}

impl Suite for Compaction {
    fn name(&self) -> &'static str {
        "c07_compaction_column"
    }

    fn generate(&self, seed: u64, tier: &str) -> Vec<Case> {
        let mut r0 = Rng::new(seed ^ 0xC07_C01);
        let n_cases = if tier == "thorough" { 20_000 } else { 1_500 };
        let mut cases = vec![];
        for i in 0..n_cases {
            let mut r = r0.fork(i as u64);
            let nparts = *r.pick(&[1usize, 1, 2, 2, 3]);
            // a column usually keeps its type across parts; sometimes a part is all NULL (the part
            // lacks the column) and rarely the type changes
            let ty = *r.pick(&["int", "int", "float", "str", "str"]);
            let with_nulls = r.chance(1, 3);
            let mut parts = vec![];
            let mut label = vec![];
            for _ in 0..nparts {
                let sel = r.below(20);
                let (l, cells): (String, Vec<Option<V>>) = if sel == 0 {
                    ("absent".into(), vec![None; r.usize(1, 70)])
                } else {
                    let t = if sel == 1 { *r.pick(&["int", "float", "str"]) } else { ty };
                    let class = match t {
                        "int" => *r.pick(&["u8", "u16", "edge-span", "edge-span-offset", "negative", "mono-small-step", "mono-offset-step", "small-signed", "const"]),
                        "float" => *r.pick(&FLOAT_CLASSES),
                        _ => *r.pick(&["dict-low", "dict-threshold", "packed-unique", "unicode", "hex-lower", "hex-upper", "numeric", "empty", "prefixes"]),
                    };
                    let pattern = if with_nulls { *r.pick(&NULL_PATTERNS) } else { "none" };
                    let n = pick_len(&mut r).min(150);
                    (format!("{}:{}:{}", t, class, if with_nulls { "nulls" } else { "dense" }), gen_typed_cells(&mut r, t, class, n, pattern))
                };
                label.push(l.split(':').take(1).collect::<Vec<_>>().join("") + if with_nulls { "?" } else { "" });
                let style = r.below(2);
                parts.push(chunk(&mut r, &cells, style));
            }
            let raw = r.chance(1, 2);
            cases.push(Case {
                class: format!("{}/{}", if raw { "as-stored" } else { "decompressed" }, label.join("+")),
                input: Sx::l(vec![Sx::a(if raw { "as-stored" } else { "decompressed" }), Sx::int(*r.pick(&[1024usize, 1024, 8, 64])), Sx::L(parts.iter().map(|p| ops_sx(p)).collect())]),
            });
        }
        cases
    }

    fn run(&self, input: &Sx) -> Vec<Outcome> {
        install_panic_hook();
        let it = input.items();
        let raw = it[0].atom() == "as-stored";
        let batch_size = it[1].as_usize();
        let parts_ops: Vec<Vec<Op>> = it[2].items().iter().map(parse_ops).collect();
        let mut floats = vec![];
        for p in &parts_ops {
            floats.extend(floats_of_ops(p));
        }
        let model_input = Sx::l(vec![float_table(floats.iter()), it[2].clone()]);
        let mut exp: Vec<Cell> = vec![];
        for p in &parts_ops {
            exp.extend(expected(p));
        }
        let nt = nontrivial(&exp);
        let mut outs = vec![];

        // the parts, as the column writer produces them (its own defects are C01's)
        let mut parts: Vec<Arc<Column>> = vec![];
        let mut facts = vec![];
        for p in &parts_ops {
            match build_column("c", p) {
                Ok(b) if b.column.len() == b.buffer_len => {
                    let col = if raw { b.column } else { decompressed(b.column) };
                    facts.push(part_facts(&col));
                    parts.push(col);
                }
                _ => {
                    outs.push(Outcome {
                        model: None,
                        model_input: None,
                        impl_out: Some(Sx::a("part-not-built")),
                        oracle: None,
                        signature: None,
                        nontrivial: false,
                    });
                    return outs;
                }
            }
        }
        let any_null_map = facts.iter().any(|f| f.has_null_map);
        let any_hex = facts.iter().any(|f| f.hex_packed);
        let compressed: Vec<&str> = facts.iter().map(|f| f.compression).filter(|c| *c != "plain").collect();
        let _ = facts.iter().map(|f| f.kind).count();
        let kinds: std::collections::BTreeSet<&str> =
            parts_ops.iter().map(|p| shape_of(p).final_kind).filter(|k| *k != "empty").collect();
        let mut tags = vec![];
        if any_null_map {
            tags.push("part-with-null-map".to_string());
        }
        if any_hex {
            tags.push("hex-packed-part".to_string());
        }
        if !compressed.is_empty() {
            let mut c = compressed.clone();
            c.sort();
            c.dedup();
            tags.push(format!("compressed-part-{}", c.join("-")));
        }
        if kinds.len() > 1 {
            tags.push("type-differs-between-parts".to_string());
        }
        // the C01 classes of the re-pushed data (the rebuild is a push sequence into one buffer)
        let all_ops: Vec<Op> = parts_ops.iter().flat_map(|p| p.iter().cloned()).collect();
        for t in shape_tag(&shape_of(&all_ops), batch_size).split('+') {
            if t != "-" {
                tags.push(format!("c01-{}", t));
            }
        }
        let tag = if tags.is_empty() { "-".to_string() } else { tags.join("+") };
        // the model takes parts uncompressed
        let model_applies = compressed.is_empty();

        let rebuilt = match rebuild(&parts) {
            Err((msg, file)) => {
                outs.push(Outcome {
                    model: if model_applies { Some("c07_compact".into()) } else { None },
                    model_input: if model_applies { Some(model_input) } else { None },
                    impl_out: Some(Sx::l(vec![Sx::a("panic"), Sx::a(panic_class(&msg))])),
                    oracle: Some(format!("rebuilding the column as compaction does panicked at {}: {}", file, msg)),
                    signature: Some(format!("c07-rebuild-panic:{}:{}:{}", file, skeleton(&msg), tag)),
                    nontrivial: nt,
                });
                return outs;
            }
            Ok(c) => c,
        };
        // structure of the rebuilt column against the model
        let rebuilt2 = match rebuild(&parts) {
            Ok(c) => c,
            Err(_) => return outs,
        };
        if model_applies {
            if let Ok(d) = dump_column(rebuilt2) {
                outs.push(Outcome {
                    model: Some("c07_compact".into()),
                    model_input: Some(model_input.clone()),
                    impl_out: Some(d),
                    oracle: None,
                    signature: None,
                    nontrivial: nt,
                });
            }
        }
        // content
        match select_column(rebuilt, batch_size) {
            Ok(cells) => {
                let diff = first_diff(&exp, &cells);
                let sig = diff.as_ref().map(|_| format!("c07-{}:{}", diff_signature(&exp, &cells), tag));
                outs.push(Outcome {
                    model: if model_applies { Some("c07_cells".into()) } else { None },
                    model_input: if model_applies { Some(model_input) } else { None },
                    impl_out: Some(cells_sx(&cells)),
                    oracle: diff.map(|d| format!("content changed by the column rebuild of compaction: {}", d)),
                    signature: sig,
                    nontrivial: nt,
                });
            }
            Err((kind, msg, file)) => outs.push(Outcome {
                model: None,
                model_input: None,
                impl_out: Some(Sx::l(vec![Sx::a(&kind), Sx::a(skeleton(&msg))])),
                oracle: Some(format!("SELECT on the rebuilt column failed ({} at {}): {}", kind, file, msg)),
                signature: Some(format!("c07-select-{}:{}:{}:{}", kind, file, skeleton(&msg), tag)),
                nontrivial: nt,
            }),
        }
        outs
    }
}
