//! Push operations on a ColumnBuffer, cells, their s-expression syntax, and the property's
//! specification (`expected`) re-stated in Rust independently of the Coq model: what a plain SELECT
//! must return for a column that received a sequence of pushes.
use lvharness::sx::Sx;
use std::collections::BTreeMap;

#[derive(Clone, Debug, PartialEq)]
pub enum Cell {
    Int(i64),
    Float(u64),
    Str(Vec<u8>),
    Null,
}

impl Cell {
    pub fn sx(&self) -> Sx {
        match self {
            Cell::Int(i) => Sx::l(vec![Sx::a("i"), Sx::int(i)]),
            Cell::Float(b) => Sx::l(vec![Sx::a("f"), Sx::int(b)]),
            Cell::Str(s) => Sx::l(vec![Sx::a("s"), Sx::bytes(s)]),
            Cell::Null => Sx::a("null"),
        }
    }
    pub fn parse(x: &Sx) -> Cell {
        match x {
            Sx::A(a) if a == "null" => Cell::Null,
            Sx::L(l) => match l[0].atom() {
                "i" => Cell::Int(l[1].as_i64()),
                "f" => Cell::Float(l[1].as_u64()),
                "s" => Cell::Str(l[1].as_bytes()),
                t => panic!("bad cell tag {}", t),
            },
            _ => panic!("bad cell {}", x),
        }
    }
    pub fn short(&self) -> String {
        match self {
            Cell::Int(i) => format!("Int({})", i),
            Cell::Float(b) => format!("Float({:#018x})", b),
            Cell::Str(s) => {
                if s.len() > 24 {
                    format!("Str({} bytes {}..)", s.len(), String::from_utf8_lossy(&s[..16]))
                } else {
                    format!("Str({:?})", String::from_utf8_lossy(s))
                }
            }
            Cell::Null => "NULL".into(),
        }
    }
}

pub fn cells_sx(cs: &[Cell]) -> Sx {
    Sx::list(cs, |c| c.sx())
}

#[derive(Clone, Debug)]
pub enum Op {
    Ints(Vec<i64>, Option<Vec<u8>>),
    Floats(Vec<u64>, Option<Vec<u8>>),
    Strs(Vec<String>, Option<Vec<u8>>),
    Nulls(usize),
}

fn present_sx(p: &Option<Vec<u8>>) -> Sx {
    Sx::opt(p.as_ref().map(|b| Sx::bytes(b)))
}

impl Op {
    pub fn sx(&self) -> Sx {
        match self {
            Op::Ints(xs, p) => Sx::l(vec![Sx::a("ints"), Sx::list(xs, |x| Sx::int(x)), present_sx(p)]),
            Op::Floats(xs, p) => Sx::l(vec![Sx::a("floats"), Sx::list(xs, |x| Sx::int(x)), present_sx(p)]),
            Op::Strs(xs, p) => {
                Sx::l(vec![Sx::a("strs"), Sx::list(xs, |x| Sx::bytes(x.as_bytes())), present_sx(p)])
            }
            Op::Nulls(n) => Sx::l(vec![Sx::a("nulls"), Sx::int(n)]),
        }
    }
    pub fn parse(x: &Sx) -> Op {
        let l = x.items();
        let pres = |y: &Sx| y.as_opt().map(|b| b.as_bytes());
        match l[0].atom() {
            "ints" => Op::Ints(l[1].items().iter().map(|v| v.as_i64()).collect(), pres(&l[2])),
            "floats" => Op::Floats(l[1].items().iter().map(|v| v.as_u64()).collect(), pres(&l[2])),
            "strs" => Op::Strs(
                l[1].items().iter().map(|v| String::from_utf8(v.as_bytes()).expect("utf8")).collect(),
                pres(&l[2]),
            ),
            "nulls" => Op::Nulls(l[1].as_usize()),
            t => panic!("bad op {}", t),
        }
    }
    pub fn count(&self) -> usize {
        match self {
            Op::Ints(x, _) => x.len(),
            Op::Floats(x, _) => x.len(),
            Op::Strs(x, _) => x.len(),
            Op::Nulls(n) => *n,
        }
    }
    pub fn uses_present(&self) -> bool {
        matches!(self, Op::Ints(_, Some(_)) | Op::Floats(_, Some(_)) | Op::Strs(_, Some(_)))
    }
}

pub fn ops_sx(ops: &[Op]) -> Sx {
    Sx::list(ops, |o| o.sx())
}
pub fn parse_ops(x: &Sx) -> Vec<Op> {
    x.items().iter().map(Op::parse).collect()
}

/// f64 Display of every float that occurs: the table handed to the model for its external `f2s`.
pub fn float_table<'a, I: Iterator<Item = &'a u64>>(floats: I) -> Sx {
    let mut m = BTreeMap::new();
    m.insert(0u64, "0".to_string());
    for b in floats {
        m.insert(*b, f64::from_bits(*b).to_string());
    }
    Sx::L(m.iter().map(|(b, s)| Sx::l(vec![Sx::int(b), Sx::bytes(s.as_bytes())])).collect())
}

pub fn floats_of_ops(ops: &[Op]) -> Vec<u64> {
    let mut v = vec![];
    for o in ops {
        match o {
            Op::Floats(f, _) => v.extend(f.iter().cloned()),
            Op::Ints(xs, _) => v.extend(xs.iter().map(|i| (*i as f64).to_bits())),
            _ => {}
        }
    }
    v
}

// ------------------------------------------------------------------------------------------------
// The specification, in Rust.

#[derive(Clone, Copy, PartialEq, Debug)]
enum Kind {
    Empty,
    Int,
    Float,
    Str,
    Mixed,
}

fn is_set(p: &[u8], i: usize) -> bool {
    i / 8 < p.len() && (p[i / 8] >> (i % 8)) & 1 == 1
}

fn masked(cells: Vec<Cell>, p: &Option<Vec<u8>>) -> Vec<Cell> {
    match p {
        None => cells,
        Some(p) => cells.into_iter().enumerate().map(|(i, c)| if is_set(p, i) { c } else { Cell::Null }).collect(),
    }
}

fn fstr(bits: u64) -> Vec<u8> {
    f64::from_bits(bits).to_string().into_bytes()
}

/// Cells a SELECT must return for a column buffer that received `ops`: supplied values in order,
/// NULL where nothing was supplied, int+float -> float (`as f64`), anything+string -> string.
pub fn expected(ops: &[Op]) -> Vec<Cell> {
    let mut kind = Kind::Empty;
    let mut cells: Vec<Cell> = vec![];
    for op in ops {
        match op {
            Op::Nulls(n) => cells.extend(std::iter::repeat(Cell::Null).take(*n)),
            Op::Ints(xs, p) => {
                let new: Vec<Cell> = match kind {
                    Kind::Empty | Kind::Int => {
                        kind = Kind::Int;
                        xs.iter().map(|i| Cell::Int(*i)).collect()
                    }
                    Kind::Float => xs.iter().map(|i| Cell::Float((*i as f64).to_bits())).collect(),
                    Kind::Str | Kind::Mixed => {
                        kind = Kind::Mixed;
                        xs.iter().map(|i| Cell::Str(i.to_string().into_bytes())).collect()
                    }
                };
                cells.extend(masked(new, p));
            }
            Op::Floats(fs, p) => {
                let new: Vec<Cell> = match kind {
                    Kind::Empty | Kind::Float => {
                        kind = Kind::Float;
                        fs.iter().map(|f| Cell::Float(*f)).collect()
                    }
                    Kind::Int => {
                        kind = Kind::Float;
                        for c in cells.iter_mut() {
                            if let Cell::Int(i) = c {
                                *c = Cell::Float((*i as f64).to_bits());
                            }
                        }
                        fs.iter().map(|f| Cell::Float(*f)).collect()
                    }
                    Kind::Str | Kind::Mixed => {
                        kind = Kind::Mixed;
                        fs.iter().map(|f| Cell::Str(fstr(*f))).collect()
                    }
                };
                cells.extend(masked(new, p));
            }
            Op::Strs(ss, p) => {
                match kind {
                    Kind::Empty | Kind::Str => kind = Kind::Str,
                    Kind::Int | Kind::Float | Kind::Mixed => {
                        kind = Kind::Mixed;
                        for c in cells.iter_mut() {
                            match c {
                                Cell::Int(i) => *c = Cell::Str(i.to_string().into_bytes()),
                                Cell::Float(f) => *c = Cell::Str(fstr(*f)),
                                _ => {}
                            }
                        }
                    }
                }
                let new: Vec<Cell> = ss.iter().map(|s| Cell::Str(s.as_bytes().to_vec())).collect();
                cells.extend(masked(new, p));
            }
        }
    }
    cells
}

/// first difference between two cell lists, for oracle messages
pub fn first_diff(exp: &[Cell], got: &[Cell]) -> Option<String> {
    if exp.len() != got.len() {
        return Some(format!("{} rows supplied, {} rows returned", exp.len(), got.len()));
    }
    for (i, (e, g)) in exp.iter().zip(got.iter()).enumerate() {
        if e != g {
            return Some(format!("row {}: supplied {}, returned {}", i, e.short(), g.short()));
        }
    }
    None
}

/// coarse bucket of a cell mismatch: which kinds were confused
pub fn diff_signature(exp: &[Cell], got: &[Cell]) -> String {
    if exp.len() != got.len() {
        return "mismatch:row-count".into();
    }
    fn k(c: &Cell) -> &'static str {
        match c {
            Cell::Int(_) => "int",
            Cell::Float(_) => "float",
            Cell::Str(_) => "str",
            Cell::Null => "null",
        }
    }
    for (e, g) in exp.iter().zip(got.iter()) {
        if e != g {
            return format!("mismatch:{}->{}", k(e), k(g));
        }
    }
    "mismatch:none".into()
}
