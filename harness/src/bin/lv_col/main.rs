//! lv_col: column write path and decoders (C01; column half of C07).
mod api;
mod c07;
mod colbuf;
mod dump;
mod ops;
mod values;

fn main() {
    let mut v: Vec<Box<dyn lvharness::suite::Suite>> = vec![];
    v.extend(colbuf::suites());
    v.extend(api::suites());
    v.extend(c07::suites());
    lvharness::cli_main(v);
}
