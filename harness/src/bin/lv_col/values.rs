//! Generators for the value classes named in C01's quantifier.
use lvharness::rng::Rng;

pub const I64_NULL: i64 = i64::MAX; // reserved: not a value
pub const F64_NULL: u64 = 0x7ffa_aaaa_aaaa_aaaa; // reserved: not a value

/// lengths at and around the bitmap byte / word boundaries
pub const EDGE_LENS: [usize; 20] = [1, 2, 3, 7, 8, 9, 10, 15, 16, 17, 31, 33, 63, 64, 65, 66, 127, 128, 129, 200];

pub fn pick_len(r: &mut Rng) -> usize {
    // now and then a column longer than the default batch size (1024): streamed decode
    if r.chance(1, 30) {
        return *r.pick(&[1023usize, 1024, 1025, 2047, 2049]);
    }
    match r.below(10) {
        0..=5 => *r.pick(&EDGE_LENS),
        6..=8 => r.usize(1, 80),
        _ => r.usize(81, 300),
    }
}

// ------------------------------------------------------------------------------------------------
// integers

pub const INT_CLASSES: [&str; 14] = [
    "u8", "u16", "u32", "edge-span", "edge-span-offset", "negative", "full-i64", "extremes",
    "mono-small-step", "mono-offset-step", "mono-large-step", "mono-90pct", "const", "small-signed",
];

const SPANS: [u64; 12] = [
    0, 1, 254, 255, 256, 65_534, 65_535, 65_536, 4_294_967_294, 4_294_967_295, 4_294_967_296, 1 << 40,
];

fn clamp_val(v: i128) -> i64 {
    // keep inside the value domain: i64 without i64::MAX
    let lo = i64::MIN as i128;
    let hi = (i64::MAX - 1) as i128;
    v.max(lo).min(hi) as i64
}

pub fn gen_ints(r: &mut Rng, class: &str, n: usize) -> Vec<i64> {
    let mut v: Vec<i64> = Vec::with_capacity(n);
    match class {
        "u8" => (0..n).for_each(|_| v.push(r.range(0, 255))),
        "u16" => (0..n).for_each(|_| v.push(r.range(0, 65_535))),
        "u32" => (0..n).for_each(|_| v.push(r.range(0, 4_294_967_295))),
        "edge-span" | "edge-span-offset" => {
            // min and max exactly `span` apart, at a base that does or does not allow offset 0
            let span = *r.pick(&SPANS) as i128;
            let base: i128 = if class == "edge-span" {
                *r.pick(&[0i128, 0, 1])
            } else {
                match r.below(9) {
                    0 => -span,                              // max = 0
                    1 => -span / 2,                          // straddles 0
                    2 => -1,
                    3 => i64::MIN as i128,
                    4 => (i64::MAX - 1) as i128 - span,      // top of the domain
                    5 => 1000,
                    6 => -(1i128 << 50),
                    7 => (1i128 << 62) - span,
                    _ => r.range(-(1 << 45), 1 << 45) as i128,
                }
            };
            for i in 0..n {
                let off = if i == 0 { 0 } else if i == 1 { span } else { (r.next() as i128).rem_euclid(span + 1) };
                v.push(clamp_val(base + off));
            }
            // shuffle so that the extremes are not always first
            for i in (1..v.len()).rev() {
                let j = r.below(i as u64 + 1) as usize;
                v.swap(i, j);
            }
        }
        "negative" => {
            let lo = *r.pick(&[-255i64, -256, -65_536, -4_294_967_296, i64::MIN / 2, i64::MIN + 1]);
            (0..n).for_each(|_| v.push(r.range(lo, -1)));
        }
        "full-i64" => (0..n).for_each(|_| v.push(clamp_val(r.next() as i64 as i128))),
        "extremes" => {
            let xs = [i64::MIN + 1, i64::MIN + 2, -1, 0, 1, 2, i64::MAX - 1, i64::MAX - 2, 255, 256, -255, -256];
            (0..n).for_each(|_| v.push(*r.pick(&xs)));
        }
        "mono-small-step" | "mono-offset-step" | "mono-large-step" => {
            let (lo, hi): (i64, i64) = match class {
                "mono-small-step" => (0, *r.pick(&[1i64, 3, 255, 256])),
                "mono-offset-step" => {
                    let b = *r.pick(&[1000i64, 70_000, 5_000_000_000, -40]);
                    (b, b + *r.pick(&[100i64, 255, 256, 65_535, 65_536]))
                }
                _ => (1, *r.pick(&[1i64 << 20, 1 << 33, 1 << 50])),
            };
            let mut cur: i128 = *r.pick(&[0i128, 1, -5, 1_700_000_000, i64::MIN as i128 + 1, -(1i128 << 40), 200, 255, 256, 1 << 33]);
            for _ in 0..n {
                v.push(clamp_val(cur));
                cur += r.range(lo, hi) as i128;
                if cur > (i64::MAX - 1) as i128 {
                    cur = (i64::MAX - 1) as i128;
                }
            }
        }
        "mono-90pct" => {
            // the delta decision is `increasing * 10 > len * 9`: put the count of non-increasing
            // steps right at the threshold
            let bad = match r.below(3) {
                0 => n / 10,
                1 => (n / 10).saturating_sub(1),
                _ => n / 10 + 1,
            };
            let mut cur: i64 = r.range(-1000, 1000);
            let mut bad_at: Vec<usize> = (0..bad).map(|_| r.usize(1, n.max(2) - 1)).collect();
            bad_at.sort();
            for i in 0..n {
                v.push(cur);
                if bad_at.contains(&(i + 1)) {
                    cur -= r.range(0, 300);
                } else {
                    cur += r.range(1, 50);
                }
            }
        }
        "const" => {
            let c = *r.pick(&[0i64, 1, -1, 255, 256, i64::MIN, i64::MAX - 1, 1 << 40]);
            (0..n).for_each(|_| v.push(c));
        }
        _ => (0..n).for_each(|_| v.push(r.range(-300, 300))),
    }
    for x in v.iter_mut() {
        if *x == I64_NULL {
            *x -= 1;
        }
    }
    v
}

/// F10: an increasing step larger than i64::MAX inside a run that is otherwise delta-eligible
pub fn gen_ints_f10(r: &mut Rng, n: usize) -> Vec<i64> {
    let n = n.max(2);
    let mut v = vec![];
    let mut cur = i64::MIN + 1 + r.range(0, 5);
    let jump_at = r.usize(1, n - 1);
    for i in 0..n {
        if i == jump_at {
            cur = i64::MAX - 1 - (n - i) as i64 * 3;
        }
        v.push(cur);
        cur += r.range(1, 3);
    }
    v
}

/// F19: minimum i64::MIN and maximum exactly 0 (a 0 value, or a NULL placeholder supplied by the caller)
pub fn gen_ints_f19(r: &mut Rng, n: usize) -> Vec<i64> {
    let n = n.max(2);
    let mut v: Vec<i64> = (0..n).map(|_| if r.chance(1, 2) { 0 } else { r.range(i64::MIN, -1) }).collect();
    let i = r.usize(0, n - 1);
    v[i] = i64::MIN;
    let j = (i + 1 + r.usize(0, n - 2)) % n;
    v[j] = 0;
    v
}

// ------------------------------------------------------------------------------------------------
// floats (bit patterns)

pub const FLOAT_CLASSES: [&str; 8] = ["specials", "random-bits", "f32-exact", "f32-inexact", "integral", "timestamps", "nans", "const"];

const FLOAT_SPECIALS: [u64; 16] = [
    0x0000_0000_0000_0000, // +0
    0x8000_0000_0000_0000, // -0
    0x0000_0000_0000_0001, // smallest subnormal
    0x800f_ffff_ffff_ffff, // largest negative subnormal
    0x0010_0000_0000_0000, // smallest normal
    0x7fef_ffff_ffff_ffff, // f64::MAX
    0x7ff0_0000_0000_0000, // +inf
    0xfff0_0000_0000_0000, // -inf
    0x7ff8_0000_0000_0000, // quiet NaN
    0xfff8_0000_0000_0000, // negative quiet NaN
    0x7ff0_0000_0000_0001, // signalling NaN
    0x7ffa_aaaa_aaaa_aaab, // next to the reserved pattern
    0x7ffa_aaaa_aaaa_aaa9,
    0x3ff0_0000_0000_0000, // 1.0
    0xbff8_0000_0000_0000, // -1.5
    0x3fb9_9999_9999_999a, // 0.1
];

pub fn gen_floats(r: &mut Rng, class: &str, n: usize) -> Vec<u64> {
    let mut v: Vec<u64> = Vec::with_capacity(n);
    match class {
        "specials" => (0..n).for_each(|_| v.push(*r.pick(&FLOAT_SPECIALS))),
        "random-bits" => (0..n).for_each(|_| v.push(r.next())),
        "f32-exact" => (0..n).for_each(|_| {
            let f = f32::from_bits(r.next() as u32);
            v.push(if f.is_nan() { (1.5f64).to_bits() } else { (f as f64).to_bits() })
        }),
        "f32-inexact" => (0..n).for_each(|i| {
            // mostly f32-exact with one value that is not
            if i == n / 2 {
                v.push((0.1f64).to_bits())
            } else {
                v.push(((r.range(-1000, 1000) as f32 / 4.0) as f64).to_bits())
            }
        }),
        "integral" => (0..n).for_each(|_| v.push((r.range(-100_000, 100_000) as f64).to_bits())),
        "timestamps" => (0..n).for_each(|i| v.push((1.7e9 + i as f64 * 15.0 + r.below(1000) as f64 / 1000.0).to_bits())),
        "nans" => (0..n).for_each(|_| {
            let payload = r.next() & 0x000f_ffff_ffff_ffff;
            let sign = r.below(2) << 63;
            v.push(sign | 0x7ff0_0000_0000_0000 | payload.max(1))
        }),
        _ => {
            let c = *r.pick(&FLOAT_SPECIALS);
            (0..n).for_each(|_| v.push(c));
        }
    }
    for x in v.iter_mut() {
        if *x == F64_NULL {
            *x += 2;
        }
    }
    v
}

// ------------------------------------------------------------------------------------------------
// strings

pub const STRING_CLASSES: [&str; 16] = [
    "dict-low", "dict-threshold", "dict-255", "packed-unique", "len-edge", "unicode", "hex-lower", "hex-upper",
    "hex-digits", "hex-threshold", "hex-odd", "hex-mixed-case", "empty", "numeric", "dict-empty-and-long", "prefixes",
];

fn word(r: &mut Rng, len: usize) -> String {
    (0..len).map(|_| (b'a' + r.below(26) as u8) as char).collect()
}

fn hex_string(r: &mut Rng, len: usize, upper: bool, digits_only: bool) -> String {
    let alpha: &[u8] = if digits_only {
        b"0123456789"
    } else if upper {
        b"0123456789ABCDEF"
    } else {
        b"0123456789abcdef"
    };
    (0..len).map(|_| *r.pick(alpha) as char).collect()
}

fn distinct_words(r: &mut Rng, k: usize) -> Vec<String> {
    // k distinct strings, unsorted
    let mut v: Vec<String> = (0..k).map(|i| format!("{}{}", word(r, 1 + (i % 3)), i)).collect();
    for i in (1..v.len()).rev() {
        let j = r.below(i as u64 + 1) as usize;
        v.swap(i, j);
    }
    v
}

/// returns (strings, suggested n) — some classes need a specific length
pub fn gen_strings(r: &mut Rng, class: &str, n: usize) -> Vec<String> {
    let n = n.max(1);
    match class {
        "dict-low" => {
            let k = r.usize(1, 4);
            let d = distinct_words(r, k);
            (0..n).map(|_| r.pick(&d).clone()).collect()
        }
        "dict-threshold" => {
            // distinct count at n/2 - 1, n/2, n/2 + 1: the early exit triggers at exactly n/2
            let n = n.max(4);
            let k = match r.below(3) {
                0 => (n / 2).saturating_sub(1).max(1),
                1 => n / 2,
                _ => (n / 2 + 1).min(n),
            };
            let d = distinct_words(r, k);
            let mut v: Vec<String> = d.clone();
            while v.len() < n {
                v.push(r.pick(&d).clone());
            }
            for i in (1..v.len()).rev() {
                let j = r.below(i as u64 + 1) as usize;
                v.swap(i, j);
            }
            v
        }
        "dict-255" => {
            // dictionary cardinality 254..257 needs more than twice as many rows
            let k = *r.pick(&[254usize, 255, 256, 257]);
            let rows = 2 * k + 2 + r.usize(0, 20);
            let d = distinct_words(r, k);
            let mut v: Vec<String> = d.clone();
            while v.len() < rows {
                v.push(r.pick(&d).clone());
            }
            for i in (1..v.len()).rev() {
                let j = r.below(i as u64 + 1) as usize;
                v.swap(i, j);
            }
            v
        }
        "dict-65536" => {
            // the u16 / u32 dictionary index boundary: 65535 .. 65537 distinct values in more than
            // twice as many rows (beyond the model's reach: oracle only)
            let k = *r.pick(&[65_535usize, 65_536, 65_537]);
            let rows = 2 * k + 2 + r.usize(0, 5);
            let mut v: Vec<String> = (0..k).map(|i| format!("{:x}", i.wrapping_mul(2_654_435_761) & 0xffff_ffff ^ (i << 7))).collect();
            let mut seen = std::collections::HashSet::new();
            for (i, s) in v.iter_mut().enumerate() {
                if !seen.insert(s.clone()) {
                    *s = format!("d{}", i);
                    seen.insert(s.clone());
                }
            }
            let d = v.clone();
            while v.len() < rows {
                v.push(d[r.below(d.len() as u64) as usize].clone());
            }
            v
        }
        "packed-unique" => (0..n).map(|i| { let l = r.usize(0, 12); format!("{}-{}", word(r, l), i) }).collect(),
        "len-edge" => {
            let lens = [0usize, 1, 2, 253, 254, 255, 256, 257, 509, 510, 511, 764, 765, 766];
            let n = n.min(24);
            (0..n).map(|_| { let l = *r.pick(&lens); word(r, l) }).collect()
        }
        "unicode" => {
            let parts = ["é", "ß", "日本", "🎉", "a", "", "Ω≈ç", "\u{7f}", "\u{80}", "\u{7ff}", "\u{800}", "\u{ffff}", "\u{10000}", "نص"];
            (0..n)
                .map(|_| {
                    let k = r.usize(0, 4);
                    (0..k).map(|_| *r.pick(&parts)).collect::<Vec<_>>().join("")
                })
                .collect()
        }
        "hex-lower" => (0..n).map(|_| { let l = 2 * r.usize(3, 8); hex_string(r, l, false, false) }).collect(),
        "hex-upper" => (0..n).map(|_| { let l = 2 * r.usize(3, 8); hex_string(r, l, true, false) }).collect(),
        "hex-digits" => (0..n).map(|_| { let l = 2 * r.usize(3, 6); hex_string(r, l, false, true) }).collect(),
        "hex-threshold" => {
            // total_bytes / len > 5 is an integer division: aim at quotients 5 and 6
            let upper = r.chance(1, 2);
            let target = *r.pick(&[5usize, 6]);
            let mut v: Vec<String> = vec![];
            let n = n.max(2);
            let mut total = 0usize;
            for i in 0..n {
                let want = target * (i + 1) + if target == 5 { r.usize(0, 1) } else { 0 };
                let mut len = want.saturating_sub(total);
                if len % 2 == 1 {
                    len += 1;
                }
                let len = len.min(40);
                total += len;
                v.push(hex_string(r, len, upper, false));
            }
            v
        }
        "hex-odd" => (0..n).map(|i| hex_string(r, if i == 0 { 7 } else { 8 }, false, false)).collect(),
        "hex-mixed-case" => (0..n).map(|i| if i % 2 == 0 { hex_string(r, 8, false, false) + "ab" } else { hex_string(r, 8, true, false) + "AB" }).collect(),
        "empty" => (0..n).map(|_| String::new()).collect(),
        "numeric" => (0..n).map(|_| r.range(-1000, 1000).to_string()).collect(),
        "dict-empty-and-long" => {
            let ll = *r.pick(&[254usize, 255, 256, 300]);
            let long = word(r, ll);
            (0..n).map(|_| if r.chance(1, 2) { String::new() } else { long.clone() }).collect()
        }
        _ => {
            // shared prefixes, sort order matters for the dictionary
            let base = word(r, 3);
            let d: Vec<String> = vec![base.clone(), format!("{}a", base), format!("{}aa", base), format!("{}b", base), base[..2].to_string(), String::new()];
            (0..n).map(|_| r.pick(&d).clone()).collect()
        }
    }
}

// ------------------------------------------------------------------------------------------------
// null patterns: true = present

pub const NULL_PATTERNS: [&str; 8] = ["none", "some", "most-null", "all-but-one", "leading", "trailing", "alternating", "byte-aligned-runs"];

pub fn gen_present(r: &mut Rng, pattern: &str, n: usize) -> Vec<bool> {
    match pattern {
        "none" => vec![true; n],
        "some" => (0..n).map(|_| !r.chance(1, 4)).collect(),
        "most-null" => (0..n).map(|_| r.chance(1, 6)).collect(),
        "all-but-one" => {
            let k = r.usize(0, n.max(1) - 1);
            (0..n).map(|i| i == k).collect()
        }
        "leading" => {
            let k = *r.pick(&[1usize, 7, 8, 9, 63, 64, 65]) % n.max(1);
            (0..n).map(|i| i >= k).collect()
        }
        "trailing" => {
            let k = *r.pick(&[1usize, 7, 8, 9, 63, 64, 65]) % n.max(1);
            (0..n).map(|i| i < n - k).collect()
        }
        "alternating" => (0..n).map(|i| i % 2 == 0).collect(),
        _ => {
            let mut v = vec![];
            let mut on = r.chance(1, 2);
            while v.len() < n {
                let run = *r.pick(&[7usize, 8, 9, 16, 1]);
                for _ in 0..run {
                    if v.len() < n {
                        v.push(on);
                    }
                }
                on = !on;
            }
            v
        }
    }
}
