//! C16: integer response columns through QueryResponse::serialize / deserialize (range, delta,
//! double-delta, plain layouts) — round-trip oracle plus layout correspondence with the Coq model.
use locustdb_serialization::api::{Column, QueryResponse};
use lvharness::rng::Rng;
use lvharness::suite::{panic_message, Case, Outcome, Suite};
use lvharness::sx::Sx;
use std::collections::HashMap;

pub fn suites() -> Vec<Box<dyn Suite>> {
    vec![Box::new(IntCol)]
}

pub struct IntCol;

const CLASSES: [&str; 12] = [
    "tiny", "constant", "arithmetic", "delta-i8-edge", "delta-i16-edge", "delta-i32-edge", "dd-i8-edge", "dd-i16-edge",
    "dd-i32-edge", "random", "extremes", "huge-steps",
];

fn edge(r: &mut Rng, bits: u32) -> i64 {
    let m = 1i64 << (bits - 1);
    *r.pick(&[-m - 1, -m, -m + 1, m - 2, m - 1, m, 0, 1, -1])
}

fn gen(r: &mut Rng, class: usize) -> Vec<i64> {
    let n = match class {
        0 => r.usize(0, 3),
        _ => r.usize(2, 40),
    };
    let start = match r.below(4) {
        0 => 0,
        1 => r.range(-1000, 1000),
        2 => i64::MIN + r.below(1000) as i64,
        _ => r.next() as i64 >> r.below(40),
    };
    let mut v = vec![];
    let mut cur = start;
    let mut delta: i64 = 0;
    for i in 0..n {
        match class {
            0 | 9 => cur = r.next() as i64 >> r.below(64),
            1 => {}
            2 => {
                if i == 0 {
                    delta = r.next() as i64 >> r.below(64).max(2);
                } else {
                    cur = cur.wrapping_add(delta);
                }
            }
            3 | 4 | 5 => {
                let bits = [8, 16, 32][class - 3];
                if i > 0 {
                    cur = cur.wrapping_add(if r.chance(1, 3) { edge(r, bits) } else { r.range(-3, 3) });
                }
            }
            6 | 7 | 8 => {
                let bits = [8, 16, 32][class - 6];
                if i == 1 {
                    delta = r.next() as i64 >> r.below(50).max(3);
                } else if i > 1 {
                    delta = delta.wrapping_add(if r.chance(1, 3) { edge(r, bits) } else { r.range(-3, 3) });
                }
                if i > 0 {
                    cur = cur.wrapping_add(delta);
                }
            }
            10 => cur = *r.pick(&[i64::MIN, i64::MAX, 0, -1, 1, i64::MIN + 1, i64::MAX - 1]),
            _ => {
                // arithmetic runs whose step or span exceeds i64 when taken exactly
                if i == 0 {
                    cur = *r.pick(&[i64::MIN, -6_000_000_000_000_000_000, i64::MIN / 2]);
                    delta = *r.pick(&[6_000_000_000_000_000_000i64, i64::MAX, i64::MAX / 2 + 1, 1i64 << 62]);
                } else {
                    cur = cur.wrapping_add(delta);
                    if r.chance(1, 5) {
                        delta = delta.wrapping_sub(r.range(0, 1 << 31));
                    }
                }
            }
        }
        v.push(cur);
    }
    v
}

impl Suite for IntCol {
    fn name(&self) -> &'static str {
        "c16_int"
    }
    fn generate(&self, seed: u64, tier: &str) -> Vec<Case> {
        let mut r = Rng::new(seed ^ 0xC16_1);
        let n = if tier == "thorough" { 60_000 } else { 3_000 };
        (0..n)
            .map(|i| {
                let class = i % 12;
                let xs = gen(&mut r, class);
                Case { class: CLASSES[class].to_string(), input: Sx::list(&xs, |x| Sx::int(*x)) }
            })
            .collect()
    }
    fn run(&self, input: &Sx) -> Vec<Outcome> {
        let xs: Vec<i64> = input.items().iter().map(|x| x.as_i64()).collect();
        let xs2 = xs.clone();
        let res = std::panic::catch_unwind(move || {
            let mut columns = HashMap::new();
            columns.insert("c".to_string(), Column::Int(xs2));
            let bytes = QueryResponse { columns }.serialize();
            (bytes.len(), QueryResponse::deserialize(&bytes))
        });
        let (out, oracle, signature) = match res {
            Err(e) => {
                let m = panic_message(e);
                (Sx::a("panic"), Some(format!("integer column codec panicked: {}", m)), Some(format!("intcol-panic:{}", m)))
            }
            Ok((_, Err(e))) => (Sx::a("error"), Some(format!("own response rejected: {}", e)), Some("intcol-rejected".to_string())),
            Ok((len, Ok(resp))) => match resp.columns.get("c") {
                Some(Column::Int(ys)) => {
                    let o = Sx::l(vec![Sx::list(ys, |y| Sx::int(*y))]);
                    let _ = len;
                    if *ys == xs {
                        (o, None, None)
                    } else {
                        (o, Some(format!("decoded {:?} from {:?}", ys, xs)), Some("intcol-roundtrip-mismatch".to_string()))
                    }
                }
                other => (Sx::a("other"), Some(format!("decoded to {:?}", other)), Some("intcol-wrong-type".to_string())),
            },
        };
        vec![Outcome {
            model: Some("int_roundtrip".into()),
            model_input: None,
            impl_out: Some(out),
            oracle,
            signature,
            nontrivial: xs.len() >= 2,
        }]
    }
}
