//! C16 — client/server encodings: XOR float coder (byte-level differential against the Coq model).
use lvharness::rng::Rng;
use lvharness::suite::{panic_message, Case, Outcome, Suite};
use lvharness::sx::Sx;
use locustdb_compression_utils::xor_float::double::{decode, encode};

pub fn suites() -> Vec<Box<dyn Suite>> {
    vec![Box::new(Xor)]
}

pub struct Xor;

fn gen_floats(r: &mut Rng, class: usize, n: usize) -> Vec<u64> {
    let specials: [u64; 12] = [
        0,
        0x8000_0000_0000_0000,
        1,
        0x000f_ffff_ffff_ffff,
        0x7ff0_0000_0000_0000,
        0xfff0_0000_0000_0000,
        0x7ff8_0000_0000_0000,
        0x7ffa_aaaa_aaaa_aaaa,
        0x7ff0_0000_0000_0001,
        0xffff_ffff_ffff_ffff,
        1.0f64.to_bits(),
        (-1.5f64).to_bits(),
    ];
    let mut v = Vec::with_capacity(n);
    let mut cur = r.next();
    for i in 0..n {
        let x = match class {
            0 => cur,                                            // constant
            1 => {
                cur = cur.wrapping_add(r.below(4));              // neighbouring patterns / repeats
                cur
            }
            2 => *r.pick(&specials),                             // special values
            3 => r.next(),                                       // random patterns
            4 => ((1_700_000_000 + i as u64 * 15) as f64 + (r.below(3) as f64) * 0.001).to_bits(), // timestamps
            5 => {
                if r.chance(1, 2) {
                    cur ^= 0x8000_0000_0000_0000;                // sign flips
                }
                cur
            }
            6 => (r.range(-1000, 1000) as f64 / 8.0).to_bits(),  // short mantissas
            7 => {
                cur ^= 1u64 << r.below(64);                      // single-bit changes
                cur
            }
            _ => {
                // windows that shrink and grow: xor with a value of random width at random shift
                let w = 1 + r.below(40);
                let sh = r.below(64 - w + 1);
                cur ^= (r.next() & ((1u64 << w) - 1)) << sh;
                cur
            }
        };
        v.push(x);
    }
    v
}

const CLASSES: [&str; 9] = [
    "constant", "neighbours", "specials", "random", "timestamps", "signflips", "short-mantissa",
    "single-bit", "windows",
];

impl Suite for Xor {
    fn name(&self) -> &'static str {
        "c16_xor"
    }

    fn generate(&self, seed: u64, tier: &str) -> Vec<Case> {
        let mut r = Rng::new(seed ^ 0xC16);
        let n_cases = if tier == "thorough" { 20_000 } else { 1_200 };
        let regrets: [u64; 8] = [0, 1, 30, 100, 1000, 65_536, 4_294_967_233, 4_294_967_295];
        let mut cases = vec![];
        for i in 0..n_cases {
            let class = (i % 9) as usize;
            let n = match r.below(10) {
                0 => r.usize(0, 2),
                1..=6 => r.usize(3, 40),
                _ => r.usize(41, 300),
            };
            let fs = gen_floats(&mut r, class, n);
            let mant = if r.chance(1, 2) { None } else { Some(r.below(53)) };
            let maxr = *r.pick(&regrets);
            let trunc = if r.chance(1, 6) { Some(r.below(40)) } else { None };
            cases.push(Case {
                class: format!(
                    "{}/{}/{}",
                    CLASSES[class],
                    if mant.is_some() { "mantissa" } else { "full" },
                    if trunc.is_some() { "truncated" } else { "whole" }
                ),
                input: Sx::l(vec![
                    Sx::opt(mant.map(Sx::int)),
                    Sx::int(maxr),
                    Sx::list(&fs, |f| Sx::int(*f)),
                    Sx::opt(trunc.map(Sx::int)),
                ]),
            });
        }
        cases
    }

    fn run(&self, input: &Sx) -> Vec<Outcome> {
        let it = input.items();
        let mant: Option<u32> = it[0].as_opt().map(|m| m.as_u64() as u32);
        let maxr = it[1].as_u64() as u32;
        let fs: Vec<u64> = it[2].items().iter().map(|x| x.as_u64()).collect();
        let trunc: Option<usize> = it[3].as_opt().map(|m| m.as_usize());
        let floats: Vec<f64> = fs.iter().map(|b| f64::from_bits(*b)).collect();
        let enc_input = Sx::l(vec![it[0].clone(), it[1].clone(), it[2].clone()]);
        let mut outs = vec![];

        let encoded = std::panic::catch_unwind(|| encode(&floats, maxr, mant));
        let bytes = match encoded {
            Ok(b) => b,
            Err(e) => {
                let msg = panic_message(e);
                outs.push(Outcome {
                    model: Some("xor_encode".into()),
                    model_input: Some(enc_input),
                    impl_out: Some(Sx::none()),
                    oracle: Some(format!("encoder panicked: {}", msg)),
                    signature: Some(format!("xor-encode-panic:{}", msg)),
                    nontrivial: true,
                });
                return outs;
            }
        };
        outs.push(Outcome {
            model: Some("xor_encode".into()),
            model_input: Some(enc_input),
            impl_out: Some(Sx::some(Sx::bytes(&bytes))),
            oracle: None,
            signature: None,
            nontrivial: fs.len() >= 2,
        });

        let stream: Vec<u8> = match trunc {
            Some(k) => bytes[..bytes.len().saturating_sub(1 + k % bytes.len().max(1))].to_vec(),
            None => bytes.clone(),
        };
        let dec = std::panic::catch_unwind(|| decode(&stream));
        let (dec_sx, oracle, signature) = match dec {
            Err(e) => {
                let msg = panic_message(e);
                (Sx::a("panic"), Some(format!("decoder panicked: {}", msg)), Some(format!("xor-decode-panic:{}", msg)))
            }
            Ok(Err(_)) => {
                if trunc.is_none() {
                    (Sx::none(), Some("decoder rejected a complete stream".to_string()), Some("xor-decode-eof".to_string()))
                } else {
                    (Sx::none(), None, None)
                }
            }
            Ok(Ok(ds)) => {
                let dbits: Vec<u64> = ds.iter().map(|d| d.to_bits()).collect();
                let mut verdict = None;
                if trunc.is_none() {
                    if dbits.len() != fs.len() {
                        verdict = Some(format!("decoded {} values from {} encoded", dbits.len(), fs.len()));
                    } else {
                        let sh = match mant {
                            None => 0,
                            Some(m) => 52 - m,
                        };
                        for (i, (a, b)) in fs.iter().zip(dbits.iter()).enumerate() {
                            if (a >> sh) != (b >> sh) {
                                verdict = Some(format!(
                                    "value {} decoded as {:#018x}, encoded {:#018x} (bits above {} must agree)",
                                    i, b, a, sh
                                ));
                                break;
                            }
                        }
                    }
                }
                let sig = verdict.as_ref().map(|_| "xor-roundtrip-mismatch".to_string());
                (Sx::some(Sx::list(&dbits, |d| Sx::int(*d))), verdict, sig)
            }
        };
        outs.push(Outcome {
            model: Some("xor_decode".into()),
            model_input: Some(Sx::bytes(&stream)),
            impl_out: Some(dec_sx),
            oracle,
            signature,
            nontrivial: fs.len() >= 2,
        });
        outs
    }
}
