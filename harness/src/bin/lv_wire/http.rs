//! C17: the HTTP interface against the embedded API on the same data, plus direct differentials of the
//! response encoder (encode_column) and the error-status mapping against the Coq models.
use locustdb::server::{verif_encode_column, verif_error_status};
use locustdb::{BasicTypeColumn, LocustDB, QueryError, QueryOutput, Value};
use locustdb_compression_utils::xor_float;
use locustdb_serialization::api::{self, EncodingOpts, MultiQueryRequest, MultiQueryResponse, QueryRequest};
use locustdb_serialization::event_buffer::{EventBuffer, TableBuffer};
use lvharness::rng::Rng;
use lvharness::suite::{panic_message, Case, Outcome, Suite};
use lvharness::sx::Sx;
use ordered_float::OrderedFloat;
use std::collections::{HashMap, HashSet};
use std::sync::atomic::{AtomicU16, Ordering};
use std::sync::Arc;
use std::time::Duration;

pub fn suites() -> Vec<Box<dyn Suite>> {
    vec![Box::new(EncodeColumn), Box::new(Status), Box::new(Http)]
}

// ---------------------------------------------------------------------------------------------
fn value_sx(v: &Value) -> Sx {
    match v {
        Value::Int(i) => Sx::tagged("i", vec![Sx::int(*i)]),
        Value::Float(f) => Sx::tagged("f", vec![Sx::int(f.0.to_bits())]),
        Value::Str(s) => Sx::tagged("s", vec![Sx::bytes(s.as_bytes())]),
        Value::Null => Sx::a("null"),
    }
}

fn sx_value(x: &Sx) -> Value {
    match x.tag() {
        "i" => Value::Int(x.items()[1].as_i64()),
        "f" => Value::Float(OrderedFloat(f64::from_bits(x.items()[1].as_u64()))),
        "s" => Value::Str(String::from_utf8(x.items()[1].as_bytes()).unwrap()),
        _ => Value::Null,
    }
}

fn basic_sx(c: &BasicTypeColumn) -> Sx {
    match c {
        BasicTypeColumn::Int(xs) => Sx::tagged("int", vec![Sx::list(xs, |x| Sx::int(*x))]),
        BasicTypeColumn::Float(xs) => Sx::tagged("float", vec![Sx::list(xs, |x| Sx::int(x.to_bits()))]),
        BasicTypeColumn::String(xs) => Sx::tagged("string", vec![Sx::list(xs, |x| Sx::bytes(x.as_bytes()))]),
        BasicTypeColumn::Null(n) => Sx::tagged("null", vec![Sx::int(*n)]),
        BasicTypeColumn::Mixed(xs) => Sx::tagged("mixed", vec![Sx::list(xs, value_sx)]),
    }
}

fn sx_basic(x: &Sx) -> BasicTypeColumn {
    let it = x.items();
    match x.tag() {
        "int" => BasicTypeColumn::Int(it[1].items().iter().map(|v| v.as_i64()).collect()),
        "float" => BasicTypeColumn::Float(it[1].items().iter().map(|v| f64::from_bits(v.as_u64())).collect()),
        "string" => BasicTypeColumn::String(it[1].items().iter().map(|v| String::from_utf8(v.as_bytes()).unwrap()).collect()),
        "null" => BasicTypeColumn::Null(it[1].as_usize()),
        _ => BasicTypeColumn::Mixed(it[1].items().iter().map(sx_value).collect()),
    }
}

fn api_sx(c: &api::Column) -> Sx {
    match c {
        api::Column::Int(xs) => Sx::tagged("int", vec![Sx::list(xs, |x| Sx::int(*x))]),
        api::Column::Float(xs) => Sx::tagged("float", vec![Sx::list(xs, |x| Sx::int(x.to_bits()))]),
        api::Column::String(xs) => Sx::tagged("string", vec![Sx::list(xs, |x| Sx::bytes(x.as_bytes()))]),
        api::Column::Null(n) => Sx::tagged("null", vec![Sx::int(*n)]),
        api::Column::Mixed(xs) => Sx::tagged(
            "mixed",
            vec![Sx::list(xs, |v| match v {
                api::AnyVal::Int(i) => Sx::tagged("i", vec![Sx::int(*i)]),
                api::AnyVal::Float(f) => Sx::tagged("f", vec![Sx::int(f.to_bits())]),
                api::AnyVal::Str(s) => Sx::tagged("s", vec![Sx::bytes(s.as_bytes())]),
                api::AnyVal::Null => Sx::a("null"),
            })],
        ),
        api::Column::Xor(bytes) => Sx::tagged("xor", vec![Sx::some(Sx::bytes(bytes))]),
    }
}

const NULL_BITS: u64 = 0x7ffa_aaaa_aaaa_aaaa;

/// one canonical cell per row: what a client reads (reserved NaN = NULL)
fn cells_of_api(c: &api::Column) -> Option<Vec<Sx>> {
    let fcell = |b: u64| if b == NULL_BITS { Sx::a("null") } else { Sx::tagged("f", vec![Sx::int(b)]) };
    Some(match c {
        api::Column::Int(xs) => xs.iter().map(|x| Sx::tagged("i", vec![Sx::int(*x)])).collect(),
        api::Column::Float(xs) => xs.iter().map(|x| fcell(x.to_bits())).collect(),
        api::Column::String(xs) => xs.iter().map(|x| Sx::tagged("s", vec![Sx::bytes(x.as_bytes())])).collect(),
        api::Column::Null(n) => vec![Sx::a("null"); *n],
        api::Column::Mixed(xs) => xs
            .iter()
            .map(|v| match v {
                api::AnyVal::Int(i) => Sx::tagged("i", vec![Sx::int(*i)]),
                api::AnyVal::Float(f) => fcell(f.to_bits()),
                api::AnyVal::Str(s) => Sx::tagged("s", vec![Sx::bytes(s.as_bytes())]),
                api::AnyVal::Null => Sx::a("null"),
            })
            .collect(),
        api::Column::Xor(bytes) => xor_float::double::decode(bytes).ok()?.iter().map(|x| fcell(x.to_bits())).collect(),
    })
}

fn cells_of_basic(c: &BasicTypeColumn) -> Vec<Sx> {
    let fcell = |b: u64| if b == NULL_BITS { Sx::a("null") } else { Sx::tagged("f", vec![Sx::int(b)]) };
    match c {
        BasicTypeColumn::Int(xs) => xs.iter().map(|x| Sx::tagged("i", vec![Sx::int(*x)])).collect(),
        BasicTypeColumn::Float(xs) => xs.iter().map(|x| fcell(x.to_bits())).collect(),
        BasicTypeColumn::String(xs) => xs.iter().map(|x| Sx::tagged("s", vec![Sx::bytes(x.as_bytes())])).collect(),
        BasicTypeColumn::Null(n) => vec![Sx::a("null"); *n],
        BasicTypeColumn::Mixed(xs) => xs
            .iter()
            .map(|v| match v {
                Value::Float(f) => fcell(f.0.to_bits()),
                v => value_sx(v),
            })
            .collect(),
    }
}

pub struct EncodeColumn;

fn gen_value(r: &mut Rng, kinds: u8) -> Value {
    loop {
        match r.below(4) {
            0 if kinds & 1 != 0 => return Value::Int(*r.pick(&[0, 1, -1, i64::MAX - 1, i64::MIN, 255])),
            1 if kinds & 2 != 0 => return Value::Str(r.pick(&["", "a", "ünï", "null"]).to_string()),
            2 if kinds & 4 != 0 => return Value::Null,
            3 if kinds & 8 != 0 => {
                return Value::Float(OrderedFloat(f64::from_bits(*r.pick(&[0u64, 0x8000_0000_0000_0000, 0x3ff0_0000_0000_0000, 0x7ff0_0000_0000_0000, 0x7ff8_0000_0000_0000, 1, 0x4000_0000_0000_0001]))))
            }
            _ => {}
        }
    }
}

impl Suite for EncodeColumn {
    fn name(&self) -> &'static str {
        "c17_encode"
    }
    fn generate(&self, seed: u64, tier: &str) -> Vec<Case> {
        let mut r = Rng::new(seed ^ 0xC17);
        let n = if tier == "thorough" { 20_000 } else { 1_600 };
        (0..n)
            .map(|i| {
                let len = r.usize(0, 8);
                let (class, col) = match i % 20 {
                    0 => ("int", BasicTypeColumn::Int((0..len).map(|_| r.next() as i64 >> r.below(64)).collect())),
                    1 => ("float", BasicTypeColumn::Float((0..len).map(|_| f64::from_bits(if r.chance(1, 5) { NULL_BITS } else { r.next() })).collect())),
                    2 => ("string", BasicTypeColumn::String((0..len).map(|_| r.pick(&["", "x", "ü"]).to_string()).collect())),
                    3 => ("null", BasicTypeColumn::Null(len)),
                    k => {
                        // every non-empty subset of {int, str, null, float} as the set of kinds present
                        let kinds = (k - 3) as u8 & 15;
                        let kinds = if kinds == 0 { 15 } else { kinds };
                        let mut xs: Vec<Value> = (0..len).map(|_| gen_value(&mut r, kinds)).collect();
                        // make sure every kind of the subset really occurs when there is room
                        let mut j = 0;
                        for b in [1u8, 2, 4, 8] {
                            if kinds & b != 0 && j < xs.len() {
                                xs[j] = gen_value(&mut r, b);
                                j += 1;
                            }
                        }
                        ("mixed", BasicTypeColumn::Mixed(xs))
                    }
                };
                let xor = r.chance(1, 2);
                let mant = if r.chance(1, 2) { None } else { Some(r.below(53)) };
                Case {
                    class: format!("{}/{}", class, if xor { "xor" } else { "plain" }),
                    input: Sx::l(vec![basic_sx(&col), Sx::boolean(xor), Sx::opt(mant.map(Sx::int))]),
                }
            })
            .collect()
    }
    fn run(&self, input: &Sx) -> Vec<Outcome> {
        let it = input.items();
        let col = sx_basic(&it[0]);
        let expect = cells_of_basic(&col);
        let opts = EncodingOpts {
            xor_float_compression: it[1].as_bool(),
            mantissa: it[2].as_opt().map(|m| m.as_u64() as u32),
            full_precision_cols: HashSet::new(),
        };
        let o2 = opts.clone();
        let res = std::panic::catch_unwind(move || verif_encode_column(col, &o2));
        let (out, oracle, signature) = match res {
            Err(e) => {
                let m = panic_message(e);
                (Sx::a("panic"), Some(format!("encode_column panicked: {}", m)), Some(format!("encode-column-panic:{}", m)))
            }
            Ok(c) => {
                // through the wire as the server does, then read as a client
                let mut columns = HashMap::new();
                columns.insert("c".to_string(), c.clone());
                let wire = MultiQueryResponse { responses: vec![api::QueryResponse { columns }] }.serialize();
                let back = MultiQueryResponse::deserialize(&wire).ok().and_then(|mut m| m.responses.pop()).and_then(|mut q| q.columns.remove("c"));
                let got = back.as_ref().and_then(cells_of_api);
                let mut why = None;
                match got {
                    None => why = Some("response column could not be read back".to_string()),
                    Some(cells) => {
                        if cells.len() != expect.len() {
                            why = Some(format!("{} cells sent, {} read", expect.len(), cells.len()));
                        } else {
                            let sh = match (opts.xor_float_compression, opts.mantissa) {
                                (true, Some(m)) => 52 - m,
                                _ => 0,
                            };
                            for (a, b) in expect.iter().zip(cells.iter()) {
                                let same = if a.tag() == "f" && b.tag() == "f" {
                                    (a.items()[1].as_u64() >> sh) == (b.items()[1].as_u64() >> sh)
                                } else if sh > 0 && (a.tag() == "null" || b.tag() == "null") {
                                    // reduced mantissa may turn the reserved NaN into another NaN and vice versa
                                    a.tag() == b.tag() || a.tag() == "f" || b.tag() == "f"
                                } else {
                                    a == b
                                };
                                if !same {
                                    why = Some(format!("cell {} read back as {}", a, b));
                                }
                            }
                        }
                    }
                }
                (api_sx(&c), why.clone(), why.map(|_| "encode-column-mismatch".to_string()))
            }
        };
        vec![Outcome { model: Some("encode_column".into()), model_input: None, impl_out: Some(out), oracle, signature, nontrivial: true }]
    }
}

// ---------------------------------------------------------------------------------------------
pub struct Status;

fn make_error(name: &str) -> Option<QueryError> {
    Some(match name {
        "SytaxErrorCharsRemaining" => QueryError::SytaxErrorCharsRemaining("x".into()),
        "SyntaxErrorBytesRemaining" => QueryError::SyntaxErrorBytesRemaining(vec![1]),
        "ParseError" => QueryError::ParseError("x".into()),
        "FatalError" => QueryError::FatalError("x".into(), std::backtrace::Backtrace::disabled()),
        "NotImplemented" => QueryError::NotImplemented("x".into()),
        "TypeError" => QueryError::TypeError("x".into()),
        "Overflow" => QueryError::Overflow,
        "Canceled" => QueryError::Canceled { source: futures::channel::oneshot::Canceled },
        _ => return None,
    })
}

impl Suite for Status {
    fn name(&self) -> &'static str {
        "c17_status"
    }
    fn generate(&self, _seed: u64, _tier: &str) -> Vec<Case> {
        ["SytaxErrorCharsRemaining", "SyntaxErrorBytesRemaining", "ParseError", "FatalError", "NotImplemented", "TypeError", "Overflow", "Canceled"]
            .iter()
            .map(|n| Case { class: "variant".into(), input: Sx::a(*n) })
            .collect()
    }
    fn run(&self, input: &Sx) -> Vec<Outcome> {
        let status = make_error(input.atom()).map(verif_error_status);
        let (oracle, signature) = match status {
            Some(s) if (400..600).contains(&s) => (None, None),
            Some(s) => (Some(format!("error {} maps to HTTP status {}", input, s)), Some("status-not-an-error".to_string())),
            None => (None, None),
        };
        vec![Outcome {
            model: Some("status".into()),
            model_input: None,
            impl_out: Some(Sx::opt(status.map(Sx::int))),
            oracle,
            signature,
            nontrivial: true,
        }]
    }
}

// ---------------------------------------------------------------------------------------------
pub struct Http;

static NEXT_PORT: AtomicU16 = AtomicU16::new(0);

fn json_cell(v: &serde_json::Value) -> Sx {
    match v {
        serde_json::Value::Null => Sx::a("null"),
        serde_json::Value::String(s) => Sx::tagged("s", vec![Sx::bytes(s.as_bytes())]),
        serde_json::Value::Number(n) => {
            if let Some(i) = n.as_i64() {
                Sx::tagged("i", vec![Sx::int(i)])
            } else if let Some(u) = n.as_u64() {
                Sx::tagged("i", vec![Sx::int(u)])
            } else {
                Sx::tagged("f", vec![Sx::int(n.as_f64().unwrap().to_bits())])
            }
        }
        other => Sx::tagged("other", vec![Sx::bytes(other.to_string().as_bytes())]),
    }
}

/// the embedded cell as JSON must show it: non-finite floats excepted (JSON cannot represent them)
fn embedded_json_cell(v: &Value) -> Option<Sx> {
    match v {
        Value::Float(f) if !f.0.is_finite() => None,
        Value::Float(f) if f.0.fract() == 0.0 && f.0.abs() < 1e15 => {
            // serde_json prints 2.0 as 2.0 and parses it back as a float: keep as float
            Some(Sx::tagged("f", vec![Sx::int(f.0.to_bits())]))
        }
        v => Some(value_sx(v)),
    }
}

fn gen_batch(r: &mut Rng, table: &str, rows: usize, start: i64) -> EventBuffer {
    // built through the row API so that sparse columns are legal
    let mut t = TableBuffer::default();
    let with_opt = r.chance(1, 2);
    for i in 0..rows {
        let mut row: Vec<(String, api::AnyVal)> = vec![
            ("id".to_string(), api::AnyVal::Int(start + i as i64)),
            ("n".to_string(), api::AnyVal::Int(*r.pick(&[0i64, 1, -7, 300, 70000, 1 << 40]))),
            ("f".to_string(), api::AnyVal::Float(*r.pick(&[0.0f64, -0.0, 1.5, -2.25, 1e300, f64::INFINITY, f64::NEG_INFINITY, 3.0, 0.1]))),
            ("s".to_string(), api::AnyVal::Str(r.pick(&["", "a", "b", "ünï", "long string value"]).to_string())),
            // extremes, only ever projected: the engine's NULL marker value, i64::MIN, beyond 2^53
            ("m".to_string(), api::AnyVal::Int(*r.pick(&[i64::MAX, i64::MAX - 1, i64::MIN, (1 << 53) + 1, -1, 0]))),
            ("timestamp".to_string(), api::AnyVal::Float(1000.0 + (start + i as i64) as f64)),
        ];
        if with_opt && r.chance(1, 2) {
            row.push(("opt".to_string(), api::AnyVal::Int(r.range(-5, 5))));
        }
        t.push_row_and_timestamp(row);
    }
    let mut tables = HashMap::new();
    tables.insert(table.to_string(), t);
    EventBuffer { tables }
}

const QUERIES: [&str; 18] = [
    "SELECT id, n, f, s FROM t ORDER BY id",
    "SELECT id, opt FROM t ORDER BY id",
    "SELECT s, COUNT(1), SUM(n) FROM t ORDER BY s",
    "SELECT id, n + 1, f FROM t WHERE n > 0 ORDER BY id",
    "SELECT id, s FROM t WHERE s = 'a' ORDER BY id",
    "SELECT id FROM t ORDER BY id DESC LIMIT 3",
    "SELECT MAX(n), MIN(n), COUNT(id) FROM t",
    "SELECT id, nosuchcolumn FROM t ORDER BY id LIMIT 4",
    "SELECT id, m FROM t ORDER BY id",
    "SELECT m, id FROM t WHERE id < 5 ORDER BY id",
    // failing queries
    "SELECT id FROM nosuchtable",
    "SELEC id FROM t",
    "SELECT id FROM t GROUP BY id",
    "SELECT s + 1 FROM t",
    "SELECT n * 9223372036854775807 FROM t",
    "SELECT DISTINCT id FROM t",
    "SELECT id FROM t JOIN u ON t.id = u.id",
    "SELECT nosuchfunction(id) FROM t",
];

fn output_cols(o: &QueryOutput) -> Vec<(String, Vec<Sx>)> {
    o.columns.iter().map(|(n, c)| (n.clone(), cells_of_basic(c))).collect()
}

impl Suite for Http {
    fn name(&self) -> &'static str {
        "c17_http"
    }
    fn generate(&self, seed: u64, tier: &str) -> Vec<Case> {
        let n = if tier == "thorough" { 60 } else { 8 };
        (0..n).map(|i| Case { class: "session".into(), input: Sx::l(vec![Sx::int(seed), Sx::int(i)]) }).collect()
    }
    fn run(&self, input: &Sx) -> Vec<Outcome> {
        let seed = input.items()[0].as_u64();
        let idx = input.items()[1].as_u64();
        let rt = tokio::runtime::Builder::new_multi_thread().worker_threads(2).enable_all().build().unwrap();
        let res = std::panic::catch_unwind(std::panic::AssertUnwindSafe(|| rt.block_on(session(seed, idx))));
        rt.shutdown_timeout(Duration::from_secs(2));
        match res {
            Err(e) => {
                let m = panic_message(e);
                vec![Outcome { model: None, model_input: None, impl_out: Some(Sx::a("panic")), oracle: Some(format!("session panicked: {}", m)), signature: Some(format!("http-session-panic:{}", m)), nontrivial: true }]
            }
            Ok(outs) => outs,
        }
    }
}

async fn session(seed: u64, idx: u64) -> Vec<Outcome> {
    let mut r = Rng::new(seed.wrapping_mul(0x9E37) ^ idx ^ 0xC17_17);
    let served = Arc::new(LocustDB::memory_only());
    let embedded = LocustDB::memory_only();
    // find a free loopback port
    let base = 20_000 + (std::process::id() % 20_000) as u16;
    let mut handle = None;
    let mut port = 0u16;
    for _ in 0..50 {
        let p = base.wrapping_add(NEXT_PORT.fetch_add(1, Ordering::SeqCst)) % 60_000 + 2_000;
        if let Ok((h, _)) = locustdb::server::run(served.clone(), false, vec![], format!("127.0.0.1:{}", p)) {
            handle = Some(h);
            port = p;
            break;
        }
    }
    let handle = handle.expect("no free port");
    let client = reqwest::Client::builder().timeout(Duration::from_secs(20)).build().unwrap();
    let url = format!("http://127.0.0.1:{}", port);
    let mut outs: Vec<Outcome> = vec![];
    let mut fail = |why: String, sig: &str| {
        outs.push(Outcome { model: None, model_input: None, impl_out: None, oracle: Some(why), signature: Some(sig.to_string()), nontrivial: true });
    };
    let mut rows_so_far = 0i64;
    let n_ops = r.usize(6, 14);
    let mut checked = 0usize;
    for op in 0..n_ops {
        if op == 0 || r.chance(1, 3) {
            // the same batch over HTTP and through the embedded API
            let rows = r.usize(1, 9);
            let batch = gen_batch(&mut r, "t", rows, rows_so_far);
            rows_so_far += rows as i64;
            let resp = client.post(format!("{}/insert_bin", url)).body(batch.serialize()).send().await;
            match resp {
                Ok(resp) if resp.status().is_success() => {}
                Ok(resp) => fail(format!("insert_bin answered {}", resp.status()), "http-insert-status"),
                Err(e) => fail(format!("insert_bin failed: {}", e), "http-insert-error"),
            }
            embedded.ingest_efficient(batch).await;
            continue;
        }
        let q = *r.pick(&QUERIES);
        let reference = embedded.run_query(q, false, true, vec![]).await;
        let via_arc = served.run_query(q, false, true, vec![]).await;
        // endpoint 1: /query (JSON rows)
        let resp = client.post(format!("{}/query", url)).json(&QueryRequest { query: q.to_string() }).send().await;
        match (&reference, resp) {
            (Ok(reference), Ok(resp)) => {
                if !resp.status().is_success() {
                    fail(format!("/query answered {} for a query that succeeds embedded: {}", resp.status(), q), "http-query-status");
                } else {
                    let v: serde_json::Value = resp.json().await.unwrap_or(serde_json::Value::Null);
                    let names: Vec<String> = v["colnames"].as_array().map(|a| a.iter().map(|x| x.as_str().unwrap_or("").to_string()).collect()).unwrap_or_default();
                    if names != reference.colnames {
                        fail(format!("/query colnames {:?} vs embedded {:?} for {}", names, reference.colnames, q), "http-query-colnames");
                    }
                    let rows = v["rows"].as_array().cloned().unwrap_or_default();
                    let erows = reference.rows.clone().unwrap_or_default();
                    if rows.len() != erows.len() {
                        fail(format!("/query returned {} rows, embedded {} for {}", rows.len(), erows.len(), q), "http-query-rowcount");
                    } else {
                        for (jr, er) in rows.iter().zip(erows.iter()) {
                            let jr = jr.as_array().cloned().unwrap_or_default();
                            for (jc, ec) in jr.iter().zip(er.iter()) {
                                if let Some(want) = embedded_json_cell(ec) {
                                    let got = json_cell(jc);
                                    let same = got == want || (want.tag() == "f" && got.tag() == "i" && f64::from_bits(want.items()[1].as_u64()) == got.items()[1].as_i64() as f64);
                                    if !same {
                                        fail(format!("/query cell {} vs embedded {} for {}", got, want, q), "http-query-cell");
                                    }
                                } else if !jc.is_null() {
                                    fail(format!("/query non-finite float rendered as {}", jc), "http-query-nonfinite");
                                }
                            }
                        }
                    }
                    checked += 1;
                }
            }
            (Err(err), Ok(resp)) => {
                if resp.status().is_success() || !(resp.status().is_client_error() || resp.status().is_server_error()) {
                    fail(format!("/query answered {} for a failing query ({:?}): {}", resp.status(), err, q), "http-query-error-status");
                }
                checked += 1;
            }
            (Err(err), Err(e)) => {
                fail(format!("/query gave no HTTP answer ({}) for a failing query ({}): {}", e, err, q), "http-query-no-answer-on-error");
            }
            (Ok(_), Err(e)) => fail(format!("/query failed: {} for {}", e, q), "http-query-transport"),
        }
        // endpoint 2 and 3: /query_cols (JSON columns), /multi_query_cols (JSON; binary plain; binary xor)
        let resp = client.post(format!("{}/query_cols", url)).json(&QueryRequest { query: q.to_string() }).send().await;
        match (&reference, resp) {
            (Ok(reference), Ok(resp)) if resp.status().is_success() => {
                let v: serde_json::Value = resp.json().await.unwrap_or(serde_json::Value::Null);
                compare_json_cols(&v, reference, q, "/query_cols", &mut fail);
                checked += 1;
            }
            (Ok(_), Ok(resp)) => fail(format!("/query_cols answered {} for {}", resp.status(), q), "http-query-cols-status"),
            (Err(err), Ok(resp)) => {
                if !(resp.status().is_client_error() || resp.status().is_server_error()) {
                    fail(format!("/query_cols answered {} for a failing query ({:?}): {}", resp.status(), err, q), "http-query-cols-error-status");
                }
                checked += 1;
            }
            (_, Err(e)) => fail(format!("/query_cols transport error {} for {}", e, q), "http-query-cols-transport"),
        }
        for (xor, mant) in [(None, None), (Some(false), None), (Some(true), None), (Some(true), Some(10u32))] {
            let req = MultiQueryRequest {
                queries: vec![q.to_string()],
                encoding_opts: xor.map(|x| EncodingOpts { xor_float_compression: x, mantissa: mant, full_precision_cols: HashSet::new() }),
            };
            let resp = client.post(format!("{}/multi_query_cols", url)).json(&req).send().await;
            match (&reference, resp) {
                (Ok(reference), Ok(resp)) if resp.status().is_success() => {
                    if xor.is_none() {
                        let v: serde_json::Value = resp.json().await.unwrap_or(serde_json::Value::Null);
                        compare_json_cols(&v[0], reference, q, "/multi_query_cols(json)", &mut fail);
                    } else {
                        let bytes = resp.bytes().await.unwrap_or_default();
                        match MultiQueryResponse::deserialize(&bytes) {
                            Err(e) => fail(format!("binary response unreadable: {}", e), "http-binary-unreadable"),
                            Ok(m) => {
                                let cols = &m.responses[0].columns;
                                for (name, want) in output_cols(reference) {
                                    match cols.get(&name).and_then(cells_of_api) {
                                        None => fail(format!("binary response lacks column {} for {}", name, q), "http-binary-missing-column"),
                                        Some(got) => {
                                            let sh = if let (Some(true), Some(m)) = (xor, mant) { 52 - m } else { 0 };
                                            let same = got.len() == want.len()
                                                && got.iter().zip(want.iter()).all(|(g, w)| {
                                                    if g.tag() == "f" && w.tag() == "f" {
                                                        (g.items()[1].as_u64() >> sh) == (w.items()[1].as_u64() >> sh)
                                                    } else {
                                                        g == w || sh > 0
                                                    }
                                                });
                                            if !same {
                                                fail(format!("binary column {} = {:?} vs embedded {:?} for {}", name, got, want, q), "http-binary-cell");
                                            }
                                        }
                                    }
                                }
                                if cols.len() != reference.columns.iter().map(|c| &c.0).collect::<HashSet<_>>().len() {
                                    fail(format!("binary response has {} columns for {}", cols.len(), q), "http-binary-column-count");
                                }
                            }
                        }
                    }
                    checked += 1;
                }
                (Ok(_), Ok(resp)) => fail(format!("/multi_query_cols answered {} for {}", resp.status(), q), "http-multi-status"),
                (Err(err), Ok(resp)) => {
                    if !(resp.status().is_client_error() || resp.status().is_server_error()) {
                        fail(format!("/multi_query_cols answered {} for a failing query ({:?}): {}", resp.status(), err, q), "http-multi-error-status");
                    }
                }
                (_, Err(e)) => fail(format!("/multi_query_cols transport error {} for {}", e, q), "http-multi-transport"),
            }
        }
        // the shared Arc<LocustDB> answers like the embedded reference
        match (&reference, &via_arc) {
            (Ok(a), Ok(b)) => {
                if output_cols(a) != output_cols(b) {
                    fail(format!("served database differs from the embedded one for {}", q), "http-served-differs");
                }
            }
            (Err(_), Err(_)) => {}
            _ => fail(format!("served database and embedded one disagree on success for {}", q), "http-served-differs"),
        }
    }
    // several queries in one request: responses[i] must answer queries[i] (a slow query first)
    {
        let big = gen_batch(&mut r, "big", 1500, 0);
        let _ = client.post(format!("{}/insert_bin", url)).body(big.serialize()).send().await;
        embedded.ingest_efficient(big).await;
        let multi = [
            "SELECT s, f, COUNT(1), SUM(n), MAX(id) FROM big ORDER BY s, f",
            "SELECT COUNT(1) FROM big",
            "SELECT id, n FROM big WHERE n > 100 ORDER BY id LIMIT 7",
            "SELECT MIN(id) FROM t",
        ];
        let mut refs = vec![];
        for q in multi.iter() {
            refs.push(embedded.run_query(q, false, true, vec![]).await);
        }
        for round in 0..3 {
            for binary in [false, true] {
                let req = MultiQueryRequest {
                    queries: multi.iter().map(|q| q.to_string()).collect(),
                    encoding_opts: if binary { Some(EncodingOpts { xor_float_compression: round == 1, mantissa: None, full_precision_cols: HashSet::new() }) } else { None },
                };
                match client.post(format!("{}/multi_query_cols", url)).json(&req).send().await {
                    Ok(resp) if resp.status().is_success() => {
                        if binary {
                            let bytes = resp.bytes().await.unwrap_or_default();
                            match MultiQueryResponse::deserialize(&bytes) {
                                Err(e) => fail(format!("binary multi response unreadable: {}", e), "http-binary-unreadable"),
                                Ok(m) => {
                                    if m.responses.len() != multi.len() {
                                        fail(format!("{} responses for {} queries", m.responses.len(), multi.len()), "http-multi-count");
                                    } else {
                                        for (i, (resp, reference)) in m.responses.iter().zip(refs.iter()).enumerate() {
                                            if let Ok(reference) = reference {
                                                for (name, want) in output_cols(reference) {
                                                    match resp.columns.get(&name).and_then(cells_of_api) {
                                                        Some(got) if got == want => {}
                                                        other => fail(format!("multi-query (binary) response {} does not answer query {} ({}): column {} = {:?}", i, i, multi[i], name, other.map(|v| v.len())), "http-multi-order"),
                                                    }
                                                }
                                            }
                                        }
                                        checked += 1;
                                    }
                                }
                            }
                        } else {
                            let v: serde_json::Value = resp.json().await.unwrap_or(serde_json::Value::Null);
                            let arr = v.as_array().cloned().unwrap_or_default();
                            if arr.len() != multi.len() {
                                fail(format!("{} JSON responses for {} queries", arr.len(), multi.len()), "http-multi-count");
                            } else {
                                for (i, (resp, reference)) in arr.iter().zip(refs.iter()).enumerate() {
                                    if let Ok(reference) = reference {
                                        let names: Vec<String> = resp["colnames"].as_array().map(|a| a.iter().map(|x| x.as_str().unwrap_or("").to_string()).collect()).unwrap_or_default();
                                        if names != reference.colnames {
                                            fail(format!("multi-query (JSON) response {} has columns {:?}, query {} ({}) has {:?}", i, names, i, multi[i], reference.colnames), "http-multi-order");
                                        } else {
                                            compare_json_cols(resp, reference, multi[i], "/multi_query_cols(json,multi)", &mut fail);
                                        }
                                    }
                                }
                                checked += 1;
                            }
                        }
                    }
                    Ok(resp) => fail(format!("/multi_query_cols (multi) answered {}", resp.status()), "http-multi-status"),
                    Err(e) => fail(format!("/multi_query_cols (multi) transport error {}", e), "http-multi-transport"),
                }
            }
        }
    }
    // the server keeps answering after failures
    match client.post(format!("{}/query_cols", url)).json(&QueryRequest { query: "SELECT COUNT(1) FROM t".to_string() }).send().await {
        Ok(resp) if resp.status().is_success() => {}
        other => fail(format!("server does not answer after the session: {:?}", other.map(|r| r.status())), "http-server-dead"),
    }
    handle.stop(false).await;
    drop(fail);
    outs.push(Outcome {
        model: None,
        model_input: None,
        impl_out: Some(Sx::l(vec![Sx::a("checked"), Sx::int(checked)])),
        oracle: None,
        signature: None,
        nontrivial: checked > 0,
    });
    outs
}

fn compare_json_cols(v: &serde_json::Value, reference: &QueryOutput, q: &str, endpoint: &str, fail: &mut dyn FnMut(String, &str)) {
    let names: Vec<String> = v["colnames"].as_array().map(|a| a.iter().map(|x| x.as_str().unwrap_or("").to_string()).collect()).unwrap_or_default();
    if names != reference.colnames {
        fail(format!("{} colnames {:?} vs embedded {:?} for {}", endpoint, names, reference.colnames, q), "http-cols-colnames");
    }
    for (name, col) in &reference.columns {
        let want: Vec<Option<Sx>> = match col {
            BasicTypeColumn::Int(xs) => xs.iter().map(|x| Some(Sx::tagged("i", vec![Sx::int(*x)]))).collect(),
            BasicTypeColumn::Float(xs) => xs.iter().map(|x| embedded_json_cell(&Value::Float(OrderedFloat(*x)))).collect(),
            BasicTypeColumn::String(xs) => xs.iter().map(|x| Some(Sx::tagged("s", vec![Sx::bytes(x.as_bytes())]))).collect(),
            BasicTypeColumn::Null(_) => continue, // rendered as the row count
            BasicTypeColumn::Mixed(xs) => xs.iter().map(embedded_json_cell).collect(),
        };
        let got = v["cols"][name].as_array().cloned().unwrap_or_default();
        if got.len() != want.len() {
            fail(format!("{} column {} has {} cells, embedded {} for {}", endpoint, name, got.len(), want.len(), q), "http-cols-length");
            continue;
        }
        for (g, w) in got.iter().zip(want.iter()) {
            match w {
                None => {
                    if !g.is_null() {
                        fail(format!("{} non-finite float rendered as {}", endpoint, g), "http-cols-nonfinite");
                    }
                }
                Some(w) => {
                    let gs = json_cell(g);
                    let same = gs == *w || (w.tag() == "f" && gs.tag() == "i" && f64::from_bits(w.items()[1].as_u64()) == gs.items()[1].as_i64() as f64)
                        || (w.tag() == "f" && w.items()[1].as_u64() == NULL_BITS);
                    if !same {
                        fail(format!("{} column {} cell {} vs embedded {} for {}", endpoint, name, gs, w, q), "http-cols-cell");
                    }
                }
            }
        }
    }
}
