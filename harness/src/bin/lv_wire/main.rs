//! lv_wire: client/server encodings (C16, C17).
mod evwire;
mod http;
mod intcol;
mod rows;
mod xor;

fn main() {
    let mut v: Vec<Box<dyn lvharness::suite::Suite>> = vec![];
    v.extend(xor::suites());
    v.extend(intcol::suites());
    v.extend(rows::suites());
    v.extend(evwire::suites());
    v.extend(http::suites());
    lvharness::cli_main(v);
}
