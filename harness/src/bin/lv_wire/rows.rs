//! C16: the client-side row API of the binary ingestion message (TableBuffer::push_row_and_timestamp
//! / ColumnBuffer::push) against the Coq model of the push transition table, plus the wire round
//! trip of the resulting event buffer.
use locustdb_serialization::api::AnyVal;
use locustdb_serialization::event_buffer::{ColumnData, EventBuffer, TableBuffer};
use lvharness::rng::Rng;
use lvharness::suite::{panic_message, Case, Outcome, Suite};
use lvharness::sx::Sx;
use std::collections::{BTreeMap, BTreeSet, HashMap};

pub fn suites() -> Vec<Box<dyn Suite>> {
    vec![Box::new(Rows)]
}

pub struct Rows;

fn val_sx(v: &AnyVal) -> Sx {
    match v {
        AnyVal::Int(i) => Sx::tagged("i", vec![Sx::int(*i)]),
        AnyVal::Float(f) => Sx::tagged("f", vec![Sx::int(f.to_bits())]),
        AnyVal::Str(s) => Sx::tagged("s", vec![Sx::bytes(s.as_bytes())]),
        AnyVal::Null => Sx::a("null"),
    }
}

fn sx_val(x: &Sx) -> AnyVal {
    match x.tag() {
        "i" => AnyVal::Int(x.items()[1].as_i64()),
        "f" => AnyVal::Float(f64::from_bits(x.items()[1].as_u64())),
        "s" => AnyVal::Str(String::from_utf8(x.items()[1].as_bytes()).unwrap()),
        _ => AnyVal::Null,
    }
}

fn coldata_sx(d: &ColumnData) -> Sx {
    match d {
        ColumnData::Empty => Sx::a("empty"),
        ColumnData::Dense(x) => Sx::tagged("dense", vec![Sx::list(x, |f| Sx::int(f.to_bits()))]),
        ColumnData::Sparse(x) => Sx::tagged("sparse", vec![Sx::list(x, |(i, f)| Sx::l(vec![Sx::int(*i), Sx::int(f.to_bits())]))]),
        ColumnData::I64(x) => Sx::tagged("i64", vec![Sx::list(x, |v| Sx::int(*v))]),
        ColumnData::SparseI64(x) => Sx::tagged("sparse-i64", vec![Sx::list(x, |(i, v)| Sx::l(vec![Sx::int(*i), Sx::int(*v)]))]),
        ColumnData::String(x) => Sx::tagged("string", vec![Sx::list(x, |s| Sx::bytes(s.as_bytes()))]),
        ColumnData::Mixed(_) => Sx::a("mixed"),
    }
}

/// independent reading of a column buffer: one optional cell per row
fn denote(d: &ColumnData, len: usize) -> Vec<Sx> {
    let mut out = vec![Sx::a("none"); len];
    match d {
        ColumnData::Empty | ColumnData::Mixed(_) => {}
        ColumnData::Dense(x) => x.iter().enumerate().for_each(|(i, f)| out[i] = Sx::tagged("f", vec![Sx::int(f.to_bits())])),
        ColumnData::Sparse(x) => x.iter().for_each(|(i, f)| out[*i as usize] = Sx::tagged("f", vec![Sx::int(f.to_bits())])),
        ColumnData::I64(x) => x.iter().enumerate().for_each(|(i, v)| out[i] = Sx::tagged("i", vec![Sx::int(*v)])),
        ColumnData::SparseI64(x) => x.iter().for_each(|(i, v)| out[*i as usize] = Sx::tagged("i", vec![Sx::int(*v)])),
        ColumnData::String(x) => x.iter().enumerate().for_each(|(i, s)| out[i] = Sx::tagged("s", vec![Sx::bytes(s.as_bytes())])),
    }
    out
}

const CLASSES: [&str; 10] = [
    "ints", "floats", "int-then-float", "float-then-int", "strings", "late-start", "gaps", "string-vs-number",
    "late-string", "mostly-null",
];

fn gen_cell(r: &mut Rng, class: usize, row: usize, nrows: usize) -> Option<AnyVal> {
    let int = |r: &mut Rng| AnyVal::Int(r.pick(&[0i64, 1, -1, i64::MAX, i64::MIN, (1 << 53) + 1, 255, 65536]).wrapping_add(r.below(3) as i64 - 1));
    let flt = |r: &mut Rng| AnyVal::Float(f64::from_bits(*r.pick(&[0u64, 0x8000_0000_0000_0000, 0x3ff8_0000_0000_0000, 0x7ff0_0000_0000_0000, 0x7ff8_0000_0000_0001, 1])));
    let s = |r: &mut Rng| AnyVal::Str(r.pick(&["", "a", "hello", "ünï", "0"]).to_string());
    let skip = r.chance(1, 8);
    match class {
        0 => if skip { None } else { Some(int(r)) },
        1 => if skip { Some(AnyVal::Null) } else { Some(flt(r)) },
        2 => Some(if row * 2 < nrows { int(r) } else if r.chance(1, 3) { int(r) } else { flt(r) }),
        3 => Some(if row * 2 < nrows { flt(r) } else { int(r) }),
        4 => Some(s(r)),
        5 => if row < nrows / 2 { None } else if r.chance(1, 2) { Some(int(r)) } else { Some(flt(r)) },
        6 => if r.chance(1, 2) { None } else if r.chance(2, 3) { Some(int(r)) } else { Some(flt(r)) },
        7 => Some(match r.below(3) { 0 => int(r), 1 => flt(r), _ => s(r) }),
        8 => if row == 0 { None } else { Some(s(r)) },
        _ => if r.chance(1, 5) { Some(int(r)) } else { Some(AnyVal::Null) },
    }
}

impl Suite for Rows {
    fn name(&self) -> &'static str {
        "c16_rows"
    }
    fn generate(&self, seed: u64, tier: &str) -> Vec<Case> {
        let mut r = Rng::new(seed ^ 0xC16_2);
        let n = if tier == "thorough" { 30_000 } else { 2_000 };
        (0..n)
            .map(|i| {
                let nrows = r.usize(0, 9);
                let ncols = r.usize(1, 3);
                let classes: Vec<usize> = (0..ncols).map(|k| if k == 0 { i % 10 } else { r.below(7) as usize }).collect();
                let rows: Vec<Sx> = (0..nrows)
                    .map(|row| {
                        Sx::L(
                            classes
                                .iter()
                                .enumerate()
                                .filter_map(|(c, cl)| gen_cell(&mut r, *cl, row, nrows).map(|v| Sx::l(vec![Sx::int(c), val_sx(&v)])))
                                .collect(),
                        )
                    })
                    .collect();
                Case { class: CLASSES[i % 10].to_string(), input: Sx::l(vec![Sx::int(ncols), Sx::L(rows)]) }
            })
            .collect()
    }
    fn run(&self, input: &Sx) -> Vec<Outcome> {
        let ncols = input.items()[0].as_usize();
        let rows: Vec<Vec<(usize, AnyVal)>> = input.items()[1]
            .items()
            .iter()
            .map(|row| row.items().iter().map(|cv| (cv.items()[0].as_usize(), sx_val(&cv.items()[1]))).collect())
            .collect();
        // oracle leaves: i as f64 for every integer that occurs
        let mut ints = BTreeSet::new();
        for row in &rows {
            for (_, v) in row {
                if let AnyVal::Int(i) = v {
                    ints.insert(*i);
                }
            }
        }
        let i2f = Sx::L(ints.iter().map(|i| Sx::l(vec![Sx::int(*i), Sx::int((*i as f64).to_bits())])).collect());
        // per-column cell sequences for the model
        let mut per_col: Vec<Vec<Sx>> = vec![vec![]; ncols];
        for row in &rows {
            let m: BTreeMap<usize, &AnyVal> = row.iter().map(|(c, v)| (*c, v)).collect();
            for (c, col) in per_col.iter_mut().enumerate() {
                col.push(match m.get(&c) {
                    None => Sx::none(),
                    Some(v) => Sx::some(val_sx(v)),
                });
            }
        }
        let model_input = Sx::l(vec![i2f, Sx::L(per_col.iter().map(|c| Sx::L(c.clone())).collect())]);

        let rows2 = rows.clone();
        let res = std::panic::catch_unwind(move || {
            let mut t = TableBuffer::default();
            for row in rows2 {
                let mut r: Vec<(String, AnyVal)> = row.into_iter().map(|(c, v)| (format!("c{}", c), v)).collect();
                r.push(("timestamp".to_string(), AnyVal::Float(1.0)));
                t.push_row_and_timestamp(r);
            }
            t
        });
        match res {
            Err(e) => {
                let _ = panic_message(e);
                vec![Outcome { model: Some("rows".into()), model_input: Some(model_input), impl_out: Some(Sx::a("panic")), oracle: None, signature: None, nontrivial: true }]
            }
            Ok(t) => {
                let cols: HashMap<&String, &ColumnData> = t.columns().map(|(n, c)| (n, &c.data)).collect();
                let empty = ColumnData::Empty;
                let datas: Vec<&ColumnData> = (0..ncols).map(|c| *cols.get(&format!("c{}", c)).unwrap_or(&&empty)).collect();
                let out = Sx::L(datas.iter().map(|d| coldata_sx(d)).collect());
                // implementation-only oracle: the buffer denotes the pushed cells (ints become floats
                // when the column ended up as a float column), and survives the wire
                let mut why = None;
                for (c, d) in datas.iter().enumerate() {
                    let got = denote(d, rows.len());
                    let floaty = matches!(d, ColumnData::Dense(_) | ColumnData::Sparse(_));
                    for (ri, row) in rows.iter().enumerate() {
                        let v = row.iter().find(|(cc, _)| *cc == c).map(|(_, v)| v);
                        let want = match v {
                            None | Some(AnyVal::Null) => Sx::a("none"),
                            Some(AnyVal::Int(i)) if floaty => Sx::tagged("f", vec![Sx::int((*i as f64).to_bits())]),
                            Some(v) => val_sx(v),
                        };
                        if got[ri] != want {
                            why = Some(format!("column c{} row {}: buffer holds {} but {} was pushed", c, ri, got[ri], want));
                        }
                    }
                }
                if t.len() != rows.len() {
                    why = Some(format!("table length {} after {} rows", t.len(), rows.len()));
                }
                let mut tables = HashMap::new();
                tables.insert("t".to_string(), t.clone());
                let eb = EventBuffer { tables };
                match EventBuffer::deserialize(&eb.serialize()) {
                    Err(e) => why = Some(format!("wire message rejected: {}", e)),
                    Ok(back) => {
                        let bt = &back.tables["t"];
                        let bcols: HashMap<&String, &ColumnData> = bt.columns().map(|(n, c)| (n, &c.data)).collect();
                        for (n, d) in t.columns() {
                            if bcols.get(n).map(|x| coldata_sx(x)) != Some(coldata_sx(&d.data)) {
                                why = Some(format!("column {} changed on the wire", n));
                            }
                        }
                        if bt.len() != t.len() || bcols.len() != t.columns().count() {
                            why = Some("row or column count changed on the wire".to_string());
                        }
                    }
                }
                vec![Outcome {
                    model: Some("rows".into()),
                    model_input: Some(model_input),
                    impl_out: Some(out),
                    signature: why.as_ref().map(|_| "rows-mismatch".to_string()),
                    oracle: why,
                    nontrivial: rows.len() >= 2,
                }]
            }
        }
    }
}
