//! C16 (and the payload of C14's WAL segments): the binary event-buffer message against its field-level
//! model (Model/EventWire.v).
//!  * `c16_event_ser`: a buffer built through the real constructors is serialised by the real writer; the
//!    bytes are taken apart with the capnp reader into every field and must equal the model's message.
//!  * `c16_event_de`: messages assembled field by field with the capnp builder -- every arm of the data
//!    union, sparse index / value lists of different lengths, repeated table and column names, row counts
//!    unrelated to the columns -- are read by the real `EventBuffer::deserialize`; the resulting buffer must
//!    equal the model's.
use locustdb_serialization::api::AnyVal;
use locustdb_serialization::event_buffer::{ColumnBuffer, ColumnData, EventBuffer, TableBuffer};
use locustdb_serialization::{default_reader_options, wal_segment_capnp};
use lvharness::rng::Rng;
use lvharness::suite::{panic_message, Case, Outcome, Suite};
use lvharness::sx::Sx;
use std::collections::HashMap;

pub fn suites() -> Vec<Box<dyn Suite>> {
    vec![Box::new(EvSer), Box::new(EvDe)]
}

fn name(r: &mut Rng) -> String {
    let pool = ["", "a", "b", "ab", "aB", "col", "Ünï", "x_1", "名前", "timestamp", "with space", "é"];
    if r.chance(1, 5) {
        let n = r.usize(1, 30);
        (0..n).map(|_| (b'a' + r.below(26) as u8) as char).collect()
    } else {
        r.pick(&pool).to_string()
    }
}

fn int(r: &mut Rng) -> i64 {
    match r.below(6) {
        0 => i64::MIN,
        1 => i64::MAX,
        2 => 0,
        3 => r.range(-5, 5),
        4 => (r.next() >> r.below(64)) as i64,
        _ => r.next() as i64,
    }
}

fn float(r: &mut Rng) -> f64 {
    f64::from_bits(match r.below(7) {
        0 => 0x7ff8_0000_0000_0000,
        1 => 0x8000_0000_0000_0000,
        2 => 0x7ffa_aaaa_aaaa_aaaa,
        3 => 0xfff0_0000_0000_0001,
        4 => 1,
        5 => (r.range(-1000, 1000) as f64 / 8.0).to_bits(),
        _ => r.next(),
    })
}

fn anyval(r: &mut Rng) -> AnyVal {
    match r.below(4) {
        0 => AnyVal::Int(int(r)),
        1 => AnyVal::Float(float(r)),
        2 => AnyVal::Str(name(r)),
        _ => AnyVal::Null,
    }
}

fn val_sx(v: &AnyVal) -> Sx {
    match v {
        AnyVal::Int(i) => Sx::tagged("i", vec![Sx::int(*i)]),
        AnyVal::Float(f) => Sx::tagged("f", vec![Sx::int(f.to_bits())]),
        AnyVal::Str(s) => Sx::tagged("s", vec![Sx::bytes(s.as_bytes())]),
        AnyVal::Null => Sx::a("null"),
    }
}

fn coldata_sx(d: &ColumnData) -> Sx {
    match d {
        ColumnData::Empty => Sx::a("empty"),
        ColumnData::Dense(x) => Sx::tagged("dense", vec![Sx::list(x, |f| Sx::int(f.to_bits()))]),
        ColumnData::Sparse(x) => Sx::tagged("sparse", vec![Sx::list(x, |(i, f)| Sx::l(vec![Sx::int(*i), Sx::int(f.to_bits())]))]),
        ColumnData::I64(x) => Sx::tagged("i64", vec![Sx::list(x, |v| Sx::int(*v))]),
        ColumnData::SparseI64(x) => Sx::tagged("sparse-i64", vec![Sx::list(x, |(i, v)| Sx::l(vec![Sx::int(*i), Sx::int(*v)]))]),
        ColumnData::String(x) => Sx::tagged("string", vec![Sx::list(x, |s| Sx::bytes(s.as_bytes()))]),
        ColumnData::Mixed(x) => Sx::tagged("mixed", vec![Sx::list(x, val_sx)]),
    }
}

fn gen_column(r: &mut Rng, len: usize) -> ColumnData {
    match r.below(7) {
        0 => ColumnData::Empty,
        1 => ColumnData::Dense((0..len).map(|_| float(r)).collect()),
        2 => ColumnData::Sparse((0..len).map(|i| ((i * 3) as u64 + r.below(3), float(r))).collect()),
        3 => ColumnData::I64((0..len).map(|_| int(r)).collect()),
        4 => ColumnData::SparseI64((0..len).map(|i| ((i * 3) as u64 + r.below(3), int(r))).collect()),
        5 => ColumnData::String((0..len).map(|_| name(r)).collect()),
        _ => ColumnData::Mixed((0..len).map(|_| anyval(r)).collect()),
    }
}

/// every field of the message
fn message_sx(bytes: &[u8]) -> Result<Sx, String> {
    let reader = capnp::serialize_packed::read_message(&mut &bytes[..], default_reader_options()).map_err(|e| e.to_string())?;
    let root = reader.get_root::<wal_segment_capnp::table_segment_list::Reader>().map_err(|e| e.to_string())?;
    let mut tables = vec![];
    for t in root.get_data().map_err(|e| e.to_string())?.iter() {
        let mut cols = vec![];
        for c in t.get_columns().map_err(|e| e.to_string())?.iter() {
            use wal_segment_capnp::column::data::Which;
            let data = match c.get_data().which().map_err(|e| e.to_string())? {
                Which::F64(l) => Sx::tagged("f64", vec![Sx::L(l.map_err(|e| e.to_string())?.iter().map(|f| Sx::int(f.to_bits())).collect())]),
                Which::SparseF64(g) => Sx::tagged(
                    "sparse-f64",
                    vec![
                        Sx::L(g.get_indices().map_err(|e| e.to_string())?.iter().map(Sx::int).collect()),
                        Sx::L(g.get_values().map_err(|e| e.to_string())?.iter().map(|f| Sx::int(f.to_bits())).collect()),
                    ],
                ),
                Which::I64(l) => Sx::tagged("i64", vec![Sx::L(l.map_err(|e| e.to_string())?.iter().map(Sx::int).collect())]),
                Which::String(l) => {
                    let mut v = vec![];
                    for s in l.map_err(|e| e.to_string())?.iter() {
                        v.push(Sx::bytes(s.map_err(|e| e.to_string())?.as_bytes()));
                    }
                    Sx::tagged("string", vec![Sx::L(v)])
                }
                Which::Empty(()) => Sx::a("empty"),
                Which::SparseI64(g) => Sx::tagged(
                    "sparse-i64",
                    vec![
                        Sx::L(g.get_indices().map_err(|e| e.to_string())?.iter().map(Sx::int).collect()),
                        Sx::L(g.get_values().map_err(|e| e.to_string())?.iter().map(Sx::int).collect()),
                    ],
                ),
                Which::Mixed(l) => {
                    let mut v = vec![];
                    for x in l.map_err(|e| e.to_string())?.iter() {
                        use wal_segment_capnp::any_val::value::Which as W;
                        v.push(match x.get_value().which().map_err(|e| e.to_string())? {
                            W::I64(i) => Sx::tagged("i", vec![Sx::int(i)]),
                            W::F64(f) => Sx::tagged("f", vec![Sx::int(f.to_bits())]),
                            W::String(s) => Sx::tagged("s", vec![Sx::bytes(s.map_err(|e| e.to_string())?.as_bytes())]),
                            W::Null(()) => Sx::a("null"),
                        });
                    }
                    Sx::tagged("mixed", vec![Sx::L(v)])
                }
            };
            cols.push(Sx::l(vec![Sx::bytes(c.get_name().map_err(|e| e.to_string())?.as_bytes()), data]));
        }
        tables.push(Sx::l(vec![Sx::bytes(t.get_name().map_err(|e| e.to_string())?.as_bytes()), Sx::int(t.get_len()), Sx::L(cols)]));
    }
    Ok(Sx::L(tables))
}

pub struct EvSer;

impl Suite for EvSer {
    fn name(&self) -> &'static str {
        "c16_event_ser"
    }
    fn generate(&self, seed: u64, tier: &str) -> Vec<Case> {
        let n = if tier == "thorough" { 5000 } else { 500 };
        (0..n).map(|i| Case { class: format!("{}tables", i % 4), input: Sx::l(vec![Sx::int(seed), Sx::int(i)]) }).collect()
    }
    fn run(&self, input: &Sx) -> Vec<Outcome> {
        let seed = input.items()[0].as_u64();
        let i = input.items()[1].as_usize();
        let mut r = Rng::new(seed.wrapping_mul(0xE7E7_1) ^ (i as u64) ^ 0x5E4);
        let res = std::panic::catch_unwind(move || {
            let mut tables = HashMap::new();
            for t in 0..(i % 4) {
                let len = *r.pick(&[0usize, 1, 2, 3, 8, 17]);
                let mut cols = HashMap::new();
                for c in 0..r.usize(0, 6) {
                    let mut data = gen_column(&mut r, len);
                    // TableBuffer::new: every non-empty representation must have the table's length
                    if data.len() != len {
                        data = match data {
                            ColumnData::Sparse(_) | ColumnData::SparseI64(_) => ColumnData::Empty,
                            d => d,
                        };
                    }
                    if len == 0 {
                        data = ColumnData::Empty;
                    }
                    cols.insert(format!("{}{}", name(&mut r), c % 3), ColumnBuffer { data });
                }
                let maxlen = cols.values().map(|c| c.data.len()).max().unwrap_or(0);
                cols.retain(|_, c| c.data.len() == maxlen || matches!(c.data, ColumnData::Empty));
                tables.insert(format!("{}{}", name(&mut r), t % 2), TableBuffer::new(cols));
            }
            let eb = EventBuffer { tables };
            let model_input = Sx::L(
                eb.tables
                    .iter()
                    .map(|(n, t)| {
                        Sx::l(vec![
                            Sx::bytes(n.as_bytes()),
                            Sx::int(t.len()),
                            Sx::L(t.columns().map(|(k, c)| Sx::l(vec![Sx::bytes(k.as_bytes()), coldata_sx(&c.data)])).collect()),
                        ])
                    })
                    .collect(),
            );
            let ncols: usize = eb.tables.values().map(|t| t.columns().count()).sum();
            (model_input, message_sx(&eb.serialize()), ncols)
        });
        match res {
            Err(e) => {
                let m = panic_message(e);
                vec![Outcome {
                    model: None,
                    model_input: None,
                    impl_out: Some(Sx::a("panic")),
                    oracle: Some(format!("event-buffer writer panicked: {}", m)),
                    signature: Some(format!("event-writer-panic:{}", m)),
                    nontrivial: true,
                }]
            }
            Ok((model_input, Err(e), _)) => vec![Outcome {
                model: Some("ev_ser".into()),
                model_input: Some(model_input),
                impl_out: Some(Sx::a("unreadable")),
                oracle: Some(format!("the writer's own message cannot be taken apart: {}", e)),
                signature: Some("event-message-unreadable".to_string()),
                nontrivial: true,
            }],
            Ok((model_input, Ok(msg), ncols)) => {
                vec![Outcome { model: Some("ev_ser".into()), model_input: Some(model_input), impl_out: Some(msg), oracle: None, signature: None, nontrivial: ncols > 0 }]
            }
        }
    }
}

pub struct EvDe;

enum DataSpec {
    Empty,
    F64(Vec<f64>),
    SparseF64(Vec<u64>, Vec<f64>),
    I64(Vec<i64>),
    SparseI64(Vec<u64>, Vec<i64>),
    Str(Vec<String>),
    Mixed(Vec<AnyVal>),
}

fn event_sx(e: &EventBuffer) -> Sx {
    let mut tables: Vec<(&String, &TableBuffer)> = e.tables.iter().collect();
    tables.sort_by(|a, b| a.0.as_bytes().cmp(b.0.as_bytes()));
    Sx::L(
        tables
            .into_iter()
            .map(|(n, t)| {
                let mut cols: Vec<(&String, &ColumnBuffer)> = t.columns().collect();
                cols.sort_by(|a, b| a.0.as_bytes().cmp(b.0.as_bytes()));
                Sx::l(vec![Sx::bytes(n.as_bytes()), Sx::int(t.len()), Sx::L(cols.into_iter().map(|(k, c)| Sx::l(vec![Sx::bytes(k.as_bytes()), coldata_sx(&c.data)])).collect())])
            })
            .collect(),
    )
}

impl Suite for EvDe {
    fn name(&self) -> &'static str {
        "c16_event_de"
    }
    fn generate(&self, seed: u64, tier: &str) -> Vec<Case> {
        let n = if tier == "thorough" { 6000 } else { 600 };
        let classes = ["regular", "ragged-sparse", "dup-names"];
        (0..n).map(|i| Case { class: classes[i % 3].to_string(), input: Sx::l(vec![Sx::int(seed), Sx::int(i)]) }).collect()
    }
    fn run(&self, input: &Sx) -> Vec<Outcome> {
        let seed = input.items()[0].as_u64();
        let i = input.items()[1].as_usize();
        let class = i % 3;
        let mut r = Rng::new(seed.wrapping_mul(0xD0_5EED) ^ (i as u64) ^ 0xE4DE);
        let mut tables: Vec<(String, u64, Vec<(String, DataSpec)>)> = vec![];
        for t in 0..r.usize(0, 4) {
            let tname = if class == 2 { format!("{}{}", name(&mut r), t % 2) } else { format!("{}{}", name(&mut r), t) };
            let len = r.usize(0, 6);
            let mut cols = vec![];
            for c in 0..r.usize(0, 6) {
                let cname = if class == 2 { format!("{}{}", name(&mut r), c % 2) } else { format!("{}{}", name(&mut r), c) };
                let n = if r.chance(1, 4) { r.usize(0, 6) } else { len };
                let idx = |r: &mut Rng, n: usize| (0..n).map(|k| if r.chance(1, 6) { r.below(40) } else { k as u64 }).collect::<Vec<u64>>();
                let data = match r.below(7) {
                    0 => DataSpec::Empty,
                    1 => DataSpec::F64((0..n).map(|_| float(&mut r)).collect()),
                    2 => {
                        let m = if class == 1 { r.usize(0, 6) } else { n };
                        DataSpec::SparseF64(idx(&mut r, n), (0..m).map(|_| float(&mut r)).collect())
                    }
                    3 => DataSpec::I64((0..n).map(|_| int(&mut r)).collect()),
                    4 => {
                        let m = if class == 1 { r.usize(0, 6) } else { n };
                        DataSpec::SparseI64(idx(&mut r, n), (0..m).map(|_| int(&mut r)).collect())
                    }
                    5 => DataSpec::Str((0..n).map(|_| name(&mut r)).collect()),
                    _ => DataSpec::Mixed((0..n).map(|_| anyval(&mut r)).collect()),
                };
                cols.push((cname, data));
            }
            let tlen = if r.chance(1, 5) { r.next() >> r.below(64) } else { len as u64 };
            tables.push((tname, tlen, cols));
        }
        let mut builder = capnp::message::Builder::new_default();
        {
            let root = builder.init_root::<wal_segment_capnp::table_segment_list::Builder>();
            let mut data = root.init_data(tables.len() as u32);
            for (ti, (tname, tlen, cols)) in tables.iter().enumerate() {
                let mut tb = data.reborrow().get(ti as u32);
                tb.set_len(*tlen);
                tb.set_name(tname.as_str());
                let mut cb = tb.init_columns(cols.len() as u32);
                for (ci, (cname, d)) in cols.iter().enumerate() {
                    let mut c = cb.reborrow().get(ci as u32);
                    c.set_name(cname.as_str());
                    match d {
                        DataSpec::Empty => c.get_data().set_empty(()),
                        DataSpec::F64(v) => c.get_data().set_f64(&v[..]).unwrap(),
                        DataSpec::SparseF64(ix, v) => {
                            let mut g = c.get_data().init_sparse_f64();
                            g.reborrow().set_indices(&ix[..]).unwrap();
                            g.reborrow().set_values(&v[..]).unwrap();
                        }
                        DataSpec::I64(v) => c.get_data().set_i64(&v[..]).unwrap(),
                        DataSpec::SparseI64(ix, v) => {
                            let mut g = c.get_data().init_sparse_i64();
                            g.reborrow().set_indices(&ix[..]).unwrap();
                            g.reborrow().set_values(&v[..]).unwrap();
                        }
                        DataSpec::Str(v) => c.get_data().set_string(&v[..]).unwrap(),
                        DataSpec::Mixed(v) => {
                            let mut m = c.get_data().init_mixed(v.len() as u32);
                            for (k, x) in v.iter().enumerate() {
                                let mut vb = m.reborrow().get(k as u32).init_value();
                                match x {
                                    AnyVal::Int(i) => vb.set_i64(*i),
                                    AnyVal::Float(f) => vb.set_f64(*f),
                                    AnyVal::Str(s) => vb.set_string(s.as_str()),
                                    AnyVal::Null => vb.set_null(()),
                                }
                            }
                        }
                    }
                }
            }
        }
        let mut bytes = Vec::new();
        capnp::serialize_packed::write_message(&mut bytes, &builder).unwrap();
        let model_input = Sx::L(
            tables
                .iter()
                .map(|(tname, tlen, cols)| {
                    Sx::l(vec![
                        Sx::bytes(tname.as_bytes()),
                        Sx::int(*tlen),
                        Sx::L(cols
                            .iter()
                            .map(|(cname, d)| {
                                let data = match d {
                                    DataSpec::Empty => Sx::a("empty"),
                                    DataSpec::F64(v) => Sx::tagged("f64", vec![Sx::list(v, |f| Sx::int(f.to_bits()))]),
                                    DataSpec::SparseF64(ix, v) => Sx::tagged("sparse-f64", vec![Sx::list(ix, |x| Sx::int(*x)), Sx::list(v, |f| Sx::int(f.to_bits()))]),
                                    DataSpec::I64(v) => Sx::tagged("i64", vec![Sx::list(v, |x| Sx::int(*x))]),
                                    DataSpec::SparseI64(ix, v) => Sx::tagged("sparse-i64", vec![Sx::list(ix, |x| Sx::int(*x)), Sx::list(v, |x| Sx::int(*x))]),
                                    DataSpec::Str(v) => Sx::tagged("string", vec![Sx::list(v, |s| Sx::bytes(s.as_bytes()))]),
                                    DataSpec::Mixed(v) => Sx::tagged("mixed", vec![Sx::list(v, val_sx)]),
                                };
                                Sx::l(vec![Sx::bytes(cname.as_bytes()), data])
                            })
                            .collect()),
                    ])
                })
                .collect(),
        );
        let nontrivial = tables.iter().any(|t| !t.2.is_empty());
        let res = std::panic::catch_unwind(move || EventBuffer::deserialize(&bytes).map(|e| event_sx(&e)).map_err(|e| e.to_string()));
        let (impl_out, oracle, signature) = match res {
            Err(e) => {
                let m = panic_message(e);
                (Sx::a("panic"), Some(format!("event-buffer reader panicked on a well-formed message: {}", m)), Some(format!("event-reader-panic:{}", m)))
            }
            Ok(Err(e)) => (Sx::a("error"), Some(format!("well-formed event-buffer message rejected: {}", e)), Some("event-message-rejected".to_string())),
            Ok(Ok(sx)) => (sx, None, None),
        };
        vec![Outcome { model: Some("ev_de".into()), model_input: Some(model_input), impl_out: Some(impl_out), oracle, signature, nontrivial }]
    }
}
