//! lv_store: persistence state machine (C07 C08 C09 C13 C18).
//!
//!   lv_store run <suite> --seed N --tier quick|thorough --out file.jsonl      (case protocol)
//!   lv_store replay <suite> --input '<sexp>'
//!   lv_store list
//!   lv_store child <dir>                 internal: one database lifetime (see child.rs)
//!   lv_store script <dir>                debugging aid: commands from stdin, `restart` re-spawns the child
mod child;
mod crash;
mod dbproc;
mod gen;
mod hist;
mod suites;

use lvharness::sx::Sx;
use std::io::BufRead;
use std::time::Duration;

fn script(dir: &str) {
    let path = std::path::PathBuf::from(dir);
    std::fs::create_dir_all(&path).unwrap();
    let mut p = dbproc::DbProc::spawn(&path);
    let stdin = std::io::stdin();
    for line in stdin.lock().lines() {
        let line = line.unwrap();
        let line = line.trim();
        if line.is_empty() || line.starts_with('#') {
            continue;
        }
        if line == "restart" {
            p.close();
            p = dbproc::DbProc::spawn(&path);
            println!("(restarted)");
            continue;
        }
        if line == "kill" {
            p.kill();
            p = dbproc::DbProc::spawn(&path);
            println!("(killed)");
            continue;
        }
        let cmd = Sx::parse(line).expect("bad sexp");
        let r = p.request(&cmd, Duration::from_secs(15));
        println!("{:?}", r);
    }
    p.close();
}

/// The case protocol of `lvharness::cli_main`, with the cases of a `run` executed by a pool of worker
/// threads (every history spends most of its time waiting for child processes).
fn cli(suites: Vec<Box<dyn lvharness::suite::Suite>>) {
    use lvharness::suite::{emit, Outcome};
    use std::io::Write;
    let args: Vec<String> = std::env::args().collect();
    if args.len() < 2 {
        eprintln!("usage: run|replay|list ...");
        std::process::exit(2);
    }
    if std::env::var("LV_PANIC_TRACE").is_err() {
        std::panic::set_hook(Box::new(|_| {}));
    }
    let get = |flag: &str| -> Option<String> { args.iter().position(|a| a == flag).and_then(|i| args.get(i + 1).cloned()) };
    match args[1].as_str() {
        "list" => {
            for s in &suites {
                println!("{}", s.name());
            }
        }
        "run" => {
            let name = &args[2];
            let seed: u64 = get("--seed").map(|s| s.parse().unwrap()).unwrap_or(1);
            let tier = get("--tier").unwrap_or_else(|| "quick".into());
            let out_path = get("--out").expect("--out");
            let jobs: usize = get("--jobs").map(|s| s.parse().unwrap()).unwrap_or(12);
            let s = suites.iter().find(|s| s.name() == name).unwrap_or_else(|| {
                eprintln!("unknown suite {}", name);
                std::process::exit(2)
            });
            let cases = s.generate(seed, &tier);
            let next = std::sync::atomic::AtomicUsize::new(0);
            let results: std::sync::Mutex<Vec<Option<Vec<Outcome>>>> = std::sync::Mutex::new((0..cases.len()).map(|_| None).collect());
            std::thread::scope(|sc| {
                for _ in 0..jobs.min(cases.len().max(1)) {
                    sc.spawn(|| loop {
                        let i = next.fetch_add(1, std::sync::atomic::Ordering::SeqCst);
                        if i >= cases.len() {
                            break;
                        }
                        let r = std::panic::catch_unwind(std::panic::AssertUnwindSafe(|| s.run(&cases[i].input)));
                        let outs = match r {
                            Ok(o) => o,
                            Err(e) => vec![Outcome {
                                oracle: Some(format!("harness panic: {}", lvharness::suite::panic_message(e))),
                                signature: Some("harness-panic".into()),
                                ..Default::default()
                            }],
                        };
                        results.lock().unwrap()[i] = Some(outs);
                    });
                }
            });
            let mut out = std::io::BufWriter::new(std::fs::File::create(&out_path).unwrap());
            let results = results.into_inner().unwrap();
            for (c, outs) in cases.iter().zip(results.into_iter()) {
                for o in outs.unwrap_or_default() {
                    emit(&mut out, s.name(), &c.class, &c.input, &o);
                }
            }
            out.flush().unwrap();
            eprintln!("{}: {} cases", name, cases.len());
        }
        "replay" => {
            let name = &args[2];
            let input = get("--input").expect("--input");
            let s = suites.iter().find(|s| s.name() == name).expect("unknown suite");
            let inp = Sx::parse(&input).expect("bad input sexp");
            let stdout = std::io::stdout();
            let mut out = stdout.lock();
            for o in s.run(&inp) {
                emit(&mut out, s.name(), "replay", &inp, &o);
            }
        }
        _ => {
            eprintln!("unknown command");
            std::process::exit(2);
        }
    }
}

fn main() {
    let args: Vec<String> = std::env::args().collect();
    if args.len() >= 3 && args[1] == "child" {
        child::main(&args[2]);
        return;
    }
    if args.len() >= 3 && args[1] == "script" {
        script(&args[2]);
        return;
    }
    cli(suites::all());
}
