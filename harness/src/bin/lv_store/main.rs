//! lv_store: persistence state machine (C07 C08 C09 C13 C18).
//!
//!   lv_store run <suite> --seed N --tier quick|thorough --out file.jsonl      (case protocol)
//!   lv_store replay <suite> --input '<sexp>'
//!   lv_store list
//!   lv_store child <dir>                 internal: one database lifetime (see child.rs)
//!   lv_store script <dir>                debugging aid: commands from stdin, `restart` re-spawns the child
mod child;
mod dbproc;

use lvharness::sx::Sx;
use std::io::BufRead;
use std::time::Duration;

fn script(dir: &str) {
    let path = std::path::PathBuf::from(dir);
    std::fs::create_dir_all(&path).unwrap();
    let mut p = dbproc::DbProc::spawn(&path);
    let stdin = std::io::stdin();
    for line in stdin.lock().lines() {
        let line = line.unwrap();
        let line = line.trim();
        if line.is_empty() || line.starts_with('#') {
            continue;
        }
        if line == "restart" {
            p.close();
            p = dbproc::DbProc::spawn(&path);
            println!("(restarted)");
            continue;
        }
        if line == "kill" {
            p.kill();
            p = dbproc::DbProc::spawn(&path);
            println!("(killed)");
            continue;
        }
        let cmd = Sx::parse(line).expect("bad sexp");
        let r = p.request(&cmd, Duration::from_secs(15));
        println!("{:?}", r);
    }
    p.close();
}

fn main() {
    let args: Vec<String> = std::env::args().collect();
    if args.len() >= 3 && args[1] == "child" {
        child::main(&args[2]);
        return;
    }
    if args.len() >= 3 && args[1] == "script" {
        script(&args[2]);
        return;
    }
    let v: Vec<Box<dyn lvharness::suite::Suite>> = vec![];
    lvharness::cli_main(v);
}
