//! History correspondence for C07 / C08 / C13 / C18: a history over {ingest, burst, flush, evict,
//! restart} is run against a real on-disk LocustDB (every database lifetime in its own child
//! process), after each step the database is brought to quiescence and dumped; the dumps are
//! (1) judged by property oracles that need no model and (2) turned into the canonical observation
//! the extracted Coq model (`store_history`) has to predict when it is stepped with the same
//! operations in the linearisation the storage hooks report.
use crate::child::{name_sx, sx_name};
use crate::dbproc::{DbProc, Reply, Scratch};
use lvharness::suite::Outcome;
use lvharness::sx::Sx;
use std::collections::{BTreeMap, BTreeSet};
use std::time::Duration;

/// a reply that does not come within GRACE after the child reported a panic is a hang; without a
/// reported panic the call may take DEADLINE (a busy machine must not look like a hang)
const DEADLINE: Duration = Duration::from_secs(90);
const GRACE: Duration = Duration::from_millis(2500);

#[derive(Debug, Clone)]
pub struct Violation {
    pub sig: String,
    pub msg: String,
}

fn lst(v: Vec<Sx>) -> Sx {
    Sx::l(v)
}
fn a(s: &str) -> Sx {
    Sx::a(s)
}

fn field<'a>(items: &'a [Sx], key: &str) -> Option<&'a [Sx]> {
    for x in items {
        if let Sx::L(l) = x {
            if !l.is_empty() && l[0] == Sx::a(key) {
                return Some(&l[1..]);
            }
        }
    }
    None
}

#[derive(Debug, Clone)]
pub struct PartL {
    pub id: u64,
    pub start: u64,
    pub end: u64,
    pub size: u64,
}

#[derive(Debug, Clone)]
pub struct TableL {
    pub name: String,
    pub parts: Vec<PartL>,
    pub open: u64,
    pub frozen: u64,
    pub next_id: u64,
    pub next_off: u64,
    pub cols: Option<Vec<String>>,
}

#[derive(Debug, Clone)]
pub struct MetaPart {
    pub table: String,
    pub id: u64,
    pub off: u64,
    pub len: u64,
    pub size: u64,
    pub keys: Vec<String>,
}

#[derive(Debug, Clone)]
pub struct Dump {
    pub content: BTreeMap<String, Result<Vec<Vec<Sx>>, String>>,
    pub star: BTreeMap<String, Result<(Vec<String>, Vec<Vec<Sx>>), String>>,
    pub meta_tables: Result<Vec<Vec<Sx>>, String>,
    pub meta_columns: BTreeMap<String, Result<Vec<Vec<Sx>>, String>>,
    pub layout: Vec<TableL>,
    pub mem: (u64, u64, u64),
    pub disk_meta: Result<Option<(u64, Vec<MetaPart>)>, String>,
    pub files: Vec<String>,
}

fn rows_of(x: &Sx) -> Vec<Vec<Sx>> {
    x.items().iter().map(|r| r.items().to_vec()).collect()
}

fn res_rows(x: &Sx) -> Result<Vec<Vec<Sx>>, String> {
    let it = x.items();
    match it[0].atom() {
        "ok" => Ok(rows_of(&it[1])),
        _ => Err(sx_name(&it[1])),
    }
}

pub fn parse_disk(x: &Sx) -> (Result<Option<(u64, Vec<MetaPart>)>, String>, Vec<String>) {
    let it = x.items();
    let files: Vec<String> = it[1].items().iter().map(sx_name).collect();
    let meta = match &it[0] {
        Sx::A(s) if s == "nometa" => Ok(None),
        Sx::L(l) if l[0] == Sx::a("meta") => {
            let parts = l[2]
                .items()
                .iter()
                .map(|p| {
                    let q = p.items();
                    MetaPart {
                        table: sx_name(&q[0]),
                        id: q[1].as_u64(),
                        off: q[2].as_u64(),
                        len: q[3].as_u64(),
                        size: q[4].as_u64(),
                        keys: q[5].items().iter().map(sx_name).collect(),
                    }
                })
                .collect();
            Ok(Some((l[1].as_u64(), parts)))
        }
        other => Err(format!("{}", other)),
    };
    (meta, files)
}

pub fn parse_dump(d: &Sx) -> Dump {
    let it = d.items();
    let mut content = BTreeMap::new();
    for t in field(it, "content").unwrap()[0].items() {
        let q = t.items();
        content.insert(sx_name(&q[0]), res_rows(&q[1]));
    }
    let mut star = BTreeMap::new();
    for t in field(it, "star").unwrap()[0].items() {
        let q = t.items();
        let r = q[1].items();
        let v = match r[0].atom() {
            "ok" => Ok((r[1].items().iter().map(sx_name).collect(), rows_of(&r[2]))),
            _ => Err(sx_name(&r[1])),
        };
        star.insert(sx_name(&q[0]), v);
    }
    let meta_tables = res_rows(&field(it, "meta_tables").unwrap()[0]);
    let mut meta_columns = BTreeMap::new();
    for t in field(it, "meta_columns").unwrap()[0].items() {
        let q = t.items();
        meta_columns.insert(sx_name(&q[0]), res_rows(&q[1]));
    }
    let mut layout = vec![];
    for t in field(it, "layout").unwrap()[0].items() {
        let q = t.items();
        layout.push(TableL {
            name: sx_name(&q[0]),
            parts: q[1]
                .items()
                .iter()
                .map(|p| {
                    let z = p.items();
                    PartL { id: z[0].as_u64(), start: z[1].as_u64(), end: z[2].as_u64(), size: z[3].as_u64() }
                })
                .collect(),
            open: q[2].items()[0].as_u64(),
            frozen: q[2].items()[1].as_u64(),
            next_id: q[3].items()[0].as_u64(),
            next_off: q[3].items()[1].as_u64(),
            cols: q[4].as_opt().map(|l| l.items().iter().map(sx_name).collect()),
        });
    }
    let m = field(it, "mem").unwrap();
    let (disk_meta, files) = parse_disk(&field(it, "disk").unwrap()[0]);
    Dump {
        content,
        star,
        meta_tables,
        meta_columns,
        layout,
        mem: (m[0].as_u64(), m[1].as_u64(), m[2].as_u64()),
        disk_meta,
        files,
    }
}

/// rows sorted by the integer in their first cell (the `id` column every generated table has)
fn sort_by_id(mut rows: Vec<Vec<Sx>>) -> Vec<Vec<Sx>> {
    let key = |r: &Vec<Sx>| -> i128 {
        match r.first() {
            Some(Sx::L(l)) if l.len() == 2 && l[0] == Sx::a("i") => l[1].as_i128(),
            _ => i128::MAX,
        }
    };
    rows.sort_by_key(key);
    rows
}

fn string_cells(rows: &[Vec<Sx>]) -> Option<Vec<String>> {
    // Some(sorted hex atoms) when every row is a single string cell
    let mut out = vec![];
    for r in rows {
        match r.first() {
            Some(Sx::L(l)) if r.len() == 1 && l.len() == 2 && l[0] == Sx::a("s") => out.push(l[1].atom().to_string()),
            _ => return None,
        }
    }
    out.sort();
    Some(out)
}

fn opt_names(v: Option<Vec<String>>) -> Sx {
    match v {
        None => a("none"),
        Some(l) => lst(vec![a("some"), lst(l.into_iter().map(Sx::A).collect())]),
    }
}

pub fn wal_ids(files: &[String]) -> Vec<Sx> {
    let mut ids: Vec<u64> = vec![];
    let mut other: Vec<Sx> = vec![];
    for f in files {
        if let Some(rest) = f.strip_prefix("wal/") {
            match rest.strip_suffix(".wal").and_then(|x| x.parse::<u64>().ok()) {
                Some(id) if !rest.contains("..") => ids.push(id),
                _ => other.push(name_sx(rest)),
            }
        }
    }
    ids.sort();
    let mut v: Vec<Sx> = ids.into_iter().map(Sx::int).collect();
    v.extend(other);
    v
}

/// The directory of a table below tables/, written from the rule the storage layer documents
/// (independently of the crate's sanitize_table_name): lower-case, keep [a-z0-9_.-], drop leading
/// '-' / '.', at most 189 bytes; a name this changes gets "-<that>-<sha256 of the original name>".
pub fn table_dir(t: &str) -> String {
    use sha2::{Digest, Sha256};
    let lower = t.to_lowercase();
    let kept: String = lower.chars().filter(|c| c.is_ascii_alphanumeric() || *c == '_' || *c == '-' || *c == '.').collect();
    let trimmed = kept.trim_start_matches(|c| c == '-' || c == '.');
    let cut = if trimmed.len() > 189 { &trimmed[..189] } else { trimmed };
    if cut == t {
        cut.to_string()
    } else {
        let mut h = Sha256::new();
        h.update(t.as_bytes());
        format!("-{}-{}", cut, hex::encode(h.finalize()))
    }
}

/// (table dir, partition id, key) for every file below tables/
pub fn part_files(files: &[String]) -> Vec<(String, Option<u64>, String)> {
    let mut v = vec![];
    for f in files {
        if let Some(rest) = f.strip_prefix("tables/") {
            let mut it = rest.splitn(2, '/');
            let dir = it.next().unwrap_or("").to_string();
            let file = it.next().unwrap_or("").to_string();
            let id = file
                .strip_suffix(".part")
                .and_then(|x| x.split('_').next())
                .and_then(|x| if x.len() == 5 { x.parse::<u64>().ok() } else { None });
            let id = if file.contains("..") { None } else { id };
            v.push((dir, id, file));
        }
    }
    v
}

/// the observation in the canonical form the model prints (ocaml/store/lvmodel.ml: of_obs)
pub fn canonical_obs(d: &Dump, spec: &[(String, Vec<String>)]) -> Sx {
    let content = spec
        .iter()
        .map(|(t, _)| {
            let rows = match d.content.get(t) {
                Some(Ok(rows)) => lst(sort_by_id(rows.clone()).into_iter().map(lst).collect()),
                _ => a("err"),
            };
            lst(vec![name_sx(t), rows])
        })
        .collect();
    let tables = match &d.meta_tables {
        Ok(rows) => opt_names(string_cells(rows)),
        Err(_) => a("err"),
    };
    let columns = spec
        .iter()
        .map(|(t, _)| {
            let c = match d.meta_columns.get(t) {
                Some(Ok(rows)) => opt_names(string_cells(rows)),
                _ => a("err"),
            };
            lst(vec![name_sx(t), c])
        })
        .collect();
    let pfiles = part_files(&d.files);
    let mut layout: Vec<(String, Sx)> = d
        .layout
        .iter()
        .map(|t| {
            let mut parts = t.parts.clone();
            parts.sort_by_key(|p| (p.start, p.id));
            let mut meta: Vec<&MetaPart> = match &d.disk_meta {
                Ok(Some((_, ps))) => ps.iter().filter(|p| p.table == t.name).collect(),
                _ => vec![],
            };
            meta.sort_by_key(|p| (p.off, p.id));
            let mut fids: BTreeSet<u64> = BTreeSet::new();
            let mut odd: Vec<Sx> = vec![];
            let tdir = table_dir(&t.name);
            for (dir, id, file) in &pfiles {
                if *dir == tdir {
                    match id {
                        Some(i) => {
                            fids.insert(*i);
                        }
                        None => odd.push(name_sx(file)),
                    }
                }
            }
            let mut mv = vec![a("meta")];
            mv.extend(meta.iter().map(|p| lst(vec![Sx::int(p.id), Sx::int(p.off), Sx::int(p.len), Sx::int(p.size)])));
            let mut fv = vec![a("files")];
            fv.extend(fids.iter().map(|i| Sx::int(*i)));
            fv.extend(odd);
            let key = name_sx(&t.name);
            (
                key.atom().to_string(),
                lst(vec![
                    key,
                    lst(parts
                        .iter()
                        .map(|p| lst(vec![Sx::int(p.id), Sx::int(p.start), Sx::int(p.end), Sx::int(p.size)]))
                        .collect()),
                    lst(vec![Sx::int(t.open), Sx::int(t.frozen)]),
                    lst(vec![Sx::int(t.next_id), Sx::int(t.next_off)]),
                    opt_names(t.cols.as_ref().map(|c| {
                        let mut v: Vec<String> = c.iter().map(|x| name_sx(x).atom().to_string()).collect();
                        v.sort();
                        v
                    })),
                    lst(mv),
                    lst(fv),
                ]),
            )
        })
        .collect();
    layout.sort_by(|x, y| x.0.cmp(&y.0));
    // a table directory or catalogue entry of a table that is not in memory would be invisible above
    let known: BTreeSet<&str> = d.layout.iter().map(|t| t.name.as_str()).collect();
    let known_dirs: BTreeSet<String> = d.layout.iter().map(|t| table_dir(&t.name)).collect();
    let mut strays: Vec<Sx> = vec![];
    for (dir, _, file) in &pfiles {
        if !known_dirs.contains(dir.as_str()) {
            strays.push(name_sx(&format!("{}/{}", dir, file)));
        }
    }
    if let Ok(Some((_, ps))) = &d.disk_meta {
        for p in ps {
            if !known.contains(p.table.as_str()) {
                strays.push(name_sx(&format!("meta:{}:{}", p.table, p.id)));
            }
        }
    }
    let mut lay: Vec<Sx> = layout.into_iter().map(|x| x.1).collect();
    lay.extend(strays);
    let cursor = match &d.disk_meta {
        Ok(None) => a("none"),
        Ok(Some((c, _))) => lst(vec![a("some"), Sx::int(*c)]),
        Err(_) => a("err"),
    };
    lst(vec![
        a("obs"),
        lst(vec![a("content"), lst(content)]),
        lst(vec![a("tables"), tables]),
        lst(vec![a("columns"), lst(columns)]),
        lst(vec![a("layout"), lst(lay)]),
        lst(vec![a("mem"), Sx::int(d.mem.0), Sx::int(d.mem.1), Sx::int(d.mem.2)]),
        lst(vec![a("cursor"), cursor]),
        lst(vec![a("wal"), lst(wal_ids(&d.files))]),
    ])
}

// --------------------------------------------------------------------------------------------------
// one flush as the storage hooks report it

#[derive(Debug, Clone, Default)]
pub struct FlushEv {
    pub range: (u64, u64),
    /// table -> (size of the batched partition, size of the merged partition)
    pub sizes: BTreeMap<String, (u64, u64)>,
    /// table -> ids merged away, plus (id, offset, len) of partitions inserted before the merge
    pub merged: BTreeMap<String, Vec<u64>>,
    pub inserted: BTreeMap<String, Vec<(u64, u64, u64)>>,
    pub complete: bool,
}

#[derive(Debug, Clone)]
pub enum Lin {
    Ingest { id: u64, bytes: u64 },
    Flush(FlushEv),
}

/// linearise the hook events of one step: ingestions at their id allocation, flushes at their freeze
pub fn linearise(events: &[Sx]) -> Vec<Lin> {
    let mut out: Vec<Lin> = vec![];
    let mut cur: Option<usize> = None;
    for e in events {
        let it = e.items();
        match it[0].atom() {
            "add_wal" => out.push(Lin::Ingest { id: it[1].as_u64(), bytes: 0 }),
            "wal_write" => {
                let id = it[1].as_u64();
                for l in out.iter_mut() {
                    if let Lin::Ingest { id: i, bytes } = l {
                        if *i == id {
                            *bytes = it[2].as_u64();
                        }
                    }
                }
            }
            "flush_begin" => {
                out.push(Lin::Flush(FlushEv { range: (it[1].as_u64(), it[2].as_u64()), ..Default::default() }));
                cur = Some(out.len() - 1);
            }
            "insert" => {
                if let Some(Lin::Flush(f)) = cur.map(|i| &mut out[i]) {
                    let t = sx_name(&it[1]);
                    let size = it[5].as_u64();
                    let e = f.sizes.entry(t.clone()).or_insert((0, 0));
                    if f.merged.contains_key(&t) {
                        e.1 = size;
                    } else {
                        e.0 = size;
                        f.inserted.entry(t).or_default().push((it[2].as_u64(), it[3].as_u64(), it[4].as_u64()));
                    }
                }
            }
            "delete" => {
                if let Some(Lin::Flush(f)) = cur.map(|i| &mut out[i]) {
                    f.merged.insert(sx_name(&it[1]), it[2].items().iter().map(|x| x.as_u64()).collect());
                }
            }
            "flush_end" => {
                if let Some(Lin::Flush(f)) = cur.map(|i| &mut out[i]) {
                    f.complete = true;
                }
                cur = None;
            }
            _ => {}
        }
    }
    out
}

// --------------------------------------------------------------------------------------------------

pub struct Runner {
    pub scratch: Scratch,
    pub proc_: Option<DbProc>,
    pub opts: Vec<Sx>,
    /// acknowledged rows per table: column -> cell
    pub acked: BTreeMap<String, Vec<BTreeMap<String, Sx>>>,
    /// columns ever mentioned per table (the expected catalogue)
    pub cols_seen: BTreeMap<String, BTreeSet<String>>,
    pub created: Vec<String>,
    /// the columns queried per table: every column the history ever mentions, `id` first
    pub spec_cols: BTreeMap<String, Vec<String>>,
    pub hops: Vec<Sx>,
    pub obs: Vec<Sx>,
    /// (hops.len(), obs.len()) up to which model and implementation are compared
    pub compare_upto: Option<(usize, usize)>,
    pub known_hit: Option<String>,
    pub violations: Vec<Violation>,
    pub last: Option<Dump>,
    pub restarts: u32,
    pub opened_once: bool,
    /// race steps in which both the parked ingestion and the start of the flush were observed
    pub races: u32,
    /// catalogue tables that received a row since the last restart (replayed rows count)
    pub cat_touched: BTreeSet<String>,
    /// catalogue tables with rows that are not yet in a partition
    pub cat_unflushed: BTreeSet<String>,
    pub flushes: u32,
    pub compactions: u32,
    pub bg_flushes: u32,
    /// known-defect site the step in progress is predicted to execute (used when it never returns)
    pub predicted_site: Option<String>,
}

fn cell_is_null(c: &Sx) -> bool {
    matches!(c, Sx::A(s) if s == "n")
}

impl Runner {
    pub fn new(tag: &str, opts: &[Sx], ops: &[Sx]) -> Runner {
        let mut spec_cols: BTreeMap<String, Vec<String>> = BTreeMap::new();
        let mut visit = |tables: &[Sx]| {
            for t in tables {
                let it = t.items();
                let e = spec_cols.entry(sx_name(&it[0])).or_insert_with(|| vec!["id".to_string()]);
                for c in it[2].items() {
                    let n = sx_name(&c.items()[0]);
                    if !e.contains(&n) {
                        e.push(n);
                    }
                }
            }
        };
        for o in ops {
            match o.tag() {
                "ingest" => visit(o.items()[1].items()),
                "burst" => {
                    for b in o.items()[1].items() {
                        visit(b.items());
                    }
                }
                "race" => {
                    for b in &o.items()[1..] {
                        visit(b.items());
                    }
                }
                "blind" => {
                    let inner = &o.items()[1];
                    if inner.tag() == "ingest" {
                        visit(inner.items()[1].items());
                    }
                }
                _ => {}
            }
        }
        Runner {
            scratch: Scratch::new(tag),
            proc_: None,
            opts: opts.to_vec(),
            acked: BTreeMap::new(),
            cols_seen: BTreeMap::new(),
            created: vec![],
            spec_cols,
            hops: vec![],
            obs: vec![],
            compare_upto: None,
            known_hit: None,
            violations: vec![],
            last: None,
            restarts: 0,
            opened_once: false,
            races: 0,
            cat_touched: BTreeSet::new(),
            cat_unflushed: BTreeSet::new(),
            flushes: 0,
            compactions: 0,
            bg_flushes: 0,
            predicted_site: None,
        }
    }

    fn opt(&self, key: &str, dflt: u64) -> u64 {
        field(&self.opts, key).map(|v| v[0].as_u64()).unwrap_or(dflt)
    }

    pub fn spec(&self) -> Vec<(String, Vec<String>)> {
        self.created.iter().map(|t| (t.clone(), self.spec_cols[t].clone())).collect()
    }

    fn spec_sx(&self) -> Sx {
        lst(self
            .spec()
            .iter()
            .map(|(t, cols)| lst(vec![name_sx(t), lst(cols.iter().map(|c| name_sx(c)).collect())]))
            .collect())
    }

    fn violate(&mut self, sig: String, msg: String) {
        self.stop_comparing();
        self.violations.push(Violation { sig, msg });
    }

    /// from now on the model is not compared any more (the prefix recorded so far still is)
    fn stop_comparing(&mut self) {
        if self.compare_upto.is_none() {
            self.compare_upto = Some((self.hops.len(), self.obs.len()));
        }
    }

    fn req(&mut self, cmd: Sx, what: &str) -> Result<Sx, ()> {
        // "busy" (the child saw no rest within 60 s) without any panic on stderr is retried twice: on a
        // machine under heavy load background flushes can take that long; a dead flush thread panics
        if what == "quiesce" {
            for _ in 0..2 {
                let p = self.proc_.as_mut().unwrap();
                match p.request_quick_hang(&cmd, DEADLINE, GRACE) {
                    Reply::Ok(s) if s.tag() == "busy" && p.first_panic().is_none() => continue,
                    Reply::Ok(s) if s.tag() == "ok" => return Ok(s),
                    _ => break,
                }
            }
        }
        let p = self.proc_.as_mut().unwrap();
        match p.request_quick_hang(&cmd, DEADLINE, GRACE) {
            Reply::Ok(s) => {
                if s.tag() == "panic" {
                    let m = sx_name(&s.items()[1]);
                    let m: String = m.chars().take(80).collect();
                    self.violate(format!("panic:{}:{}", what, lvsig(&m)), format!("{} panicked: {}", what, m));
                    return Err(());
                }
                if s.tag() == "busy" {
                    let pm = self.proc_.as_ref().unwrap().first_panic().unwrap_or_else(|| "no panic reported".into());
                    self.violate(format!("hang:quiesce:{}", lvsig(&pm)), format!("no quiescence within 60s ({})", pm));
                    return Err(());
                }
                Ok(s)
            }
            Reply::Hang => {
                let pm = self.proc_.as_ref().unwrap().first_panic().unwrap_or_else(|| "no panic reported".into());
                self.violate(
                    format!("hang:{}:{}", what, lvsig(&pm)),
                    format!("{} did not return within {:?}; first panic on stderr: {}", what, DEADLINE, pm),
                );
                Err(())
            }
            Reply::Died => {
                let pm = self.proc_.as_ref().unwrap().first_panic().unwrap_or_else(|| "no panic reported".into());
                self.violate(format!("died:{}:{}", what, lvsig(&pm)), format!("child died during {} ({})", what, pm));
                Err(())
            }
        }
    }

    pub fn open(&mut self) -> Result<(), ()> {
        self.proc_ = Some(DbProc::spawn(self.scratch.path()));
        let mut cmd = vec![a("open")];
        // (first_life_wal_files N): the first lifetime runs with max_wal_files = N, the later ones (and
        // the model) with the max_wal_files of the options - a limit lowered at a restart
        let first = field(&self.opts, "first_life_wal_files").map(|v| v[0].as_u64());
        for o in self.opts.iter() {
            match (o.tag(), first) {
                ("max_wal_files", Some(n)) if !self.opened_once => cmd.push(lst(vec![a("max_wal_files"), Sx::int(n)])),
                _ => cmd.push(o.clone()),
            }
        }
        self.opened_once = true;
        self.req(lst(cmd), "open").map(|_| ())
    }

    fn events(&mut self) -> Result<Vec<Sx>, ()> {
        let r = self.req(lst(vec![a("events")]), "events")?;
        Ok(r.items()[1].items().to_vec())
    }

    /// bring the database to rest, read the hook events of the step, dump
    fn settle(&mut self) -> Result<(Vec<Sx>, Dump), ()> {
        self.req(lst(vec![a("quiesce")]), "quiesce")?;
        let ev = self.events()?;
        let spec = self.spec_sx();
        let d = self.req(lst(vec![a("dump"), spec]), "dump")?;
        Ok((ev, parse_dump(&d)))
    }

    fn expected_rows(&self, t: &str) -> Vec<Vec<Sx>> {
        let cols = &self.spec_cols[t];
        self.acked
            .get(t)
            .map(|rows| rows.iter().map(|r| cols.iter().map(|c| r.get(c).cloned().unwrap_or_else(|| a("n"))).collect()).collect())
            .unwrap_or_default()
    }

    /// bookkeeping of an acknowledged event buffer; returns the catalogue tables it adds rows to
    fn note_batch(&mut self, tables: &[Sx]) -> BTreeSet<String> {
        let mut touched = BTreeSet::new();
        for t in tables {
            let it = t.items();
            let name = sx_name(&it[0]);
            let n = it[1].as_usize();
            if !self.created.contains(&name) {
                self.created.push(name.clone());
                touched.insert(format!("_meta_columns_{}", name));
            }
            let seen = self.cols_seen.entry(name.clone()).or_default();
            let mut fresh = false;
            for c in it[2].items() {
                fresh |= seen.insert(sx_name(&c.items()[0]));
            }
            if fresh {
                touched.insert(format!("_meta_columns_{}", name));
            }
            let rows = self.acked.entry(name).or_default();
            for i in 0..n {
                let mut r = BTreeMap::new();
                for c in it[2].items() {
                    let ci = c.items();
                    r.insert(sx_name(&ci[0]), ci[1].items()[i].clone());
                }
                rows.push(r);
            }
        }
        touched
    }

    /// mirror of the model's guard: does this flush execute a known-defect site?
    fn known_site(&self, f: &FlushEv) -> Option<String> {
        for (t, ids) in &f.merged {
            // catalogue tables hold only non-NULL strings: the F1 site cannot occur in them.  (Until
            // 647a26b a recompacted, restored _meta_columns_* table was the site of finding F3; it
            // is no longer mirrored: a recurrence shows as a content mismatch.)
            if t.starts_with("_meta_columns_") || t.starts_with("_meta_tables") {
                continue;
            }
            // row ranges of the merged partitions: from the layout before the step and from this flush
            let mut ranges: Vec<(u64, u64)> = vec![];
            if let Some(d) = &self.last {
                if let Some(tl) = d.layout.iter().find(|x| x.name == *t) {
                    for p in &tl.parts {
                        if ids.contains(&p.id) {
                            ranges.push((p.start, p.end));
                        }
                    }
                }
            }
            if let Some(ins) = f.inserted.get(t) {
                for (id, off, len) in ins {
                    if ids.contains(id) && !ranges.iter().any(|r| r.0 == *off) {
                        ranges.push((*off, off + len));
                    }
                }
            }
            let rows = match self.acked.get(t) {
                Some(r) => r,
                None => continue,
            };
            let cols = match self.cols_seen.get(t) {
                Some(c) => c,
                None => continue,
            };
            for (s, e) in ranges {
                let (s, e) = (s as usize, (e as usize).min(rows.len()));
                if s >= e {
                    continue;
                }
                for c in cols {
                    let nulls = rows[s..e].iter().filter(|r| r.get(c).map(cell_is_null).unwrap_or(true)).count();
                    if nulls > 0 && nulls < e - s {
                        return Some("F1".into());
                    }
                }
            }
        }
        None
    }

    /// translate the events of one step into model operations; `batches` are the event buffers sent
    /// in this step (in order), `forced` says whether a flush was requested by the step itself
    fn record_ops(&mut self, events: &[Sx], batches: &[Sx], touches: &[BTreeSet<String>], forced: bool) {
        let lin = linearise(events);
        let mut bi = 0;
        let mut forced_left = forced;
        for l in lin {
            match l {
                Lin::Ingest { bytes, .. } => {
                    if bi < batches.len() {
                        self.hops.push(lst(vec![a("ingest"), Sx::int(bytes), batches[bi].clone()]));
                        for t in &touches[bi] {
                            self.cat_touched.insert(t.clone());
                            self.cat_unflushed.insert(t.clone());
                        }
                        bi += 1;
                    } else {
                        self.hops.push(lst(vec![a("unexpected-ingest")]));
                    }
                }
                Lin::Flush(f) => {
                    if let Some(k) = self.known_site(&f) {
                        if self.known_hit.is_none() {
                            self.known_hit = Some(k);
                        }
                        self.stop_comparing();
                    }
                    self.flushes += 1;
                    self.cat_unflushed.clear();
                    self.compactions += f.merged.len() as u32;
                    let bg = !forced_left;
                    if bg {
                        self.bg_flushes += 1;
                    }
                    forced_left = false;
                    let o = f
                        .sizes
                        .iter()
                        .map(|(t, (b, c))| lst(vec![name_sx(t), Sx::int(*b), Sx::int(*c)]))
                        .collect();
                    self.hops.push(lst(vec![a("flush"), Sx::boolean(bg), lst(o)]));
                    if !f.complete {
                        self.hops.push(lst(vec![a("incomplete-flush")]));
                    }
                }
            }
        }
    }

    // ----------------------------------------------------------------------------------------------
    // property oracles on one dump (no model involved)

    fn check_dump(&mut self, d: &Dump, after: &str) {
        // (a) content = acknowledged log, per table, rows in ingestion order
        for (t, _) in self.spec() {
            let exp = self.expected_rows(&t);
            match d.content.get(&t) {
                Some(Ok(rows)) => {
                    let got = sort_by_id(rows.clone());
                    if got != exp {
                        let mut kind = "mismatch:content";
                        let mut detail = format!("{} rows expected, {} found", exp.len(), got.len());
                        if got.len() == exp.len() {
                            'outer: for (i, (g, e)) in got.iter().zip(exp.iter()).enumerate() {
                                for (j, (gc, ec)) in g.iter().zip(e.iter()).enumerate() {
                                    if gc != ec {
                                        if cell_is_null(ec) && !cell_is_null(gc) {
                                            kind = "mismatch:content:null-lost";
                                        } else if !cell_is_null(ec) && cell_is_null(gc) {
                                            kind = "mismatch:content:value-lost";
                                        }
                                        detail = format!(
                                            "table {} row {} column {}: expected {} found {}",
                                            t, i, self.spec_cols[&t][j], ec, gc
                                        );
                                        break 'outer;
                                    }
                                }
                            }
                        } else if got.len() > exp.len() {
                            kind = "mismatch:content:rows-duplicated-or-extra";
                        } else {
                            kind = "mismatch:content:rows-lost";
                        }
                        self.violate(format!("{}:after-{}", kind, after), format!("content of {} after {}: {}", t, after, detail));
                        return;
                    }
                }
                Some(Err(m)) => {
                    let m = m.clone();
                    self.violate(format!("query-failed:content:after-{}:{}", after, lvsig(&m)), format!("SELECT on {} failed after {}: {}", t, after, m));
                    return;
                }
                None => {}
            }
        }
        // (c) catalogue: every table and every column ever ingested, exactly once
        let mut exp_tables: Vec<String> = vec![];
        for t in &self.created {
            exp_tables.push(name_sx(t).atom().to_string());
            exp_tables.push(name_sx(&format!("_meta_columns_{}", t)).atom().to_string());
        }
        exp_tables.sort();
        match &d.meta_tables {
            Ok(rows) => {
                if string_cells(rows) != Some(exp_tables.clone()) {
                    self.violate(
                        format!("mismatch:catalogue:tables:after-{}", after),
                        format!("_meta_tables after {}: expected {} names, found {:?}", after, exp_tables.len(), string_cells(rows).map(|v| v.len())),
                    );
                    return;
                }
            }
            Err(m) => {
                let m = m.clone();
                self.violate(format!("query-failed:catalogue:tables:{}", lvsig(&m)), m);
                return;
            }
        }
        for t in self.created.clone() {
            let mut exp: Vec<String> = self.cols_seen[&t].iter().map(|c| name_sx(c).atom().to_string()).collect();
            exp.sort();
            match d.meta_columns.get(&t) {
                Some(Ok(rows)) => {
                    if string_cells(rows) != Some(exp.clone()) {
                        self.violate(
                            format!("mismatch:catalogue:columns:after-{}", after),
                            format!("_meta_columns_{} after {}: expected {:?}, found {:?}", t, after, exp, rows),
                        );
                        return;
                    }
                }
                Some(Err(m)) => {
                    let m = m.clone();
                    self.violate(format!("query-failed:catalogue:columns:after-{}:{}", after, lvsig(&m)), m);
                    return;
                }
                None => {}
            }
            // (b) SELECT *: the catalogue's columns, sorted; same rows
            match d.star.get(&t) {
                Some(Ok((cols, rows))) => {
                    let mut sorted: Vec<String> = self.cols_seen[&t].iter().cloned().collect();
                    sorted.sort();
                    if *cols != sorted {
                        self.violate(
                            format!("mismatch:star:columns:after-{}", after),
                            format!("SELECT * FROM {} after {}: columns {:?}, expected {:?}", t, after, cols, sorted),
                        );
                        return;
                    }
                    let idpos = cols.iter().position(|c| c == "id");
                    let exp: Vec<Vec<Sx>> = self.acked.get(&t).map(|rs| {
                        rs.iter().map(|r| cols.iter().map(|c| r.get(c).cloned().unwrap_or_else(|| a("n"))).collect()).collect()
                    }).unwrap_or_default();
                    let mut got = rows.clone();
                    if let Some(p) = idpos {
                        got.sort_by_key(|r| match &r[p] {
                            Sx::L(l) if l.len() == 2 && l[0] == Sx::a("i") => l[1].as_i128(),
                            _ => i128::MAX,
                        });
                    }
                    if got != exp {
                        let lost = got.len() == exp.len()
                            && got.iter().zip(exp.iter()).any(|(g, e)| g.iter().zip(e.iter()).any(|(gc, ec)| cell_is_null(ec) && !cell_is_null(gc)));
                        self.violate(
                            format!("mismatch:star:rows{}:after-{}", if lost { ":null-lost" } else { "" }, after),
                            format!("SELECT * FROM {} after {} differs from the acknowledged rows", t, after),
                        );
                        return;
                    }
                }
                Some(Err(m)) => {
                    let m = m.clone();
                    self.violate(format!("query-failed:star:after-{}:{}", after, lvsig(&m)), format!("SELECT * FROM {} after {}: {}", t, after, m));
                    return;
                }
                None => {}
            }
        }
        // (d) partition ranges tile [0, n), ids unique, partitions + buffers hold every row
        for tl in &d.layout {
            let mut parts = tl.parts.clone();
            parts.sort_by_key(|p| (p.start, p.id));
            let mut off = 0;
            let mut ok = true;
            let mut ids = BTreeSet::new();
            for p in &parts {
                ok &= p.start == off && p.end > p.start && ids.insert(p.id);
                off = p.end;
            }
            ok &= off == tl.next_off && parts.iter().all(|p| p.id < tl.next_id);
            if !ok {
                self.violate(
                    format!("tiling:after-{}", after),
                    format!("partitions of {} after {} do not tile [0,{}): {:?}", tl.name, after, tl.next_off, parts),
                );
                return;
            }
            if let Some(rows) = self.acked.get(&tl.name) {
                if off + tl.frozen + tl.open != rows.len() as u64 {
                    self.violate(
                        format!("row-count:after-{}", after),
                        format!("{}: partitions {} + frozen {} + open {} != {} acknowledged rows", tl.name, off, tl.frozen, tl.open, rows.len()),
                    );
                    return;
                }
            }
        }
        // (e) the directory holds exactly what the durable catalogue and the cursor explain
        let (cursor, parts): (u64, Vec<MetaPart>) = match &d.disk_meta {
            Ok(None) => (0, vec![]),
            Ok(Some((c, ps))) => (*c, ps.clone()),
            Err(m) => {
                let m = m.clone();
                self.violate("catalogue-file-unreadable".into(), m);
                return;
            }
        };
        let mut expected: BTreeSet<String> = BTreeSet::new();
        if matches!(&d.disk_meta, Ok(Some(_))) {
            expected.insert("meta".into());
        }
        for p in &parts {
            for k in &p.keys {
                expected.insert(format!("tables/{}/{:05}_{}.part", table_dir(&p.table), p.id, k));
            }
        }
        for id in cursor..d.mem.1 {
            expected.insert(format!("wal/{}.wal", id));
        }
        let found: BTreeSet<String> = d.files.iter().cloned().collect();
        if found != expected {
            let extra: Vec<&String> = found.difference(&expected).collect();
            let missing: Vec<&String> = expected.difference(&found).collect();
            let kind = if !missing.is_empty() {
                "files-missing"
            } else if extra.iter().any(|f| f.contains("..INCOMPLETE")) {
                "garbage:temp-file"
            } else if extra.iter().any(|f| f.starts_with("wal/")) {
                "garbage:wal-segment"
            } else {
                "garbage:partition-file"
            };
            self.violate(
                format!("{}:after-{}", kind, after),
                format!("directory after {}: unexplained {:?}, missing {:?}", after, extra, missing),
            );
            return;
        }
        if after == "flush" {
            if d.mem.2 != 0 {
                self.violate("wal-size-not-reset".into(), format!("accounted WAL size after a completed flush: {}", d.mem.2));
                return;
            }
            if d.mem.0 != d.mem.1 || cursor != d.mem.1 {
                self.violate(
                    "cursor-not-advanced".into(),
                    format!("after a completed flush: durable cursor {}, in-memory range {}..{}", cursor, d.mem.0, d.mem.1),
                );
            }
        }
    }

    fn observe(&mut self, d: &Dump) {
        self.hops.push(lst(vec![a("observe"), self.spec_sx()]));
        self.obs.push(canonical_obs(d, &self.spec()));
    }

    /// run one step of the history; Err = the history cannot continue (hang, panic, dead child)
    pub fn step(&mut self, op: &Sx) -> Result<(), ()> {
        // (blind <op>): the operation is executed and enters the model's history, but the database
        // is not read afterwards (no query loads a column), only brought to rest
        let blind = op.tag() == "blind";
        let op: &Sx = if blind { &op.items()[1] } else { op };
        let kind = op.tag().to_string();
        let mut batches: Vec<Sx> = vec![];
        match kind.as_str() {
            "ingest" => {
                batches.push(op.items()[1].clone());
                self.req(op.clone(), "ingest")?;
            }
            "burst" => {
                for b in op.items()[1].items() {
                    batches.push(b.clone());
                    self.req(lst(vec![a("ingest"), b.clone()]), "ingest")?;
                }
            }
            "race" => {
                // two clients and a forced flush lined up at the ingestion lock (child.rs: "race");
                // the hook events tell in which order they took effect
                for b in &op.items()[1..] {
                    batches.push(b.clone());
                }
                let r = self.req(op.clone(), "race")?;
                let lined_up = r.items().len() >= 3 && r.items()[1].atom() == "true" && r.items()[2].atom() == "true";
                if lined_up {
                    self.races += 1;
                }
            }
            "flush" => {
                self.req(lst(vec![a("flush")]), "flush")?;
            }
            "evict" => {
                self.req(lst(vec![a("evict")]), "evict")?;
            }
            "restart" => {
                // clean stop: nothing running, nothing due; then a new process opens the directory
                self.req(lst(vec![a("quiesce")]), "quiesce")?;
                let ev = self.events()?;
                self.record_ops(&ev, &[], &[], false);
                if let Some(p) = self.proc_.as_mut() {
                    p.close();
                }
                self.open()?;
                // (a background flush the new lifetime starts on its own comes after the restart)
                self.hops.push(lst(vec![a("restart")]));
                self.restarts += 1;
                self.cat_touched = self.cat_unflushed.clone();
            }
            other => panic!("unknown op {}", other),
        }
        let mut touches = vec![];
        for b in &batches {
            touches.push(self.note_batch(b.items()));
        }
        if blind {
            self.req(lst(vec![a("quiesce")]), "quiesce")?;
            let ev = self.events()?;
            self.record_ops(&ev, &batches, &touches, kind == "flush");
            if kind == "evict" {
                self.hops.push(lst(vec![a("evict")]));
            }
            return if self.violations.is_empty() { Ok(()) } else { Err(()) };
        }
        let (ev, d) = self.settle()?;
        self.record_ops(&ev, &batches, &touches, kind == "flush" || kind == "race");
        if kind == "evict" {
            self.hops.push(lst(vec![a("evict")]));
        }
        self.observe(&d);
        self.check_dump(&d, &kind);
        self.last = Some(d);
        if self.violations.is_empty() {
            Ok(())
        } else {
            Err(())
        }
    }

    pub fn finish(&mut self) {
        if let Some(p) = self.proc_.as_mut() {
            if self.violations.is_empty() {
                p.close();
            } else {
                p.kill();
            }
        }
    }
}

/// bucket id of a message: digits and quoted payloads removed
pub fn lvsig(m: &str) -> String {
    let mut out = String::new();
    let mut in_q = false;
    let mut last_hash = false;
    for ch in m.chars() {
        if ch == '"' {
            in_q = !in_q;
            out.push('"');
            continue;
        }
        if in_q {
            continue;
        }
        if ch.is_ascii_digit() {
            if !last_hash {
                out.push('#');
            }
            last_hash = true;
        } else {
            last_hash = false;
            out.push(if ch == ' ' { '_' } else { ch });
        }
    }
    out.chars().take(90).collect()
}

pub fn model_cfg(opts: &[Sx], guard: bool) -> Sx {
    let g = |k: &str, d: u64| field(opts, k).map(|v| v[0].as_u64()).unwrap_or(d);
    lst(vec![
        lst(vec![a("guard"), Sx::boolean(guard)]),
        lst(vec![a("factor"), Sx::int(g("combine", 4))]),
        lst(vec![a("max_files"), Sx::int(g("max_wal_files", 1000))]),
        lst(vec![a("max_bytes"), Sx::int(g("max_wal_size", 64 * 1024 * 1024))]),
    ])
}

/// Runs the history; returns the correspondence outcome (model vs implementation on the compared
/// prefix) followed by one outcome per oracle violation.
pub fn run_history(input: &Sx) -> Vec<Outcome> {
    let it = input.items();
    let mut opts = field(it, "opts").unwrap_or(&[]).to_vec();
    let ops = field(it, "ops").unwrap_or(&[]).to_vec();
    // (max_wal_size first-segment): the limit is the size of the segment the first request writes,
    // measured on a scratch database - the first request then fills the log exactly to the limit
    if field(&opts, "max_wal_size").map(|v| v[0] == a("first-segment")).unwrap_or(false) {
        let probe_opts: Vec<Sx> =
            opts.iter().map(|o| if o.tag() == "max_wal_size" { lst(vec![a("max_wal_size"), Sx::int(64u64 << 20)]) } else { o.clone() }).collect();
        let mut bytes: u64 = 64 << 20;
        if let Some(first) = ops.first() {
            let mut pr = Runner::new("hist-probe", &probe_opts, &ops);
            if pr.open().is_ok() && pr.step(first).is_ok() {
                if let Some(h) = pr.hops.iter().find(|h| h.tag() == "ingest") {
                    bytes = h.items()[1].as_u64();
                }
            }
            if let Some(p) = pr.proc_.as_mut() {
                p.kill();
            }
        }
        opts = opts.iter().map(|o| if o.tag() == "max_wal_size" { lst(vec![a("max_wal_size"), Sx::int(bytes)]) } else { o.clone() }).collect();
    }
    let mut r = Runner::new("hist", &opts, &ops);
    let mut outs = vec![];
    let mut steps_done = 0;
    if r.open().is_ok() {
        // initial observation of the fresh database
        match r.settle() {
            Ok((_, d)) => {
                r.observe(&d);
                r.check_dump(&d, "open");
                r.last = Some(d);
            }
            Err(()) => {}
        }
        if r.violations.is_empty() {
            for op in &ops {
                if r.step(op).is_err() {
                    break;
                }
                steps_done += 1;
            }
        }
    }
    r.finish();
    let (nh, no) = r.compare_upto.unwrap_or((r.hops.len(), r.obs.len()));
    // the compared prefix ends with an observation
    let mut nh = nh.min(r.hops.len());
    while nh > 0 && r.hops[nh - 1].tag() != "observe" {
        nh -= 1;
    }
    let no = r.hops[..nh].iter().filter(|h| h.tag() == "observe").count().min(no);
    // a history with race steps counts only if at least one of them was actually lined up (the
    // ingestion parked inside the lock and the flush thread seen starting)
    let race_ops = ops.iter().filter(|o| o.tag() == "race").count();
    let nontrivial = (r.flushes > 0 || r.restarts > 0) && (race_ops == 0 || r.races > 0);
    if no > 0 {
        outs.push(Outcome {
            model: Some("store_history".into()),
            model_input: Some(lst(vec![model_cfg(&opts, true), lst(r.hops[..nh].to_vec())])),
            impl_out: Some(lst(r.obs[..no].to_vec())),
            oracle: None,
            signature: None,
            nontrivial,
        });
    }
    for v in &r.violations {
        outs.push(Outcome {
            model: None,
            model_input: None,
            impl_out: Some(lst(vec![
                a("stopped-after"),
                Sx::int(steps_done),
                a("known-site"),
                a(r.known_hit.as_deref().unwrap_or("none")),
            ])),
            oracle: Some(v.msg.clone()),
            signature: Some(format!(
                "{}{}",
                v.sig,
                match (&r.known_hit, &r.predicted_site) {
                    (Some(k), _) => format!(":site-{}", k),
                    (None, Some(k)) => format!(":site-{}", k),
                    _ => String::new(),
                }
            )),
            nontrivial,
        });
    }
    if outs.is_empty() {
        outs.push(Outcome { model: None, model_input: None, impl_out: None, oracle: None, signature: None, nontrivial: false });
    }
    let _ = r.opt("combine", 4);
    outs
}
