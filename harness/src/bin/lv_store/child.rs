//! One database lifetime in its own process.
//!
//! `lv_store child <db_dir>` reads one command (s-expression) per line on stdin and answers with one
//! line on stdout.  The parent (see `dbproc.rs`) enforces deadlines: a command that does not answer in
//! time is the outcome `hang` and the child is killed.
//!
//!   (open (combine N) (max_wal_files N) (max_wal_size N) (max_part_bytes N) (io_threads N)
//!         (flush_threads N) [(snap <hexdir>)])
//!   (ingest (<table>...))     table = (xNAME NROWS ((xCOL (cell...))...)); cell = n | (i Z) | (s xHEX) | (f BITS)
//!   (flush) (evict) (quiesce) (events) (close)
//!   (race (<table>...) [(<table>...)])   a forced flush starts while the first ingestion holds the
//!                                        ingestion lock; the second ingestion (if any) queues up too
//!   (dump ((xNAME (xCOL...))...))
use lvharness::suite::panic_message;
use lvharness::sx::Sx;
use locustdb::verif::hooks::{self, StoreEvent};
use locustdb::{LocustDB, Options, Value};
use locustdb_serialization::api::AnyVal;
use locustdb_serialization::event_buffer::{ColumnBuffer, ColumnData, EventBuffer, TableBuffer};
use std::collections::HashMap;
use std::io::{BufRead, Write};
use std::panic::{catch_unwind, AssertUnwindSafe};
use std::path::{Path, PathBuf};
use std::sync::{Arc, Condvar, Mutex};
use std::time::{Duration, Instant};

pub fn name_sx(s: &str) -> Sx {
    Sx::bytes(s.as_bytes())
}

pub fn sx_name(x: &Sx) -> String {
    String::from_utf8(x.as_bytes()).expect("utf8 name")
}

fn get<'a>(items: &'a [Sx], key: &str) -> Option<&'a Sx> {
    items
        .iter()
        .find(|x| matches!(x, Sx::L(l) if !l.is_empty() && l[0] == Sx::a(key)))
        .map(|x| &x.items()[1])
}

pub fn options_from(items: &[Sx], dir: &Path) -> Options {
    let g = |k: &str, d: u64| get(items, k).map(|x| x.as_u64()).unwrap_or(d);
    Options {
        threads: 2,
        read_threads: 2,
        db_path: Some(dir.to_path_buf()),
        mem_size_limit_tables: 8 * 1024 * 1024 * 1024,
        mem_lz4: g("mem_lz4", 1) != 0,
        readahead: 256 * 1024 * 1024,
        max_wal_size_bytes: g("max_wal_size", 64 * 1024 * 1024),
        max_wal_files: g("max_wal_files", 1000) as usize,
        max_partition_size_bytes: g("max_part_bytes", 8 * 1024 * 1024),
        partition_combine_factor: g("combine", 4),
        batch_size: 1024,
        max_partition_length: 1024 * 1024,
        wal_flush_compaction_threads: g("flush_threads", 1) as usize,
        io_threads: g("io_threads", 1) as usize,
        metrics_interval: 15,
        metrics_table_name: None,
    }
}

pub fn cell_of(v: &Value) -> Sx {
    match v {
        Value::Null => Sx::a("n"),
        Value::Int(i) => Sx::l(vec![Sx::a("i"), Sx::int(*i)]),
        Value::Str(s) => Sx::l(vec![Sx::a("s"), Sx::bytes(s.as_bytes())]),
        Value::Float(f) => Sx::l(vec![Sx::a("f"), Sx::int(f.0.to_bits())]),
    }
}

fn column_data(cells: &[Sx]) -> ColumnData {
    let tag = |c: &Sx| c.tag().to_string();
    if cells.iter().all(|c| tag(c) == "n") {
        ColumnData::Empty
    } else if cells.iter().all(|c| tag(c) == "i") {
        ColumnData::I64(cells.iter().map(|c| c.items()[1].as_i64()).collect())
    } else if cells.iter().all(|c| tag(c) == "f") {
        ColumnData::Dense(cells.iter().map(|c| f64::from_bits(c.items()[1].as_u64())).collect())
    } else if cells.iter().all(|c| tag(c) == "s") {
        ColumnData::String(cells.iter().map(|c| sx_name(&c.items()[1])).collect())
    } else {
        ColumnData::Mixed(
            cells
                .iter()
                .map(|c| match c.tag() {
                    "n" => AnyVal::Null,
                    "i" => AnyVal::Int(c.items()[1].as_i64()),
                    "f" => AnyVal::Float(f64::from_bits(c.items()[1].as_u64())),
                    "s" => AnyVal::Str(sx_name(&c.items()[1])),
                    t => panic!("bad cell {}", t),
                })
                .collect(),
        )
    }
}

pub fn event_buffer(tables: &[Sx]) -> EventBuffer {
    let mut ev = EventBuffer::default();
    for t in tables {
        let it = t.items();
        let name = sx_name(&it[0]);
        let mut cols = HashMap::new();
        for c in it[2].items() {
            let ci = c.items();
            cols.insert(sx_name(&ci[0]), ColumnBuffer { data: column_data(ci[1].items()) });
        }
        ev.tables.insert(name, TableBuffer::new(cols));
    }
    ev
}

struct Snap {
    root: PathBuf,
    dst: PathBuf,
    n: usize,
    log: Vec<Sx>,
    busy: bool,
}

struct Shared {
    events: Mutex<Vec<Sx>>,
    flush_depth: Mutex<(u64, u64)>, // (begun, ended)
    snap: Mutex<Option<Snap>>,
    snap_cv: Condvar,
}

pub fn copy_tree(src: &Path, dst: &Path) {
    std::fs::create_dir_all(dst).unwrap();
    if let Ok(rd) = std::fs::read_dir(src) {
        for e in rd.flatten() {
            let p = e.path();
            let d = dst.join(e.file_name());
            if p.is_dir() {
                copy_tree(&p, &d);
            } else {
                let _ = std::fs::copy(&p, &d);
            }
        }
    }
}

pub fn list_tree(root: &Path) -> Vec<String> {
    fn go(root: &Path, p: &Path, out: &mut Vec<String>) {
        if let Ok(rd) = std::fs::read_dir(p) {
            for e in rd.flatten() {
                let q = e.path();
                if q.is_dir() {
                    go(root, &q, out);
                } else {
                    out.push(q.strip_prefix(root).unwrap().to_string_lossy().to_string());
                }
            }
        }
    }
    let mut out = vec![];
    go(root, root, &mut out);
    out.sort();
    out
}

pub fn event_sx(e: &StoreEvent) -> Sx {
    match e {
        StoreEvent::AddWalSegment { id } => Sx::l(vec![Sx::a("add_wal"), Sx::int(*id)]),
        StoreEvent::RegisterWalSegment { id } => Sx::l(vec![Sx::a("reg_wal"), Sx::int(*id)]),
        StoreEvent::InsertPartition { table, id, offset, len, subpartitions } => Sx::l(vec![
            Sx::a("insert"),
            name_sx(table),
            Sx::int(*id),
            Sx::int(*offset),
            Sx::int(*len),
            Sx::int(subpartitions.iter().map(|s| s.1).sum::<u64>()),
            Sx::int(subpartitions.len()),
        ]),
        StoreEvent::DeletePartitions { table, ids } => {
            Sx::l(vec![Sx::a("delete"), name_sx(table), Sx::list(ids, |i| Sx::int(*i))])
        }
        StoreEvent::AdvanceCursor { to } => Sx::l(vec![Sx::a("cursor"), Sx::int(*to)]),
        StoreEvent::FlushBegin { start, end } => Sx::l(vec![Sx::a("flush_begin"), Sx::int(*start), Sx::int(*end)]),
        StoreEvent::FlushEnd => Sx::l(vec![Sx::a("flush_end")]),
    }
}

struct Child {
    dir: PathBuf,
    db: Option<LocustDB>,
    opts: Option<Options>,
    rt: tokio::runtime::Runtime,
    shared: Arc<Shared>,
}

impl Child {
    fn query_rows(&self, q: &str) -> Result<(Vec<String>, Vec<Vec<Value>>), String> {
        let db = self.db.as_ref().unwrap();
        let r = catch_unwind(AssertUnwindSafe(|| self.rt.block_on(db.run_query(q, false, true, vec![]))));
        match r {
            Err(e) => Err(format!("panic: {}", panic_message(e))),
            Ok(Err(e)) => {
                let m = format!("{}", e);
                Err(format!("error: {}", m.lines().next().unwrap_or("")))
            }
            Ok(Ok(out)) => Ok((out.colnames.clone(), out.rows.unwrap_or_default())),
        }
    }

    fn rows_sx(rows: &[Vec<Value>]) -> Sx {
        Sx::l(rows.iter().map(|r| Sx::l(r.iter().map(cell_of).collect())).collect())
    }

    fn res_sx(r: Result<(Vec<String>, Vec<Vec<Value>>), String>, with_cols: bool) -> Sx {
        match r {
            Err(m) => Sx::l(vec![Sx::a("err"), Sx::bytes(m.as_bytes())]),
            Ok((cols, rows)) => {
                if with_cols {
                    Sx::l(vec![Sx::a("ok"), Sx::list(&cols, |c| name_sx(c)), Self::rows_sx(&rows)])
                } else {
                    Sx::l(vec![Sx::a("ok"), Self::rows_sx(&rows)])
                }
            }
        }
    }

    fn dump(&self, spec: &[Sx]) -> Sx {
        let db = self.db.as_ref().unwrap();
        let inner = db.verif_inner();
        let mut content = vec![];
        let mut star = vec![];
        let mut metacols = vec![];
        for t in spec {
            let it = t.items();
            let tname = sx_name(&it[0]);
            let cols: Vec<String> = it[1].items().iter().map(sx_name).collect();
            let sel = cols.iter().map(|c| format!("\"{}\"", c)).collect::<Vec<_>>().join(", ");
            let q = format!("SELECT {} FROM \"{}\"", sel, tname);
            content.push(Sx::l(vec![it[0].clone(), Self::res_sx(self.query_rows(&q), false)]));
            star.push(Sx::l(vec![
                it[0].clone(),
                Self::res_sx(self.query_rows(&format!("SELECT * FROM \"{}\"", tname)), true),
            ]));
            metacols.push(Sx::l(vec![
                it[0].clone(),
                Self::res_sx(self.query_rows(&format!("SELECT column_name FROM \"_meta_columns_{}\"", tname)), false),
            ]));
        }
        let metatables = Self::res_sx(self.query_rows("SELECT name FROM _meta_tables"), false);
        // in-memory layout through the read-only accessors
        let mut layout = vec![];
        let mut tables = inner.verif_tables();
        tables.sort_by(|a, b| a.name().cmp(b.name()));
        for t in &tables {
            let mut parts = t.verif_layout();
            parts.sort_by_key(|p| (p.1, p.0));
            let (open, frozen) = t.verif_buffer_lens();
            let (nid, noff) = t.verif_next();
            layout.push(Sx::l(vec![
                name_sx(t.name()),
                Sx::l(parts
                    .iter()
                    .map(|p| Sx::l(vec![Sx::int(p.0), Sx::int(p.1), Sx::int(p.2), Sx::int(p.3)]))
                    .collect()),
                Sx::l(vec![Sx::int(open), Sx::int(frozen)]),
                Sx::l(vec![Sx::int(nid), Sx::int(noff)]),
                Sx::opt(t.verif_column_names().map(|v| Sx::list(&v, |c| name_sx(c)))),
            ]));
        }
        let (mem_earliest, mem_next) = match inner.verif_storage() {
            Some(s) => {
                let m = s.meta_store().read().unwrap();
                let r = m.unflushed_wal_ids();
                (r.start, r.end)
            }
            None => (0, 0),
        };
        Sx::l(vec![
            Sx::a("dump"),
            Sx::l(vec![Sx::a("content"), Sx::l(content)]),
            Sx::l(vec![Sx::a("star"), Sx::l(star)]),
            Sx::l(vec![Sx::a("meta_tables"), metatables]),
            Sx::l(vec![Sx::a("meta_columns"), Sx::l(metacols)]),
            Sx::l(vec![Sx::a("layout"), Sx::l(layout)]),
            Sx::l(vec![Sx::a("mem"), Sx::int(mem_earliest), Sx::int(mem_next), Sx::int(inner.verif_wal_size())]),
            Sx::l(vec![Sx::a("disk"), disk_sx(&self.dir)]),
        ])
    }

    fn flushing(&self) -> bool {
        let d = self.shared.flush_depth.lock().unwrap();
        d.0 != d.1
    }

    fn trigger_pending(&self) -> bool {
        let db = self.db.as_ref().unwrap();
        let inner = db.verif_inner();
        let opts = self.opts.as_ref().unwrap();
        let wal = inner.verif_wal_size();
        let count = match inner.verif_storage() {
            Some(s) => {
                let r = s.meta_store().read().unwrap().unflushed_wal_ids();
                (r.end - r.start) as usize
            }
            None => 0,
        };
        wal > opts.max_wal_size_bytes || count > opts.max_wal_files
    }

    /// wait until no flush is running and none is due
    fn quiesce(&self) -> bool {
        let t0 = Instant::now();
        loop {
            if !self.flushing() && !self.trigger_pending() {
                // the trigger condition is evaluated by the background thread before FlushBegin; look twice
                std::thread::sleep(Duration::from_millis(2));
                if !self.flushing() && !self.trigger_pending() {
                    return true;
                }
            }
            if t0.elapsed() > Duration::from_secs(60) {
                return false;
            }
            std::thread::sleep(Duration::from_millis(5));
        }
    }

    fn handle(&mut self, cmd: &Sx) -> Sx {
        let it = cmd.items();
        match it[0].atom() {
            "open" => {
                let opts = options_from(&it[1..], &self.dir);
                if let Some(s) = get(&it[1..], "snap") {
                    let dst = PathBuf::from(sx_name(s));
                    std::fs::create_dir_all(&dst).unwrap();
                    *self.shared.snap.lock().unwrap() =
                        Some(Snap { root: self.dir.clone(), dst, n: 0, log: vec![], busy: false });
                }
                let r = catch_unwind(AssertUnwindSafe(|| LocustDB::new(&opts)));
                match r {
                    Ok(db) => {
                        self.db = Some(db);
                        self.opts = Some(opts);
                        Sx::l(vec![Sx::a("ok")])
                    }
                    Err(e) => Sx::l(vec![Sx::a("panic"), Sx::bytes(panic_message(e).as_bytes())]),
                }
            }
            "ingest" => {
                let ev = event_buffer(it[1].items());
                let db = self.db.as_ref().unwrap();
                let r = catch_unwind(AssertUnwindSafe(|| self.rt.block_on(db.ingest_efficient(ev))));
                match r {
                    Ok(()) => Sx::l(vec![Sx::a("ok")]),
                    Err(e) => Sx::l(vec![Sx::a("panic"), Sx::bytes(panic_message(e).as_bytes())]),
                }
            }
            "flush" => {
                let db = self.db.as_ref().unwrap();
                let r = catch_unwind(AssertUnwindSafe(|| db.force_flush()));
                match r {
                    Ok(()) => Sx::l(vec![Sx::a("ok")]),
                    Err(e) => Sx::l(vec![Sx::a("panic"), Sx::bytes(panic_message(e).as_bytes())]),
                }
            }
            "race" => {
                // Three ordinary client threads lined up with the sync points of the `verif` feature.
                // The flush thread takes the ingestion lock at the top of every round of its loop, so
                // ingestion A first waits at "ingest:begin" (before the lock); when the flush thread
                // reports "wal_flush:begin" A goes on, takes the lock and is held at
                // "ingest:wal_locked"; only then does the flush thread continue - to the lock, which
                // A owns.  Ingestion B is started, queues up too, and A is released.
                struct Gate {
                    a_at_begin: bool,
                    a_begin_done: bool,
                    a_locked_done: bool,
                    parked: bool,
                    release: bool,
                    flush_begun: bool,
                }
                let ev_a = event_buffer(it[1].items());
                let ev_b = if it.len() > 2 { Some(event_buffer(it[2].items())) } else { None };
                let db = self.db.as_ref().unwrap();
                // (the database runs queries of its own with futures::executor::block_on: the callers'
                // futures are driven by the tokio runtime, as for the plain ingest command)
                let rt_a = self.rt.handle().clone();
                let rt_b = self.rt.handle().clone();
                let gate = Arc::new((
                    Mutex::new(Gate { a_at_begin: false, a_begin_done: false, a_locked_done: false, parked: false, release: false, flush_begun: false }),
                    Condvar::new(),
                ));
                let g2 = gate.clone();
                hooks::set_sync_point(Some(Arc::new(move |label: &str| {
                    let (m, cv) = &*g2;
                    let wait = |mut g: std::sync::MutexGuard<Gate>, f: &dyn Fn(&Gate) -> bool, secs: u64| {
                        let deadline = Instant::now() + Duration::from_secs(secs);
                        while !f(&g) && Instant::now() < deadline {
                            g = cv.wait_timeout(g, Duration::from_millis(20)).unwrap().0;
                        }
                    };
                    match label {
                        "ingest:begin" => {
                            let mut g = m.lock().unwrap();
                            if !g.a_begin_done {
                                g.a_begin_done = true;
                                g.a_at_begin = true;
                                cv.notify_all();
                                wait(g, &|g: &Gate| g.flush_begun, 10);
                            }
                        }
                        "ingest:wal_locked" => {
                            let mut g = m.lock().unwrap();
                            if !g.a_locked_done {
                                g.a_locked_done = true;
                                g.parked = true;
                                cv.notify_all();
                                wait(g, &|g: &Gate| g.release, 20);
                            }
                        }
                        "wal_flush:begin" => {
                            let mut g = m.lock().unwrap();
                            if !g.flush_begun {
                                g.flush_begun = true;
                                cv.notify_all();
                                wait(g, &|g: &Gate| g.parked, 5);
                            }
                        }
                        _ => {}
                    }
                })));
                let wait_for = |f: &dyn Fn(&Gate) -> bool| {
                    let (m, cv) = &*gate;
                    let deadline = Instant::now() + Duration::from_secs(10);
                    let mut g = m.lock().unwrap();
                    while !f(&g) && Instant::now() < deadline {
                        g = cv.wait_timeout(g, Duration::from_millis(20)).unwrap().0;
                    }
                    f(&g)
                };
                let r = catch_unwind(AssertUnwindSafe(|| {
                    std::thread::scope(|s| {
                        let ha = s.spawn(move || rt_a.block_on(db.ingest_efficient(ev_a)));
                        wait_for(&|g: &Gate| g.a_at_begin);
                        let hf = s.spawn(|| db.force_flush());
                        let begun = wait_for(&|g: &Gate| g.flush_begun);
                        let parked = wait_for(&|g: &Gate| g.parked);
                        // the flush thread is on its way to the lock A owns
                        std::thread::sleep(Duration::from_millis(100));
                        let hb = ev_b.map(|ev| s.spawn(move || rt_b.block_on(db.ingest_efficient(ev))));
                        std::thread::sleep(Duration::from_millis(60));
                        {
                            let (m, cv) = &*gate;
                            m.lock().unwrap().release = true;
                            cv.notify_all();
                        }
                        let mut err: Option<String> = None;
                        if let Err(e) = ha.join() {
                            err = Some(panic_message(e));
                        }
                        if let Some(h) = hb {
                            if let Err(e) = h.join() {
                                err = Some(panic_message(e));
                            }
                        }
                        if let Err(e) = hf.join() {
                            err = Some(panic_message(e));
                        }
                        (parked, begun, err)
                    })
                }));
                hooks::set_sync_point(None);
                match r {
                    Ok((parked, begun, None)) => Sx::l(vec![Sx::a("ok"), Sx::boolean(parked), Sx::boolean(begun)]),
                    Ok((_, _, Some(m))) => Sx::l(vec![Sx::a("panic"), Sx::bytes(m.as_bytes())]),
                    Err(e) => Sx::l(vec![Sx::a("panic"), Sx::bytes(panic_message(e).as_bytes())]),
                }
            }
            "evict" => {
                let db = self.db.as_ref().unwrap();
                let r = catch_unwind(AssertUnwindSafe(|| db.evict_cache()));
                match r {
                    Ok(n) => Sx::l(vec![Sx::a("ok"), Sx::int(n)]),
                    Err(e) => Sx::l(vec![Sx::a("panic"), Sx::bytes(panic_message(e).as_bytes())]),
                }
            }
            "quiesce" => {
                if self.quiesce() {
                    Sx::l(vec![Sx::a("ok")])
                } else {
                    Sx::l(vec![Sx::a("busy")])
                }
            }
            "events" => {
                let evs = std::mem::take(&mut *self.shared.events.lock().unwrap());
                Sx::l(vec![Sx::a("events"), Sx::l(evs)])
            }
            "effects" => {
                let mut g = self.shared.snap.lock().unwrap();
                match g.as_mut() {
                    Some(s) => Sx::l(vec![Sx::a("effects"), Sx::int(s.n), Sx::l(std::mem::take(&mut s.log))]),
                    None => Sx::l(vec![Sx::a("effects"), Sx::int(0), Sx::l(vec![])]),
                }
            }
            "dump" => {
                let r = catch_unwind(AssertUnwindSafe(|| self.dump(it[1].items())));
                match r {
                    Ok(d) => d,
                    Err(e) => Sx::l(vec![Sx::a("panic"), Sx::bytes(panic_message(e).as_bytes())]),
                }
            }
            "close" => {
                self.db = None;
                Sx::l(vec![Sx::a("ok")])
            }
            other => Sx::l(vec![Sx::a("unknown"), Sx::a(other)]),
        }
    }
}

/// What is durably on disk, decoded with the crate's own readers: the meta file (cursor and partition
/// list with sub-partition keys), the WAL directory (file names), every file below the root.
pub fn disk_sx(dir: &Path) -> Sx {
    use locustdb::verif::disk_store::meta_store::MetaStore;
    use locustdb::verif::disk_store::verif_export::file_writer::{BlobWriter, FileBlobWriter, VersionedChecksummedBlobWriter};
    let files = list_tree(dir);
    let w = VersionedChecksummedBlobWriter::new(Box::new(FileBlobWriter::new()));
    let meta_path = dir.join("meta");
    let meta = if meta_path.exists() {
        match w.load(&meta_path) {
            Err(e) => Sx::l(vec![Sx::a("unreadable"), Sx::bytes(format!("{}", e).as_bytes())]),
            Ok(data) => match MetaStore::deserialize(&data) {
                Err(e) => Sx::l(vec![Sx::a("undecodable"), Sx::bytes(format!("{}", e).as_bytes())]),
                Ok(m) => {
                    let mut parts: Vec<_> = m
                        .partitions()
                        .map(|p| {
                            (
                                p.tablename.clone(),
                                p.offset,
                                p.id,
                                p.len,
                                p.subpartitions.iter().map(|s| (s.subpartition_key.clone(), s.size_bytes)).collect::<Vec<_>>(),
                            )
                        })
                        .collect();
                    parts.sort();
                    Sx::l(vec![
                        Sx::a("meta"),
                        Sx::int(m.earliest_uncommited_wal_id()),
                        Sx::l(parts
                            .iter()
                            .map(|p| {
                                Sx::l(vec![
                                    name_sx(&p.0),
                                    Sx::int(p.2),
                                    Sx::int(p.1),
                                    Sx::int(p.3),
                                    Sx::int(p.4.iter().map(|s| s.1).sum::<u64>()),
                                    Sx::l(p.4.iter().map(|s| name_sx(&s.0)).collect()),
                                ])
                            })
                            .collect()),
                    ])
                }
            },
        }
    } else {
        Sx::a("nometa")
    };
    Sx::l(vec![meta, Sx::list(&files, |f| name_sx(f))])
}

pub fn main(dir: &str) {
    let dir = PathBuf::from(dir);
    let shared = Arc::new(Shared {
        events: Mutex::new(vec![]),
        flush_depth: Mutex::new((0, 0)),
        snap: Mutex::new(None),
        snap_cv: Condvar::new(),
    });
    {
        let sh = shared.clone();
        hooks::set_store_event(Some(Arc::new(move |e: &StoreEvent| {
            match e {
                StoreEvent::FlushBegin { .. } => sh.flush_depth.lock().unwrap().0 += 1,
                StoreEvent::FlushEnd => sh.flush_depth.lock().unwrap().1 += 1,
                _ => {}
            }
            sh.events.lock().unwrap().push(event_sx(e));
        })));
        let sh = shared.clone();
        hooks::set_fs_effect(Some(Arc::new(move |e: &hooks::FsEffect| {
            if e.after && e.op == "write" {
                // payload size of a WAL segment (the envelope adds 48 bytes)
                let parent_is_wal = e.path.parent().and_then(|p| p.file_name()).map(|n| n == "wal").unwrap_or(false);
                if parent_is_wal {
                    let fname = e.path.file_name().unwrap().to_string_lossy().to_string();
                    if let Some(id) = fname.split('.').next().and_then(|x| x.parse::<u64>().ok()) {
                        sh.events.lock().unwrap().push(Sx::l(vec![
                            Sx::a("wal_write"),
                            Sx::int(id),
                            Sx::int(e.len.saturating_sub(48)),
                        ]));
                    }
                }
            }
            // effects are serialised while snapshots are taken: `before` takes the token, `after` returns it
            let mut g = sh.snap.lock().unwrap();
            if g.is_none() {
                return;
            }
            if !e.after {
                while g.as_ref().unwrap().busy {
                    g = sh.snap_cv.wait(g).unwrap();
                }
                g.as_mut().unwrap().busy = true;
                return;
            }
            let s = g.as_mut().unwrap();
            s.n += 1;
            let rel = |p: &Path| p.strip_prefix(&s.root).unwrap_or(p).to_string_lossy().to_string();
            let entry = Sx::l(vec![
                Sx::int(s.n),
                Sx::a(e.op),
                name_sx(&rel(e.path)),
                Sx::opt(e.to.map(|p| name_sx(&rel(p)))),
                Sx::int(e.len),
            ]);
            s.log.push(entry);
            let d = s.dst.join(format!("{}", s.n));
            copy_tree(&s.root, &d);
            s.busy = false;
            sh.snap_cv.notify_all();
        })));
    }
    let rt = tokio::runtime::Builder::new_multi_thread().worker_threads(2).enable_all().build().unwrap();
    let mut child = Child { dir, db: None, opts: None, rt, shared };
    let stdin = std::io::stdin();
    let stdout = std::io::stdout();
    for line in stdin.lock().lines() {
        let line = match line {
            Ok(l) => l,
            Err(_) => break,
        };
        if line.trim().is_empty() {
            continue;
        }
        let cmd = Sx::parse(line.trim()).expect("bad command");
        let resp = child.handle(&cmd);
        let mut out = stdout.lock();
        writeln!(out, "{}", resp).unwrap();
        out.flush().unwrap();
        if cmd.tag() == "close" {
            break;
        }
    }
    // never run destructors of detached threads' state: leave immediately
    std::process::exit(0);
}
