//! The suites of the store cluster.
use crate::gen::{gen_cases, Cols, Family};
use crate::hist::run_history;
use lvharness::suite::{Case, Outcome, Suite};
use lvharness::sx::Sx;

pub struct HistSuite {
    pub name: &'static str,
    pub salt: u64,
    pub fams: Vec<(Family, usize)>,
    pub thorough_scale: usize,
}

impl Suite for HistSuite {
    fn name(&self) -> &'static str {
        self.name
    }
    fn generate(&self, seed: u64, tier: &str) -> Vec<Case> {
        gen_cases(seed, self.salt, &self.fams, if tier == "thorough" { self.thorough_scale } else { 1 })
    }
    fn run(&self, input: &Sx) -> Vec<Outcome> {
        run_history(input)
    }
}

const ALL_FACTORS: &[u64] = &[0, 1, 4, 999];

fn fam(name: &'static str) -> Family {
    Family {
        name,
        cols: Cols::Fixed,
        nulls: false,
        hex: false,
        odd_names: false,
        restarts: true,
        evicts: true,
        bursts: false,
        factors: ALL_FACTORS,
        tiny_wal: false,
        max_ops: 12,
    }
}

pub fn all() -> Vec<Box<dyn Suite>> {
    vec![
        // C08: dense tables, fixed column sets; restarts at every position relative to flushes
        Box::new(HistSuite {
            name: "c08_history",
            salt: 0xC08,
            fams: vec![
                (Family { factors: &[1, 4, 999], ..fam("dense") }, 14),
                (Family { factors: &[1, 4, 999], tiny_wal: true, bursts: true, max_ops: 10, ..fam("dense-bgflush") }, 14),
                (Family { factors: &[0], max_ops: 8, ..fam("dense-recompact") }, 6),
            ],
            thorough_scale: 12,
        }),
        // C18: ingest / flush cycles, every factor, tiny WAL limits, sub-partition limits
        Box::new(HistSuite {
            name: "c18_history",
            salt: 0xC18,
            fams: vec![
                (Family { restarts: false, evicts: false, ..fam("cycles") }, 14),
                (Family { restarts: false, evicts: false, tiny_wal: true, bursts: true, max_ops: 10, ..fam("cycles-bgflush") }, 16),
            ],
            thorough_scale: 12,
        }),
        // C13: column sets come and go
        Box::new(HistSuite {
            name: "c13_history",
            salt: 0xC13,
            fams: vec![
                (Family { cols: Cols::VaryWithin, odd_names: true, factors: &[999], ..fam("vary-within") }, 12),
                (Family { cols: Cols::VaryWithin, odd_names: true, factors: &[999], tiny_wal: true, max_ops: 10, ..fam("vary-within-bgflush") }, 8),
                (Family { cols: Cols::VaryAcross, odd_names: true, factors: &[1, 4], ..fam("vary-across") }, 10),
                (Family { cols: Cols::VaryAcross, odd_names: true, factors: &[0], max_ops: 8, ..fam("vary-across-recompact") }, 4),
            ],
            thorough_scale: 12,
        }),
        // C07: maintenance steps on NULL-heavy / absent / hex-packed columns
        Box::new(HistSuite {
            name: "c07_history",
            salt: 0xC07,
            fams: vec![
                (Family { restarts: true, ..fam("dense") }, 10),
                (Family { cols: Cols::VaryAcross, factors: &[1, 4, 999], ..fam("absent-columns") }, 10),
                (Family { cols: Cols::VaryWithin, nulls: true, factors: &[999], ..fam("nulls-no-compaction") }, 8),
                (Family { cols: Cols::VaryWithin, nulls: true, factors: &[0, 1, 4], max_ops: 8, ..fam("nulls-compaction") }, 6),
                (Family { hex: true, factors: &[0, 1], restarts: false, max_ops: 6, ..fam("hex-strings") }, 3),
            ],
            thorough_scale: 12,
        }),
    ]
}
