//! The suites of the store cluster.
use crate::gen::{gen_cases, Cols, Family};
use crate::crash::run_crash;
use crate::hist::run_history;
use lvharness::rng::Rng;
use lvharness::suite::{Case, Outcome, Suite};
use lvharness::sx::Sx;

pub struct HistSuite {
    pub name: &'static str,
    pub salt: u64,
    pub fams: Vec<(Family, usize)>,
    pub thorough_scale: usize,
    /// fixed cases run on every check: the witnesses of the refutation lemmas of Props/*.v
    pub witnesses: Vec<(&'static str, String)>,
}

fn hx(s: &str) -> String {
    Sx::bytes(s.as_bytes()).to_string()
}

const OPTS0: &str = "(opts (combine 0) (max_wal_files 1000) (max_wal_size 67108864) (max_part_bytes 8388608) (io_threads 1) (flush_threads 1))";

/// Props/C07.v C07_compaction_loses_nulls_refuted: a = [10, NULL], one flush with factor 0
fn witness_f1() -> String {
    format!(
        "({} (ops (ingest (({} 2 (({} ((i 0) (i 1))) ({} ((i 10) n)))))) (flush)))",
        OPTS0, hx("t1"), hx("id"), hx("a")
    )
}

/// Props/C13.v C13_compaction_carries_all_refuted: ingest, flush, restart, ingest (no new column), flush
fn witness_f3() -> String {
    format!(
        "({} (ops (ingest (({} 1 (({} ((i 0))))))) (flush) (restart) (ingest (({} 1 (({} ((i 1))))))) (flush)))",
        OPTS0, hx("t1"), hx("id"), hx("t1"), hx("id")
    )
}

impl Suite for HistSuite {
    fn name(&self) -> &'static str {
        self.name
    }
    fn generate(&self, seed: u64, tier: &str) -> Vec<Case> {
        let mut cases: Vec<Case> = self
            .witnesses
            .iter()
            .map(|(class, input)| Case { class: class.to_string(), input: Sx::parse(input).expect("witness") })
            .collect();
        cases.extend(gen_cases(seed, self.salt, &self.fams, if tier == "thorough" { self.thorough_scale } else { 1 }));
        cases
    }
    fn run(&self, input: &Sx) -> Vec<Outcome> {
        run_history(input)
    }
}

/// C09: crash cuts of workloads over {ingest into 1-2 tables, flush with and without compaction, restart}
pub struct CrashSuite;

impl Suite for CrashSuite {
    fn name(&self) -> &'static str {
        "c09_crash"
    }
    fn generate(&self, seed: u64, tier: &str) -> Vec<Case> {
        let mut r = Rng::new(seed ^ 0xC09);
        let n = if tier == "thorough" { 20 } else { 8 };
        let mut cases = vec![];
        for i in 0..n {
            let with_restart = i % 2 == 0;
            // one workload in eight grows the catalogue: three flushes that merge nothing
            let cycles = i % 8 == 1;
            let f = Family {
                factors: if cycles { &[999] } else if with_restart { &[1, 4, 999] } else { &[0, 1, 4] },
                restarts: with_restart,
                evicts: false,
                max_ops: 6,
                flush_cycles: cycles,
                ..fam(if cycles { "crash-growing-catalogue" } else { "crash" })
            };
            let mut rr = r.fork(i as u64);
            let (class, input) = crate::gen::gen_history(&mut rr, &f);
            // the quick tier truncates the temp file of a log segment to 0% and 50%
            let trunc = if tier == "thorough" { vec![0u64, 1, 50, 99] } else { vec![0u64, 50] };
            let mut items = input.items().to_vec();
            let mut tv = vec![Sx::a("truncate")];
            tv.extend(trunc.into_iter().map(Sx::int));
            items.push(Sx::l(tv));
            items.push(Sx::l(vec![Sx::a("cap"), Sx::int(if tier == "thorough" { 60 } else { 32 })]));
            cases.push(Case { class, input: Sx::l(items) });
        }
        cases
    }
    fn run(&self, input: &Sx) -> Vec<Outcome> {
        run_crash(input)
    }
}

const ALL_FACTORS: &[u64] = &[0, 1, 4, 999];

fn fam(name: &'static str) -> Family {
    Family {
        name,
        cols: Cols::Fixed,
        nulls: false,
        hex: false,
        odd_names: false,
        compressible: false,
        strings: false,
        wide_ints: true,
        restarts: true,
        evicts: true,
        bursts: false,
        races: false,
        factors: ALL_FACTORS,
        odd_tables: false,
        odd_tables_compacting: false,
        null_first: false,
        mixed_case: false,
        blind: false,
        flush_cycles: false,
        wal_backlog: false,
        gap_nullable: false,
        reload_shape: false,
        tiny_wal: false,
        max_ops: 12,
    }
}

pub fn all() -> Vec<Box<dyn Suite>> {
    vec![
        Box::new(CrashSuite),
        // C08: dense tables, fixed column sets; restarts at every position relative to flushes
        Box::new(HistSuite {
            name: "c08_history",
            salt: 0xC08,
            fams: vec![
                (fam("dense"), 26),
                (Family { tiny_wal: true, bursts: true, max_ops: 10, ..fam("dense-bgflush") }, 22),
                (Family { factors: &[0], max_ops: 8, ..fam("dense-recompact") }, 8),
                (Family { odd_tables: true, factors: &[4, 999], max_ops: 9, ..fam("odd-table-names") }, 8),
                (Family { races: true, evicts: false, max_ops: 8, ..fam("ingest-flush-race") }, 10),
                (Family { wal_backlog: true, factors: &[4, 999], ..fam("wal-backlog-restart") }, 6),
            ],
            thorough_scale: 8,
            witnesses: vec![],
        }),
        // C18: ingest / flush cycles, every factor, tiny WAL limits, sub-partition limits
        Box::new(HistSuite {
            name: "c18_history",
            salt: 0xC18,
            fams: vec![
                (Family { restarts: false, evicts: false, ..fam("cycles") }, 26),
                (Family { restarts: false, evicts: false, tiny_wal: true, bursts: true, max_ops: 10, ..fam("cycles-bgflush") }, 24),
                (Family { odd_tables: true, evicts: false, factors: &[4, 999], max_ops: 9, ..fam("odd-table-names") }, 6),
                (Family { odd_tables_compacting: true, evicts: false, factors: &[1], max_ops: 9, ..fam("odd-table-names-compacting") }, 8),
            ],
            thorough_scale: 8,
            witnesses: vec![],
        }),
        // C13: column sets come and go
        Box::new(HistSuite {
            name: "c13_history",
            salt: 0xC13,
            fams: vec![
                (Family { cols: Cols::VaryWithin, odd_names: true, factors: &[999], ..fam("vary-within") }, 20),
                (Family { cols: Cols::VaryWithin, odd_names: true, factors: &[999], tiny_wal: true, max_ops: 10, ..fam("vary-within-bgflush") }, 12),
                (Family { cols: Cols::VaryAcross, odd_names: true, factors: &[1, 4], ..fam("vary-across") }, 16),
                (Family { cols: Cols::VaryAcross, odd_names: true, factors: &[0], max_ops: 8, ..fam("vary-across-recompact") }, 4),
                (Family { cols: Cols::VaryWithin, odd_tables: true, factors: &[999], max_ops: 9, ..fam("odd-table-names") }, 4),
                (Family { cols: Cols::VaryWithin, null_first: true, factors: &[999], max_ops: 9, ..fam("null-first-columns") }, 6),
                (Family { mixed_case: true, factors: &[1, 4, 999], max_ops: 8, ..fam("mixed-case-subpartitions") }, 6),
                (Family { blind: true, factors: &[0, 1], ..fam("absent-columns-blind") }, 4),
                (Family { cols: Cols::VaryAcross, odd_names: true, compressible: true, factors: &[0, 1], restarts: false, max_ops: 6, ..fam("long-compressible-names") }, 2),
            ],
            thorough_scale: 8,
            witnesses: vec![("vary-across-recompact/witness-F3/restart", witness_f3())],
        }),
        // C07: maintenance steps on NULL-heavy / absent / hex-packed columns
        Box::new(HistSuite {
            name: "c07_history",
            salt: 0xC07,
            fams: vec![
                (Family { restarts: true, ..fam("dense") }, 10),
                (Family { cols: Cols::VaryAcross, factors: &[1, 4, 999], ..fam("absent-columns") }, 10),
                (Family { cols: Cols::VaryWithin, nulls: true, factors: &[999], ..fam("nulls-no-compaction") }, 8),
                (Family { blind: true, factors: &[0, 1], ..fam("absent-columns-blind") }, 3),
                (Family { gap_nullable: true, factors: &[2], ..fam("dense-gap-nullable") }, 6),
                (Family { mixed_case: true, factors: &[1, 4, 999], max_ops: 8, ..fam("mixed-case-subpartitions") }, 5),
                (Family { odd_tables: true, reload_shape: true, factors: &[4, 999], max_ops: 8, ..fam("odd-table-names") }, 5),
                (Family { cols: Cols::VaryWithin, nulls: true, factors: &[0, 1, 4], max_ops: 8, ..fam("nulls-compaction") }, 6),
                (Family { strings: true, factors: &[1, 4, 999], restarts: false, ..fam("strings") }, 5),
                (Family { factors: &[0, 1, 4], ..fam("wide-ints") }, 4),
                (Family { strings: true, hex: true, factors: &[0, 1], restarts: false, max_ops: 6, ..fam("hex-strings") }, 3),
                (Family { strings: true, compressible: true, factors: &[0, 1], restarts: false, max_ops: 6, ..fam("compressible-strings") }, 2),
            ],
            thorough_scale: 8,
            witnesses: vec![("nulls-compaction/witness-F1", witness_f1()), ("dense/witness-F3/restart", witness_f3())],
        }),
    ]
}
