//! Generators of histories over {ingest, burst, flush, evict, restart} and of database options.
use crate::child::name_sx;
use lvharness::rng::Rng;
use lvharness::suite::Case;
use lvharness::sx::Sx;
use std::collections::BTreeMap;

fn a(s: &str) -> Sx {
    Sx::a(s)
}
fn l(v: Vec<Sx>) -> Sx {
    Sx::l(v)
}

#[derive(Clone, Copy, PartialEq, Debug)]
pub enum Cols {
    /// every batch of a table carries the same columns, no NULL cell anywhere
    Fixed,
    /// the column set of a table changes only at partition boundaries (after a flush of that table)
    VaryAcross,
    /// every batch picks its own subset of the pool
    VaryWithin,
}

#[derive(Clone, Debug)]
pub struct Family {
    pub name: &'static str,
    pub cols: Cols,
    /// NULL cells inside columns a batch does carry
    pub nulls: bool,
    /// string columns that the column builder hex-packs
    pub hex: bool,
    /// column names differing only in case, non-ASCII, longer than 64 bytes, sorting first / last
    pub odd_names: bool,
    /// long repetitive strings / names: packed-string columns that get LZ4-compressed
    pub compressible: bool,
    /// integer values spread over more than 8 bits (u16 / u32 columns)
    pub wide_ints: bool,
    /// string-valued columns (packed-string columns of ordinary words also compress once a merged
    /// partition is large enough - finding F28 - so only dedicated families carry them)
    pub strings: bool,
    pub restarts: bool,
    pub evicts: bool,
    pub bursts: bool,
    /// steps in which a forced flush starts while one ingestion holds the ingestion lock and
    /// another one may be queued behind it
    pub races: bool,
    pub factors: &'static [u64],
    /// table names the storage layer has to sanitise for the file system: names differing only in
    /// case, with '/' or ' ', with a leading '-' or '.', longer than 189 bytes, non-ASCII - always
    /// three names that sanitise to the same stem, so that only the hash suffix tells them apart.
    /// (Six similar strings in _meta_tables.name compress, and compacting such a column is the
    /// open finding F28: these families run with factors under which _meta_tables is not compacted.)
    pub odd_tables: bool,
    /// odd table names that do not resemble each other (so that _meta_tables.name does not compress
    /// and the table can be compacted without meeting F28), io_threads = 4
    pub odd_tables_compacting: bool,
    /// a column is often all-NULL in the batch that mentions it first (ColumnData::Empty)
    pub null_first: bool,
    /// eight columns whose names alternate in case (a0 B1 c2 D3 ...): byte order and case-insensitive
    /// order differ; with max_partition_size_bytes of a few columns (8..30 bytes: a column of a
    /// few small integers has a heap size of 3..12 bytes) every partition is several multi-column files
    pub mixed_case: bool,
    /// flushed partitions, then - with no query in between, so that nothing is resident - restart,
    /// a batch without one of the columns, a compacting flush; content is read only afterwards
    pub blind: bool,
    /// the first request (for every table) is flushed, then the cache is evicted or the database
    /// restarted, then read: the evict / reload path on every table
    pub reload_shape: bool,
    /// three flushed partitions of one table in which a float column is dense, then absent for 8 /
    /// 16 / 24 rows, then NULL in every other row; factor 2 leaves the first two alone and merges all
    /// three at the third flush (the rebuild appends a null map to a builder whose bitmap exists and
    /// whose length is a multiple of 8)
    pub gap_nullable: bool,
    /// K = 3..8 requests of very different sizes with no flush (the first lifetime has
    /// max_wal_files 1000), then a restart into max_wal_files 1 or 2 - the new lifetime starts with a
    /// log over its limit and flushes on its own - then a second restart, content read after each
    pub wal_backlog: bool,
    /// three rounds of (request for every table, flush): with a factor that does not merge, every
    /// table ends with three partitions - the catalogue file of the last flush is the longest
    pub flush_cycles: bool,
    /// small max_wal_files / max_wal_size_bytes so that background flushes fire
    pub tiny_wal: bool,
    pub max_ops: usize,
}

const WORDS: [&str; 8] = ["north", "south", "quartz", "zulu", "yankee-7", "kilo", "Upper Case", "mañana"];
const FLOATS: [f64; 6] = [0.5, 1.0, -2.25, 1e10, 3.0, 1234.5678];

/// a name longer than 64 bytes; the repetitive variant is what LZ4 compresses below 0.9 (finding F28)
fn long_name(compressible: bool) -> String {
    if compressible {
        let mut s = String::from("long_");
        while s.len() < 70 {
            s.push_str("abcdefghij");
        }
        s
    } else {
        "long_qwertyuiopasdfghjklzxcvbnm0123456789_mnbvcxzlkjhgfdsapoiuytrewq9876543210".to_string()
    }
}

/// (name, kind) kind: 0 int, 1 string, 2 float
const MIXED_CASE: [&str; 8] = ["a0", "B1", "c2", "D3", "e4", "F5", "g6", "H7"];

fn pool(odd: bool, compressible: bool) -> Vec<(String, u8)> {
    let mut v = vec![("a".to_string(), 0u8), ("b".to_string(), 1), ("c".to_string(), 2), ("d".to_string(), 0), ("u".to_string(), 3)];
    if odd {
        v.push(("A".to_string(), 0));
        v.push(("é".to_string(), 1));
        v.push((long_name(compressible), 0));
        v.push(("!first".to_string(), 0));
        v.push(("~last".to_string(), 1));
        v.push(("_meta_like".to_string(), 0));
    }
    v
}

fn cell(r: &mut Rng, kind: u8, hex: bool, compressible: bool, wide: bool, row_id: i64) -> Sx {
    match kind {
        0 => {
            // integer columns whose range needs u16 / u32 storage get LZ4-compressed; until e838f01
            // compaction could not decode them (finding F29, fixed) - every family carries them now
            let v = match r.below(6) {
                0 => r.range(-3, 3),
                1 if wide => r.range(-100000, 100000),
                2 if wide => 1_700_000_000 + row_id,
                _ => r.range(0, 50),
            };
            l(vec![a("i"), Sx::int(v)])
        }
        1 => {
            let s = if hex {
                format!("{:012x}", r.next() & 0xffff_ffff_ffff)
            } else if compressible {
                format!("{}{}", "abcdefghij".repeat(7), row_id)
            } else {
                WORDS[r.below(WORDS.len() as u64) as usize].to_string()
            };
            l(vec![a("s"), Sx::bytes(s.as_bytes())])
        }
        3 => {
            // a NULL-free non-negative column whose maximum lies in [2^31, 2^32): stored as u32 with no
            // offset; the values must come back unsigned from every rebuild
            let v = match r.below(4) {
                0 => r.range(0, 50),
                1 => 2_147_483_648 + r.range(0, 1000),
                _ => 2_147_483_648 + r.range(70_000, 2_000_000_000),
            };
            l(vec![a("i"), Sx::int(v)])
        }
        _ => l(vec![a("f"), Sx::int(FLOATS[r.below(FLOATS.len() as u64) as usize].to_bits())]),
    }
}

/// groups of table names with one stem after sanitising
pub fn odd_table_groups() -> Vec<Vec<String>> {
    let v = |x: &[&str]| x.iter().map(|s| s.to_string()).collect::<Vec<String>>();
    vec![
        v(&["Events", "EVENTS", "events"]),
        v(&["a/b", "a b", "ab"]),
        v(&["-lead", ".lead", "lead"]),
        v(&["t\u{eb}st", "t\u{e9}st", "tst"]),
        v(&["\u{65e5}\u{672c}", "\u{8a9e}", "--"]),
        vec!["L".repeat(200), "l".repeat(200), format!("{}{}", "l".repeat(189), "M".repeat(9))],
    ]
}

pub struct HistGen<'f> {
    pub fam: &'f Family,
    pub tables: Vec<String>,
    /// (table, column) pairs some batch mentioned already
    pub seen: std::collections::BTreeSet<(String, String)>,
    pub next_id: BTreeMap<String, i64>,
    /// current column set per table (Fixed / VaryAcross)
    pub cur_cols: BTreeMap<String, Vec<(String, u8)>>,
    /// tables whose open buffer holds rows (VaryAcross: their column set must not change)
    pub dirty: BTreeMap<String, bool>,
}

impl<'f> HistGen<'f> {
    fn pick_cols(&self, r: &mut Rng) -> Vec<(String, u8)> {
        if self.fam.mixed_case {
            // most of the eight, so that files hold several columns of both cases
            let mut v = vec![];
            for n in MIXED_CASE.iter() {
                if r.chance(5, 6) {
                    // small integers only: 3..5 bytes per column, so that a file holds 2..4 columns
                    v.push((n.to_string(), 0u8));
                }
            }
            return v;
        }
        let p = pool(self.fam.odd_names, self.fam.compressible);
        let strings = self.fam.strings;
        let mut v: Vec<(String, u8)> =
            p.into_iter().filter(|_| r.chance(1, 2)).map(|(n, k)| if k == 1 && !strings { (n, 0) } else { (n, k) }).collect();
        if v.len() > 5 {
            v.truncate(5);
        }
        v
    }

    fn table_batch(&mut self, r: &mut Rng, t: &str) -> Sx {
        let nrows = if self.fam.mixed_case { r.usize(3, 5) } else { r.usize(1, 4) };
        let cols: Vec<(String, u8)> = match self.fam.cols {
            Cols::Fixed => {
                if !self.cur_cols.contains_key(t) {
                    let mut c = self.pick_cols(r);
                    if c.is_empty() {
                        c.push(("a".into(), 0));
                    }
                    self.cur_cols.insert(t.to_string(), c);
                }
                self.cur_cols[t].clone()
            }
            Cols::VaryAcross => {
                let dirty = *self.dirty.get(t).unwrap_or(&false);
                if !dirty || !self.cur_cols.contains_key(t) {
                    let c = self.pick_cols(r);
                    self.cur_cols.insert(t.to_string(), c);
                }
                self.cur_cols[t].clone()
            }
            Cols::VaryWithin => self.pick_cols(r),
        };
        self.dirty.insert(t.to_string(), true);
        let start = *self.next_id.get(t).unwrap_or(&0);
        self.next_id.insert(t.to_string(), start + nrows as i64);
        let mut cv = vec![l(vec![
            name_sx("id"),
            l((0..nrows).map(|i| l(vec![a("i"), Sx::int(start + i as i64)])).collect()),
        ])];
        for (c, k) in cols {
            let first_time = self.fam.null_first && self.seen.insert((t.to_string(), c.clone()));
            let all_null = (self.fam.nulls && r.chance(1, 8)) || (first_time && r.chance(1, 2));
            let cells = (0..nrows)
                .map(|i| {
                    if all_null || (self.fam.nulls && r.chance(1, 3)) {
                        a("n")
                    } else {
                        cell(r, k, self.fam.hex, self.fam.compressible && !self.fam.odd_names, self.fam.wide_ints && !self.fam.mixed_case, start + i as i64)
                    }
                })
                .collect();
            cv.push(l(vec![name_sx(&c), l(cells)]));
        }
        l(vec![name_sx(t), Sx::int(nrows), l(cv)])
    }

    fn batch(&mut self, r: &mut Rng) -> Sx {
        let tables = self.tables.clone();
        let mut chosen: Vec<&String> = tables.iter().filter(|_| r.chance(1, 2)).collect();
        if chosen.is_empty() {
            chosen.push(&tables[r.below(3) as usize]);
        }
        l(chosen.into_iter().map(|t| self.table_batch(r, t)).collect())
    }

    fn flushed(&mut self) {
        for v in self.dirty.values_mut() {
            *v = false;
        }
    }
}

pub fn gen_history(r: &mut Rng, fam: &Family) -> (String, Sx) {
    let mut factor = *r.pick(fam.factors);
    let tables: Vec<String> = if fam.odd_tables_compacting {
        let all = ["Run-7/Eval.Loss", "x y", "Q", ".Hidden", "caf\u{e9}", "-k"];
        let i = r.below(all.len() as u64) as usize;
        vec![all[i].to_string(), all[(i + 1) % all.len()].to_string(), all[(i + 3) % all.len()].to_string()]
    } else if fam.odd_tables {
        let gs = odd_table_groups();
        // (the group with a plain lower-case name next to its mixed-case twins: every third time)
        if r.chance(1, 3) {
            gs[0].clone()
        } else {
            gs[r.below(gs.len() as u64) as usize].clone()
        }
    } else {
        vec!["t1".into(), "t2".into(), "t3".into()]
    };
    if tables[0].len() > 100 {
        // six catalogue strings sharing a 189-byte stem compress: compacting _meta_tables would run
        // into the open finding F28, so these names are exercised without compaction
        factor = 999;
    }
    let (max_files, max_size) = if fam.tiny_wal {
        (*r.pick(&[0u64, 1, 2, 1000]), *r.pick(&[0u64, 1, 300, 700, 64 << 20]))
    } else {
        (1000, 64 << 20)
    };
    let bg = max_files < 1000 || max_size < (64 << 20);
    // every fourth history with a tiny log: the limit is exactly the size of the first segment
    let exact_limit = fam.tiny_wal && r.chance(1, 4);
    let max_part = if fam.mixed_case { *r.pick(&[10u64, 14, 20]) } else { *r.pick(&[8u64 << 20, 8 << 20, 1, 40]) };
    let io = if fam.odd_tables_compacting { 4 } else { *r.pick(&[1u64, 4]) };
    let ft = *r.pick(&[1u64, 4]);
    let opts = vec![
        a("opts"),
        l(vec![a("combine"), Sx::int(factor)]),
        l(vec![a("max_wal_files"), Sx::int(max_files)]),
        if exact_limit { l(vec![a("max_wal_size"), a("first-segment")]) } else { l(vec![a("max_wal_size"), Sx::int(max_size)]) },
        l(vec![a("max_part_bytes"), Sx::int(max_part)]),
        l(vec![a("io_threads"), Sx::int(io)]),
        l(vec![a("flush_threads"), Sx::int(ft)]),
    ];
    let mut g = HistGen { fam, tables, seen: Default::default(), next_id: BTreeMap::new(), cur_cols: BTreeMap::new(), dirty: BTreeMap::new() };
    if fam.blind {
        // one table, columns a b (and sometimes c); the batch after the restart lacks b
        let t = g.tables[0].clone();
        let mut full: Vec<(String, u8)> = vec![("a".into(), 0), ("b".into(), if r.chance(1, 2) { 2 } else { 0 })];
        if r.chance(1, 2) {
            full.push(("c".into(), 0));
        }
        let without_b: Vec<(String, u8)> = full.iter().filter(|(n, _)| n != "b").cloned().collect();
        let mut ops = vec![a("ops")];
        for _ in 0..r.usize(2, 3) {
            g.cur_cols.insert(t.clone(), full.clone());
            ops.push(l(vec![a("ingest"), l(vec![g.table_batch(r, &t)])]));
            ops.push(l(vec![a("flush")]));
        }
        ops.push(l(vec![a("blind"), l(vec![a("restart")])]));
        g.cur_cols.insert(t.clone(), without_b);
        ops.push(l(vec![a("blind"), l(vec![a("ingest"), l(vec![g.table_batch(r, &t)])])]));
        ops.push(l(vec![a("blind"), l(vec![a("flush")])]));
        ops.push(l(vec![a("evict")]));
        ops.push(l(vec![a("restart")]));
        let class = format!("{}/f{}/forced/restart", fam.name, factor);
        return (class, l(vec![l(opts), l(ops)]));
    }
    if fam.gap_nullable {
        let t = g.tables[0].clone();
        let k = *r.pick(&[8usize, 16, 24]);
        let n1 = k + 8 * r.usize(0, 1);
        let n3 = *r.pick(&[k, k + 3, 2 * k]);
        let stride = *r.pick(&[2usize, 3]);
        let mk = |start: usize, n: usize, f_mode: u8, r: &mut Rng| -> Sx {
            // f_mode 0: dense, 1: absent, 2: NULL in the rows whose index is not a multiple of stride
            let ids: Vec<Sx> = (0..n).map(|i| l(vec![a("i"), Sx::int((start + i) as i64)])).collect();
            let pad: Vec<Sx> = (0..n).map(|i| l(vec![a("i"), Sx::int(13_000_000_091i64 * (start + i) as i64)])).collect();
            let mut cols = vec![l(vec![name_sx("id"), l(ids)]), l(vec![name_sx("pad"), l(pad)])];
            if f_mode != 1 {
                let f: Vec<Sx> = (0..n)
                    .map(|i| {
                        if f_mode == 2 && (start + i) % stride != 0 {
                            a("n")
                        } else {
                            l(vec![a("f"), Sx::int(FLOATS[r.below(FLOATS.len() as u64) as usize].to_bits())])
                        }
                    })
                    .collect();
                cols.push(l(vec![name_sx("f"), l(f)]));
            }
            l(vec![name_sx(&t), Sx::int(n), l(cols)])
        };
        let mut ops = vec![a("ops")];
        ops.push(l(vec![a("ingest"), l(vec![mk(0, n1, 0, r)])]));
        ops.push(l(vec![a("flush")]));
        ops.push(l(vec![a("ingest"), l(vec![mk(n1, k, 1, r)])]));
        ops.push(l(vec![a("flush")]));
        ops.push(l(vec![a("ingest"), l(vec![mk(n1 + k, n3, 2, r)])]));
        ops.push(l(vec![a("flush")]));
        ops.push(l(vec![a("evict")]));
        ops.push(l(vec![a("restart")]));
        let class = format!("{}/f{}/k{}/forced/restart", fam.name, factor, k);
        return (class, l(vec![l(opts), l(ops)]));
    }
    if fam.wal_backlog {
        let k = r.usize(3, 8);
        let mut ops = vec![a("ops")];
        let mut next: BTreeMap<String, usize> = BTreeMap::new();
        for j in 0..k {
            let t = g.tables[r.below(2) as usize].clone();
            let n = if j == 0 { 5 } else { *r.pick(&[3usize, 40, 400, 1500]) };
            let start = *next.get(&t).unwrap_or(&0);
            next.insert(t.clone(), start + n);
            let ids: Vec<Sx> = (0..n).map(|i| l(vec![a("i"), Sx::int((start + i) as i64)])).collect();
            let va: Vec<Sx> = (0..n).map(|i| l(vec![a("i"), Sx::int(((start + i) as i64 * 7919) % 100_003)])).collect();
            let vc: Vec<Sx> = (0..n).map(|i| l(vec![a("f"), Sx::int((0.5 + (start + i) as f64 * 1.25).to_bits())])).collect();
            let tb = l(vec![name_sx(&t), Sx::int(n), l(vec![l(vec![name_sx("id"), l(ids)]), l(vec![name_sx("a"), l(va)]), l(vec![name_sx("c"), l(vc)])])]);
            ops.push(l(vec![a("ingest"), l(vec![tb])]));
        }
        ops.push(l(vec![a("restart")]));
        ops.push(l(vec![a("restart")]));
        ops.push(l(vec![a("evict")]));
        let lim = *r.pick(&[1u64, 2]);
        let opts = vec![
            a("opts"),
            l(vec![a("combine"), Sx::int(factor)]),
            l(vec![a("max_wal_files"), Sx::int(lim)]),
            l(vec![a("first_life_wal_files"), Sx::int(1000)]),
            l(vec![a("max_wal_size"), Sx::int(64u64 << 20)]),
            l(vec![a("max_part_bytes"), Sx::int(8u64 << 20)]),
            l(vec![a("io_threads"), Sx::int(io)]),
            l(vec![a("flush_threads"), Sx::int(ft)]),
        ];
        let class = format!("{}/f{}/k{}/bg/restart", fam.name, factor, k);
        return (class, l(vec![l(opts), l(ops)]));
    }
    if fam.flush_cycles {
        let mut ops = vec![a("ops")];
        for _ in 0..3 {
            let ts = g.tables.clone();
            ops.push(l(vec![a("ingest"), l(ts.iter().map(|t| g.table_batch(r, t)).collect())]));
            ops.push(l(vec![a("flush")]));
        }
        let class = format!("{}/f{}/forced", fam.name, factor);
        return (class, l(vec![l(opts), l(ops)]));
    }
    let n_ops = r.usize(3, fam.max_ops);
    let mut ops = vec![a("ops")];
    let mut restarts = 0;
    let mut ingests = 0;
    for i in 0..n_ops {
        let k = r.below(100);
        let op = if (fam.mixed_case || fam.reload_shape) && i == 1 {
            // the first request is flushed and then read back from the files
            g.flushed();
            l(vec![a("flush")])
        } else if (fam.mixed_case || fam.reload_shape) && i == 2 {
            if r.chance(1, 2) && fam.restarts {
                restarts += 1;
                l(vec![a("restart")])
            } else {
                l(vec![a("evict")])
            }
        } else if i == 0 && (fam.odd_tables_compacting || fam.reload_shape) {
            // every table is created by the first request: _meta_tables then has one partition for
            // good and is never compacted (its name column compresses: F28), the others are
            ingests += 1;
            let ts = g.tables.clone();
            l(vec![a("ingest"), l(ts.iter().map(|t| g.table_batch(r, t)).collect())])
        } else if i == 0 || (k < 45 && !(fam.races && i == 1)) {
            ingests += 1;
            l(vec![a("ingest"), g.batch(r)])
        } else if k < 52 && fam.bursts {
            let n = r.usize(2, 4);
            let bs = (0..n).map(|_| g.batch(r)).collect();
            ingests += n;
            l(vec![a("burst"), l(bs)])
        } else if (k < 66 || i == 1) && fam.races {
            let mut v = vec![a("race"), g.batch(r)];
            if r.chance(2, 3) {
                v.push(g.batch(r));
            }
            ingests += v.len() - 1;
            g.flushed();
            l(v)
        } else if k < 75 {
            g.flushed();
            l(vec![a("flush")])
        } else if k < 90 && fam.restarts {
            restarts += 1;
            l(vec![a("restart")])
        } else if fam.evicts {
            l(vec![a("evict")])
        } else {
            g.flushed();
            l(vec![a("flush")])
        };
        ops.push(op);
    }
    let _ = ingests;
    let class = format!(
        "{}/f{}/{}{}",
        fam.name,
        factor,
        if exact_limit { "bg-exact-limit" } else if bg { "bg" } else { "forced" },
        if restarts > 0 { "/restart" } else { "" }
    );
    (class, l(vec![l(opts), l(ops)]))
}

pub fn gen_cases(seed: u64, salt: u64, fams: &[(Family, usize)], scale: usize) -> Vec<Case> {
    let mut r = Rng::new(seed ^ salt);
    let mut cases = vec![];
    for (fam, n) in fams {
        for _ in 0..(n * scale) {
            let mut rr = r.fork(cases.len() as u64);
            let (class, input) = gen_history(&mut rr, fam);
            cases.push(Case { class, input });
        }
    }
    cases
}
