//! C09: crash cuts.  A workload over {ingest, flush, restart} runs in a child whose fs_effect hook
//! copies the database directory after every primitive file effect (create, write, sync, rename,
//! remove, mkdir).  Every copy - and, for the temp file of a write, truncated variants of it - is
//! opened by a fresh child under a deadline; what it serves must be the acknowledged requests or
//! those plus the request in flight, whole across all its tables (catalogue tables included).
//! The recovery of a copy is itself run with the hook, and the copies taken at its own effects are
//! opened once more.
use crate::child::{copy_tree, list_tree, name_sx, sx_name};
use crate::dbproc::{DbProc, Reply, Scratch};
use crate::hist::{linearise, lvsig, model_cfg, parse_disk, parse_dump, Dump, Lin};
use lvharness::suite::Outcome;
use lvharness::sx::Sx;
use std::collections::{BTreeMap, BTreeSet};
use std::path::{Path, PathBuf};
use std::time::Duration;

fn lst(v: Vec<Sx>) -> Sx {
    Sx::l(v)
}
fn a(s: &str) -> Sx {
    Sx::a(s)
}

/// what a database is expected to serve
#[derive(Clone, Default, PartialEq, Debug)]
pub struct Logical {
    pub rows: BTreeMap<String, Vec<BTreeMap<String, Sx>>>,
    pub cols: BTreeMap<String, BTreeSet<String>>,
}

impl Logical {
    pub fn apply(&mut self, tables: &[Sx]) {
        for t in tables {
            let it = t.items();
            let name = sx_name(&it[0]);
            let n = it[1].as_usize();
            let seen = self.cols.entry(name.clone()).or_default();
            for c in it[2].items() {
                seen.insert(sx_name(&c.items()[0]));
            }
            let rows = self.rows.entry(name).or_default();
            for i in 0..n {
                let mut r = BTreeMap::new();
                for c in it[2].items() {
                    let ci = c.items();
                    r.insert(sx_name(&ci[0]), ci[1].items()[i].clone());
                }
                rows.push(r);
            }
        }
    }

    /// None when the dump is exactly this state; Some(reason) otherwise
    pub fn differs(&self, d: &Dump, spec: &BTreeMap<String, Vec<String>>) -> Option<String> {
        for (t, cols) in spec {
            let exp: Vec<Vec<Sx>> = self
                .rows
                .get(t)
                .map(|rs| rs.iter().map(|r| cols.iter().map(|c| r.get(c).cloned().unwrap_or_else(|| a("n"))).collect()).collect())
                .unwrap_or_default();
            let got: Vec<Vec<Sx>> = match d.content.get(t) {
                Some(Ok(rows)) => {
                    let mut rows = rows.clone();
                    rows.sort_by_key(|r| match r.first() {
                        Some(Sx::L(l)) if l.len() == 2 && l[0] == Sx::a("i") => l[1].as_i128(),
                        _ => i128::MAX,
                    });
                    rows
                }
                Some(Err(m)) if m.contains("does not exist") => vec![],
                Some(Err(m)) => return Some(format!("query on {} failed: {}", t, m)),
                None => vec![],
            };
            if got != exp {
                return Some(format!("table {}: {} rows expected, {} found (or cells differ)", t, exp.len(), got.len()));
            }
            // catalogue of the table
            let mut expc: Vec<String> = self.cols.get(t).map(|s| s.iter().cloned().collect()).unwrap_or_default();
            expc.sort();
            let gotc: Option<Vec<String>> = match d.meta_columns.get(t) {
                Some(Ok(rows)) => {
                    let mut v = vec![];
                    let mut ok = true;
                    for r in rows {
                        match r.first() {
                            Some(Sx::L(l)) if l.len() == 2 && l[0] == Sx::a("s") => v.push(sx_name(&l[1])),
                            _ => ok = false,
                        }
                    }
                    v.sort();
                    if ok {
                        Some(v)
                    } else {
                        None
                    }
                }
                Some(Err(m)) if m.contains("does not exist") => Some(vec![]),
                _ => None,
            };
            if gotc != Some(expc.clone()) {
                return Some(format!("catalogue of {}: expected {:?}, found {:?}", t, expc, gotc));
            }
        }
        let mut expt: Vec<String> = vec![];
        for t in self.rows.keys() {
            expt.push(t.clone());
            expt.push(format!("_meta_columns_{}", t));
        }
        expt.sort();
        let gott: Option<Vec<String>> = match &d.meta_tables {
            Ok(rows) => {
                let mut v = vec![];
                for r in rows {
                    if let Some(Sx::L(l)) = r.first() {
                        if l.len() == 2 && l[0] == Sx::a("s") {
                            v.push(sx_name(&l[1]));
                        }
                    }
                }
                v.sort();
                Some(v)
            }
            Err(_) => None,
        };
        if gott != Some(expt.clone()) {
            return Some(format!("_meta_tables: expected {:?}, found {:?}", expt, gott));
        }
        None
    }
}

pub struct Cut {
    pub dir: PathBuf,
    pub op_index: usize,
    pub op_kind: String,
    pub effect: String,
    /// relative path of the file the effect touched
    pub path: String,
    pub allowed: Vec<Logical>,
    /// (cuts of an ingestion) the segment file already has its final name
    pub segment_renamed: bool,
}

/// deadline of one request of the workload phase (the child copies the directory after every effect;
/// a silent 15 s deadline proved too short on a machine under load and is not a hang)
const WORKLOAD_DEADLINE: Duration = Duration::from_secs(90);

#[derive(Default)]
pub struct CrashStats {
    pub cuts: usize,
    pub opened: usize,
    pub hangs_wal_temp: usize,
    pub inflight_visible: usize,
    pub second_level: usize,
    pub continued: usize,
}

fn wal_temp_present(dir: &Path) -> bool {
    list_tree(dir).iter().any(|f| f.starts_with("wal/") && !(f.ends_with(".wal") && !f.contains("..")))
}

fn spec_sx(spec: &BTreeMap<String, Vec<String>>) -> Sx {
    lst(spec.iter().map(|(t, cols)| lst(vec![name_sx(t), lst(cols.iter().map(|c| name_sx(c)).collect())])).collect())
}

fn part_id_of(file: &str) -> Option<u64> {
    let f = file.split('_').next()?;
    if f.len() == 5 {
        f.parse().ok()
    } else {
        None
    }
}

/// the effects recovery can tell apart, grouped and sorted like the model prints them
/// (ocaml/store/lvmodel.ml: store_effects)
fn canonical_trace(entries: &[Sx], snapdir: &Path) -> Sx {
    let mut out: Vec<(u8, Sx)> = vec![];
    let mut seen: BTreeSet<String> = BTreeSet::new();
    for e in entries {
        let it = e.items();
        let n = it[0].as_usize();
        let op = it[1].atom();
        let path = sx_name(&it[2]);
        let to = it[3].as_opt().map(sx_name);
        let wal_tmp_id = path
            .strip_prefix("wal/")
            .and_then(|r| r.strip_suffix("..INCOMPLETE"))
            .and_then(|x| x.parse::<u64>().ok());
        let item = match (op, wal_tmp_id, &to) {
            ("create", Some(id), _) => Some((0, lst(vec![a("waltmp-create"), Sx::int(id)]))),
            ("write", Some(id), _) => Some((1, lst(vec![a("waltmp-write"), Sx::int(id)]))),
            ("rename", Some(id), _) => Some((2, lst(vec![a("wal-rename"), Sx::int(id)]))),
            ("remove", Some(_), _) => Some((6, lst(vec![a("waltmp-remove")]))),
            ("rename", None, Some(t)) if t == "meta" => {
                // the cursor the new catalogue file holds
                let (m, _) = parse_disk(&crate::child::disk_sx(&snapdir.join(format!("{}", n))));
                let c = match m {
                    Ok(Some((c, _))) => c as i64,
                    _ => -1,
                };
                Some((4, lst(vec![a("meta"), Sx::int(c)])))
            }
            ("rename", None, Some(t)) if t.starts_with("tables/") => {
                let mut parts = t["tables/".len()..].splitn(2, '/');
                let table = parts.next().unwrap_or("");
                let file = parts.next().unwrap_or("");
                part_id_of(file).map(|id| (3, lst(vec![a("store"), name_sx(table), Sx::int(id)])))
            }
            ("remove", None, _) if path.starts_with("tables/") => {
                let mut parts = path["tables/".len()..].splitn(2, '/');
                let table = parts.next().unwrap_or("");
                let file = parts.next().unwrap_or("");
                part_id_of(file).map(|id| (5, lst(vec![a("rmpart"), name_sx(table), Sx::int(id)])))
            }
            ("remove", None, _) if path.starts_with("wal/") => path["wal/".len()..]
                .strip_suffix(".wal")
                .and_then(|x| x.parse::<u64>().ok())
                .map(|id| (7, lst(vec![a("rmwal"), Sx::int(id)]))),
            _ => None,
        };
        if let Some((g, x)) = item {
            // several sub-partition files of one partition are one effect of the model
            if seen.insert(x.to_string()) {
                out.push((g, x));
            }
        }
    }
    // stable: groups in protocol order, members of a group by their printed form
    out.sort_by(|x, y| (x.0, x.1.to_string()).cmp(&(y.0, y.1.to_string())));
    lst(out.into_iter().map(|x| x.1).collect())
}

/// the order the proof of C09 rests on, read off the raw trace: partition files are renamed into
/// place before the catalogue file is, and nothing is removed before that
fn order_violation(entries: &[Sx]) -> Option<String> {
    let mut meta_at: Option<usize> = None;
    for (i, e) in entries.iter().enumerate() {
        let it = e.items();
        if it[1].atom() == "rename" && it[3].as_opt().map(sx_name).as_deref() == Some("meta") {
            meta_at = Some(i);
        }
    }
    let m = meta_at?;
    for (i, e) in entries.iter().enumerate() {
        let it = e.items();
        let op = it[1].atom();
        let path = sx_name(&it[2]);
        if op == "rename" && path.starts_with("tables/") && i > m {
            return Some(format!("partition file {} renamed into place after the catalogue file", path));
        }
        if op == "remove" && i < m {
            return Some(format!("{} removed before the catalogue file was replaced", path));
        }
    }
    None
}

/// open a copy of `dir`, report what it serves; `snap`: directory for the copies taken at the
/// recovery's own effects
fn reopen(
    dir: &Path,
    opts: &[Sx],
    spec: &BTreeMap<String, Vec<String>>,
    snap: Option<&Path>,
    remake: Option<&dyn Fn()>,
) -> Result<(Dump, usize), (String, String)> {
    // a failure with a panic on stderr is the outcome; a silent timeout is tried once more on a
    // freshly made copy (the machine may be busy), with nothing else changed
    let r = reopen_once(dir, opts, spec, snap, false, None);
    match (r, remake) {
        (Err((sig, _)), Some(mk)) if sig.contains("no_panic_reported") => {
            mk();
            std::thread::sleep(Duration::from_millis(500));
            reopen_once(dir, opts, spec, snap, false, None)
        }
        (other, _) => other,
    }
}

/// after a successful recovery: is the database usable? (one more flush, content unchanged)
fn flush_probe(
    dir: &Path,
    opts: &[Sx],
    spec: &BTreeMap<String, Vec<String>>,
    ingest_first: Option<&Sx>,
) -> Result<(Dump, usize), (String, String)> {
    reopen_once(dir, opts, spec, None, true, ingest_first)
}

/// the request the continuation probe sends to the recovered database: three rows for a table of
/// its own.  (Rows for an existing table would share a new partition with replayed rows that carry
/// more columns; merging such a partition is the open finding F1.)
const CONT_TABLE: &str = "zcont";
fn continuation_batch() -> Sx {
    let ids: Vec<Sx> = (0..3).map(|i| lst(vec![a("i"), Sx::int(i)])).collect();
    lst(vec![lst(vec![name_sx(CONT_TABLE), Sx::int(3), lst(vec![lst(vec![name_sx("id"), lst(ids)])])])])
}

fn reopen_once(
    dir: &Path,
    opts: &[Sx],
    spec: &BTreeMap<String, Vec<String>>,
    snap: Option<&Path>,
    then_flush: bool,
    ingest_first: Option<&Sx>,
) -> Result<(Dump, usize), (String, String)> {
    let mut p = DbProc::spawn(dir);
    let mut cmd = vec![a("open")];
    cmd.extend(opts.iter().cloned());
    if let Some(s) = snap {
        cmd.push(lst(vec![a("snap"), name_sx(&s.to_string_lossy())]));
    }
    let r = p.request_quick_hang(&lst(cmd), Duration::from_secs(40), Duration::from_millis(1200));
    let fail = |p: &DbProc, kind: &str| {
        let pm = p.first_panic().unwrap_or_else(|| "no panic reported".into());
        (format!("{}:open:{}", kind, lvsig(&pm)), format!("opening the copy: {} ({})", kind, pm))
    };
    match r {
        Reply::Ok(s) if s.tag() == "ok" => {}
        Reply::Ok(s) => {
            // LocustDB::new panicked: the message of the first panic on stderr names the site (the
            // payload that reaches the caller is only the JoinHandle's `Any`)
            let m = if s.items().len() > 1 { sx_name(&s.items()[1]) } else { "?".into() };
            let pm = p.first_panic().unwrap_or_else(|| m.clone());
            return Err((format!("panic:open:{}", lvsig(&pm)), format!("opening the copy panicked: {} ({})", pm, m)));
        }
        Reply::Hang => return Err(fail(&p, "hang")),
        Reply::Died => return Err(fail(&p, "died")),
    }
    if let Some(b) = ingest_first {
        match p.request_quick_hang(&lst(vec![a("ingest"), b.clone()]), Duration::from_secs(40), Duration::from_millis(1200)) {
            Reply::Ok(s) if s.tag() == "ok" => {}
            Reply::Ok(s) => {
                let pm = p.first_panic().unwrap_or_else(|| if s.items().len() > 1 { sx_name(&s.items()[1]) } else { "?".into() });
                return Err((format!("panic:ingest-after-recovery:{}", lvsig(&pm)), format!("the first ingestion after the recovery panicked: {}", pm)));
            }
            Reply::Hang => {
                let pm = p.first_panic().unwrap_or_else(|| "no panic reported".into());
                return Err((format!("hang:ingest-after-recovery:{}", lvsig(&pm)), format!("the first ingestion after the recovery never returns ({})", pm)));
            }
            Reply::Died => return Err(fail(&p, "died")),
        }
    }
    if then_flush {
        match p.request_quick_hang(&lst(vec![a("flush")]), Duration::from_secs(40), Duration::from_millis(1200)) {
            Reply::Ok(s) if s.tag() == "ok" => {}
            Reply::Ok(s) => {
                let pm = p.first_panic().unwrap_or_else(|| if s.items().len() > 1 { sx_name(&s.items()[1]) } else { "?".into() });
                return Err((format!("panic:flush-after-recovery:{}", lvsig(&pm)), format!("the first flush after the recovery panicked: {}", pm)));
            }
            Reply::Hang => {
                let pm = p.first_panic().unwrap_or_else(|| "no panic reported".into());
                return Err((format!("hang:flush-after-recovery:{}", lvsig(&pm)), format!("the first flush after the recovery never returns ({})", pm)));
            }
            Reply::Died => return Err(fail(&p, "died")),
        }
    }
    let d = match p.request_quick_hang(&lst(vec![a("dump"), spec_sx(spec)]), Duration::from_secs(40), Duration::from_millis(1200)) {
        Reply::Ok(s) if s.tag() == "dump" => parse_dump(&s),
        Reply::Ok(s) => {
            let m = if s.items().len() > 1 { sx_name(&s.items()[1]) } else { "?".into() };
            return Err((format!("panic:dump:{}", lvsig(&m)), format!("querying the recovered copy panicked: {}", m)));
        }
        Reply::Hang => {
            let pm = p.first_panic().unwrap_or_else(|| "no panic reported".into());
            return Err((format!("hang:query-after-open:{}", lvsig(&pm)), format!("queries on the recovered copy hang ({})", pm)));
        }
        Reply::Died => return Err(fail(&p, "died")),
    };
    let n_eff = match p.request(&lst(vec![a("effects")]), Duration::from_secs(5)) {
        Reply::Ok(s) => s.items()[1].as_usize(),
        _ => 0,
    };
    p.close();
    Ok((d, n_eff))
}

pub fn run_crash(input: &Sx) -> Vec<Outcome> {
    let it = input.items();
    let opts: Vec<Sx> = it[0].items()[1..].to_vec();
    let ops: Vec<Sx> = it[1].items()[1..].to_vec();
    let truncations: Vec<u64> = it.get(2).map(|x| x.items()[1..].iter().map(|v| v.as_u64()).collect()).unwrap_or_else(|| vec![0, 50]);
    let db = Scratch::new("crash-db");
    let snaps = Scratch::new("crash-snap");
    let work = Scratch::new("crash-work");
    let mut outs: Vec<Outcome> = vec![];
    let mut stats = CrashStats::default();
    let mut violation = |sig: String, msg: String, outs: &mut Vec<Outcome>| {
        outs.push(Outcome { model: None, model_input: None, impl_out: None, oracle: Some(msg), signature: Some(sig), nontrivial: true });
    };

    // columns per table over the whole workload
    let mut spec: BTreeMap<String, Vec<String>> = BTreeMap::new();
    for o in &ops {
        if o.tag() == "ingest" {
            for t in o.items()[1].items() {
                let ti = t.items();
                let e = spec.entry(sx_name(&ti[0])).or_insert_with(|| vec!["id".to_string()]);
                for c in ti[2].items() {
                    let n = sx_name(&c.items()[0]);
                    if !e.contains(&n) {
                        e.push(n);
                    }
                }
            }
        }
    }

    // phase 1: run the workload, collect the cuts
    let mut cuts: Vec<Cut> = vec![];
    let mut acked = Logical::default();
    let mut life = 0usize;
    let open_cmd = |life: usize| {
        let mut cmd = vec![a("open")];
        cmd.extend(opts.iter().cloned());
        let sdir = snaps.path().join(format!("life{}", life));
        cmd.push(lst(vec![a("snap"), name_sx(&sdir.to_string_lossy())]));
        lst(cmd)
    };
    let mut p = DbProc::spawn(db.path());
    let mut alive = matches!(p.request(&open_cmd(life), WORKLOAD_DEADLINE), Reply::Ok(ref s) if s.tag() == "ok");
    if !alive {
        violation("workload:open-failed".into(), "could not open a fresh database".into(), &mut outs);
    }
    let mut n_seen = 0usize;
    let mut hops: Vec<Sx> = vec![];
    let mut traces: Vec<Sx> = vec![];
    let mut trace_ok = true;
    for (oi, op) in ops.iter().enumerate() {
        if !alive {
            break;
        }
        let kind = op.tag().to_string();
        let before = acked.clone();
        let ok = match kind.as_str() {
            "ingest" => {
                let r = p.request(op, WORKLOAD_DEADLINE);
                acked.apply(op.items()[1].items());
                matches!(r, Reply::Ok(ref s) if s.tag() == "ok")
            }
            "flush" => matches!(p.request(&lst(vec![a("flush")]), WORKLOAD_DEADLINE), Reply::Ok(ref s) if s.tag() == "ok"),
            "restart" => {
                let _ = p.request(&lst(vec![a("quiesce")]), Duration::from_secs(25));
                // effects of the lifetime that ends here were collected after each op
                p.close();
                life += 1;
                n_seen = 0;
                p = DbProc::spawn(db.path());
                matches!(p.request(&open_cmd(life), WORKLOAD_DEADLINE), Reply::Ok(ref s) if s.tag() == "ok")
            }
            _ => true,
        };
        if !ok {
            let pm = p.first_panic().unwrap_or_else(|| "no panic reported".into());
            violation(format!("workload:{}:{}", kind, lvsig(&pm)), format!("the workload's {} did not complete ({})", kind, pm), &mut outs);
            alive = false;
            break;
        }
        let _ = p.request(&lst(vec![a("quiesce")]), Duration::from_secs(25));
        // the operation as the model is to execute it (sizes from the storage hooks)
        if let Reply::Ok(ev) = p.request(&lst(vec![a("events")]), Duration::from_secs(10)) {
            let lin = linearise(ev.items()[1].items());
            match kind.as_str() {
                "ingest" => match lin.first() {
                    Some(Lin::Ingest { bytes, .. }) if lin.len() == 1 => {
                        hops.push(lst(vec![a("ingest"), Sx::int(*bytes), op.items()[1].clone()]))
                    }
                    _ => trace_ok = false,
                },
                "flush" => match lin.first() {
                    Some(Lin::Flush(f)) if lin.len() == 1 => {
                        let o = f.sizes.iter().map(|(t, (b, c))| lst(vec![name_sx(t), Sx::int(*b), Sx::int(*c)])).collect();
                        hops.push(lst(vec![a("flush"), Sx::boolean(false), lst(o)]))
                    }
                    _ => trace_ok = false,
                },
                "restart" => {
                    if lin.is_empty() {
                        hops.push(lst(vec![a("restart")]))
                    } else {
                        trace_ok = false
                    }
                }
                _ => {}
            }
        }
        let eff = match p.request(&lst(vec![a("effects")]), Duration::from_secs(10)) {
            Reply::Ok(s) => s,
            _ => {
                alive = false;
                break;
            }
        };
        traces.push(canonical_trace(eff.items()[2].items(), &snaps.path().join(format!("life{}", life))));
        if kind == "flush" {
            if let Some(why) = order_violation(eff.items()[2].items()) {
                violation("effect-order".into(), format!("flush (op {}): {}", oi, why), &mut outs);
            }
        }
        let mut renamed = false;
        for e in eff.items()[2].items() {
            let ei = e.items();
            let n = ei[0].as_usize();
            if n <= n_seen {
                continue;
            }
            n_seen = n;
            if ei[1].atom() == "rename" && sx_name(&ei[2]).starts_with("wal/") {
                renamed = true;
            }
            let allowed = if kind == "ingest" { vec![before.clone(), acked.clone()] } else { vec![acked.clone()] };
            cuts.push(Cut {
                dir: snaps.path().join(format!("life{}", life)).join(format!("{}", n)),
                op_index: oi,
                op_kind: kind.clone(),
                effect: ei[1].atom().to_string(),
                path: sx_name(&ei[2]),
                allowed,
                segment_renamed: renamed,
            });
        }
    }
    if alive {
        p.close();
    } else {
        p.kill();
    }

    // phase 2: every cut (and truncated variants of a freshly written temp file) is opened.
    // Cuts whose directory (names and sizes) equals one already judged for the same operation are
    // skipped; the quick tier caps the number of cuts per workload, keeping every cut of an
    // ingestion and an even sample of the others.
    let cap: usize = it.get(3).map(|x| x.items()[1].as_usize()).unwrap_or(usize::MAX);
    let mut seen_dirs: BTreeSet<(usize, Vec<(String, u64)>)> = BTreeSet::new();
    let mut selected: Vec<&Cut> = vec![];
    for cut in &cuts {
        let listing: Vec<(String, u64)> = list_tree(&cut.dir)
            .into_iter()
            .map(|f| {
                let len = std::fs::metadata(cut.dir.join(&f)).map(|m| m.len()).unwrap_or(0);
                (f, len)
            })
            .collect();
        if seen_dirs.insert((cut.op_index, listing)) || cut.effect == "write" {
            selected.push(cut);
        }
    }
    stats.cuts = cuts.len();
    let n_ingest = selected.iter().filter(|c| c.op_kind == "ingest").count();
    let others: Vec<&Cut> = selected.iter().cloned().filter(|c| c.op_kind != "ingest").collect();
    let room = cap.saturating_sub(n_ingest).max(8);
    let stride = if others.len() > room { (others.len() + room - 1) / room } else { 1 };
    let mut k = 0usize;
    let selected: Vec<&Cut> = selected
        .into_iter()
        .filter(|c| {
            if c.op_kind == "ingest" || (c.effect == "write" && c.path.starts_with("meta")) {
                // (the cut that leaves a completely written catalogue temp file behind is always kept)
                true
            } else {
                k += 1;
                (k - 1) % stride == 0
            }
        })
        .collect();
    let mut trace: Vec<Sx> = vec![];
    let mut variant_no = 0usize;
    let mut probed = [false; 4];
    // the cuts that leave a catalogue / partition temp file behind are probed at the last flush of
    // the workload (its catalogue is the longest, its partition files the most)
    let last_flush: usize = selected.iter().filter(|c| c.op_kind == "flush").map(|c| c.op_index).max().unwrap_or(0);
    for cut in selected {
        let mut variants: Vec<(String, Option<u64>)> = vec![("whole".into(), None)];
        if cut.effect == "write" && cut.path.starts_with("wal/") {
            for t in &truncations {
                variants.push((format!("truncated-{}pct", t), Some(*t)));
            }
        } else if cut.effect == "write" && (variant_no % 3 == 0) {
            variants.push(("truncated-50pct".into(), Some(50)));
        }
        for (vname, trunc) in variants {
            variant_no += 1;
            let v = work.path().join(format!("v{}", variant_no));
            let make = || {
                let _ = std::fs::remove_dir_all(&v);
                copy_tree(&cut.dir, &v);
                if let Some(pct) = trunc {
                    let f = v.join(&cut.path);
                    if let Ok(md) = std::fs::metadata(&f) {
                        let len = md.len() * pct / 100;
                        if let Ok(file) = std::fs::OpenOptions::new().write(true).open(&f) {
                            let _ = file.set_len(len);
                        }
                    }
                }
            };
            make();
            let has_wal_temp = wal_temp_present(&v);
            let snap2 = work.path().join(format!("s{}", variant_no));
            let res = reopen(&v, &opts, &spec, Some(&snap2), Some(&make));
            stats.opened += 1;
            let label = format!("{}#{}:{}:{}:{}", cut.op_kind, cut.op_index, cut.effect, cut.path.split('/').next().unwrap_or(""), vname);
            match res {
                Err((sig, msg)) => {
                    trace.push(lst(vec![a(&label), a("unrecoverable")]));
                    if has_wal_temp {
                        stats.hangs_wal_temp += 1;
                    }
                    violation(
                        format!("{}{}", sig, if has_wal_temp { ":wal-temp" } else { "" }),
                        format!("cut after {} of {} (op {} {}, {}): {}", cut.effect, cut.path, cut.op_index, cut.op_kind, vname, msg),
                        &mut outs,
                    );
                }
                Ok((d, n_eff)) => {
                    // Model/CrashSM.v, C09_ingest_cuts: while the segment still has its temporary name
                    // recovery gives exactly the acknowledged requests (the temp file is not read), once
                    // it is renamed exactly those plus the request in flight
                    let expected: Option<usize> =
                        if cut.op_kind == "ingest" && cut.allowed.len() == 2 { Some(if cut.segment_renamed { 1 } else { 0 }) } else { None };
                    let which = match expected {
                        Some(e) => {
                            if cut.allowed[e].differs(&d, &spec).is_none() {
                                Some(e)
                            } else {
                                None
                            }
                        }
                        None => cut.allowed.iter().position(|l| l.differs(&d, &spec).is_none()),
                    };
                    // the recovery removed the leftover (Storage::recover since 4e8886f)
                    if has_wal_temp && wal_temp_present(&v) {
                        violation(
                            "recovery-leaves-wal-temp".into(),
                            format!("cut after {} of {} (op {} {}, {}): the temporary file is still in wal/ after the recovery", cut.effect, cut.path, cut.op_index, cut.op_kind, vname),
                            &mut outs,
                        );
                    }
                    match which {
                        Some(i) => {
                            if cut.allowed.len() == 2 && i == 1 {
                                stats.inflight_visible += 1;
                            }
                            trace.push(lst(vec![a(&label), a(if cut.allowed.len() == 2 && i == 1 { "acked+inflight" } else { "acked" })]));
                        }
                        None => {
                            let why = match expected {
                                Some(e) => format!(
                                    "expected {}: {}",
                                    if e == 0 { "the acknowledged requests only (segment not yet renamed)" } else { "the acknowledged requests plus the one in flight (segment renamed)" },
                                    cut.allowed[e].differs(&d, &spec).unwrap_or_default()
                                ),
                                None => cut.allowed.last().unwrap().differs(&d, &spec).unwrap_or_default(),
                            };
                            trace.push(lst(vec![a(&label), a("wrong-content")]));
                            violation(
                                format!("crash-content:{}:{}{}", cut.op_kind, cut.effect, if has_wal_temp { ":wal-temp" } else { "" }),
                                format!(
                                    "cut after {} of {} (op {} {}, {}): recovered content is not what the cut allows: {}",
                                    cut.effect, cut.path, cut.op_index, cut.op_kind, vname, why
                                ),
                                &mut outs,
                            );
                        }
                    }
                    // crash during / right after the recovery: its own effects
                    for k in 1..=n_eff {
                        let d2 = snap2.join(format!("{}", k));
                        if !d2.exists() {
                            continue;
                        }
                        stats.second_level += 1;
                        match reopen(&d2, &opts, &spec, None, None) {
                            Err((sig, msg)) => violation(
                                format!("recovery-of-recovery:{}", sig),
                                format!("crash at effect {} of the recovery of the cut after {} of {}: {}", k, cut.effect, cut.path, msg),
                                &mut outs,
                            ),
                            Ok((dd, _)) => {
                                if !cut.allowed.iter().any(|l| l.differs(&dd, &spec).is_none()) {
                                    violation(
                                        "recovery-of-recovery:content".into(),
                                        format!("crash at effect {} of the recovery of the cut after {} of {} changes the content", k, cut.effect, cut.path),
                                        &mut outs,
                                    );
                                }
                            }
                        }
                    }
                    // is the recovered database usable: one more request, one flush (which merges the
                    // first table's partitions: its catalogue file is shorter than a leftover temp file
                    // of the interrupted one), then a clean restart - once per workload for each kind of
                    // leftover (log temp file, catalogue temp file, partition temp file, none)
                    let files = list_tree(&v);
                    let kind = if has_wal_temp {
                        0usize
                    } else if files.iter().any(|f| f.starts_with("meta..")) {
                        1
                    } else if files.iter().any(|f| f.starts_with("tables/") && f.contains("..INCOMPLETE")) {
                        2
                    } else if cut.op_kind == "flush" {
                        3
                    } else {
                        4
                    };
                    let eligible = if kind == 1 || kind == 2 { cut.op_index == last_flush && trunc.is_none() && cut.effect != "create" } else { true };
                    if kind < 4 && eligible && !probed[kind] {
                        probed[kind] = true;
                        // after a cut that left a catalogue / partition temp file the probe only flushes
                        // (with factor 0 every table is merged into one partition, so the catalogue file
                        // it writes is shorter than the leftover whenever a table had two partitions);
                        // after the other cuts it first sends a request for a table of its own
                        let cont: Option<Sx> = if kind == 0 || kind == 3 { Some(continuation_batch()) } else { None };
                        let mut allowed2: Vec<Logical> = cut.allowed.clone();
                        let mut spec = spec.clone();
                        if let Some(b) = &cont {
                            for l in allowed2.iter_mut() {
                                l.apply(b.items());
                            }
                            spec.insert(CONT_TABLE.to_string(), vec!["id".to_string()]);
                        }
                        let tag = ["wal-temp", "meta-temp", "part-temp", "flush-cut"][kind];
                        // the options may change between lifetimes: factor 0 makes the flush merge every
                        // table into one partition
                        // (with the extra table _meta_tables holds eight similar names; compacting it is
                        // the open finding F28, so those probes run with factor 4)
                        let probe_factor: u64 = if kind == 0 || kind == 3 { 4 } else { 0 };
                        let opts0: Vec<Sx> = opts
                            .iter()
                            .map(|o| if o.tag() == "combine" { lst(vec![a("combine"), Sx::int(probe_factor)]) } else { o.clone() })
                            .collect();
                        let vp = work.path().join(format!("p{}", variant_no));
                        let _ = std::fs::remove_dir_all(&vp);
                        copy_tree(&v, &vp);
                        match flush_probe(&vp, &opts0, &spec, cont.as_ref()) {
                            Err((sig, msg)) => violation(
                                format!("{}:{}", sig, tag),
                                format!("cut after {} of {} ({}): {}", cut.effect, cut.path, vname, msg),
                                &mut outs,
                            ),
                            Ok((dd, _)) => {
                                stats.continued += 1;
                                if !allowed2.iter().any(|l| l.differs(&dd, &spec).is_none()) {
                                    let why = allowed2.last().unwrap().differs(&dd, &spec).unwrap_or_default();
                                    violation(format!("flush-after-recovery:content:{}", tag), format!("(a request and) a flush after the recovery: content is not the recovered content (plus the request): {}", why), &mut outs);
                                } else {
                                    match reopen_once(&vp, &opts, &spec, None, false, None) {
                                        Err((sig, msg)) => violation(
                                            format!("restart-after-recovery:{}:{}", sig, tag),
                                            format!("cut after {} of {} ({}): recovered, one request, one flush, clean restart: {}", cut.effect, cut.path, vname, msg),
                                            &mut outs,
                                        ),
                                        Ok((d3, _)) => {
                                            if !allowed2.iter().any(|l| l.differs(&d3, &spec).is_none()) {
                                                violation(format!("restart-after-recovery:content:{}", tag), "recovered, one request, one flush, clean restart: content differs".into(), &mut outs);
                                            }
                                        }
                                    }
                                }
                            }
                        }
                    }
                    let _ = std::fs::remove_dir_all(work.path().join(format!("p{}", variant_no)));
                    // recovering twice changes nothing (sampled)
                    if variant_no % 4 == 0 {
                    match reopen(&v, &opts, &spec, None, None) {
                        Err((sig, msg)) => violation(format!("second-open:{}", sig), format!("second opening of the recovered copy: {}", msg), &mut outs),
                        Ok((dd, _)) => {
                            if !cut.allowed.iter().any(|l| l.differs(&dd, &spec).is_none()) {
                                violation("second-open:content".into(), "opening the recovered copy a second time changes the content".into(), &mut outs);
                            }
                        }
                    }
                    }
                }
            }
            let _ = std::fs::remove_dir_all(&v);
            let _ = std::fs::remove_dir_all(&snap2);
        }
    }
    if alive && trace_ok && hops.len() == traces.len() {
        outs.insert(
            0,
            Outcome {
                model: Some("store_effects".into()),
                model_input: Some(lst(vec![model_cfg(&opts, false), lst(hops.clone())])),
                impl_out: Some(lst(traces.clone())),
                oracle: None,
                signature: None,
                nontrivial: true,
            },
        );
    }
    outs.insert(
        0,
        Outcome {
            model: None,
            model_input: None,
            impl_out: Some(lst(vec![
                lst(vec![a("cuts"), Sx::int(stats.cuts)]),
                lst(vec![a("opened"), Sx::int(stats.opened)]),
                lst(vec![a("inflight-visible"), Sx::int(stats.inflight_visible)]),
                lst(vec![a("second-level"), Sx::int(stats.second_level)]),
                lst(vec![a("continued"), Sx::int(stats.continued)]),
                lst(vec![a("trace"), lst(trace)]),
            ])),
            oracle: None,
            signature: None,
            nontrivial: stats.cuts > 0,
        },
    );
    outs
}
