//! Parent side of a database lifetime that runs in a child process (`lv_store child <dir>`).
use lvharness::sx::Sx;
use std::io::{BufRead, BufReader, Write};
use std::path::{Path, PathBuf};
use std::process::{Child, ChildStdin, Command, Stdio};
use std::sync::atomic::{AtomicU64, Ordering};
use std::sync::mpsc::{channel, Receiver};
use std::time::Duration;

pub struct DbProc {
    child: Child,
    stdin: Option<ChildStdin>,
    rx: Receiver<String>,
    pub dead: bool,
    /// what the child wrote to stderr (panic messages of its threads)
    pub stderr: std::sync::Arc<std::sync::Mutex<String>>,
}

#[derive(Debug, Clone, PartialEq)]
pub enum Reply {
    Ok(Sx),
    Hang,
    Died,
}

impl DbProc {
    pub fn spawn(dir: &Path) -> DbProc {
        let exe = std::env::current_exe().unwrap();
        let mut child = Command::new(exe)
            .arg("child")
            .arg(dir)
            .env("RUST_LOG", "off")
            .env("RUST_BACKTRACE", "0")
            .stdin(Stdio::piped())
            .stdout(Stdio::piped())
            .stderr(Stdio::piped())
            .spawn()
            .expect("spawn child");
        let stderr = std::sync::Arc::new(std::sync::Mutex::new(String::new()));
        {
            let err = child.stderr.take().unwrap();
            let buf = stderr.clone();
            let echo = std::env::var("LV_CHILD_STDERR").is_ok();
            std::thread::spawn(move || {
                let r = BufReader::new(err);
                for line in r.lines() {
                    match line {
                        Ok(l) => {
                            if echo {
                                eprintln!("[child] {}", l);
                            }
                            let mut b = buf.lock().unwrap();
                            if b.len() < 20_000 {
                                b.push_str(&l);
                                b.push('\n');
                            }
                        }
                        Err(_) => break,
                    }
                }
            });
        }
        let stdin = child.stdin.take();
        let stdout = child.stdout.take().unwrap();
        let (tx, rx) = channel();
        std::thread::spawn(move || {
            let r = BufReader::new(stdout);
            for line in r.lines() {
                match line {
                    Ok(l) => {
                        if tx.send(l).is_err() {
                            break;
                        }
                    }
                    Err(_) => break,
                }
            }
        });
        DbProc { child, stdin, rx, dead: false, stderr }
    }

    pub fn request(&mut self, cmd: &Sx, deadline: Duration) -> Reply {
        if self.dead {
            return Reply::Died;
        }
        let line = format!("{}\n", cmd);
        let w = self.stdin.as_mut().unwrap();
        if w.write_all(line.as_bytes()).is_err() || w.flush().is_err() {
            self.dead = true;
            return Reply::Died;
        }
        match self.rx.recv_timeout(deadline) {
            Ok(l) => match Sx::parse(l.trim()) {
                Ok(s) => Reply::Ok(s),
                Err(_) => Reply::Died,
            },
            Err(std::sync::mpsc::RecvTimeoutError::Timeout) => {
                self.kill();
                Reply::Hang
            }
            Err(_) => {
                self.dead = true;
                Reply::Died
            }
        }
    }

    /// like `request`, but a reply that does not come within `grace` after the child reported a
    /// panic on stderr is a hang already (a panicked worker thread is what makes open / flush wait
    /// forever); `deadline` still bounds the wait when nothing is reported
    pub fn request_quick_hang(&mut self, cmd: &Sx, deadline: Duration, grace: Duration) -> Reply {
        if self.dead {
            return Reply::Died;
        }
        let line = format!("{}\n", cmd);
        let w = self.stdin.as_mut().unwrap();
        if w.write_all(line.as_bytes()).is_err() || w.flush().is_err() {
            self.dead = true;
            return Reply::Died;
        }
        let t0 = std::time::Instant::now();
        let mut panic_seen: Option<std::time::Instant> = None;
        loop {
            match self.rx.recv_timeout(Duration::from_millis(50)) {
                Ok(l) => {
                    return match Sx::parse(l.trim()) {
                        Ok(s) => Reply::Ok(s),
                        Err(_) => Reply::Died,
                    }
                }
                Err(std::sync::mpsc::RecvTimeoutError::Timeout) => {
                    if panic_seen.is_none() && self.stderr.lock().unwrap().contains("panicked at ") {
                        panic_seen = Some(std::time::Instant::now());
                    }
                    let hung = match panic_seen {
                        Some(t) => t.elapsed() > grace,
                        None => false,
                    };
                    if hung || t0.elapsed() > deadline {
                        self.kill();
                        return Reply::Hang;
                    }
                }
                Err(_) => {
                    self.dead = true;
                    return Reply::Died;
                }
            }
        }
    }

    pub fn kill(&mut self) {
        let _ = self.child.kill();
        let _ = self.child.wait();
        self.dead = true;
    }

    /// clean end of the lifetime: `close` (drop the database) and wait for the process to leave
    pub fn close(&mut self) {
        if !self.dead {
            let _ = self.request(&Sx::l(vec![Sx::a("close")]), Duration::from_secs(20));
        }
        self.stdin = None;
        if !self.dead {
            let _ = self.child.wait();
            self.dead = true;
        }
    }
}

impl DbProc {
    /// "file.rs: message" of the first panic the child reported on stderr (line numbers removed)
    pub fn first_panic(&self) -> Option<String> {
        // give the reader thread a moment to drain the pipe
        for _ in 0..40 {
            if self.stderr.lock().unwrap().contains("panicked at ") {
                break;
            }
            std::thread::sleep(Duration::from_millis(25));
        }
        std::thread::sleep(Duration::from_millis(25));
        let b = self.stderr.lock().unwrap();
        let mut lines = b.lines();
        while let Some(l) = lines.next() {
            if let Some(pos) = l.find("panicked at ") {
                let loc = &l[pos + 12..];
                let file = loc.split(':').next().unwrap_or("");
                let file = file.rsplit('/').next().unwrap_or(file);
                let msg = lines.next().unwrap_or("");
                let msg: String = msg.chars().take(60).collect();
                return Some(format!("{}: {}", file, msg));
            }
        }
        None
    }
}

impl Drop for DbProc {
    fn drop(&mut self) {
        if !self.dead {
            self.kill();
        }
    }
}

static COUNTER: AtomicU64 = AtomicU64::new(0);

/// A unique scratch directory below /verif/.cache/scratch, removed on drop.
pub struct Scratch(pub PathBuf);

impl Scratch {
    pub fn new(tag: &str) -> Scratch {
        let base = std::env::var("LV_SCRATCH").unwrap_or_else(|_| "/verif/.cache/scratch".to_string());
        let n = COUNTER.fetch_add(1, Ordering::SeqCst);
        let p = PathBuf::from(base).join(format!("store-{}-{}-{}", std::process::id(), tag, n));
        let _ = std::fs::remove_dir_all(&p);
        std::fs::create_dir_all(&p).unwrap();
        Scratch(p)
    }
    pub fn path(&self) -> &Path {
        &self.0
    }
}

impl Drop for Scratch {
    fn drop(&mut self) {
        let _ = std::fs::remove_dir_all(&self.0);
    }
}
