//! Parent side of a database lifetime that runs in a child process (`lv_store child <dir>`).
use lvharness::sx::Sx;
use std::io::{BufRead, BufReader, Write};
use std::path::{Path, PathBuf};
use std::process::{Child, ChildStdin, Command, Stdio};
use std::sync::atomic::{AtomicU64, Ordering};
use std::sync::mpsc::{channel, Receiver};
use std::time::Duration;

pub struct DbProc {
    child: Child,
    stdin: Option<ChildStdin>,
    rx: Receiver<String>,
    pub dead: bool,
}

#[derive(Debug, Clone, PartialEq)]
pub enum Reply {
    Ok(Sx),
    Hang,
    Died,
}

impl DbProc {
    pub fn spawn(dir: &Path) -> DbProc {
        let exe = std::env::current_exe().unwrap();
        let mut child = Command::new(exe)
            .arg("child")
            .arg(dir)
            .env("RUST_LOG", "off")
            .env("RUST_BACKTRACE", "0")
            .stdin(Stdio::piped())
            .stdout(Stdio::piped())
            .stderr(if std::env::var("LV_CHILD_STDERR").is_ok() { Stdio::inherit() } else { Stdio::null() })
            .spawn()
            .expect("spawn child");
        let stdin = child.stdin.take();
        let stdout = child.stdout.take().unwrap();
        let (tx, rx) = channel();
        std::thread::spawn(move || {
            let r = BufReader::new(stdout);
            for line in r.lines() {
                match line {
                    Ok(l) => {
                        if tx.send(l).is_err() {
                            break;
                        }
                    }
                    Err(_) => break,
                }
            }
        });
        DbProc { child, stdin, rx, dead: false }
    }

    pub fn request(&mut self, cmd: &Sx, deadline: Duration) -> Reply {
        if self.dead {
            return Reply::Died;
        }
        let line = format!("{}\n", cmd);
        let w = self.stdin.as_mut().unwrap();
        if w.write_all(line.as_bytes()).is_err() || w.flush().is_err() {
            self.dead = true;
            return Reply::Died;
        }
        match self.rx.recv_timeout(deadline) {
            Ok(l) => match Sx::parse(l.trim()) {
                Ok(s) => Reply::Ok(s),
                Err(_) => Reply::Died,
            },
            Err(std::sync::mpsc::RecvTimeoutError::Timeout) => {
                self.kill();
                Reply::Hang
            }
            Err(_) => {
                self.dead = true;
                Reply::Died
            }
        }
    }

    pub fn kill(&mut self) {
        let _ = self.child.kill();
        let _ = self.child.wait();
        self.dead = true;
    }

    /// clean end of the lifetime: `close` (drop the database) and wait for the process to leave
    pub fn close(&mut self) {
        if !self.dead {
            let _ = self.request(&Sx::l(vec![Sx::a("close")]), Duration::from_secs(20));
        }
        self.stdin = None;
        if !self.dead {
            let _ = self.child.wait();
            self.dead = true;
        }
    }
}

impl Drop for DbProc {
    fn drop(&mut self) {
        if !self.dead {
            self.kill();
        }
    }
}

static COUNTER: AtomicU64 = AtomicU64::new(0);

/// A unique scratch directory below /verif/.cache/scratch, removed on drop.
pub struct Scratch(pub PathBuf);

impl Scratch {
    pub fn new(tag: &str) -> Scratch {
        let base = std::env::var("LV_SCRATCH").unwrap_or_else(|_| "/verif/.cache/scratch".to_string());
        let n = COUNTER.fetch_add(1, Ordering::SeqCst);
        let p = PathBuf::from(base).join(format!("store-{}-{}-{}", std::process::id(), tag, n));
        let _ = std::fs::remove_dir_all(&p);
        std::fs::create_dir_all(&p).unwrap();
        Scratch(p)
    }
    pub fn path(&self) -> &Path {
        &self.0
    }
}

impl Drop for Scratch {
    fn drop(&mut self) {
        let _ = std::fs::remove_dir_all(&self.0);
    }
}
