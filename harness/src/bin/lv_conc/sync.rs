//! Sync-point controller: the callback registered with `locustdb::verif::hooks::set_sync_point`.
//!
//! Every label reached by any thread is appended to one global, totally ordered event log (the order of
//! the log is the order in which threads entered the callback, i.e. a linearisation of the critical
//! sections the labels sit in).  A thread can be *parked* at a label: the callback blocks there until the
//! controller releases it (or a generous deadline passes), which lets the harness start other operations
//! at exactly that instant.
use std::cell::Cell;
use std::sync::{Arc, Condvar, Mutex};
use std::time::{Duration, Instant};

#[derive(Clone, Copy, Debug, PartialEq, Eq)]
pub enum Role {
    None,
    Ingester(usize),
    Querier(usize),
}

thread_local! {
    static ROLE: Cell<Role> = const { Cell::new(Role::None) };
}

pub fn set_role(r: Role) {
    ROLE.with(|c| c.set(r));
}

pub fn role() -> Role {
    ROLE.with(|c| c.get())
}

#[derive(Clone, Debug)]
pub struct Event {
    pub role: Role,
    /// label without the `@table` suffix
    pub label: String,
    pub table: Option<String>,
    /// harness-side payload (e.g. partition layout observed at this point)
    pub note: Option<String>,
}

#[derive(Clone, Debug)]
pub struct ParkSpec {
    pub label: String,
    /// table suffix that must match (None: label has no table)
    pub table: Option<String>,
    /// park at the n-th matching occurrence (1-based), counted from arming
    pub occurrence: usize,
    /// only threads with this role (None: any)
    pub role: Option<Role>,
}

#[derive(Default)]
struct ParkState {
    spec: Option<ParkSpec>,
    seen: usize,
    parked: bool,
    released: bool,
    /// index in the log of the event at which the thread is parked
    at: Option<usize>,
}

pub struct Controller {
    log: Mutex<Vec<Event>>,
    park: Mutex<ParkState>,
    cv: Condvar,
    /// called (outside all controller locks) for labels whose layout should be noted
    noter: Mutex<Option<Arc<dyn Fn(&str, Option<&str>) -> Option<String> + Send + Sync>>>,
    pub max_park: Duration,
    /// seeded perturbation of the interleaving (stress): 0 = off
    pub jitter: std::sync::atomic::AtomicU64,
    hits: std::sync::atomic::AtomicU64,
}

impl Controller {
    pub fn new() -> Arc<Controller> {
        Arc::new(Controller {
            log: Mutex::new(vec![]),
            park: Mutex::new(ParkState::default()),
            cv: Condvar::new(),
            noter: Mutex::new(None),
            max_park: Duration::from_secs(120),
            jitter: std::sync::atomic::AtomicU64::new(0),
            hits: std::sync::atomic::AtomicU64::new(0),
        })
    }

    pub fn set_noter(&self, f: Arc<dyn Fn(&str, Option<&str>) -> Option<String> + Send + Sync>) {
        *self.noter.lock().unwrap() = Some(f);
    }

    pub fn install(self: &Arc<Controller>) {
        let me = self.clone();
        locustdb::verif::hooks::set_sync_point(Some(Arc::new(move |l: &str| me.hit(l))));
    }

    pub fn uninstall() {
        locustdb::verif::hooks::set_sync_point(None);
    }

    /// harness-side event (query issued, request acknowledged, ...)
    pub fn note(&self, role: Role, label: &str, note: Option<String>) -> usize {
        let mut log = self.log.lock().unwrap();
        log.push(Event { role, label: label.to_string(), table: None, note });
        log.len() - 1
    }

    fn hit(&self, full: &str) {
        let (label, table) = match full.split_once('@') {
            Some((l, t)) => (l.to_string(), Some(t.to_string())),
            None => (full.to_string(), None),
        };
        let role = role();
        let noter = self.noter.lock().unwrap().clone();
        let note = noter.and_then(|f| f(&label, table.as_deref()));
        let idx = {
            let mut log = self.log.lock().unwrap();
            log.push(Event { role, label: label.clone(), table: table.clone(), note });
            log.len() - 1
        };
        let jit = self.jitter.load(std::sync::atomic::Ordering::Relaxed);
        if jit != 0 {
            // splitmix of (seed, hit counter): every ~6th sync point yields or sleeps briefly
            let n = self.hits.fetch_add(1, std::sync::atomic::Ordering::Relaxed);
            let mut z = jit ^ n.wrapping_mul(0x9E37_79B9_7F4A_7C15);
            z = (z ^ (z >> 30)).wrapping_mul(0xBF58_476D_1CE4_E5B9);
            z = (z ^ (z >> 27)).wrapping_mul(0x94D0_49BB_1331_11EB);
            z ^= z >> 31;
            match z % 12 {
                0 => std::thread::sleep(Duration::from_micros(100 + (z >> 8) % 900)),
                1 => std::thread::yield_now(),
                _ => {}
            }
        }
        let mut p = self.park.lock().unwrap();
        let matches = match &p.spec {
            Some(s) => s.label == label && s.table == table && s.role.map(|r| r == role).unwrap_or(true) && !p.parked && !p.released,
            None => false,
        };
        if !matches {
            return;
        }
        p.seen += 1;
        if p.seen != p.spec.as_ref().unwrap().occurrence {
            return;
        }
        p.parked = true;
        p.at = Some(idx);
        self.cv.notify_all();
        let deadline = Instant::now() + self.max_park;
        while !p.released {
            let now = Instant::now();
            if now >= deadline {
                break;
            }
            let (g, _) = self.cv.wait_timeout(p, deadline - now).unwrap();
            p = g;
        }
        p.parked = false;
        p.released = true;
    }

    pub fn arm(&self, spec: ParkSpec) {
        let mut p = self.park.lock().unwrap();
        *p = ParkState { spec: Some(spec), ..Default::default() };
    }

    /// wait until some thread is parked at the armed label; false on timeout
    pub fn wait_parked(&self, timeout: Duration, mut give_up: impl FnMut() -> bool) -> bool {
        let deadline = Instant::now() + timeout;
        let mut p = self.park.lock().unwrap();
        loop {
            if p.parked {
                return true;
            }
            if p.released || give_up() {
                return false;
            }
            let now = Instant::now();
            if now >= deadline {
                return false;
            }
            let step = (deadline - now).min(Duration::from_millis(20));
            let (g, _) = self.cv.wait_timeout(p, step).unwrap();
            p = g;
        }
    }

    pub fn parked_at(&self) -> Option<usize> {
        self.park.lock().unwrap().at
    }

    pub fn release(&self) {
        let mut p = self.park.lock().unwrap();
        p.released = true;
        self.cv.notify_all();
    }

    pub fn disarm(&self) {
        let mut p = self.park.lock().unwrap();
        p.spec = None;
        p.released = true;
        self.cv.notify_all();
    }

    pub fn log_len(&self) -> usize {
        self.log.lock().unwrap().len()
    }

    pub fn snapshot_log(&self) -> Vec<Event> {
        self.log.lock().unwrap().clone()
    }

    /// true iff an event with this role and label exists at an index >= from
    pub fn seen_since(&self, from: usize, role: Role, label: &str) -> bool {
        let log = self.log.lock().unwrap();
        log[from.min(log.len())..].iter().any(|e| e.role == role && e.label == label)
    }
}
