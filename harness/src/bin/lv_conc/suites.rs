//! Parent side: case generation, one child process per case (deadline, scratch directory), outcomes.
use lvharness::rng::Rng;
use lvharness::suite::{emit, Case, Outcome, Suite};
use lvharness::sx::Sx;
use std::io::{BufRead, BufReader, Read, Write};
use std::process::{Command, Stdio};
use std::sync::atomic::{AtomicU64, Ordering};
use std::time::{Duration, Instant};

static COUNTER: AtomicU64 = AtomicU64::new(0);

fn scratch_dir() -> std::path::PathBuf {
    let base = std::env::var("LV_SCRATCH").unwrap_or_else(|_| "/verif/.cache/scratch".to_string());
    let n = COUNTER.fetch_add(1, Ordering::SeqCst);
    std::path::PathBuf::from(base).join(format!("conc-{}-{}", std::process::id(), n))
}

fn unhex(x: &Sx) -> Option<String> {
    x.as_opt().map(|b| String::from_utf8_lossy(&b.as_bytes()).to_string())
}

/// Runs one case in a child process. A child that neither finishes nor reports within the deadline is the
/// outcome `hang:child`; one that dies is `child-died` with the first panic it printed.
pub fn run_child(case: &Sx, deadline: Duration) -> Vec<Outcome> {
    let dir = scratch_dir();
    let _ = std::fs::remove_dir_all(&dir);
    let exe = std::env::current_exe().unwrap();
    let mut child = Command::new(exe)
        .arg("child")
        .arg(&dir)
        .arg(case.to_string())
        .env("RUST_LOG", "off")
        .env("RUST_BACKTRACE", "0")
        .stdin(Stdio::null())
        .stdout(Stdio::piped())
        .stderr(Stdio::piped())
        .spawn()
        .expect("spawn child");
    let stdout = child.stdout.take().unwrap();
    let mut stderr = child.stderr.take().unwrap();
    let (tx, rx) = std::sync::mpsc::channel();
    std::thread::spawn(move || {
        for line in BufReader::new(stdout).lines() {
            match line {
                Ok(l) => {
                    if tx.send(l).is_err() {
                        break;
                    }
                }
                Err(_) => break,
            }
        }
    });
    let errbuf = std::sync::Arc::new(std::sync::Mutex::new(String::new()));
    {
        let errbuf = errbuf.clone();
        std::thread::spawn(move || {
            let mut s = String::new();
            let _ = stderr.read_to_string(&mut s);
            *errbuf.lock().unwrap() = s;
        });
    }
    let t0 = Instant::now();
    let mut outs = vec![];
    let mut ended = false;
    let mut died = false;
    loop {
        let left = deadline.checked_sub(t0.elapsed()).unwrap_or(Duration::ZERO);
        if left.is_zero() {
            break;
        }
        match rx.recv_timeout(left) {
            Ok(l) => {
                if l == "END" {
                    ended = true;
                    break;
                }
                if let Some(rest) = l.strip_prefix("OUT ") {
                    if let Ok(sx) = Sx::parse(rest) {
                        let it = sx.items();
                        outs.push(Outcome {
                            model: unhex(&it[1]),
                            model_input: it[2].as_opt().cloned(),
                            impl_out: it[3].as_opt().cloned(),
                            oracle: unhex(&it[4]),
                            signature: unhex(&it[5]),
                            nontrivial: it[6].as_bool(),
                        });
                    }
                }
            }
            Err(std::sync::mpsc::RecvTimeoutError::Timeout) => break,
            Err(_) => {
                died = true;
                break;
            }
        }
    }
    let _ = child.kill();
    let _ = child.wait();
    let _ = std::fs::remove_dir_all(&dir);
    if !ended {
        std::thread::sleep(Duration::from_millis(20));
        let err = errbuf.lock().unwrap().clone();
        let first = err.lines().find(|l| !l.trim().is_empty()).unwrap_or("").chars().take(160).collect::<String>();
        let (sig, msg) = if died {
            ("child-died".to_string(), format!("the case process died without a verdict: {}", first))
        } else {
            ("hang:child".to_string(), format!("the case process did not finish within {:?}: {}", deadline, first))
        };
        outs.push(Outcome { oracle: Some(msg), signature: Some(sig), nontrivial: true, ..Default::default() });
    }
    outs
}

// ------------------------------------------------------------------------------------------------

/// (label, carries the table suffix, only reached when a compaction happens)
const F_LABELS: &[(&str, bool, bool)] = &[
    ("wal_flush:begin", false, false),
    ("wal_flush:wal_locked", false, false),
    ("freeze:begin", true, false),
    ("freeze:frozen_locked", true, false),
    ("freeze:locked", true, false),
    ("freeze:swapped", true, false),
    ("wal_flush:frozen", false, false),
    ("wal_flush:wal_unlocked", false, false),
    ("flush_table_buffer:begin", true, false),
    ("batch:begin", true, false),
    ("batch:frozen_locked", true, false),
    ("batch:taken", true, false),
    ("batch:built", true, false),
    ("batch:write_locked", true, false),
    ("batch:inserted", true, false),
    ("batch:registered", true, false),
    ("flush_table_buffer:batched", true, false),
    ("flush_table_buffer:handles_cloned", true, false),
    ("flush_table_buffer:planned", true, false),
    ("wal_flush:batched", false, false),
    ("wal_flush:persisted", false, false),
    ("compact:begin", true, true),
    ("compact:parts_snapshotted", true, true),
    ("compact:built", true, true),
    ("table_compact:built", true, true),
    ("table_compact:write_locked", true, true),
    ("table_compact:swapped", true, true),
    ("table_compact:unlocked", true, true),
    ("compact:swapped", true, true),
    ("compact:prepared", true, true),
    ("wal_flush:compacted", false, false),
    ("wal_flush:meta_persisted", false, false),
    ("wal_flush:orphans_deleted", false, false),
    ("wal_flush:end", false, false),
];

const Q_LABELS: &[(&str, usize, bool)] = &[
    // (label, occurrence, only after a restart)
    ("snapshot:begin", 1, false),
    ("snapshot:locked", 1, false),
    ("snapshot:copied", 1, false),
    ("get_or_load:begin", 1, false),
    ("get_or_load:begin", 2, false),
    ("get_or_load:load", 1, true),
];

const I_LABELS: &[(&str, bool)] = &[
    ("ingest:begin", false),
    ("ingest:wal_locked", false),
    ("ingest_homogeneous:locked", true),
    ("ingest_homogeneous:pushed", true),
    ("ingest:pushed", false),
    ("ingest:wal_written", false),
];

fn sched_case(variant: &str, compact: bool, who: &str, label: &str, table: bool, occ: usize, main: &str, inject: &[&str]) -> Sx {
    let mut inj = vec![Sx::a("inject")];
    inj.extend(inject.iter().map(|s| Sx::a(s)));
    Sx::l(vec![
        Sx::a("sched"),
        Sx::a(variant),
        Sx::a(if compact { "1" } else { "0" }),
        Sx::l(vec![Sx::a("park"), Sx::a(who), Sx::a(label), Sx::a(if table { "t" } else { "-" }), Sx::int(occ)]),
        Sx::l(vec![Sx::a("main"), Sx::a(main)]),
        Sx::l(inj),
    ])
}

pub struct Sched;

impl Suite for Sched {
    fn name(&self) -> &'static str {
        "c10_sched"
    }

    fn generate(&self, _seed: u64, tier: &str) -> Vec<Case> {
        let mut cases = vec![];
        let variants: &[(&str, bool)] = if tier == "thorough" {
            &[("fresh", false), ("fresh", true), ("restart", true), ("restart", false)]
        } else {
            &[("fresh", true), ("restart", true)]
        };
        // absent-column queries (a column some partitions lack, a column no partition has) are part of the ordinary
        // classes since the repairs 3a6284a / 7a0a728; evictions (finding F14b) stay in dedicated classes
        let f_inject: &[(&str, &[&str])] = &[
            ("queries", &["all", "count", "sorted", "lack", "nosuch", "star"]),
            ("queries+ingest", &["all", "count", "lack", "nosuch", "star", "ingest"]),
            ("evict", &["evict", "all", "sorted"]),
            ("evict", &["evict", "cols3"]),
        ];
        let thorough = tier == "thorough";
        for (variant, compact) in variants {
            let vname = format!("{}{}", variant, if *compact { "-compact" } else { "" });
            // quick tier: the full label x class matrix on the fresh database with compaction; after a restart
            // only two classes per label; the variant without compaction only in the thorough tier
            let full = thorough || (*variant == "fresh" && *compact);
            for (label, table, only_compact) in F_LABELS {
                if *only_compact && !*compact {
                    continue;
                }
                if !thorough && !*compact {
                    continue;
                }
                for (iname, inj) in f_inject {
                    if !full && *iname == "evict" {
                        continue;
                    }
                    if !thorough && inj.contains(&"cols3") {
                        continue;
                    }
                    cases.push(Case {
                        class: format!("f/{}/{}/{}", label, iname, vname),
                        input: sched_case(variant, *compact, "f", label, *table, 1, "flush", inj),
                    });
                }
            }
            let q_runs: &[(&str, &str, &[&str])] = &[
                ("query", "all", &["flush"]),
                ("query", "all", &["flush", "ingest"]),
                ("query", "sorted", &["ingest"]),
                ("query", "lack", &["flush"]),
                ("query", "nosuch", &["flush"]),
                ("query", "nosuch", &["flush", "ingest"]),
                ("query", "star", &["flush"]),
                ("query", "star", &["flush", "ingest"]),
            ];
            for (label, occ, only_restart) in Q_LABELS {
                if *only_restart && *variant != "restart" {
                    continue;
                }
                for (cname, main, inj) in q_runs {
                    cases.push(Case {
                        class: format!("q/{}#{}/{}-{}/{}/{}", label, occ, cname, main, inj.join("+"), vname),
                        input: sched_case(variant, *compact, "q", label, true, *occ, main, inj),
                    });
                }
            }
            let i_runs: &[(&str, &[&str])] = &[
                ("queries", &["all", "count", "sorted", "lack", "nosuch", "star"]),
                ("queries+flush", &["all", "nosuch", "star", "flush"]),
            ];
            if full {
                for (label, table) in I_LABELS {
                    for (cname, inj) in i_runs {
                        cases.push(Case {
                            class: format!("i/{}/{}/{}", label, cname, vname),
                            input: sched_case(variant, *compact, "i", label, *table, 1, "ingest", inj),
                        });
                    }
                }
            }
        }
        cases
    }

    fn run(&self, input: &Sx) -> Vec<Outcome> {
        run_child(input, Duration::from_secs(400))
    }
}

pub struct Stress;

impl Suite for Stress {
    fn name(&self) -> &'static str {
        "c10_stress"
    }

    fn generate(&self, seed: u64, tier: &str) -> Vec<Case> {
        let mut rng = Rng::new(seed ^ 0xC10);
        let n = if tier == "thorough" { 40 } else { 8 };
        let mut cases = vec![];
        for k in 0..n {
            let s = rng.next() % 1_000_000;
            let (class, lack) = match k % 8 {
                6 => ("stress/evict", 2),
                _ => ("stress/queries", 1),
            };
            let variant = if k % 2 == 0 { "fresh" } else { "restart" };
            let combine = [1u64, 2, 4][(rng.next() % 3) as usize];
            let ops = if tier == "thorough" { 160 } else { 80 };
            cases.push(Case {
                class: format!("{}/{}", class, variant),
                input: Sx::l(vec![Sx::a("stress"), Sx::a(variant), Sx::int(combine), Sx::int(lack), Sx::int(ops), Sx::int(s)]),
            });
        }
        cases
    }

    fn run(&self, input: &Sx) -> Vec<Outcome> {
        run_child(input, Duration::from_secs(500))
    }
}

pub fn all() -> Vec<Box<dyn Suite>> {
    vec![Box::new(Sched), Box::new(Stress)]
}

/// The case protocol of `lvharness::cli_main`, with the cases of a `run` executed by a pool of worker
/// threads (every case spends most of its time waiting for its child process).
pub fn cli(suites: Vec<Box<dyn Suite>>) {
    let args: Vec<String> = std::env::args().collect();
    if args.len() < 2 {
        eprintln!("usage: run|replay|list ...");
        std::process::exit(2);
    }
    let get = |flag: &str| -> Option<String> { args.iter().position(|a| a == flag).and_then(|i| args.get(i + 1).cloned()) };
    match args[1].as_str() {
        "list" => {
            for s in &suites {
                println!("{}", s.name());
            }
        }
        "run" => {
            let name = &args[2];
            let seed: u64 = get("--seed").map(|s| s.parse().unwrap()).unwrap_or(1);
            let tier = get("--tier").unwrap_or_else(|| "quick".into());
            let out_path = get("--out").expect("--out");
            let jobs: usize = get("--jobs").map(|s| s.parse().unwrap()).unwrap_or(10);
            let s = suites.iter().find(|s| s.name() == name).unwrap_or_else(|| {
                eprintln!("unknown suite {}", name);
                std::process::exit(2)
            });
            let cases = s.generate(seed, &tier);
            let next = std::sync::atomic::AtomicUsize::new(0);
            let results: std::sync::Mutex<Vec<Option<Vec<Outcome>>>> = std::sync::Mutex::new((0..cases.len()).map(|_| None).collect());
            std::thread::scope(|sc| {
                for _ in 0..jobs.min(cases.len().max(1)) {
                    sc.spawn(|| loop {
                        let i = next.fetch_add(1, Ordering::SeqCst);
                        if i >= cases.len() {
                            break;
                        }
                        let outs = s.run(&cases[i].input);
                        results.lock().unwrap()[i] = Some(outs);
                    });
                }
            });
            let mut out = std::io::BufWriter::new(std::fs::File::create(&out_path).unwrap());
            let results = results.into_inner().unwrap();
            for (c, outs) in cases.iter().zip(results.into_iter()) {
                for o in outs.unwrap_or_default() {
                    emit(&mut out, s.name(), &c.class, &c.input, &o);
                }
            }
            out.flush().unwrap();
            eprintln!("{}: {} cases", name, cases.len());
        }
        "replay" => {
            let name = &args[2];
            let input = get("--input").expect("--input");
            let s = suites.iter().find(|s| s.name() == name).expect("unknown suite");
            let inp = Sx::parse(&input).expect("bad input sexp");
            let stdout = std::io::stdout();
            let mut out = stdout.lock();
            for o in s.run(&inp) {
                emit(&mut out, s.name(), "replay", &inp, &o);
            }
        }
        _ => {
            eprintln!("unknown command");
            std::process::exit(2);
        }
    }
}
