//! lv_conc: concurrency protocol (C10). Skeleton.
fn main() {
    lvharness::cli_main(vec![]);
}
