//! lv_conc: the concurrency protocol of one table (C10).
//!
//!   lv_conc run <suite> --seed N --tier quick|thorough --out file.jsonl      (case protocol)
//!   lv_conc replay <suite> --input '<sexp>'
//!   lv_conc list
//!   lv_conc child <dir> '<case sexp>'      internal: one case = one database lifetime in its own process
mod dbenv;
mod judge;
mod sched;
mod stress;
mod suites;
mod sync;

use lvharness::sx::Sx;

fn child(dir: &str, case: &str) {
    use std::io::Write;
    let case = Sx::parse(case).expect("bad case sexp");
    let path = std::path::PathBuf::from(dir);
    std::fs::create_dir_all(&path).unwrap();
    let outs = match case.tag() {
        "sched" => sched::run(&case, &path),
        "stress" => stress::run(&case, &path),
        t => panic!("unknown case kind {}", t),
    };
    let stdout = std::io::stdout();
    let mut o = stdout.lock();
    for out in outs {
        writeln!(o, "OUT {}", out.to_sx()).unwrap();
    }
    writeln!(o, "END").unwrap();
    o.flush().unwrap();
    // the database may be wedged: never wait for it
    std::process::exit(0);
}

fn main() {
    let args: Vec<String> = std::env::args().collect();
    if args.len() >= 4 && args[1] == "child" {
        child(&args[2], &args[3]);
        return;
    }
    suites::cli(suites::all());
}
