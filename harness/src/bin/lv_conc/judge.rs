//! The prefix oracle (implementation alone vs. the acknowledged-batch log) and the translation of the
//! observed sync-point log into the event list replayed by the Coq model (entry `conc_replay`).
use crate::dbenv::*;
use crate::sync::{Event, Role};
use lvharness::sx::Sx;
use std::collections::{BTreeMap, HashMap, HashSet};

pub struct LogIndex {
    /// batches in push order with the log index of their push
    pub pushes: Vec<(usize, usize)>,
    /// batch -> log index of its acknowledgement
    pub acks: HashMap<usize, usize>,
    /// (querier, instance) -> (kind, qstart index, qdone index or log length)
    pub queries: BTreeMap<(usize, usize), (String, usize, usize)>,
}

pub fn index_log(log: &[Event]) -> LogIndex {
    let mut cur_batch: HashMap<usize, usize> = HashMap::new();
    let mut cur_inst: HashMap<usize, usize> = HashMap::new();
    let mut ix = LogIndex { pushes: vec![], acks: HashMap::new(), queries: BTreeMap::new() };
    for (i, e) in log.iter().enumerate() {
        match (e.role, e.label.as_str()) {
            (Role::Ingester(n), "h:istart") => {
                cur_batch.insert(n, e.note.as_ref().unwrap().parse().unwrap());
            }
            (Role::Ingester(n), "ingest_homogeneous:pushed") if e.table.as_deref() == Some(TABLE) => {
                if let Some(j) = cur_batch.get(&n) {
                    ix.pushes.push((*j, i));
                }
            }
            (Role::Ingester(_), "h:ack") => {
                ix.acks.insert(e.note.as_ref().unwrap().parse().unwrap(), i);
            }
            (Role::Querier(n), "h:qstart") => {
                let note = e.note.as_ref().unwrap();
                let (inst, kind) = note.split_once(' ').unwrap();
                let inst: usize = inst.parse().unwrap();
                cur_inst.insert(n, inst);
                ix.queries.insert((n, inst), (kind.to_string(), i, log.len()));
            }
            (Role::Querier(n), "h:qdone") => {
                let inst: usize = e.note.as_ref().unwrap().parse().unwrap();
                if let Some(q) = ix.queries.get_mut(&(n, inst)) {
                    q.2 = i;
                }
            }
            _ => {}
        }
    }
    ix
}

/// None: the result satisfies the prefix relation. Some((what, message)) otherwise.
pub fn prefix_oracle(ix: &LogIndex, key: (usize, usize), kind: QKind, res: &QRes) -> Option<(String, String)> {
    let (_, qstart, qdone) = ix.queries.get(&key)?.clone();
    let order: Vec<usize> = ix.pushes.iter().map(|p| p.0).collect();
    let pushed_by_done = ix.pushes.iter().filter(|p| p.1 < qdone).count();
    let acked_before: HashSet<usize> = ix.acks.iter().filter(|(_, &i)| i < qstart).map(|(j, _)| *j).collect();
    // smallest prefix length that contains every batch acknowledged before the query was issued
    let mut kmin = 0;
    for (pos, j) in order.iter().enumerate() {
        if acked_before.contains(j) {
            kmin = pos + 1;
        }
    }
    match res {
        QRes::Count(c) => {
            let mut sum = 0i64;
            let mut ok = false;
            for k in 0..=pushed_by_done {
                if k > 0 {
                    sum += batch_size(order[k - 1]) as i64;
                }
                if k >= kmin && sum == *c {
                    ok = true;
                }
            }
            if ok {
                None
            } else {
                Some(("count".into(), format!("COUNT = {} is not the size of any prefix of length {}..{} of the pushed batches {:?}", c, kmin, pushed_by_done, order)))
            }
        }
        QRes::Rows(rows) => {
            let mut seen: HashSet<i64> = HashSet::new();
            let mut per_batch: BTreeMap<usize, usize> = BTreeMap::new();
            for (id, second) in rows {
                if !seen.insert(*id) {
                    return Some(("duplicate-row".into(), format!("row id {} returned twice", id)));
                }
                let j = batch_of_id(*id);
                if *id < 0 || !batch_ids(j).contains(id) || !order.contains(&j) {
                    return Some(("unknown-row".into(), format!("row id {} was never ingested", id)));
                }
                *per_batch.entry(j).or_insert(0) += 1;
                // the cells of the second column are C01/C07's business (NULLs of a compacted partition), not
                // C10's: only its presence is required
                if matches!(kind, QKind::Lack | QKind::Nosuch | QKind::Cols3) && second.is_none() {
                    return Some(("malformed".into(), format!("row {} has no second column", id)));
                }
            }
            for (j, n) in &per_batch {
                if *n != batch_size(*j) {
                    return Some(("partial-batch".into(), format!("batch {} has {} of {} rows in the result", j, n, batch_size(*j))));
                }
            }
            let k = per_batch.len();
            let prefix: HashSet<usize> = order.iter().take(k).cloned().collect();
            if per_batch.keys().any(|j| !prefix.contains(j)) {
                return Some(("not-a-prefix".into(), format!("batches {:?} are not a prefix of the push order {:?}", per_batch.keys().collect::<Vec<_>>(), order)));
            }
            if k < kmin {
                let missing: Vec<usize> = order.iter().take(kmin).filter(|j| !per_batch.contains_key(j)).cloned().collect();
                return Some(("missing-acked".into(), format!("batches {:?} were acknowledged before the query was issued but are missing (result has batches {:?})", missing, per_batch.keys().collect::<Vec<_>>())));
            }
            if k > pushed_by_done {
                return Some(("unknown-row".into(), "rows of a batch that had not been pushed when the query returned".into()));
            }
            if kind == QKind::Sorted && rows.windows(2).any(|w| w[0].0 > w[1].0) {
                return Some(("unsorted".into(), "ORDER BY id result is not ascending".into()));
            }
            None
        }
        QRes::Error(m) => Some((format!("query-error:{}", skeleton(m)), format!("query failed: {}", m))),
        QRes::Panic(m) => Some((format!("query-panic:{}", skeleton(m)), format!("query panicked: {}", m))),
        QRes::Hang => Some(("query-hang".into(), "query did not return before the deadline".into())),
        QRes::Malformed(m) => Some(("malformed".into(), m.clone())),
        QRes::NullId(m) => Some(("null-id".into(), format!("an existing column was reported as absent: {}", m))),
    }
}

fn parse_layout(note: &str) -> Vec<(u64, usize, usize)> {
    let mut v: Vec<(u64, usize, usize)> = note
        .split(',')
        .filter(|s| !s.is_empty())
        .map(|s| {
            let mut it = s.split(':');
            (it.next().unwrap().parse().unwrap(), it.next().unwrap().parse().unwrap(), it.next().unwrap().parse().unwrap())
        })
        .collect();
    v.sort_by_key(|p| p.1);
    v
}

/// The event list for the model entry `conc_replay`; queries in `skip` are left out.
/// Returns (ni, nq, events, kinds of the completed snapshots in completion order as (querier, instance)).
pub fn model_events(log: &[Event], skip: &HashSet<(usize, usize)>) -> (usize, usize, Vec<Sx>, Vec<(usize, usize)>) {
    let mut evs = vec![];
    let mut completed = vec![];
    let mut cur_batch: HashMap<usize, usize> = HashMap::new();
    let mut cur_inst: HashMap<usize, (usize, String)> = HashMap::new();
    let (mut ni, mut nq) = (0usize, 0usize);
    let a = |s: &str| Sx::a(s);
    for (i, e) in log.iter().enumerate() {
        let on_t = e.table.as_deref() == Some(TABLE);
        match e.role {
            Role::Ingester(n) => {
                ni = ni.max(n + 1);
                match e.label.as_str() {
                    "h:istart" => {
                        cur_batch.insert(n, e.note.as_ref().unwrap().parse().unwrap());
                    }
                    "ingest:wal_locked" => {
                        let j = cur_batch[&n];
                        evs.push(Sx::l(vec![a("iwal"), Sx::int(n), Sx::list(&batch_ids(j), |x| Sx::int(x))]));
                    }
                    "ingest_homogeneous:locked" if on_t => evs.push(Sx::l(vec![a("ilocked"), Sx::int(n)])),
                    "ingest_homogeneous:pushed" if on_t => evs.push(Sx::l(vec![a("ipushed"), Sx::int(n)])),
                    "ingest:wal_written" => evs.push(Sx::l(vec![a("iack"), Sx::int(n)])),
                    _ => {}
                }
            }
            Role::Querier(n) => {
                nq = nq.max(n + 1);
                match e.label.as_str() {
                    "h:qstart" => {
                        let note = e.note.as_ref().unwrap();
                        let (inst, kind) = note.split_once(' ').unwrap();
                        let inst: usize = inst.parse().unwrap();
                        cur_inst.insert(n, (inst, kind.to_string()));
                        if !skip.contains(&(n, inst)) {
                            evs.push(Sx::l(vec![a("qstart"), Sx::int(n)]));
                        }
                    }
                    "snapshot:locked" if on_t => {
                        if let Some((inst, _)) = cur_inst.get(&n) {
                            if !skip.contains(&(n, *inst)) {
                                evs.push(Sx::l(vec![a("qlocked"), Sx::int(n)]));
                            }
                        }
                    }
                    "snapshot:copied" if on_t => {
                        if let Some((inst, kind)) = cur_inst.get(&n) {
                            if !skip.contains(&(n, *inst)) {
                                let k = if kind == "count" { "count" } else { "rows" };
                                evs.push(Sx::l(vec![a("qcopied"), Sx::int(n), a(k)]));
                                completed.push((n, *inst));
                            }
                        }
                    }
                    _ => {}
                }
            }
            Role::None => {
                let simple = match (e.label.as_str(), on_t) {
                    ("wal_flush:wal_locked", _) => Some("fwal"),
                    ("freeze:frozen_locked", true) => Some("fzfrozen"),
                    ("freeze:locked", true) => Some("fzlocked"),
                    ("freeze:swapped", true) => Some("fzswapped"),
                    ("wal_flush:frozen", _) => Some("ffrozenall"),
                    ("batch:frozen_locked", true) => Some("bfrozen"),
                    ("batch:taken", true) => Some("btaken"),
                    ("batch:write_locked", true) => Some("bwrite"),
                    ("batch:inserted", true) => Some("binserted"),
                    ("batch:registered", true) => Some("bregistered"),
                    ("compact:parts_snapshotted", true) => Some("cparts"),
                    ("table_compact:write_locked", true) => Some("cwrite"),
                    ("table_compact:swapped", true) => Some("cswapped"),
                    _ => None,
                };
                if let Some(s) = simple {
                    evs.push(a(s));
                } else if e.label == "flush_table_buffer:planned" && on_t {
                    // was a compaction planned, and from which position (offset order) on?
                    let before = parse_layout(e.note.as_deref().unwrap_or(""));
                    let mut choice = Sx::none();
                    for f in &log[i + 1..] {
                        if f.label == "wal_flush:end" || f.label == "wal_flush:begin" {
                            break;
                        }
                        if f.label == "compact:swapped" && f.table.as_deref() == Some(TABLE) {
                            let after: HashSet<u64> = parse_layout(f.note.as_deref().unwrap_or("")).iter().map(|p| p.0).collect();
                            if let Some(pos) = before.iter().position(|p| !after.contains(&p.0)) {
                                choice = Sx::some(Sx::int(pos));
                            }
                            break;
                        }
                    }
                    evs.push(Sx::l(vec![a("planned"), choice]));
                }
            }
        }
    }
    (ni, nq, evs, completed)
}
