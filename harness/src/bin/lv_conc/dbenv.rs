//! One database lifetime inside the child process: opening, the operations (ingest / flush / query) run as
//! harness threads with roles and deadlines, panic capture.
use crate::sync::{Controller, Role};
use locustdb::{LocustDB, Options, Value};
use locustdb_serialization::event_buffer::{ColumnBuffer, ColumnData, EventBuffer, TableBuffer};
use std::collections::HashMap;
use std::path::Path;
use std::sync::mpsc::{channel, Receiver};
use std::sync::{Arc, Mutex};
use std::time::{Duration, Instant};

pub const TABLE: &str = "t";
pub const NEVER_COMPACT: u64 = 1_000_000_000;

#[derive(Clone, Debug)]
pub struct PanicRec {
    pub file: String,
    pub msg: String,
    pub at: Instant,
}

pub static PANICS: Mutex<Vec<PanicRec>> = Mutex::new(Vec::new());
/// set once some operation of this case has been declared hung: the database is wedged, later waits are short
pub static HANG_SEEN: std::sync::atomic::AtomicBool = std::sync::atomic::AtomicBool::new(false);

pub fn install_panic_hook() {
    std::panic::set_hook(Box::new(|info| {
        let file = info
            .location()
            .map(|l| l.file().rsplit('/').next().unwrap_or("").to_string())
            .unwrap_or_default();
        let msg = if let Some(s) = info.payload().downcast_ref::<&str>() {
            s.to_string()
        } else if let Some(s) = info.payload().downcast_ref::<String>() {
            s.clone()
        } else {
            "non-string payload".to_string()
        };
        if let Ok(mut p) = PANICS.lock() {
            p.push(PanicRec { file, msg, at: Instant::now() });
        }
    }));
}

pub fn first_panic() -> Option<PanicRec> {
    PANICS.lock().ok().and_then(|p| p.first().cloned())
}

/// digits and quoted payloads removed, truncated
pub fn skeleton(msg: &str) -> String {
    let first = msg.lines().next().unwrap_or("");
    let mut out = String::new();
    let mut in_digits = false;
    for c in first.chars() {
        if c.is_ascii_digit() {
            if !in_digits {
                out.push('#');
            }
            in_digits = true;
        } else {
            in_digits = false;
            out.push(if c == ' ' || c == '(' || c == ')' { '_' } else { c });
        }
    }
    out.chars().take(70).collect()
}

pub fn options(dir: &Path, combine: u64) -> Options {
    Options {
        threads: 3,
        read_threads: 2,
        db_path: Some(dir.to_path_buf()),
        mem_size_limit_tables: 8 * 1024 * 1024 * 1024,
        mem_lz4: false,
        readahead: 256 * 1024 * 1024,
        max_wal_size_bytes: 64 * 1024 * 1024,
        max_wal_files: 1_000_000,
        max_partition_size_bytes: 8 * 1024 * 1024,
        partition_combine_factor: combine,
        batch_size: 1024,
        max_partition_length: 1024 * 1024,
        wal_flush_compaction_threads: 1,
        io_threads: 1,
        metrics_interval: 15,
        metrics_table_name: None,
    }
}

/// rows of batch j: ids j*1000 + i; size 3 + (j mod 6); column x only in every third batch
pub fn batch_size(j: usize) -> usize {
    3 + (j % 6)
}
pub fn batch_ids(j: usize) -> Vec<i64> {
    (0..batch_size(j)).map(|i| (j * 1000 + i) as i64).collect()
}
pub fn batch_has_x(j: usize) -> bool {
    j % 3 == 0
}
pub fn batch_of_id(id: i64) -> usize {
    (id / 1000) as usize
}

pub fn event_for_batch(j: usize) -> EventBuffer {
    let ids = batch_ids(j);
    let mut cols = HashMap::new();
    cols.insert("id".to_string(), ColumnBuffer { data: ColumnData::I64(ids.clone()) });
    cols.insert("b".to_string(), ColumnBuffer { data: ColumnData::I64(ids.iter().map(|_| j as i64).collect()) });
    if batch_has_x(j) {
        cols.insert("x".to_string(), ColumnBuffer { data: ColumnData::I64(ids.iter().map(|i| i * 10).collect()) });
    }
    EventBuffer { tables: HashMap::from([(TABLE.to_string(), TableBuffer::new(cols))]) }
}

#[derive(Clone, Copy, Debug, PartialEq, Eq)]
pub enum QKind {
    All,
    Count,
    Sorted,
    Lack,
    Nosuch,
    Cols3,
    /// SELECT *: no column filter (Table::snapshot(None)), columns from the _meta_columns table
    Star,
}

impl QKind {
    pub fn parse(s: &str) -> Option<QKind> {
        Some(match s {
            "all" => QKind::All,
            "count" => QKind::Count,
            "sorted" => QKind::Sorted,
            "lack" => QKind::Lack,
            "nosuch" => QKind::Nosuch,
            "cols3" => QKind::Cols3,
            "star" => QKind::Star,
            _ => return None,
        })
    }
    pub fn name(&self) -> &'static str {
        match self {
            QKind::All => "all",
            QKind::Count => "count",
            QKind::Sorted => "sorted",
            QKind::Lack => "lack",
            QKind::Nosuch => "nosuch",
            QKind::Cols3 => "cols3",
            QKind::Star => "star",
        }
    }
    pub fn sql(&self) -> String {
        match self {
            QKind::All => format!("SELECT id FROM {} LIMIT 1000000", TABLE),
            QKind::Count => format!("SELECT COUNT(1) FROM {}", TABLE),
            QKind::Sorted => format!("SELECT id FROM {} ORDER BY id LIMIT 1000000", TABLE),
            QKind::Lack => format!("SELECT id, x FROM {} LIMIT 1000000", TABLE),
            QKind::Nosuch => format!("SELECT id, nosuch FROM {} LIMIT 1000000", TABLE),
            QKind::Cols3 => format!("SELECT id, b, x FROM {} LIMIT 1000000", TABLE),
            QKind::Star => format!("SELECT * FROM {} LIMIT 1000000", TABLE),
        }
    }
}

#[derive(Clone, Debug)]
pub enum QRes {
    /// ids in result order (+ second column where selected)
    Rows(Vec<(i64, Option<Value>)>),
    Count(i64),
    Error(String),
    Panic(String),
    Hang,
    Malformed(String),
    /// a row whose id (a column every batch carries) came back NULL
    NullId(String),
}

#[derive(Clone, Debug)]
pub enum OpRes {
    Done,
    Query(QRes),
    Panic(String),
    Hang,
}

pub struct OpHandle {
    pub name: String,
    pub role: Role,
    pub rx: Receiver<OpRes>,
    pub result: Option<OpRes>,
    pub started: Instant,
}

impl OpHandle {
    pub fn poll(&mut self) -> bool {
        if self.result.is_some() {
            return true;
        }
        match self.rx.try_recv() {
            Ok(r) => {
                self.result = Some(r);
                true
            }
            Err(std::sync::mpsc::TryRecvError::Empty) => false,
            Err(_) => {
                self.result = Some(OpRes::Panic("operation thread vanished".into()));
                true
            }
        }
    }

    /// wait for completion; the deadline shrinks once a panic has been recorded anywhere in the process
    pub fn wait(&mut self, deadline: Duration) -> &OpRes {
        let t0 = Instant::now();
        loop {
            if self.poll() {
                break;
            }
            let mut limit = match first_panic() {
                Some(p) => deadline.min(p.at.saturating_duration_since(t0) + Duration::from_millis(2500)),
                None => deadline,
            };
            if HANG_SEEN.load(std::sync::atomic::Ordering::SeqCst) {
                limit = limit.min(Duration::from_secs(4));
            }
            if t0.elapsed() > limit {
                HANG_SEEN.store(true, std::sync::atomic::Ordering::SeqCst);
                self.result = Some(OpRes::Hang);
                break;
            }
            std::thread::sleep(Duration::from_millis(3));
        }
        self.result.as_ref().unwrap()
    }
}

pub struct Env {
    pub ctl: Arc<Controller>,
    pub rt: Arc<tokio::runtime::Runtime>,
    pub db: Arc<LocustDB>,
}

impl Env {
    pub fn open(ctl: Arc<Controller>, dir: &Path, combine: u64) -> Env {
        let rt = Arc::new(tokio::runtime::Builder::new_multi_thread().worker_threads(2).enable_all().build().unwrap());
        let db = {
            let _g = rt.enter();
            Arc::new(LocustDB::new(&options(dir, combine)))
        };
        Env { ctl, rt, db }
    }

    pub fn spawn<F: FnOnce() -> OpRes + Send + 'static>(&self, name: &str, role: Role, f: F) -> OpHandle {
        let (tx, rx) = channel();
        let name_s = name.to_string();
        std::thread::Builder::new()
            .name(format!("op-{}", name))
            .spawn(move || {
                crate::sync::set_role(role);
                let r = std::panic::catch_unwind(std::panic::AssertUnwindSafe(f));
                let _ = tx.send(match r {
                    Ok(r) => r,
                    Err(e) => OpRes::Panic(lvharness::suite::panic_message(e)),
                });
            })
            .unwrap();
        OpHandle { name: name_s, role, rx, result: None, started: Instant::now() }
    }

    /// ingestion of batch j by ingester n; harness events h:istart (note = j) and h:ack
    pub fn ingest(&self, n: usize, j: usize) -> OpHandle {
        let (ctl, rt, db) = (self.ctl.clone(), self.rt.clone(), self.db.clone());
        self.spawn(&format!("ingest{}", j), Role::Ingester(n), move || {
            ctl.note(Role::Ingester(n), "h:istart", Some(j.to_string()));
            rt.block_on(db.ingest_efficient(event_for_batch(j)));
            ctl.note(Role::Ingester(n), "h:ack", Some(j.to_string()));
            OpRes::Done
        })
    }

    pub fn flush(&self) -> OpHandle {
        let (ctl, db) = (self.ctl.clone(), self.db.clone());
        self.spawn("flush", Role::None, move || {
            ctl.note(Role::None, "h:flush_start", None);
            db.force_flush();
            ctl.note(Role::None, "h:flush_done", None);
            OpRes::Done
        })
    }

    /// LocustDB::evict_cache: every resident column of every partition is dropped from memory
    pub fn evict(&self) -> OpHandle {
        let (ctl, db) = (self.ctl.clone(), self.db.clone());
        self.spawn("evict", Role::None, move || {
            ctl.note(Role::None, "h:evict_start", None);
            db.evict_cache();
            ctl.note(Role::None, "h:evict_done", None);
            OpRes::Done
        })
    }

    /// query instance `inst` of querier n; harness events h:qstart / h:qdone (note = instance)
    pub fn query(&self, n: usize, inst: usize, kind: QKind, deadline: Duration) -> OpHandle {
        let (ctl, rt, db) = (self.ctl.clone(), self.rt.clone(), self.db.clone());
        self.spawn(&format!("q{}-{}", n, kind.name()), Role::Querier(n), move || {
            ctl.note(Role::Querier(n), "h:qstart", Some(format!("{} {}", inst, kind.name())));
            let r = run_query(&rt, &db, kind, deadline);
            ctl.note(Role::Querier(n), "h:qdone", Some(inst.to_string()));
            OpRes::Query(r)
        })
    }
}

pub fn run_query(rt: &tokio::runtime::Runtime, db: &LocustDB, kind: QKind, deadline: Duration) -> QRes {
    let sql = kind.sql();
    let r = std::panic::catch_unwind(std::panic::AssertUnwindSafe(|| {
        rt.block_on(async { tokio::time::timeout(deadline, db.run_query(&sql, false, true, vec![])).await })
    }));
    match r {
        Err(e) => QRes::Panic(lvharness::suite::panic_message(e)),
        Ok(Err(_)) => QRes::Hang,
        Ok(Ok(Err(e))) => QRes::Error(format!("{}", e).lines().next().unwrap_or("").to_string()),
        Ok(Ok(Ok(out))) => {
            let rows = out.rows.unwrap_or_default();
            if kind == QKind::Count {
                match rows.as_slice() {
                    [r] if r.len() == 1 => match &r[0] {
                        Value::Int(c) => QRes::Count(*c),
                        v => QRes::Malformed(format!("count cell {:?}", v)),
                    },
                    [] => QRes::Count(0),
                    _ => QRes::Malformed(format!("count result with {} rows", rows.len())),
                }
            } else {
                let mut v = Vec::with_capacity(rows.len());
                let mut nulls = 0usize;
                // the id column: first for the queries that name their columns, by name for SELECT *
                let idx = if kind == QKind::Star {
                    let mut names = out.colnames.clone();
                    names.sort();
                    if names != ["b", "id", "x"] {
                        return QRes::Malformed(format!("SELECT * returned the columns {:?}", out.colnames));
                    }
                    out.colnames.iter().position(|c| c == "id").unwrap()
                } else {
                    0
                };
                for r in &rows {
                    match r.get(idx) {
                        Some(Value::Int(i)) => v.push((*i, r.get(if idx == 0 { 1 } else { 0 }).cloned())),
                        Some(Value::Null) => nulls += 1,
                        other => return QRes::Malformed(format!("id cell {:?}", other)),
                    }
                }
                if nulls > 0 {
                    let mut batches: Vec<usize> = v.iter().map(|r| batch_of_id(r.0)).collect();
                    batches.sort();
                    batches.dedup();
                    return QRes::NullId(format!("{} of {} rows have id = NULL; batches with ids: {:?}; columns {:?}", nulls, rows.len(), batches, out.colnames));
                }
                QRes::Rows(v)
            }
        }
    }
}
