//! Seeded multi-thread stress (child side): two ingesters, one flush loop, three queriers, with seeded
//! perturbation at the sync points.  Every query result is judged by the prefix oracle; the complete sync-point
//! log must be a path of the model and reproduce every snapshot.
//!
//!   (stress <fresh|restart> <combine factor> <0 plain | 1 absent-column queries | 2 eviction loop> <queries per querier> <seed>)
use crate::dbenv::*;
use crate::judge::*;
use crate::sched::{final_layout, install_noter, DbSlot, Out, Verdict, OP_DEADLINE};
use crate::sync::{Controller, Role};
use lvharness::rng::Rng;
use lvharness::sx::Sx;
use std::collections::HashSet;
use std::path::Path;
use std::sync::atomic::{AtomicBool, AtomicUsize, Ordering};
use std::sync::{Arc, Mutex};
use std::time::{Duration, Instant};

pub fn run(case: &Sx, dir: &Path) -> Vec<Out> {
    let it = case.items();
    let variant = it[1].atom().to_string();
    let combine = it[2].as_u64();
    let lack = it[3].atom() == "1";
    let evict = it[3].atom() == "2";
    let per_querier = it[4].as_usize();
    let seed = it[5].as_u64();
    let context = format!("stress|{}|combine={}|{}", variant, combine, if lack { "abscol" } else if evict { "evict" } else { "plain" });

    install_panic_hook();
    let ctl = Controller::new();
    ctl.install();
    let slot: DbSlot = Arc::new(Mutex::new(None));
    install_noter(&ctl, &slot);
    let mut v = Verdict::new();
    let next_batch = Arc::new(AtomicUsize::new(0));
    let mut setup_ok = true;
    let mut must = |v: &mut Verdict, mut h: OpHandle| -> bool {
        h.wait(OP_DEADLINE);
        v.op(&h);
        matches!(h.result, Some(OpRes::Done))
    };
    let env;
    if variant == "restart" {
        let e0 = Env::open(ctl.clone(), dir, NEVER_COMPACT);
        *slot.lock().unwrap() = Some(e0.db.clone());
        for _ in 0..3 {
            setup_ok &= must(&mut v, e0.ingest(0, next_batch.fetch_add(1, Ordering::SeqCst)));
            setup_ok &= must(&mut v, e0.flush());
        }
        *slot.lock().unwrap() = None;
        drop(e0);
        std::thread::sleep(Duration::from_millis(30));
        env = Env::open(ctl.clone(), dir, combine);
    } else {
        env = Env::open(ctl.clone(), dir, combine);
    }
    *slot.lock().unwrap() = Some(env.db.clone());
    setup_ok &= must(&mut v, env.ingest(0, next_batch.fetch_add(1, Ordering::SeqCst)));
    if !setup_ok {
        let (sig, msg) = v.finish(&context).unwrap_or(("setup-failed".into(), "setup failed".into()));
        return vec![Out { model: None, model_input: None, impl_out: None, oracle: Some(format!("setup: {}", msg)), signature: Some(format!("setup:{}", sig)), nontrivial: false }];
    }

    ctl.jitter.store(seed | 1, Ordering::Relaxed);
    let stop = Arc::new(AtomicBool::new(false));
    let results: Arc<Mutex<Vec<((usize, usize), QKind, QRes)>>> = Arc::new(Mutex::new(vec![]));
    let mut handles = vec![];
    let mut rng = Rng::new(seed);
    // ingesters
    for n in 0..2usize {
        let (ctl2, rt, db, stop2, nb) = (ctl.clone(), env.rt.clone(), env.db.clone(), stop.clone(), next_batch.clone());
        let mut r = rng.fork(n as u64 + 1);
        handles.push(env.spawn(&format!("ingester{}", n), Role::Ingester(n), move || {
            while !stop2.load(Ordering::SeqCst) {
                let j = nb.fetch_add(1, Ordering::SeqCst);
                if j > 900 {
                    break;
                }
                ctl2.note(Role::Ingester(n), "h:istart", Some(j.to_string()));
                rt.block_on(db.ingest_efficient(event_for_batch(j)));
                ctl2.note(Role::Ingester(n), "h:ack", Some(j.to_string()));
                std::thread::sleep(Duration::from_micros(200 + r.below(3000)));
            }
            OpRes::Done
        }));
    }
    // the flush loop
    {
        let (ctl2, db, stop2) = (ctl.clone(), env.db.clone(), stop.clone());
        let mut r = rng.fork(77);
        handles.push(env.spawn("flush-loop", Role::None, move || {
            while !stop2.load(Ordering::SeqCst) {
                ctl2.note(Role::None, "h:flush_start", None);
                db.force_flush();
                ctl2.note(Role::None, "h:flush_done", None);
                std::thread::sleep(Duration::from_micros(500 + r.below(8000)));
            }
            OpRes::Done
        }));
    }
    // eviction loop (dedicated class)
    if evict {
        let (ctl2, db, stop2) = (ctl.clone(), env.db.clone(), stop.clone());
        let mut r = rng.fork(55);
        handles.push(env.spawn("evict-loop", Role::None, move || {
            while !stop2.load(Ordering::SeqCst) {
                ctl2.note(Role::None, "h:evict_start", None);
                db.evict_cache();
                ctl2.note(Role::None, "h:evict_done", None);
                std::thread::sleep(Duration::from_micros(300 + r.below(4000)));
            }
            OpRes::Done
        }));
    }
    // queriers
    let mut qhandles = vec![];
    for n in 0..3usize {
        let (ctl2, rt, db, res) = (ctl.clone(), env.rt.clone(), env.db.clone(), results.clone());
        let mut r = rng.fork(100 + n as u64);
        qhandles.push(env.spawn(&format!("querier{}", n), Role::Querier(n), move || {
            for inst in 0..per_querier {
                let kind = if lack && r.chance(1, 3) {
                    if r.chance(1, 2) { QKind::Lack } else { QKind::Nosuch }
                } else {
                    *r.pick(&[QKind::All, QKind::Star, QKind::Count, QKind::Sorted, QKind::Star])
                };
                ctl2.note(Role::Querier(n), "h:qstart", Some(format!("{} {}", inst, kind.name())));
                let q = run_query(&rt, &db, kind, Duration::from_secs(30));
                ctl2.note(Role::Querier(n), "h:qdone", Some(inst.to_string()));
                let bad = matches!(q, QRes::Hang | QRes::Panic(_));
                res.lock().unwrap().push(((n, inst), kind, q));
                if bad {
                    break;
                }
                std::thread::sleep(Duration::from_micros(r.below(1500)));
            }
            OpRes::Done
        }));
    }
    let t0 = Instant::now();
    let budget = Duration::from_secs(150);
    for h in qhandles.iter_mut() {
        let left = budget.checked_sub(t0.elapsed()).unwrap_or(Duration::from_millis(1));
        h.wait(left);
    }
    stop.store(true, Ordering::SeqCst);
    for h in handles.iter_mut() {
        h.wait(OP_DEADLINE);
    }
    ctl.jitter.store(0, Ordering::Relaxed);
    let fin_res = run_query_as(&env, &ctl, 9, 0, QKind::All);

    // ---- verdict ----
    let log = ctl.snapshot_log();
    let ix = index_log(&log);
    for h in qhandles.iter().chain(handles.iter()) {
        v.op(h);
    }
    let mut all_results = results.lock().unwrap().clone();
    all_results.push(((9, 0), QKind::All, fin_res));
    for (key, kind, r) in &all_results {
        if let Some((what, msg)) = prefix_oracle(&ix, *key, *kind, r) {
            v.failed_queries.insert(*key);
            let sig = if what.starts_with("query-") { what } else { format!("mismatch:{}", what) };
            v.failures.push(crate::sched::Failure { sig, msg: format!("query {:?} [{}]: {}", key, kind.sql(), msg) });
        }
    }
    if let Some((sig, msg)) = v.finish(&context) {
        let msg: String = msg.chars().take(1500).collect();
        return vec![Out { model: None, model_input: None, impl_out: None, oracle: Some(msg), signature: Some(sig), nontrivial: true }];
    }
    let (ni, nq, evs, completed) = model_events(&log, &HashSet::new());
    let mut out_results = vec![];
    for key in &completed {
        let r = match all_results.iter().find(|r| r.0 == *key).map(|r| &r.2) {
            Some(QRes::Rows(rows)) => {
                let mut ids: Vec<i64> = rows.iter().map(|r| r.0).collect();
                ids.sort();
                Sx::list(&ids, |x| Sx::int(x))
            }
            Some(QRes::Count(c)) => Sx::int(c),
            _ => Sx::a("?"),
        };
        out_results.push(Sx::l(vec![Sx::int(key.0), r]));
    }
    let layout = final_layout(&env.db).unwrap_or(Sx::a("no-layout"));
    let impl_out = Sx::l(vec![Sx::a("ok"), Sx::l(out_results), layout]);
    let input = Sx::l(vec![Sx::int(ni.max(1)), Sx::int(nq.max(1)), Sx::l(evs)]);
    vec![Out { model: Some("conc_replay".into()), model_input: Some(input), impl_out: Some(impl_out), oracle: None, signature: None, nontrivial: true }]
}

fn run_query_as(env: &Env, ctl: &Arc<Controller>, n: usize, inst: usize, kind: QKind) -> QRes {
    let mut h = env.query(n, inst, kind, OP_DEADLINE);
    let _ = ctl;
    match h.wait(OP_DEADLINE) {
        OpRes::Query(q) => q.clone(),
        OpRes::Hang => QRes::Hang,
        OpRes::Panic(m) => QRes::Panic(m.clone()),
        OpRes::Done => QRes::Malformed("no result".into()),
    }
}
