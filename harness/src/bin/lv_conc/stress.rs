//! Seeded multi-thread stress (child side). Placeholder until the schedule suite passes.
use crate::sched::Out;
use lvharness::sx::Sx;
use std::path::Path;

pub fn run(_case: &Sx, _dir: &Path) -> Vec<Out> {
    vec![]
}
