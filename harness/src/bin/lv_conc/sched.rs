//! Deterministic schedule cases (child side): one thread is parked at a sync point while other operations
//! are started at exactly that instant.
//!
//!   (sched <fresh|restart> <compact 0|1> (park <f|q|i> <label> <t|-> <occurrence>)
//!          (main <flush|ingest|QKIND>) (inject <QKIND|ingest|flush>...))
use crate::dbenv::*;
use crate::judge::*;
use crate::sync::{Controller, ParkSpec, Role};
use lvharness::sx::Sx;
use locustdb::LocustDB;
use std::collections::HashSet;
use std::path::Path;
use std::sync::{Arc, Mutex};
use std::time::{Duration, Instant};

/// generous: the machine may be heavily loaded; a hang that follows a panic is cut short (see OpHandle::wait)
pub const OP_DEADLINE: Duration = Duration::from_secs(45);

pub struct Out {
    pub model: Option<String>,
    pub model_input: Option<Sx>,
    pub impl_out: Option<Sx>,
    pub oracle: Option<String>,
    pub signature: Option<String>,
    pub nontrivial: bool,
}

impl Out {
    pub fn to_sx(&self) -> Sx {
        let o = |x: &Option<Sx>| x.clone().map(Sx::some).unwrap_or_else(Sx::none);
        let s = |x: &Option<String>| x.as_ref().map(|m| Sx::some(Sx::bytes(m.as_bytes()))).unwrap_or_else(Sx::none);
        Sx::l(vec![Sx::a("outcome"), s(&self.model), o(&self.model_input), o(&self.impl_out), s(&self.oracle), s(&self.signature), Sx::boolean(self.nontrivial)])
    }
}

pub type DbSlot = Arc<Mutex<Option<Arc<LocustDB>>>>;

pub fn layout_note(db: &LocustDB) -> Option<String> {
    let inner = db.verif_inner();
    let t = inner.verif_tables().into_iter().find(|t| t.name() == TABLE)?;
    let l = t.verif_layout();
    Some(l.iter().map(|(id, s, e, _)| format!("{}:{}:{}", id, s, e)).collect::<Vec<_>>().join(","))
}

pub fn install_noter(ctl: &Arc<Controller>, slot: &DbSlot) {
    let slot = slot.clone();
    ctl.set_noter(Arc::new(move |label: &str, table: Option<&str>| {
        if table == Some(TABLE) && (label == "flush_table_buffer:planned" || label == "compact:swapped") {
            let db = slot.lock().ok()?.clone()?;
            layout_note(&db)
        } else {
            None
        }
    }));
}

/// (impl-side layout) partitions in offset order as (id len), rows in the frozen and in the open buffer
pub fn final_layout(db: &LocustDB) -> Option<Sx> {
    let inner = db.verif_inner();
    let t = inner.verif_tables().into_iter().find(|t| t.name() == TABLE)?;
    let mut l = t.verif_layout();
    l.sort_by_key(|p| p.1);
    let (open, frozen) = t.verif_buffer_lens();
    Some(Sx::l(vec![
        Sx::a("layout"),
        Sx::l(l.iter().map(|(id, s, e, _)| Sx::l(vec![Sx::int(id), Sx::int(e - s)])).collect()),
        Sx::int(frozen),
        Sx::int(open),
    ]))
}

pub struct Failure {
    pub sig: String,
    pub msg: String,
}

/// Collects what went wrong in a case and turns it into the case-level verdict.
pub struct Verdict {
    pub failures: Vec<Failure>,
    pub failed_queries: HashSet<(usize, usize)>,
}

impl Verdict {
    pub fn new() -> Verdict {
        Verdict { failures: vec![], failed_queries: HashSet::new() }
    }
    pub fn op(&mut self, h: &OpHandle) {
        match h.result.as_ref() {
            Some(OpRes::Hang) | None => self.failures.push(Failure { sig: format!("hang:{}", op_kind(&h.name)), msg: format!("{} did not complete before the deadline", h.name) }),
            Some(OpRes::Panic(m)) => self.failures.push(Failure { sig: format!("op-panic:{}:{}", op_kind(&h.name), skeleton(m)), msg: format!("{} panicked: {}", h.name, m) }),
            _ => {}
        }
    }
    pub fn query(&mut self, ix: &LogIndex, key: (usize, usize), kind: QKind, h: &OpHandle) {
        match h.result.as_ref() {
            Some(OpRes::Query(r)) => {
                if let Some((what, msg)) = prefix_oracle(ix, key, kind, r) {
                    self.failed_queries.insert(key);
                    let sig = if what.starts_with("query-") { what } else { format!("mismatch:{}", what) };
                    self.failures.push(Failure { sig, msg: format!("{} [{}]: {}", h.name, kind.sql(), msg) });
                }
            }
            _ => {
                self.failed_queries.insert(key);
                self.op(h);
            }
        }
    }
    /// signature = first recorded panic if any, else the first failure; message lists everything
    pub fn finish(&self, context: &str) -> Option<(String, String)> {
        let panics: Vec<PanicRec> = PANICS.lock().map(|p| p.clone()).unwrap_or_default();
        if self.failures.is_empty() && panics.is_empty() {
            return None;
        }
        let head = match panics.first() {
            Some(p) => format!("panic:{}:{}", p.file, skeleton(&p.msg)),
            None => self.failures[0].sig.clone(),
        };
        let mut msg = String::new();
        for p in &panics {
            msg.push_str(&format!("thread panicked at {}: {}; ", p.file, p.msg.lines().next().unwrap_or("")));
        }
        for f in &self.failures {
            msg.push_str(&format!("{}; ", f.msg));
        }
        Some((format!("{}|{}", head, context), msg))
    }
}

fn op_kind(name: &str) -> &str {
    if name.starts_with("ingest") {
        "ingest"
    } else if name.starts_with("flush") {
        "flush"
    } else if name.starts_with("evict") {
        "evict"
    } else if name.starts_with('q') {
        "query"
    } else {
        name
    }
}

fn must(v: &mut Verdict, mut h: OpHandle) -> bool {
    h.wait(OP_DEADLINE);
    v.op(&h);
    matches!(h.result, Some(OpRes::Done))
}

pub fn run(case: &Sx, dir: &Path) -> Vec<Out> {
    let it = case.items();
    let variant = it[1].atom().to_string();
    let compact = it[2].atom() == "1";
    let park = it[3].items();
    let who = park[1].atom().to_string();
    let label = park[2].atom().to_string();
    let ptable = if park[3].atom() == "-" { None } else { Some(TABLE.to_string()) };
    let occ = park[4].as_usize();
    let main = it[4].items()[1].atom().to_string();
    let inject: Vec<String> = it[5].items()[1..].iter().map(|x| x.atom().to_string()).collect();
    let context = format!("at={}:{}|main={}|inj={}|{}{}", who, label, main, inject.join("+"), variant, if compact { "-compact" } else { "" });

    install_panic_hook();
    let t_start = Instant::now();
    let trace = std::env::var("LV_CONC_TRACE").is_ok();
    let tr = |what: &str| {
        if trace {
            eprintln!("[{:>6} ms] {}", t_start.elapsed().as_millis(), what);
        }
    };
    let ctl = Controller::new();
    ctl.install();
    let slot: DbSlot = Arc::new(Mutex::new(None));
    install_noter(&ctl, &slot);
    let combine = if compact { 1 } else { NEVER_COMPACT };
    let mut v = Verdict::new();
    let mut next_batch = 0usize;
    let mut setup_ok = true;

    let env;
    if variant == "restart" {
        let e0 = Env::open(ctl.clone(), dir, NEVER_COMPACT);
        *slot.lock().unwrap() = Some(e0.db.clone());
        for _ in 0..2 {
            setup_ok &= must(&mut v, e0.ingest(0, next_batch));
            next_batch += 1;
            setup_ok &= must(&mut v, e0.flush());
        }
        *slot.lock().unwrap() = None;
        drop(e0);
        std::thread::sleep(Duration::from_millis(30));
        env = Env::open(ctl.clone(), dir, combine);
        *slot.lock().unwrap() = Some(env.db.clone());
        setup_ok &= must(&mut v, env.ingest(0, next_batch));
        next_batch += 1;
    } else {
        env = Env::open(ctl.clone(), dir, combine);
        *slot.lock().unwrap() = Some(env.db.clone());
        setup_ok &= must(&mut v, env.ingest(0, next_batch));
        next_batch += 1;
        setup_ok &= must(&mut v, env.flush());
        for _ in 0..2 {
            setup_ok &= must(&mut v, env.ingest(0, next_batch));
            next_batch += 1;
        }
    }
    if !setup_ok {
        let (sig, msg) = v.finish(&context).unwrap_or(("setup-failed".into(), "setup failed".into()));
        return vec![Out { model: None, model_input: None, impl_out: None, oracle: Some(format!("setup: {}", msg)), signature: Some(format!("setup:{}", sig)), nontrivial: false }];
    }

    tr("setup done");
    // ---- the schedule ----
    let role = match who.as_str() {
        "q" if label.starts_with("snapshot:") => Some(Role::Querier(0)),
        "i" => Some(Role::Ingester(1)),
        _ => None,
    };
    ctl.arm(ParkSpec { label: label.clone(), table: ptable, occurrence: occ, role });
    let mut queries: Vec<((usize, usize), QKind, OpHandle)> = vec![];
    let mut others: Vec<OpHandle> = vec![];
    let mut main_q: Option<((usize, usize), QKind)> = None;
    let mut main_h = match main.as_str() {
        "flush" => env.flush(),
        "ingest" => {
            let h = env.ingest(1, next_batch);
            next_batch += 1;
            h
        }
        k => {
            let kind = QKind::parse(k).expect("main query kind");
            main_q = Some(((0, 0), kind));
            env.query(0, 0, kind, OP_DEADLINE)
        }
    };
    let reached = ctl.wait_parked(Duration::from_secs(30), || main_h.poll());
    let mut injected_any = false;
    tr("parked (or not reached)");
    if reached {
        let lock_holding_q = who == "q" && (label == "snapshot:locked" || label == "snapshot:copied");
        let from = ctl.log_len();
        let mut qn = 1usize;
        for item in &inject {
            injected_any = true;
            match item.as_str() {
                "ingest" => {
                    others.push(env.ingest(2, next_batch));
                    next_batch += 1;
                }
                "flush" => others.push(env.flush()),
                "evict" => {
                    // the eviction completes before the operations injected after it start, unless the parked
                    // thread holds the partitions write lock (then it completes after the release)
                    let mut h = env.evict();
                    let t = Instant::now();
                    while !h.poll() && t.elapsed() < Duration::from_millis(400) {
                        std::thread::sleep(Duration::from_millis(2));
                    }
                    others.push(h);
                }
                k => {
                    let kind = QKind::parse(k).expect("inject kind");
                    queries.push(((qn, 0), kind, env.query(qn, 0, kind, OP_DEADLINE)));
                    qn += 1;
                }
            }
        }
        // Wait for the injected operations while the thread stays parked.  An operation that has not reached its
        // first sync point yet is still starting; a query past its snapshot, or any operation started while the
        // parked thread holds no table lock, is running (long limit); an operation that entered and then made no
        // progress for 250 ms is taken to be blocked by a lock of the parked thread: it completes after the release.
        let t0 = Instant::now();
        let long = |_: ()| if first_panic().is_some() { Duration::from_millis(1500) } else { Duration::from_secs(8) };
        let mut entered: std::collections::HashMap<String, Instant> = std::collections::HashMap::new();
        let q_free = who == "q" && !lock_holding_q;
        loop {
            let mut all = true;
            let mut keep_waiting = false;
            let el = t0.elapsed();
            for (key, _, h) in queries.iter_mut() {
                if h.poll() {
                    continue;
                }
                all = false;
                let role = Role::Querier(key.0);
                if ctl.seen_since(from, role, "snapshot:copied") || !ctl.seen_since(from, role, "snapshot:begin") {
                    keep_waiting |= el < long(());
                } else {
                    let t = *entered.entry(h.name.clone()).or_insert_with(Instant::now);
                    keep_waiting |= t.elapsed() < Duration::from_millis(250);
                }
            }
            for h in others.iter_mut() {
                if h.poll() {
                    continue;
                }
                all = false;
                let started = match h.role {
                    Role::Ingester(_) => ctl.seen_since(from, h.role, "ingest:begin"),
                    _ if h.name == "evict" => ctl.seen_since(from, Role::None, "h:evict_start"),
                    _ => ctl.seen_since(from, Role::None, "h:flush_start"),
                };
                if q_free || !started {
                    keep_waiting |= el < long(());
                } else {
                    let t = *entered.entry(h.name.clone()).or_insert_with(Instant::now);
                    keep_waiting |= t.elapsed() < Duration::from_millis(250);
                }
            }
            if all || !keep_waiting {
                break;
            }
            std::thread::sleep(Duration::from_millis(2));
        }
        tr("injected ops waited for");
        ctl.release();
    } else {
        ctl.disarm();
    }
    main_h.wait(OP_DEADLINE);
    for (_, _, h) in queries.iter_mut() {
        h.wait(OP_DEADLINE);
    }
    for h in others.iter_mut() {
        h.wait(OP_DEADLINE);
    }
    tr("all ops joined");
    // quiescent: everything acknowledged must be there
    let mut fin = env.query(9, 0, QKind::All, OP_DEADLINE);
    fin.wait(OP_DEADLINE);

    tr("final query done");
    // ---- verdict ----
    let log = ctl.snapshot_log();
    let ix = index_log(&log);
    match main_q {
        Some((key, kind)) => v.query(&ix, key, kind, &main_h),
        None => v.op(&main_h),
    }
    for (key, kind, h) in &queries {
        v.query(&ix, *key, *kind, h);
    }
    for h in &others {
        v.op(h);
    }
    v.query(&ix, (9, 0), QKind::All, &fin);
    let nontrivial = reached && injected_any;
    if let Some((sig, msg)) = v.finish(&context) {
        return vec![Out { model: None, model_input: None, impl_out: None, oracle: Some(msg), signature: Some(sig), nontrivial }];
    }
    // model correspondence: the observed interleaving must be a path of the model and yield these snapshots
    let (ni, nq, evs, completed) = model_events(&log, &HashSet::new());
    let mut results = vec![];
    let find = |key: (usize, usize)| -> Option<&OpHandle> {
        if key == (9, 0) {
            return Some(&fin);
        }
        if main_q.map(|m| m.0) == Some(key) {
            return Some(&main_h);
        }
        queries.iter().find(|q| q.0 == key).map(|q| &q.2)
    };
    for key in &completed {
        let r = match find(*key).and_then(|h| h.result.as_ref()) {
            Some(OpRes::Query(QRes::Rows(rows))) => {
                let mut ids: Vec<i64> = rows.iter().map(|r| r.0).collect();
                ids.sort();
                Sx::list(&ids, |x| Sx::int(x))
            }
            Some(OpRes::Query(QRes::Count(c))) => Sx::int(c),
            _ => Sx::a("?"),
        };
        results.push(Sx::l(vec![Sx::int(key.0), r]));
    }
    let layout = final_layout(&env.db).unwrap_or(Sx::a("no-layout"));
    let impl_out = Sx::l(vec![Sx::a("ok"), Sx::l(results), layout]);
    let input = Sx::l(vec![Sx::int(ni.max(1)), Sx::int(nq.max(1)), Sx::l(evs)]);
    vec![Out { model: Some("conc_replay".into()), model_input: Some(input), impl_out: Some(impl_out), oracle: None, signature: None, nontrivial }]
}
