//! Feature tags of a query text, read off its sqlparser AST. They are appended to the generator
//! class (`supported+const+offset`) so that the input distribution in the evidence shows them and
//! known-finding matchers can name the decidable input class a defect belongs to.
use sqlparser::ast::*;
use sqlparser::dialect::GenericDialect;
use sqlparser::parser::Parser;

const AGGREGATES: [&str; 5] = ["COUNT", "SUM", "AVG", "MAX", "MIN"];

fn fn_args(f: &Function) -> Vec<&Expr> {
    match &f.args {
        FunctionArguments::List(l) => l
            .args
            .iter()
            .filter_map(|a| match a {
                FunctionArg::Unnamed(FunctionArgExpr::Expr(e)) => Some(e),
                _ => None,
            })
            .collect(),
        _ => vec![],
    }
}

fn children(e: &Expr) -> Option<Vec<&Expr>> {
    Some(match e {
        Expr::BinaryOp { left, right, .. } => vec![left, right],
        Expr::UnaryOp { expr, .. } => vec![expr],
        Expr::Nested(x) | Expr::IsNull(x) | Expr::IsNotNull(x) => vec![x],
        Expr::Floor { expr, .. } => vec![expr],
        Expr::Like { expr, pattern, .. } => vec![expr, pattern],
        Expr::Function(f) => fn_args(f),
        Expr::Value(_) | Expr::Identifier(_) => vec![],
        _ => return None,
    })
}

/// does the expression mention a column (unknown node kinds count as "yes")
pub fn has_ident(e: &Expr) -> bool {
    match e {
        Expr::Identifier(_) => true,
        _ => match children(e) {
            None => true,
            Some(c) => c.into_iter().any(has_ident),
        },
    }
}

fn is_aggregate_call(e: &Expr) -> bool {
    matches!(e, Expr::Function(f) if AGGREGATES.contains(&format!("{}", f.name).to_uppercase().as_str()))
}

pub fn has_aggregate(e: &Expr) -> bool {
    is_aggregate_call(e) || children(e).map_or(false, |c| c.into_iter().any(has_aggregate))
}

fn strip_nested(e: &Expr) -> &Expr {
    match e {
        Expr::Nested(x) => strip_nested(x),
        _ => e,
    }
}

pub fn features(text: &str) -> Vec<&'static str> {
    let mut tags = vec![];
    let stmts = match std::panic::catch_unwind(|| Parser::parse_sql(&GenericDialect {}, text)) {
        Ok(Ok(s)) => s,
        _ => return tags,
    };
    if stmts.len() != 1 {
        return tags;
    }
    let q = match &stmts[0] {
        Statement::Query(q) => q,
        _ => return tags,
    };
    let s = match &*q.body {
        SetExpr::Select(s) => s,
        _ => return tags,
    };
    let mut exprs: Vec<&Expr> = vec![];
    let mut any_agg = false;
    let mut nontrivial_agg = false;
    for it in &s.projection {
        let e = match it {
            SelectItem::UnnamedExpr(e) => e,
            SelectItem::ExprWithAlias { expr, .. } => expr,
            _ => continue,
        };
        exprs.push(e);
        if has_aggregate(e) {
            any_agg = true;
            if !is_aggregate_call(strip_nested(e)) || format!("{}", e).to_uppercase().starts_with("AVG") {
                nontrivial_agg = true;
            }
        }
    }
    let mut order_keys: Vec<&Expr> = vec![];
    if let Some(ob) = &q.order_by {
        if let OrderByKind::Expressions(l) = &ob.kind {
            order_keys = l.iter().map(|o| &o.expr).collect();
        }
    }
    // a constant (column-free, aggregate-free) expression in a select or order-by position
    if exprs.iter().chain(order_keys.iter()).any(|e| !has_ident(e) && !has_aggregate(e)) {
        tags.push("const");
    }
    // an aggregate over a column-free argument other than the idiomatic COUNT(<literal>)
    let mut stack: Vec<&Expr> = exprs.iter().chain(order_keys.iter()).copied().collect();
    while let Some(e) = stack.pop() {
        if let Expr::Function(f) = e {
            if is_aggregate_call(e) && fn_args(f).iter().any(|a| !has_ident(a)) {
                tags.push("aggconst");
                break;
            }
        }
        if let Some(c) = children(e) {
            stack.extend(c);
        }
    }
    if any_agg && (nontrivial_agg || !order_keys.is_empty()) {
        tags.push("finalpass");
    }
    if any_agg && exprs.iter().any(|e| !has_aggregate(e)) {
        tags.push("grouping");
    }
    let (limit, offset) = match &q.limit_clause {
        Some(LimitClause::LimitOffset { limit, offset, .. }) => (limit.is_some(), offset.is_some()),
        _ => (false, false),
    };
    if offset {
        tags.push("offset");
    }
    if !order_keys.is_empty() && limit {
        tags.push("topn");
    }
    tags
}

pub fn class_of(gen: &str, text: &str) -> String {
    let mut c = gen.to_string();
    for t in features(text) {
        c.push('+');
        c.push_str(t);
    }
    c
}
