//! The fixture database of the API oracle and the canary differential, a process-wide panic
//! recorder (pool-thread panics are only visible through the hook: the caller just sees `Canceled`),
//! and deadline helpers.
use crate::canon::skeleton;
use locustdb::{LocustDB, Options};
use locustdb_serialization::api::AnyVal;
use locustdb_serialization::event_buffer::{ColumnBuffer, ColumnData, EventBuffer, TableBuffer};
use std::collections::HashMap;
use std::path::PathBuf;
use std::sync::{Arc, Mutex, Once};
use std::time::Duration;

// ---- panic capture --------------------------------------------------------------------------------

static PANICS: Mutex<Vec<String>> = Mutex::new(Vec::new());
/// role of the panicking thread: "pool" (a worker thread, see learn_pool_threads) or "other"
/// (callers, flush jobs, the flush thread, background threads)
static ROLES: Mutex<Vec<&'static str>> = Mutex::new(Vec::new());
static POOL_IDS: Mutex<Vec<std::thread::ThreadId>> = Mutex::new(Vec::new());

/// Learn the ThreadIds of the `k` worker threads of a healthy database: schedule k tasks that each
/// record their thread and then wait until all k have arrived (so that k distinct workers run them).
pub fn learn_pool_threads(db: &Arc<LocustDB>, k: usize) -> bool {
    use locustdb::verif::scheduler::Task;
    let arrived = Arc::new((Mutex::new(0usize), std::sync::Condvar::new()));
    let mut receivers = vec![];
    for _ in 0..k {
        let arrived = arrived.clone();
        let (task, rx) = <dyn Task>::from_fn(move || {
            if let Ok(mut ids) = POOL_IDS.lock() {
                ids.push(std::thread::current().id());
            }
            let (m, cv) = &*arrived;
            let mut n = m.lock().unwrap();
            *n += 1;
            cv.notify_all();
            let deadline = std::time::Instant::now() + Duration::from_secs(60);
            while *n < k && std::time::Instant::now() < deadline {
                n = cv.wait_timeout(n, Duration::from_millis(200)).unwrap().0;
            }
        });
        db.schedule(task);
        receivers.push(rx);
    }
    let ok = runtime().block_on(async {
        for rx in receivers {
            if tokio::time::timeout(Duration::from_secs(90), rx).await.is_err() {
                return false;
            }
        }
        true
    });
    ok && POOL_IDS.lock().map(|ids| ids.len() == k).unwrap_or(false)
}
static ANY_PANIC: std::sync::atomic::AtomicBool = std::sync::atomic::AtomicBool::new(false);

/// has any thread of this process panicked so far (a hang is then plausible; without any panic a
/// slow call gets a much longer deadline before it is called a hang)
pub fn any_panic_so_far() -> bool {
    ANY_PANIC.load(std::sync::atomic::Ordering::SeqCst)
}
static HOOK: Once = Once::new();

/// Record `<thread-kind> <file>: <message>` of every panic in any thread.
pub fn install_panic_hook() {
    HOOK.call_once(|| {
        std::panic::set_hook(Box::new(|info| {
            let msg = if let Some(s) = info.payload().downcast_ref::<&str>() {
                s.to_string()
            } else if let Some(s) = info.payload().downcast_ref::<String>() {
                s.clone()
            } else {
                "non-string payload".to_string()
            };
            let file = info
                .location()
                .map(|l| {
                    let f = l.file();
                    match f.find("src/") {
                        Some(p) => f[p..].to_string(),
                        None => f.rsplit('/').next().unwrap_or(f).to_string(),
                    }
                })
                .unwrap_or_default();
            ANY_PANIC.store(true, std::sync::atomic::Ordering::SeqCst);
            // pool threads are recognised by their ThreadId (learn_pool_threads); no backtrace is taken:
            // symbolication can take seconds on a loaded machine and would itself look like a hang
            let me = std::thread::current().id();
            let role = match POOL_IDS.lock() {
                Ok(ids) if ids.contains(&me) => "pool",
                _ => "other",
            };
            if let (Ok(mut p), Ok(mut r)) = (PANICS.lock(), ROLES.lock()) {
                p.push(format!("{}: {}", file, msg));
                r.push(role);
            }
        }));
    });
}

pub fn peek_panics() -> Vec<String> {
    PANICS.lock().map(|p| p.clone()).unwrap_or_default()
}

pub fn take_panics() -> Vec<String> {
    let _ = ROLES.lock().map(|mut r| r.clear());
    std::mem::take(&mut *PANICS.lock().unwrap())
}

/// (role, text) of every panic recorded since the last take
pub fn take_panic_records() -> Vec<(&'static str, String)> {
    let mut p = PANICS.lock().unwrap();
    let mut r = ROLES.lock().unwrap();
    let texts = std::mem::take(&mut *p);
    let roles = std::mem::take(&mut *r);
    roles.into_iter().chain(std::iter::repeat("other")).zip(texts).collect()
}

/// stable bucket of a recorded panic: file + message skeleton
pub fn panic_signature(p: &str) -> String {
    skeleton(p).replace(' ', "_")
}

pub fn runtime() -> &'static tokio::runtime::Runtime {
    static RT: std::sync::OnceLock<tokio::runtime::Runtime> = std::sync::OnceLock::new();
    RT.get_or_init(|| tokio::runtime::Builder::new_multi_thread().worker_threads(3).enable_all().build().unwrap())
}

// ---- fixture ----------------------------------------------------------------------------------------

pub struct Fixture {
    pub db: Arc<LocustDB>,
    pub dir: Option<PathBuf>,
}

impl Drop for Fixture {
    fn drop(&mut self) {
        if let Some(d) = &self.dir {
            let _ = std::fs::remove_dir_all(d);
        }
    }
}

fn ints(v: &[i64]) -> ColumnBuffer {
    ColumnBuffer { data: ColumnData::I64(v.to_vec()) }
}
fn floats(v: &[f64]) -> ColumnBuffer {
    ColumnBuffer { data: ColumnData::Dense(v.to_vec()) }
}
fn strs(v: &[&str]) -> ColumnBuffer {
    ColumnBuffer { data: ColumnData::String(v.iter().map(|s| s.to_string()).collect()) }
}
fn mixed(v: Vec<AnyVal>) -> ColumnBuffer {
    ColumnBuffer { data: ColumnData::Mixed(v) }
}

/// columns of table `t` in sorted order, as `SELECT *` must list them
pub fn table_columns(table: &str) -> Option<Vec<&'static str>> {
    match table {
        "t" => Some(vec!["Weird Col", "f", "i", "late", "n", "nf", "ns", "q\"uote", "s", "é"]),
        "u" => Some(vec!["i", "s"]),
        "my table" | "tbl_é" => Some(vec!["i"]),
        "_meta_tables" => Some(vec!["name", "timestamp"]),
        _ => None,
    }
}

pub const T_ROWS: usize = 12;

pub fn table_rows(table: &str) -> Option<usize> {
    match table {
        "t" => Some(T_ROWS),
        "u" => Some(3),
        "my table" | "tbl_é" => Some(2),
        _ => None,
    }
}

/// batch `k` (0, 1, 2) of table `t`: 5 + 4 + 3 rows; `late` is absent from the first batch
fn t_batch(k: usize) -> TableBuffer {
    let (lo, hi) = [(0usize, 5usize), (5, 9), (9, 12)][k];
    let idx: Vec<usize> = (lo..hi).collect();
    let mut c = HashMap::new();
    c.insert("i".to_string(), ints(&idx.iter().map(|&r| r as i64 + 1).collect::<Vec<_>>()));
    c.insert(
        "n".to_string(),
        mixed(idx.iter().map(|&r| if r % 3 == 1 { AnyVal::Null } else { AnyVal::Int((r as i64 * 37) % 11 - 3) }).collect()),
    );
    c.insert("f".to_string(), floats(&idx.iter().map(|&r| r as f64 * 0.5 - 1.25).collect::<Vec<_>>()));
    c.insert(
        "nf".to_string(),
        mixed(idx.iter().map(|&r| if r % 4 == 2 { AnyVal::Null } else { AnyVal::Float(r as f64 * 1.5) }).collect()),
    );
    let words = ["a", "b", "abc", "x y", "m", "zz", "é", "", "a", "b", "mm", "z"];
    c.insert("s".to_string(), strs(&idx.iter().map(|&r| words[r]).collect::<Vec<_>>()));
    c.insert(
        "ns".to_string(),
        mixed(idx.iter().map(|&r| if r % 5 == 3 { AnyVal::Null } else { AnyVal::Str(words[(r * 7) % 12].to_string()) }).collect()),
    );
    if k > 0 {
        c.insert("late".to_string(), ints(&idx.iter().map(|&r| 100 - r as i64).collect::<Vec<_>>()));
    }
    c.insert("Weird Col".to_string(), ints(&idx.iter().map(|&r| r as i64 % 3).collect::<Vec<_>>()));
    c.insert("é".to_string(), strs(&idx.iter().map(|&r| words[(r + 5) % 12]).collect::<Vec<_>>()));
    c.insert("q\"uote".to_string(), ints(&idx.iter().map(|&r| r as i64 * 1000).collect::<Vec<_>>()));
    TableBuffer::new(c)
}

fn small(table_rows: usize, with_s: bool) -> TableBuffer {
    let mut c = HashMap::new();
    c.insert("i".to_string(), ints(&(0..table_rows as i64).map(|x| x * 2).collect::<Vec<_>>()));
    if with_s {
        c.insert("s".to_string(), strs(&["p", "q", "r"][..table_rows]));
    }
    TableBuffer::new(c)
}

pub fn ingest(db: &Arc<LocustDB>, table: &str, tb: TableBuffer) -> Result<(), String> {
    let db = db.clone();
    let eb = EventBuffer { tables: HashMap::from([(table.to_string(), tb)]) };
    with_deadline(Duration::from_secs(20), move || {
        runtime().block_on(async { db.ingest_efficient(eb).await });
    })
    .map_err(|e| format!("{:?}", e))
}

pub fn flush(db: &Arc<LocustDB>) -> Result<(), String> {
    let db = db.clone();
    with_deadline(Duration::from_secs(30), move || db.force_flush()).map_err(|e| format!("{:?}", e))
}

#[derive(Debug)]
pub enum CallError {
    Panic(String),
    Deadline,
}

/// Run `f` on its own thread; a panic is reported, a deadline overrun leaves the thread behind.
pub fn with_deadline<T: Send + 'static, F: FnOnce() -> T + Send + 'static>(d: Duration, f: F) -> Result<T, CallError> {
    let (tx, rx) = std::sync::mpsc::channel();
    std::thread::spawn(move || {
        let r = std::panic::catch_unwind(std::panic::AssertUnwindSafe(f));
        let _ = tx.send(r);
    });
    match rx.recv_timeout(d) {
        Ok(Ok(v)) => Ok(v),
        Ok(Err(e)) => Err(CallError::Panic(lvharness::suite::panic_message(e))),
        Err(_) => {
            if any_panic_so_far() {
                return Err(CallError::Deadline);
            }
            // nothing has panicked in this process: a wedged database is implausible, a stalled machine
            // is not. Wait much longer before calling it a hang.
            match rx.recv_timeout(HARD_EXTRA) {
                Ok(Ok(v)) => Ok(v),
                Ok(Err(e)) => Err(CallError::Panic(lvharness::suite::panic_message(e))),
                Err(_) => Err(CallError::Deadline),
            }
        }
    }
}

pub const HARD_EXTRA: Duration = Duration::from_secs(80);

static SEQ: std::sync::atomic::AtomicU64 = std::sync::atomic::AtomicU64::new(0);

pub fn scratch_dir(tag: &str) -> PathBuf {
    // the bookkeeping checks are not about durability: prefer a memory-backed directory so that fsync
    // stalls of a shared disk cannot masquerade as hangs; fall back to the scratch area
    let base = if std::path::Path::new("/dev/shm").is_dir() && std::fs::metadata("/dev/shm").map(|m| !m.permissions().readonly()).unwrap_or(false) {
        "/dev/shm/lv-front"
    } else {
        "/verif/.cache/scratch/front"
    };
    let d = PathBuf::from(format!(
        "{}-{}-{}-{}",
        base,
        std::process::id(),
        tag,
        SEQ.fetch_add(1, std::sync::atomic::Ordering::SeqCst)
    ));
    let _ = std::fs::remove_dir_all(&d);
    std::fs::create_dir_all(&d).unwrap();
    d
}

/// `threads` pool threads; `disk`: a scratch directory (removed on drop); `fill`: ingest the fixture
pub fn build(threads: usize, disk: bool, fill: bool) -> Result<Fixture, String> {
    install_panic_hook();
    let dir = if disk { Some(scratch_dir("db")) } else { None };
    let opts = Options {
        threads,
        read_threads: 1,
        db_path: dir.clone(),
        partition_combine_factor: 999,
        metrics_table_name: None,
        batch_size: 1024,
        ..Options::default()
    };
    let db = match std::panic::catch_unwind(|| LocustDB::new(&opts)) {
        Ok(db) => Arc::new(db),
        Err(e) => return Err(format!("LocustDB::new: {}", lvharness::suite::panic_message(e))),
    };
    let fx = Fixture { db, dir };
    if fill {
        ingest(&fx.db, "t", t_batch(0))?;
        flush(&fx.db)?;
        ingest(&fx.db, "t", t_batch(1))?;
        ingest(&fx.db, "u", small(3, true))?;
        flush(&fx.db)?;
        ingest(&fx.db, "t", t_batch(2))?;
        ingest(&fx.db, "my table", small(2, false))?;
        ingest(&fx.db, "tbl_é", small(2, false))?;
    }
    let p = take_panics();
    if !p.is_empty() {
        return Err(format!("fixture build panicked: {:?}", p));
    }
    Ok(fx)
}
