//! Query-string generators: grammar-generated statements of the supported subset, quoting styles,
//! numeric literal forms, every unsupported construct sqlparser accepts, and character / token
//! level mutations of valid statements. All randomness comes from the seeded Rng.
use lvharness::rng::Rng;

pub const TABLES: [&str; 4] = ["t", "u", "my table", "tbl_é"];
/// columns of the fixture table `t` (see db.rs) plus a few names that exist nowhere
pub const INT_COLS: [&str; 3] = ["i", "n", "late"];
pub const FLOAT_COLS: [&str; 2] = ["f", "nf"];
pub const STR_COLS: [&str; 2] = ["s", "ns"];
pub const ODD_COLS: [&str; 3] = ["Weird Col", "é", "q\"uote"];
pub const MISSING_COLS: [&str; 2] = ["nosuch", "zz_9"];

fn kw(r: &mut Rng, k: &str) -> String {
    match r.below(4) {
        0 => k.to_lowercase(),
        1 => {
            let mut s = String::new();
            for (i, c) in k.chars().enumerate() {
                if i % 2 == 0 {
                    s.extend(c.to_lowercase());
                } else {
                    s.push(c);
                }
            }
            s
        }
        _ => k.to_string(),
    }
}

pub fn quote_ident(r: &mut Rng, name: &str, force: bool) -> String {
    let plain = !name.is_empty()
        && name.chars().all(|c| c.is_alphanumeric() || c == '_')
        && !name.chars().next().unwrap().is_ascii_digit();
    let style = if plain && !force { r.below(4) } else { 1 + r.below(2) };
    match style {
        0 | 3 => name.to_string(),
        1 => format!("\"{}\"", name.replace('"', "\"\"")),
        _ => format!("`{}`", name.replace('`', "``")),
    }
}

fn pick_ident(r: &mut Rng, pool: &[&str]) -> String {
    let name = *r.pick(pool);
    quote_ident(r, name, false)
}

pub fn int_literal(r: &mut Rng) -> String {
    match r.below(14) {
        0 => "0".into(),
        1 => "1".into(),
        2 => format!("{}", r.below(10)),
        3 => format!("{}", r.below(1000)),
        4 => format!("{}", i64::MAX),
        5 => "9223372036854775808".into(),
        6 => format!("{}", u64::MAX),
        7 => "18446744073709551616".into(),
        8 => "99999999999999999999999".into(),
        9 => format!("00{}", r.below(100)),
        10 => format!("{}", r.next() >> r.below(64)),
        _ => format!("{}", r.below(50)),
    }
}

pub fn num_literal(r: &mut Rng) -> String {
    match r.below(16) {
        0 => "1.5".into(),
        1 => ".5".into(),
        2 => "5.".into(),
        3 => "1e2".into(),
        4 => "1E+2".into(),
        5 => "2.5e-3".into(),
        6 => "1e999".into(),
        7 => "1e-999".into(),
        8 => "0.0".into(),
        9 => format!("{}.{}", r.below(100), r.below(1000)),
        10 => "179769313486231570000000000000000000000000000000000000000000000000000000000000000000000000000000000000000000000000000000000000000000000000000000000000000000000000000000000000000000000000000000000000000000000000000000000000000000000000000000000000000000000000000000000000000000000000000000000000000000000000000000000000".into(),
        11 => "1e".into(),
        _ => int_literal(r),
    }
}

pub fn str_literal(r: &mut Rng) -> String {
    match r.below(8) {
        0 => "''".into(),
        1 => "'a''b'".into(),
        2 => "'é'".into(),
        3 => "'%a%'".into(),
        4 => "'a_c'".into(),
        5 => "'\"'".into(),
        6 => "'^a.*$'".into(),
        _ => format!("'{}'", ["a", "b", "abc", "x y", "m", "zz"][r.below(6) as usize]),
    }
}

pub fn column(r: &mut Rng) -> String {
    let name = match r.below(12) {
        0..=3 => *r.pick(&INT_COLS),
        4..=5 => *r.pick(&FLOAT_COLS),
        6..=8 => *r.pick(&STR_COLS),
        9 => *r.pick(&ODD_COLS),
        _ => *r.pick(&MISSING_COLS),
    };
    quote_ident(r, name, false)
}

fn int_expr(r: &mut Rng, depth: u32) -> String {
    if depth == 0 || r.chance(2, 5) {
        return match r.below(10) {
            0 => int_literal(r),
            1 => format!("-{}", int_literal(r)),
            2 => num_literal(r),
            3 => format!("{}", r.below(20)),
            _ => pick_ident(r, &INT_COLS),
        };
    }
    match r.below(9) {
        0 => format!("({})", int_expr(r, depth - 1)),
        1 => format!("-{}", int_expr(r, depth - 1)),
        2 => format!("{}({})", kw(r, "LENGTH"), str_expr(r, depth - 1)),
        3 => format!("{}({})", kw(r, "TO_YEAR"), int_expr(r, depth - 1)),
        4 => format!("{}({})", kw(r, "FLOOR"), pick_ident(r, &FLOAT_COLS)),
        _ => {
            let op = *r.pick(&["+", "-", "*", "/", "%"]);
            format!("{} {} {}", int_expr(r, depth - 1), op, int_expr(r, depth - 1))
        }
    }
}

fn str_expr(r: &mut Rng, _depth: u32) -> String {
    if r.chance(1, 4) {
        str_literal(r)
    } else {
        pick_ident(r, &STR_COLS)
    }
}

pub fn bool_expr(r: &mut Rng, depth: u32) -> String {
    if depth == 0 || r.chance(1, 3) {
        return match r.below(9) {
            0 => format!("{} {} {}", str_expr(r, 0), kw(r, "LIKE"), str_literal(r)),
            1 => format!("{} {} {}", str_expr(r, 0), kw(r, "NOT LIKE"), str_literal(r)),
            2 => format!("{} {}", column(r), kw(r, "IS NULL")),
            3 => format!("{} {}", column(r), kw(r, "IS NOT NULL")),
            4 => format!("{}({}, {})", kw(r, "REGEX"), str_expr(r, 0), str_literal(r)),
            5 => format!("{} = {}", str_expr(r, 0), str_literal(r)),
            _ => {
                let op = *r.pick(&["=", "<>", "!=", "<", "<=", ">", ">="]);
                format!("{} {} {}", int_expr(r, 1), op, int_expr(r, 1))
            }
        };
    }
    match r.below(5) {
        0 => format!("({})", bool_expr(r, depth - 1)),
        1 => format!("{} {}", kw(r, "NOT"), bool_expr(r, depth - 1)),
        2 => format!("{} {} {}", bool_expr(r, depth - 1), kw(r, "OR"), bool_expr(r, depth - 1)),
        _ => format!("{} {} {}", bool_expr(r, depth - 1), kw(r, "AND"), bool_expr(r, depth - 1)),
    }
}

fn aggregate(r: &mut Rng) -> String {
    let f = *r.pick(&["COUNT", "SUM", "MAX", "MIN", "AVG"]);
    let arg = match r.below(5) {
        0 => "1".to_string(),
        1 => int_expr(r, 1),
        _ => pick_ident(r, &INT_COLS),
    };
    let base = format!("{}({})", kw(r, f), arg);
    match r.below(8) {
        0 => format!("{} + {}", base, int_literal(r)),
        1 => format!("{} / {}", base, aggregate(r)),
        2 => format!("{}({})", kw(r, "SUM"), base),
        _ => base,
    }
}

pub fn alias(r: &mut Rng) -> String {
    let name = *r.pick(&["x", "total", "My Alias", "é", "a\"b", "select", "9lives", "i"]);
    let id = match r.below(6) {
        0 => format!("'{}'", name.replace('\'', "''")),
        _ => quote_ident(r, name, false),
    };
    if r.chance(3, 4) {
        format!("{} {}", kw(r, "AS"), id)
    } else {
        id
    }
}

pub fn select_item(r: &mut Rng, allow_agg: bool) -> String {
    let base = match r.below(40) {
        0..=15 => column(r),
        16..=21 => int_expr(r, 2),
        22..=25 => bool_expr(r, 1),
        26..=28 => str_expr(r, 1),
        29..=36 if allow_agg => aggregate(r),
        37 => match r.below(4) {
            0 => "NULL".to_string(),
            1 => str_literal(r),
            2 => format!("-{}", num_literal(r)),
            _ => num_literal(r),
        },
        _ => column(r),
    };
    if r.chance(1, 3) {
        format!("{} {}", base, alias(r))
    } else {
        base
    }
}

pub fn table(r: &mut Rng) -> String {
    match r.below(12) {
        0 => quote_ident(r, "nosuchtable", false),
        1 => quote_ident(r, "my table", true),
        2 => quote_ident(r, "tbl_é", false),
        3 => quote_ident(r, "u", false),
        4 => "_meta_tables".to_string(),
        _ => quote_ident(r, "t", false),
    }
}

pub fn limit_text(r: &mut Rng) -> String {
    match r.below(20) {
        0..=13 => format!("{}", 1 + r.below(40)),
        14 => "0".into(),
        15 => format!("{}", u64::MAX),
        _ => int_literal(r),
    }
}

/// LIMIT / OFFSET in every form the grammar accepts, including the ones that are not plain integers
pub fn odd_count(r: &mut Rng) -> String {
    match r.below(14) {
        0 => "1.5".into(),
        1 => "99999999999999999999999".into(),
        2 => "18446744073709551616".into(),
        3 => "1e2".into(),
        4 => "-1".into(),
        5 => "NULL".into(),
        6 => "ALL".into(),
        7 => "1+1".into(),
        8 => "'3'".into(),
        9 => ".5".into(),
        10 => "5.".into(),
        11 => "(2)".into(),
        12 => "i".into(),
        _ => num_literal(r),
    }
}

pub fn tail(r: &mut Rng, odd: bool) -> String {
    let mut s = String::new();
    if r.chance(1, 3) {
        let n = 1 + r.below(2);
        let keys: Vec<String> = (0..n)
            .map(|_| {
                let e = if r.chance(1, 6) { int_expr(r, 1) } else { column(r) };
                match r.below(3) {
                    0 => format!("{} {}", e, kw(r, "DESC")),
                    1 => format!("{} {}", e, kw(r, "ASC")),
                    _ => e,
                }
            })
            .collect();
        s += &format!(" {} {}", kw(r, "ORDER BY"), keys.join(", "));
    }
    let lim = if odd && r.chance(1, 2) { Some(odd_count(r)) } else if r.chance(2, 3) { Some(limit_text(r)) } else { None };
    let off = if odd && r.chance(1, 2) {
        Some(odd_count(r))
    } else if r.chance(1, 4) {
        // within the table, beyond it, with and without LIMIT: all ordinary since fix 0df51a0
        Some(if r.chance(1, 2) { format!("{}", r.below(4)) } else { limit_text(r) })
    } else {
        None
    };
    let lim_s = lim.map(|l| format!(" {} {}", kw(r, "LIMIT"), l));
    let off_s = off.map(|o| {
        let rows = match r.below(6) {
            0 => " ROWS",
            1 => " ROW",
            _ => "",
        };
        format!(" {} {}{}", kw(r, "OFFSET"), o, rows)
    });
    if r.chance(1, 8) {
        // OFFSET before LIMIT is accepted too
        s += &off_s.unwrap_or_default();
        s += &lim_s.unwrap_or_default();
    } else {
        s += &lim_s.unwrap_or_default();
        s += &off_s.unwrap_or_default();
    }
    if r.chance(1, 10) {
        s += ";";
    }
    s
}

/// a statement of the supported subset
pub fn supported(r: &mut Rng) -> String {
    let n = 1 + r.below(4);
    let aggregating = r.chance(1, 4);
    let mut items: Vec<String> = (0..n).map(|_| select_item(r, aggregating)).collect();
    if r.chance(1, 10) {
        let at = r.below(items.len() as u64 + 1) as usize;
        items.insert(at, "*".to_string());
    }
    if r.chance(1, 8) {
        items = vec!["*".to_string()];
    }
    let mut s = format!("{} {} {} {}", kw(r, "SELECT"), items.join(", "), kw(r, "FROM"), table(r));
    if r.chance(1, 2) {
        s += &format!(" {} {}", kw(r, "WHERE"), bool_expr(r, 2));
    }
    s += &tail(r, false);
    s
}

/// statements exercising LIMIT / OFFSET forms
pub fn limits(r: &mut Rng) -> String {
    let mut s = format!("SELECT {} FROM {}", select_item(r, false), table(r));
    s += &tail(r, true);
    if r.chance(1, 12) {
        s = format!("SELECT {} FROM t LIMIT {}, {}", column(r), limit_text(r), limit_text(r));
    }
    if r.chance(1, 12) {
        s = format!("SELECT {} FROM t FETCH FIRST {} ROWS ONLY", column(r), limit_text(r));
    }
    s
}

/// quoting corner cases: lone quotes, doubled quotes, multi-byte characters next to the closing
/// quote, expressions whose text starts with a quote, quoted table names with dots
pub fn quoting(r: &mut Rng) -> String {
    let odd_ident: &[&str] = &[
        "\"\"\"\"",
        "````",
        "\"\"\"é\"",
        "```é`",
        "\"\"\"a\"",
        "\"a\"\"\"",
        "\"é\"",
        "`é`",
        "\"\"\"\"\"\"",
        "\"a\"\"b\"",
        "\"`\"",
        "`\"`",
        "\"`é\"",
        "`\"é`",
        "\"'\"",
        "\"i\" + 1",
        "\"i\" = é",
        "`i` = é",
        "\"i\" = 'é'",
        "\"i\" + n é",
        "\"i\" é",
        "é",
        "名前",
        "\"名前\"",
        "\"\"\"名\"",
        "\"i\" < \"n\"",
        "(\"i\")",
        "-\"i\"",
        "\"s\" LIKE 'é'",
        "\"i\" IS NULL",
        "\"\"",
        "``",
        "[i]",
        "'i'",
        "\"i\".\"n\"",
    ];
    let item = match r.below(4) {
        0 => format!("{} {}", r.pick(odd_ident), alias(r)),
        1 => format!("{} AS {}", column(r), r.pick(odd_ident)),
        _ => r.pick(odd_ident).to_string(),
    };
    let odd_table: &[&str] = &[
        "\"t\"", "`t`", "\"t\".é", "`t`.é", "\"t\".\"u\"", "t.u", "\"my table\"", "\"tbl_é\"", "\"\"", "``", "\"\"\"\"", "\"\"\"é\"",
        "\"t\" é", "\"t\" AS é", "t é", "'t'", "[t]", "\"t\".é é", "é", "\"é\"", "t(1)", "\"t\"(1)",
    ];
    let tbl = if r.chance(1, 2) { r.pick(odd_table).to_string() } else { table(r) };
    let mut s = format!("SELECT {} FROM {}", item, tbl);
    if r.chance(1, 4) {
        s += &format!(" WHERE {} = 1", r.pick(odd_ident));
    }
    if r.chance(1, 4) {
        s += &format!(" ORDER BY {}", r.pick(odd_ident));
    }
    if r.chance(1, 3) {
        s += &format!(" LIMIT {}", limit_text(r));
    }
    s
}

/// every unsupported construct sqlparser accepts
pub fn unsupported(r: &mut Rng) -> String {
    let c = column(r);
    let c2 = column(r);
    let t = table(r);
    let lit = int_literal(r);
    let pool: Vec<String> = vec![
        format!("SELECT {} FROM t JOIN u ON t.i = u.i", c),
        format!("SELECT {} FROM t LEFT JOIN u ON t.i = u.i", c),
        format!("SELECT {} FROM t CROSS JOIN u", c),
        format!("SELECT {} FROM t NATURAL JOIN u", c),
        format!("SELECT {} FROM t, u", c),
        format!("SELECT {} FROM t, u JOIN t ON 1 = 1", c),
        format!("SELECT {}, COUNT(1) FROM {} GROUP BY {}", c, t, c),
        format!("SELECT {} FROM {} GROUP BY ALL", c, t),
        format!("SELECT {} FROM {} GROUP BY ROLLUP({})", c, t, c),
        format!("SELECT {} FROM {} GROUP BY {} WITH ROLLUP", c, t, c),
        format!("SELECT {} FROM {} HAVING {} > 1", c, t, c),
        format!("SELECT COUNT(1) FROM {} HAVING COUNT(1) > 1", t),
        format!("SELECT DISTINCT {} FROM {}", c, t),
        format!("SELECT DISTINCT ON ({}) {} FROM {}", c, c2, t),
        format!("SELECT ALL {} FROM {}", c, t),
        format!("SELECT {} FROM t UNION SELECT {} FROM u", c, c2),
        format!("SELECT {} FROM t UNION ALL SELECT {} FROM u", c, c2),
        format!("SELECT {} FROM t INTERSECT SELECT {} FROM u", c, c2),
        format!("SELECT {} FROM t EXCEPT SELECT {} FROM u", c, c2),
        format!("(SELECT {} FROM t)", c),
        format!("SELECT {} FROM (SELECT {} FROM t) AS sub", c, c),
        format!("SELECT {} FROM t WHERE {} IN (SELECT {} FROM u)", c, c, c2),
        format!("SELECT (SELECT {} FROM u LIMIT 1) FROM t", c),
        format!("SELECT {} FROM t WHERE EXISTS (SELECT 1 FROM u)", c),
        format!("SELECT {} FROM {} WHERE {} IN (1, 2, {})", c, t, c2, lit),
        format!("SELECT {} FROM {} WHERE {} NOT IN (1)", c, t, c2),
        format!("SELECT {} FROM {} WHERE {} BETWEEN 1 AND {}", c, t, c2, lit),
        format!("SELECT CASE WHEN {} > 1 THEN 1 ELSE 0 END FROM {}", c, t),
        format!("SELECT CAST({} AS INT) FROM {}", c, t),
        format!("SELECT {}::int FROM {}", c, t),
        format!("SELECT {} FROM {} WHERE s ILIKE 'a%'", c, t),
        format!("SELECT {} FROM {} WHERE s LIKE 'a!%' ESCAPE '!'", c, t),
        format!("SELECT {} FROM {} WHERE s NOT LIKE 'a!%' ESCAPE '!'", c, t),
        format!("SELECT {} FROM {} WHERE s SIMILAR TO 'a'", c, t),
        format!("SELECT {} || {} FROM {}", c, c2, t),
        format!("SELECT {} ^ 2 FROM {}", c, t),
        format!("SELECT {} & 2, {} | 1 FROM {}", c, c2, t),
        format!("SELECT {} << 2 FROM {}", c, t),
        format!("SELECT {} DIV 2 FROM {}", c, t),
        format!("SELECT +{} FROM {}", c, t),
        format!("SELECT ~{} FROM {}", c, t),
        format!("SELECT {} FROM {} WHERE {} IS TRUE", c, t, c2),
        format!("SELECT {} FROM {} WHERE {} IS NOT DISTINCT FROM 1", c, t, c2),
        format!("SELECT EXTRACT(YEAR FROM {}) FROM {}", c, t),
        format!("SELECT INTERVAL '1' DAY FROM {}", t),
        format!("SELECT SUM({}) OVER (PARTITION BY {}) FROM {}", c, c2, t),
        format!("SELECT COUNT(*) FROM {}", t),
        format!("SELECT COUNT(t.*) FROM {}", t),
        format!("SELECT COUNT(DISTINCT {}) FROM {}", c, t),
        format!("SELECT COUNT({}, {}) FROM {}", c, c2, t),
        format!("SELECT COUNT() FROM {}", t),
        format!("SELECT SUM(x => {}) FROM {}", c, t),
        format!("SELECT REGEX({}) FROM {}", c, t),
        format!("SELECT REGEX(s, 'a', 'b') FROM {}", t),
        format!("SELECT TO_YEAR() FROM {}", t),
        format!("SELECT LENGTH(s, s) FROM {}", t),
        format!("SELECT UPPER(s) FROM {}", t),
        format!("SELECT CURRENT_TIMESTAMP FROM {}", t),
        format!("SELECT mın({}) FROM {}", c, t),
        format!("SELECT t.* FROM {}", t),
        format!("SELECT t.i FROM {}", t),
        format!("SELECT {} FROM {} WHERE t.i = 1", c, t),
        format!("SELECT {}", lit),
        format!("SELECT {} FROM t ORDER BY ALL", c),
        format!("SELECT {} FROM t LIMIT 1 BY {}", c, c2),
        format!("SELECT [1, 2] FROM {}", t),
        format!("SELECT DATE '2020-01-01' FROM {}", t),
        format!("SELECT $1 FROM {}", t),
        format!("SELECT ? FROM {}", t),
        format!("SELECT X'ab' FROM {}", t),
        format!("SELECT 0x12 FROM {}", t),
        format!("SELECT N'abc' FROM {}", t),
        format!("SELECT true, false FROM {}", t),
        format!("SELECT {} FROM {} WHERE true", c, t),
        format!("SELECT TOP 3 {} FROM {}", c, t),
        format!("SELECT {} INTO x FROM {}", c, t),
        format!("SELECT {} FROM {} FOR UPDATE", c, t),
        format!("SELECT {} FROM {} WINDOW w AS (PARTITION BY {})", c, t, c2),
        format!("SELECT {} FROM {} QUALIFY {} > 1", c, t, c2),
        format!("SELECT {} FROM UNNEST([1,2])", c),
        format!("SELECT {} FROM TABLE(f(1))", c),
        format!("SELECT {} FROM t AS x", c),
        format!("SELECT {} FROM t x (a, b)", c),
        format!("SELECT {} FROM t TABLESAMPLE (10)", c),
        format!("WITH w AS (SELECT 1) SELECT {} FROM t", c),
        "VALUES (1, 2)".to_string(),
        "TABLE t".to_string(),
        format!("INSERT INTO t (i) VALUES ({})", lit),
        format!("INSERT INTO t SELECT {} FROM u", c),
        format!("UPDATE t SET i = {}", lit),
        "DELETE FROM t".to_string(),
        "DELETE FROM t WHERE i = 1".to_string(),
        "CREATE TABLE x (a INT)".to_string(),
        "DROP TABLE t".to_string(),
        "TRUNCATE TABLE t".to_string(),
        "EXPLAIN SELECT i FROM t".to_string(),
        "SHOW TABLES".to_string(),
        "SET x = 1".to_string(),
        "BEGIN".to_string(),
        "COMMIT".to_string(),
        format!("SELECT {} FROM t; SELECT {} FROM u", c, c2),
        format!("SELECT {} FROM t;;", c),
        ";".to_string(),
        "".to_string(),
        " ".to_string(),
        "-- comment".to_string(),
        "/* c */".to_string(),
        format!("SELECT {} FROM t -- trailing comment", c),
        format!("SELECT /* inner */ {} FROM t", c),
        "SELECT".to_string(),
        "SELECT FROM t".to_string(),
        "SELECT * FROM".to_string(),
        "FROM t SELECT i".to_string(),
        format!("SELECT {} FROM t WHERE", c),
        format!("SELECT {} FROM t ORDER BY", c),
        format!("SELECT {} FROM t LIMIT", c),
        format!("SELECT {} FROM t OFFSET", c),
        "SELECT 'unterminated FROM t".to_string(),
        "SELECT \"unterminated FROM t".to_string(),
        "SELECT `unterminated FROM t".to_string(),
        "SELECT (((i FROM t".to_string(),
        "SELECT i)) FROM t".to_string(),
        format!("SELECT {} FROM t WHERE {}", c, "(".repeat(60) + "1" + &")".repeat(60)),
        format!("SELECT {} FROM t", "-".repeat(70) + "1"),
        format!("SELECT {} FROM t", "NOT ".repeat(70) + "1"),
    ];
    r.pick(&pool).clone()
}

const INSERT_POOL: [&str; 30] = [
    "\"", "`", "'", "(", ")", ",", ";", ".", "-", "*", " ", "0", "9", "é", "名", "\\", "+", "=", "<", ">", "%", "/", "[", "]", "\0", "\n", "\t",
    "e", "_", "$",
];
const KEYWORDS: [&str; 28] = [
    "SELECT", "FROM", "WHERE", "ORDER", "BY", "LIMIT", "OFFSET", "AS", "AND", "OR", "NOT", "NULL", "IS", "LIKE", "DESC", "ASC", "GROUP",
    "HAVING", "DISTINCT", "JOIN", "ON", "UNION", "IN", "BETWEEN", "CASE", "ALL", "ROWS", "ESCAPE",
];

/// character / token level mutation of a statement (always valid UTF-8: run_query takes &str)
pub fn mutate(r: &mut Rng, s: &str) -> String {
    let chars: Vec<char> = s.chars().collect();
    let n = 1 + r.below(3);
    let mut cur = chars;
    for _ in 0..n {
        if cur.is_empty() {
            cur = r.pick(&INSERT_POOL).chars().collect();
            continue;
        }
        let i = r.below(cur.len() as u64) as usize;
        match r.below(9) {
            0 => {
                cur.remove(i);
            }
            1 => {
                let ins: Vec<char> = r.pick(&INSERT_POOL).chars().collect();
                for (k, c) in ins.into_iter().enumerate() {
                    cur.insert(i + k, c);
                }
            }
            2 => {
                let ins: Vec<char> = r.pick(&INSERT_POOL).chars().collect();
                cur[i] = ins[0];
            }
            3 => {
                cur.truncate(i);
            }
            4 => {
                let c = cur[i];
                cur.insert(i, c);
            }
            5 => {
                // token level: swap / drop / duplicate / replace a whitespace-separated token
                let text: String = cur.iter().collect();
                let mut toks: Vec<String> = text.split(' ').map(|t| t.to_string()).collect();
                let a = r.below(toks.len() as u64) as usize;
                let b2 = r.below(toks.len() as u64) as usize;
                match r.below(4) {
                    0 => toks.swap(a, b2),
                    1 => {
                        toks.remove(a);
                    }
                    2 => {
                        let t = toks[a].clone();
                        toks.insert(a, t);
                    }
                    _ => toks[a] = r.pick(&KEYWORDS).to_string(),
                }
                cur = toks.join(" ").chars().collect();
            }
            6 => {
                let ins: Vec<char> = format!(" {} ", r.pick(&KEYWORDS)).chars().collect();
                for (k, c) in ins.into_iter().enumerate() {
                    cur.insert(i + k, c);
                }
            }
            7 => {
                // move a quote character next to a multi-byte character
                cur.insert(i, 'é');
                cur.insert(i, '"');
            }
            _ => {
                let j = r.below(cur.len() as u64) as usize;
                cur.swap(i, j);
            }
        }
    }
    cur.into_iter().collect()
}

/// random token soup
pub fn tokens(r: &mut Rng) -> String {
    let n = 1 + r.below(12);
    let mut v: Vec<String> = vec![];
    if r.chance(3, 4) {
        v.push("SELECT".into());
    }
    for _ in 0..n {
        v.push(match r.below(8) {
            0 => r.pick(&KEYWORDS).to_string(),
            1 => column(r),
            2 => num_literal(r),
            3 => str_literal(r),
            4 => r.pick(&INSERT_POOL).to_string(),
            5 => "t".to_string(),
            6 => "FROM".to_string(),
            _ => r.pick(&["(", ")", ",", "+", "=", "*"]).to_string(),
        });
    }
    v.join(" ")
}

// ---- the `shape` sub-language of the API oracle ---------------------------------------------------
// Statements whose engine behaviour is plain (bare columns, simple integer arithmetic, aggregates
// over the non-null integer column, filters, ORDER BY on non-null columns with a LIMIT that avoids
// any LIMIT / OFFSET). Violations in this class are never attributed to the family finding about
// engine-internal panics (see known_findings.d/front.json): they are matched site by site.

fn shape_table(r: &mut Rng) -> (&'static str, String) {
    let name = match r.below(20) {
        0..=11 => "t",
        12..=14 => "u",
        15 => "my table",
        16 => "tbl_é",
        17 => "_meta_tables",
        _ => "nosuchtable",
    };
    (name, quote_ident(r, name, false))
}

fn shape_columns(table: &str) -> Vec<&'static str> {
    match table {
        "t" => vec!["i", "n", "f", "nf", "s", "ns", "late", "Weird Col", "é", "q\"uote"],
        "u" => vec!["i", "s"],
        "_meta_tables" => vec!["name", "timestamp"],
        _ => vec!["i"],
    }
}

fn shape_item(r: &mut Rng, table: &str) -> String {
    let cols = shape_columns(table);
    let base = match r.below(20) {
        0..=10 => {
            let c = *r.pick(&cols);
            quote_ident(r, c, false)
        }
        11..=12 => pick_ident(r, &MISSING_COLS),
        13..=16 => {
            let k = 1 + r.below(9);
            let op = *r.pick(&["+", "-", "*", "/", "%"]);
            if r.chance(1, 2) {
                format!("i {} {}", op, k)
            } else {
                format!("{} {} i", k, op)
            }
        }
        17 => "-i".to_string(),
        18 => "(i)".to_string(),
        _ => {
            if cols.contains(&"s") {
                format!("{}(s)", kw(r, "LENGTH"))
            } else {
                "i".to_string()
            }
        }
    };
    if r.chance(1, 3) {
        format!("{} {}", base, alias(r))
    } else {
        base
    }
}

fn shape_aggregate(r: &mut Rng) -> String {
    let base = match r.below(7) {
        0 => format!("{}(1)", kw(r, "COUNT")),
        1 => format!("{}(i)", kw(r, "COUNT")),
        2 => format!("{}(i)", kw(r, "SUM")),
        3 => format!("{}(i)", kw(r, "MAX")),
        4 => format!("{}(i)", kw(r, "MIN")),
        5 => format!("{}(i)", kw(r, "AVG")),
        _ => format!("{}(i) + 1", kw(r, "SUM")),
    };
    if r.chance(1, 3) {
        format!("{} {}", base, alias(r))
    } else {
        base
    }
}

fn shape_filter(r: &mut Rng, table: &str) -> String {
    let has_s = shape_columns(table).contains(&"s");
    let k = r.below(14);
    match r.below(if has_s { 10 } else { 6 }) {
        0 => format!("i > {}", k),
        1 => format!("i <= {}", k),
        2 => format!("i = {}", k),
        3 => format!("i > {} {} i < {}", k / 2, kw(r, "AND"), k + 3),
        4 => format!("{} i = {}", kw(r, "NOT"), k),
        5 => format!("i <> {} {} i = {}", k, kw(r, "OR"), k),
        6 => format!("s = {}", str_literal(r)),
        7 => format!("s {} 'a%'", kw(r, "LIKE")),
        8 => format!("{}(s, '^a')", kw(r, "REGEX")),
        _ => format!("i = {} {} s = 'b'", k, kw(r, "OR")),
    }
}

pub fn shape(r: &mut Rng) -> String {
    let (tname, tquoted) = shape_table(r);
    let items: Vec<String> = if r.chance(1, 8) {
        vec!["*".to_string()]
    } else if r.chance(1, 5) {
        let n = 1 + r.below(3);
        (0..n).map(|_| shape_aggregate(r)).collect()
    } else {
        let n = 1 + r.below(4);
        let mut v: Vec<String> = (0..n).map(|_| shape_item(r, tname)).collect();
        if r.chance(1, 12) {
            let at = r.below(v.len() as u64 + 1) as usize;
            v.insert(at, "*".to_string());
        }
        v
    };
    let aggregating = items.iter().any(|i| i.contains('('));
    let mut s = format!("{} {} {} {}", kw(r, "SELECT"), items.join(", "), kw(r, "FROM"), tquoted);
    if r.chance(2, 5) {
        s += &format!(" {} {}", kw(r, "WHERE"), shape_filter(r, tname));
    }
    let ordered = !aggregating && r.chance(1, 4);
    if ordered {
        let key = if shape_columns(tname).contains(&"s") && r.chance(1, 2) { "s" } else { "i" };
        let dir = match r.below(3) {
            0 => " DESC",
            1 => " ASC",
            _ => "",
        };
        s += &format!(" {} {}{}", kw(r, "ORDER BY"), key, dir);
    }
    if r.chance(3, 5) {
        let l = match r.below(12) {
            0 => "0".to_string(),
            1 => format!("{}", u64::MAX),
            2 => "1000000".to_string(),
            3 => format!("{}", r.below(3)),
            _ => format!("{}", 1 + r.below(30)),
        };
        s += &format!(" {} {}", kw(r, "LIMIT"), l);
    }
    if r.chance(1, 4) {
        // OFFSET inside the result, beyond it, huge; with and without LIMIT
        let o = match r.below(6) {
            0 | 1 => format!("{}", r.below(3)),
            2 | 3 => format!("{}", r.below(40)),
            4 => format!("{}", u64::MAX),
            _ => "1000000".to_string(),
        };
        s += &format!(" {} {}", kw(r, "OFFSET"), o);
    }
    s
}

/// (class, statement) for the conversion differential (no engine involved): everything
pub fn any(r: &mut Rng) -> (&'static str, String) {
    match r.below(40) {
        0..=9 => ("probe", supported(r)),
        10..=13 => ("shape", shape(r)),
        14..=19 => ("limits", limits(r)),
        20..=25 => ("quoting", quoting(r)),
        26..=31 => ("unsupported", unsupported(r)),
        32..=38 => {
            let base = match r.below(8) {
                0 | 1 => limits(r),
                2 | 3 => quoting(r),
                4 => unsupported(r),
                5 => shape(r),
                _ => supported(r),
            };
            ("mutation", mutate(r, &base))
        }
        _ => ("tokens", tokens(r)),
    }
}

/// (class, statement) for the API oracle: mostly the `shape` sub-language; the rich expression
/// grammar (`probe`) is capped
pub fn any_api(r: &mut Rng) -> (&'static str, String) {
    match r.below(40) {
        0..=13 => ("shape", shape(r)),
        14..=16 => ("probe", supported(r)),
        17..=21 => ("limits", limits(r)),
        22..=26 => ("quoting", quoting(r)),
        27..=32 => ("unsupported", unsupported(r)),
        33..=38 => {
            let base = match r.below(8) {
                0 | 1 => limits(r),
                2 | 3 => quoting(r),
                4 => unsupported(r),
                _ => shape(r),
            };
            ("mutation", mutate(r, &base))
        }
        _ => ("tokens", tokens(r)),
    }
}
