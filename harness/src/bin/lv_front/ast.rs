//! Trusted glue: sqlparser AST -> the reduced AST of coq/theories/Model/Frontend.v (as an
//! s-expression). The mapping keeps exactly what `parse_query` inspects; every node the conversion
//! does not name goes to the `other` constructor of its class (catch-all arms).
use lvharness::sx::Sx;
use sqlparser::ast::*;
use sqlparser::dialect::GenericDialect;
use sqlparser::parser::{Parser, ParserError};

pub fn b(s: &str) -> Sx {
    Sx::bytes(s.as_bytes())
}

fn binop(op: &BinaryOperator) -> &'static str {
    match op {
        BinaryOperator::And => "And",
        BinaryOperator::Plus => "Plus",
        BinaryOperator::Minus => "Minus",
        BinaryOperator::Multiply => "Multiply",
        BinaryOperator::Divide => "Divide",
        BinaryOperator::Modulo => "Modulo",
        BinaryOperator::Gt => "Gt",
        BinaryOperator::GtEq => "GtEq",
        BinaryOperator::Lt => "Lt",
        BinaryOperator::LtEq => "LtEq",
        BinaryOperator::Eq => "Eq",
        BinaryOperator::NotEq => "NotEq",
        BinaryOperator::Or => "Or",
        _ => "Other",
    }
}

fn unop(op: &UnaryOperator) -> &'static str {
    match op {
        UnaryOperator::Not => "Not",
        UnaryOperator::Minus => "Minus",
        _ => "Other",
    }
}

pub fn value(v: &Value) -> Sx {
    match v {
        Value::Number(text, _) => {
            // oracle leaf: Rust's own f64 parser (float parsing is not modelled)
            let f = text.parse::<f64>().ok().map(|f| Sx::int(f.to_bits()));
            Sx::tagged("num", vec![b(text), Sx::opt(f)])
        }
        Value::SingleQuotedString(s) => Sx::tagged("str", vec![b(s)]),
        Value::Null => Sx::a("null"),
        _ => Sx::a("vother"),
    }
}

fn farg(a: &FunctionArg) -> Sx {
    match a {
        FunctionArg::Unnamed(FunctionArgExpr::Expr(e)) => Sx::tagged("e", vec![expr(e)]),
        FunctionArg::Named { .. } => Sx::a("named"),
        FunctionArg::Unnamed(FunctionArgExpr::Wildcard) => Sx::a("wild"),
        FunctionArg::Unnamed(FunctionArgExpr::QualifiedWildcard(_)) => Sx::a("qwild"),
        _ => Sx::a("aother"),
    }
}

pub fn expr(e: &Expr) -> Sx {
    match e {
        Expr::BinaryOp { left, op, right } => Sx::tagged("bin", vec![Sx::a(binop(op)), expr(left), expr(right)]),
        Expr::UnaryOp { op, expr: x } => Sx::tagged("un", vec![Sx::a(unop(op)), expr(x)]),
        Expr::Value(ValueWithSpan { value: v, .. }) => value(v),
        Expr::Identifier(id) => Sx::tagged("id", vec![b(&id.value)]),
        Expr::Nested(x) => Sx::tagged("nested", vec![expr(x)]),
        Expr::Function(f) => {
            let name = format!("{}", f.name).to_uppercase();
            let args = match &f.args {
                FunctionArguments::None => Sx::a("fnone"),
                FunctionArguments::Subquery(_) => Sx::a("fsub"),
                FunctionArguments::List(l) => match l.args.len() {
                    1 => Sx::tagged("l1", vec![farg(&l.args[0])]),
                    2 => Sx::tagged("l2", vec![farg(&l.args[0]), farg(&l.args[1])]),
                    n => Sx::tagged("ln", vec![Sx::int(n)]),
                },
            };
            Sx::tagged("fn", vec![b(&name), args])
        }
        Expr::IsNull(x) => Sx::tagged("isnull", vec![expr(x)]),
        Expr::IsNotNull(x) => Sx::tagged("isnotnull", vec![expr(x)]),
        Expr::Like { negated, expr: x, pattern, escape_char, .. } => Sx::tagged(
            "like",
            vec![Sx::boolean(*negated), expr(x), expr(pattern), Sx::boolean(escape_char.is_some())],
        ),
        Expr::Floor { expr: x, .. } => Sx::tagged("floor", vec![expr(x)]),
        _ => Sx::a("other"),
    }
}

fn item(it: &SelectItem) -> Sx {
    match it {
        SelectItem::UnnamedExpr(e) => Sx::tagged("unnamed", vec![expr(e), b(&format!("{}", e))]),
        SelectItem::ExprWithAlias { expr: e, alias } => Sx::tagged("alias", vec![expr(e), b(&alias.to_string())]),
        SelectItem::Wildcard(_) => Sx::a("wildcard"),
        _ => Sx::a("other"),
    }
}

fn table_factor(t: &TableFactor) -> Sx {
    match t {
        TableFactor::Table { name, .. } => Sx::tagged("table", vec![b(&format!("{}", name))]),
        _ => Sx::a("other"),
    }
}

fn select(s: &Select) -> Sx {
    let group_by = match &s.group_by {
        GroupByExpr::Expressions(exprs, mods) => Sx::tagged("exprs", vec![Sx::int(exprs.len()), Sx::int(mods.len())]),
        GroupByExpr::All(_) => Sx::a("all"),
    };
    Sx::tagged(
        "select",
        vec![
            Sx::boolean(s.distinct.is_some()),
            Sx::list(&s.projection, item),
            Sx::list(&s.from, |f| Sx::tagged("from", vec![table_factor(&f.relation), Sx::int(f.joins.len())])),
            Sx::opt(s.selection.as_ref().map(expr)),
            group_by,
            Sx::boolean(s.having.is_some()),
        ],
    )
}

fn statement(st: &Statement) -> Sx {
    match st {
        Statement::Query(q) => {
            let body = match &*q.body {
                SetExpr::Select(s) => select(s),
                _ => Sx::a("other"),
            };
            let ob = match &q.order_by {
                None => Sx::a("none"),
                Some(o) => match &o.kind {
                    OrderByKind::Expressions(l) => Sx::tagged(
                        "exprs",
                        vec![Sx::list(l, |e| Sx::l(vec![expr(&e.expr), Sx::opt(e.options.asc.map(Sx::boolean))]))],
                    ),
                    _ => Sx::a("all"),
                },
            };
            let lc = match &q.limit_clause {
                None => Sx::a("none"),
                Some(LimitClause::LimitOffset { limit, offset, .. }) => Sx::tagged(
                    "lo",
                    vec![Sx::opt(limit.as_ref().map(expr)), Sx::opt(offset.as_ref().map(|o| expr(&o.value)))],
                ),
                Some(_) => Sx::a("other"),
            };
            Sx::tagged("query", vec![body, ob, lc])
        }
        _ => Sx::a("other"),
    }
}

/// Parse with the dialect `parse_query` uses and reduce. `Err(msg)` when sqlparser itself panics.
pub fn reduce(text: &str) -> Result<(Sx, Option<Vec<Statement>>), String> {
    let t = text.to_string();
    let r = std::panic::catch_unwind(move || Parser::parse_sql(&GenericDialect {}, &t));
    match r {
        Err(e) => Err(lvharness::suite::panic_message(e)),
        Ok(Err(ParserError::ParserError(_))) => Ok((Sx::a("perr"), None)),
        Ok(Err(_)) => Ok((Sx::a("pfatal"), None)),
        Ok(Ok(stmts)) => {
            let mut v = vec![Sx::a("ok")];
            v.extend(stmts.iter().map(statement));
            Ok((Sx::L(v), Some(stmts)))
        }
    }
}
