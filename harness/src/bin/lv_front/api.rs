//! C12 suite `c12_api`: the property oracle on `LocustDB::run_query(text, false, true, vec![])`
//! against the fixture database (db.rs). Every call runs under catch_unwind and a deadline; the
//! expectations (select items, names, table, LIMIT) are derived here from the sqlparser AST of the
//! text, independently of the implementation's own conversion.
use crate::canon;
use crate::db;
use crate::gen;
use crate::parse::{case_of, text_of, PINNED};
use locustdb::verif::syntax::parser::parse_query;
use locustdb::{BasicTypeColumn, QueryError, QueryOutput, Value};
use lvharness::rng::Rng;
use lvharness::suite::{Case, Outcome, Suite};
use lvharness::sx::Sx;
use sqlparser::ast::{Expr, Ident, LimitClause, SelectItem, SetExpr, Statement, TableFactor, Value as SqlValue, ValueWithSpan};
use sqlparser::dialect::GenericDialect;
use sqlparser::parser::Parser;
use std::sync::Mutex;
use std::time::Duration;

pub struct Api;

static FIXTURE: Mutex<Option<db::Fixture>> = Mutex::new(None);
static FRESH: Mutex<Option<db::Fixture>> = Mutex::new(None);

const DEADLINE: Duration = Duration::from_secs(8);

/// what the text promises, read off the sqlparser AST
struct Expect {
    /// acceptable names per select item (None for `*`)
    items: Vec<Option<Vec<String>>>,
    /// bare identifier per select item (for the unknown-column rule)
    bare: Vec<Option<String>>,
    table: Option<String>,
    limit: Option<u64>,
    offset: Option<u64>,
    /// no WHERE clause and no aggregate: the result is the table's rows, sliced by OFFSET / LIMIT
    plain: bool,
}

fn ident_names(id: &Ident) -> Vec<String> {
    let shown = id.to_string();
    match id.quote_style {
        Some('"') | Some('`') => {
            let mut v = vec![id.value.clone()];
            let inner: String = shown.chars().skip(1).take(shown.chars().count().saturating_sub(2)).collect();
            if inner != id.value {
                v.push(inner);
            }
            v
        }
        _ => vec![shown],
    }
}

fn expect(text: &str) -> Option<Expect> {
    let stmts = std::panic::catch_unwind(|| Parser::parse_sql(&GenericDialect {}, text)).ok()?.ok()?;
    if stmts.len() != 1 {
        return None;
    }
    let q = match &stmts[0] {
        Statement::Query(q) => q,
        _ => return None,
    };
    let s = match &*q.body {
        SetExpr::Select(s) => s,
        _ => return None,
    };
    let mut items = vec![];
    let mut bare = vec![];
    for it in &s.projection {
        match it {
            SelectItem::UnnamedExpr(e) => {
                match e {
                    Expr::Identifier(id) => {
                        items.push(Some(ident_names(id)));
                        bare.push(Some(id.value.clone()));
                    }
                    _ => {
                        items.push(Some(vec![format!("{}", e)]));
                        bare.push(None);
                    }
                }
            }
            SelectItem::ExprWithAlias { expr, alias } => {
                items.push(Some(ident_names(alias)));
                bare.push(match expr {
                    Expr::Identifier(id) => Some(id.value.clone()),
                    _ => None,
                });
            }
            SelectItem::Wildcard(_) => {
                items.push(None);
                bare.push(None);
            }
            _ => return None,
        }
    }
    let table = match s.from.first().map(|f| &f.relation) {
        Some(TableFactor::Table { name, .. }) if name.0.len() == 1 => name.0[0].as_ident().map(|i| i.value.clone()),
        _ => None,
    };
    let limit = match &q.limit_clause {
        Some(LimitClause::LimitOffset { limit: Some(Expr::Value(ValueWithSpan { value: SqlValue::Number(n, _), .. })), .. }) => {
            n.parse::<u64>().ok()
        }
        _ => None,
    };
    let offset = match &q.limit_clause {
        Some(LimitClause::LimitOffset { offset: Some(o), .. }) => match &o.value {
            Expr::Value(ValueWithSpan { value: SqlValue::Number(n, _), .. }) => n.parse::<u64>().ok(),
            _ => None,
        },
        _ => None,
    };
    let any_agg = s.projection.iter().any(|it| match it {
        SelectItem::UnnamedExpr(e) | SelectItem::ExprWithAlias { expr: e, .. } => crate::features::has_aggregate(e),
        _ => false,
    });
    let plain = s.selection.is_none() && !any_agg;
    Some(Expect { items, bare, table, limit, offset, plain })
}

fn cell_of(col: &BasicTypeColumn, i: usize) -> Option<Value> {
    match col {
        BasicTypeColumn::Int(v) => v.get(i).map(|x| Value::Int(*x)),
        BasicTypeColumn::Float(v) => v.get(i).map(|x| Value::Float(ordered_float::OrderedFloat(*x))),
        BasicTypeColumn::String(v) => v.get(i).map(|x| Value::Str(x.clone())),
        BasicTypeColumn::Null(n) => {
            if i < *n {
                Some(Value::Null)
            } else {
                None
            }
        }
        BasicTypeColumn::Mixed(v) => v.get(i).cloned(),
    }
}

fn same_cell(a: &Value, b: &Value) -> bool {
    match (a, b) {
        (Value::Float(x), Value::Float(y)) => x.0.to_bits() == y.0.to_bits() || (x.0.is_nan() && y.0.is_nan()),
        _ => a == b,
    }
}

/// the well-formedness rules of the property; returns (signature, message) of the first failure
fn check_shape(out: &QueryOutput, ex: Option<&Expect>, known_table_cols: Option<&Vec<&'static str>>) -> Option<(String, String)> {
    let ncols = out.colnames.len();
    // column view: same names, same order
    if out.columns.len() != ncols {
        let empty_table = out.columns.is_empty() && out.rows.as_ref().map_or(false, |r| r.is_empty());
        return Some((
            if empty_table { "shape:columns-empty-for-empty-table".into() } else { "shape:columns-vs-colnames".to_string() },
            format!("colnames has {} entries but columns has {}", ncols, out.columns.len()),
        ));
    }
    for (j, (name, _)) in out.columns.iter().enumerate() {
        if *name != out.colnames[j] {
            return Some(("shape:column-name-order".into(), format!("columns[{}] is {:?} but colnames[{}] is {:?}", j, name, j, out.colnames[j])));
        }
    }
    // equal lengths
    let len = out.columns.first().map(|c| c.1.len()).unwrap_or(0);
    for (j, (_, c)) in out.columns.iter().enumerate() {
        if c.len() != len {
            return Some(("shape:unequal-columns".into(), format!("column {} has {} cells, column 0 has {}", j, c.len(), len)));
        }
    }
    // row view
    match &out.rows {
        None => return Some(("shape:no-rows".into(), "rows missing although the row format was requested".into())),
        Some(rows) => {
            if ncols > 0 && rows.len() != len {
                // release profile of finding F5: `len - offset` wrapped around
                let wrapped = len > (1usize << 60);
                return Some((
                    if wrapped { "shape:row-count:wrapped-length".into() } else { "shape:row-count".to_string() },
                    format!("{} rows but columns have {} cells", rows.len(), len),
                ));
            }
            for (i, row) in rows.iter().enumerate() {
                if row.len() != ncols {
                    return Some(("shape:row-width".into(), format!("row {} has {} cells for {} columns", i, row.len(), ncols)));
                }
                for (j, cell) in row.iter().enumerate() {
                    match cell_of(&out.columns[j].1, i) {
                        Some(c) if same_cell(&c, cell) => {}
                        other => {
                            // NULL in the row view, the raw null sentinel (NaN, i64::MAX, ...) in the column view
                            let sentinel = matches!((&other, cell), (Some(c), Value::Null) if !matches!(c, Value::Null));
                            return Some((
                                if sentinel { "shape:row-vs-column:null-vs-sentinel".into() } else { "shape:row-vs-column".to_string() },
                                format!("cell ({}, {}) is {:?} in the row view and {:?} in the column view", i, j, cell, other),
                            ))
                        }
                    }
                }
            }
        }
    }
    if let Some(ex) = ex {
        let star = ex.items.len() == 1 && ex.items[0].is_none();
        if star {
            if let Some(cols) = known_table_cols {
                let want: Vec<String> = cols.iter().map(|s| s.to_string()).collect();
                if out.colnames != want {
                    return Some(("shape:star-expansion".into(), format!("SELECT * gave columns {:?}, the table has {:?}", out.colnames, want)));
                }
            }
        } else {
            if ncols != ex.items.len() {
                return Some((
                    "shape:column-count".into(),
                    format!("{} select items but {} result columns", ex.items.len(), ncols),
                ));
            }
            for (j, want) in ex.items.iter().enumerate() {
                let ok = match want {
                    None => out.colnames[j] == "*",
                    Some(names) => names.contains(&out.colnames[j]),
                };
                if !ok {
                    // finding F29: the text merely starts with a quoted identifier and lost its first and last byte
                    let quoted_prefix = want.as_ref().map_or(false, |names| {
                        names.iter().any(|n| {
                            let cs: Vec<char> = n.chars().collect();
                            cs.len() >= 2
                                && (cs[0] == '"' || cs[0] == '`')
                                && cs[1..cs.len() - 1].iter().collect::<String>() == out.colnames[j]
                        })
                    });
                    return Some((
                        if quoted_prefix { "shape:name:quoted-prefix".into() } else { "shape:name".to_string() },
                        format!("select item {} should be named one of {:?}, got {:?}", j, want, out.colnames[j]),
                    ));
                }
            }
            // unknown column => NULL
            if let Some(cols) = known_table_cols {
                for (j, b) in ex.bare.iter().enumerate() {
                    if let Some(name) = b {
                        if !cols.contains(&name.as_str()) {
                            let all_null = (0..len).all(|i| matches!(cell_of(&out.columns[j].1, i), Some(Value::Null)));
                            if !all_null {
                                // finding F6d: the identifier's value itself starts with a quote and is stripped again
                                let double = name.starts_with('"') || name.starts_with('`');
                                return Some((
                                    if double { "shape:unknown-column-not-null:double-strip".into() } else { "shape:unknown-column-not-null".to_string() },
                                    format!("column {:?} does not exist but result column {} is not all NULL", name, j),
                                ));
                            }
                        }
                    }
                }
            }
        }
        if let Some(l) = ex.limit {
            if len as u64 > l {
                return Some(("shape:limit-exceeded".into(), format!("{} rows for LIMIT {}", len, l)));
            }
        }
        // a plain SELECT returns exactly the table's rows after OFFSET, cut at LIMIT
        if ex.plain && ncols > 0 {
            if let Some(n) = ex.table.as_ref().and_then(|t| db::table_rows(t)) {
                let n = n as u64;
                let after = n - ex.offset.unwrap_or(0).min(n);
                let want = ex.limit.unwrap_or(u64::MAX).min(after);
                if len as u64 != want {
                    return Some((
                        "shape:row-count-expected".into(),
                        format!("{} rows, expected {} (table has {}, LIMIT {:?}, OFFSET {:?})", len, want, n, ex.limit, ex.offset),
                    ));
                }
            }
        }
    }
    None
}

enum Called {
    Ok(QueryOutput),
    Err(QueryError),
    Panic(String),
    Hang,
}

fn call(fx: &db::Fixture, text: &str) -> Called {
    let dbh = fx.db.clone();
    let t = text.to_string();
    let r = db::with_deadline(DEADLINE, move || {
        db::runtime().block_on(async move { tokio::time::timeout(DEADLINE + db::HARD_EXTRA + Duration::from_secs(5), dbh.run_query(&t, false, true, vec![])).await })
    });
    match r {
        Ok(Ok(Ok(o))) => Called::Ok(o),
        Ok(Ok(Err(e))) => Called::Err(e),
        Ok(Err(_)) => Called::Hang,
        Err(db::CallError::Panic(m)) => Called::Panic(m),
        Err(db::CallError::Deadline) => Called::Hang,
    }
}

fn table_exists(t: &str) -> bool {
    db::table_columns(t).is_some() || t.starts_with("_meta_columns_")
}

impl Suite for Api {
    fn name(&self) -> &'static str {
        "c12_api"
    }
    fn generate(&self, seed: u64, tier: &str) -> Vec<Case> {
        let mut r = Rng::new(seed ^ 0xC12_0002);
        let n = if tier == "thorough" { 15_000 } else { 2_000 };
        let mut cases: Vec<Case> = PINNED.iter().map(|(c, t)| case_of(&crate::features::class_of(c, t), t)).collect();
        for t in ["SELECT name FROM _meta_tables", "SELECT * FROM _meta_tables", "SELECT COUNT(1) FROM _meta_tables"] {
            cases.push(Case { class: "fresh-db".into(), input: Sx::tagged("q", vec![Sx::bytes(t.as_bytes()), Sx::a("fresh")]) });
        }
        for _ in 0..n {
            let (class, text) = gen::any_api(&mut r);
            cases.push(case_of(&crate::features::class_of(class, &text), &text));
        }
        cases
    }
    fn run(&self, input: &Sx) -> Vec<Outcome> {
        db::install_panic_hook();
        let text = text_of(input);
        let fresh = input.items().len() > 2;
        let slot = if fresh { &FRESH } else { &FIXTURE };
        let mut guard = slot.lock().unwrap_or_else(|e| e.into_inner());
        if guard.is_none() {
            match db::build(4, false, !fresh) {
                Ok(fx) => *guard = Some(fx),
                Err(e) => {
                    return vec![Outcome {
                        impl_out: Some(Sx::a("fixture-failed")),
                        oracle: Some(format!("building the fixture database failed: {}", e)),
                        signature: Some("fixture-build".into()),
                        nontrivial: true,
                        ..Default::default()
                    }]
                }
            }
        }
        let _ = db::take_panics();
        let ex = expect(&text);
        let mut called = call(guard.as_ref().unwrap(), &text);
        let mut panics = db::take_panics();
        if !panics.is_empty() && matches!(&called, Called::Ok(_) | Called::Err(_)) && !matches!(&called, Called::Err(QueryError::Canceled { .. })) {
            // the call returned although a thread panicked: the panic may belong to a straggler thread of
            // an earlier, discarded database. Settle, rebuild, and repeat the call once.
            *guard = None;
            std::thread::sleep(Duration::from_millis(300));
            let _ = db::take_panics();
            match db::build(4, false, !fresh) {
                Ok(fx) => *guard = Some(fx),
                Err(e) => {
                    return vec![Outcome {
                        impl_out: Some(Sx::a("fixture-failed")),
                        oracle: Some(format!("building the fixture database failed: {}", e)),
                        signature: Some("fixture-build".into()),
                        nontrivial: true,
                        ..Default::default()
                    }]
                }
            }
            called = call(guard.as_ref().unwrap(), &text);
            panics = db::take_panics();
        }
        let mut tainted = !panics.is_empty();
        let mut oracle: Option<(String, String)> = None;
        let impl_out;
        match &called {
            Called::Ok(out) => {
                impl_out = Sx::tagged("ok", vec![Sx::int(out.colnames.len()), Sx::int(out.columns.first().map(|c| c.1.len()).unwrap_or(0))]);
                let cols = ex.as_ref().and_then(|e| e.table.as_ref()).and_then(|t| db::table_columns(t));
                // unknown table => error comes first: a result for a missing table must not be
                // attributed to a shape finding
                if let Some(t) = ex.as_ref().and_then(|e| e.table.as_ref()) {
                    if !table_exists(t) {
                        oracle = Some(("unknown-table-answered".into(), format!("table {:?} does not exist but the query returned a result", t)));
                    }
                }
                if oracle.is_none() {
                    oracle = check_shape(out, ex.as_ref(), cols.as_ref());
                }
                if oracle.is_none() && !panics.is_empty() {
                    oracle = Some((
                        format!("background-panic:{}", db::panic_signature(&panics[0])),
                        format!("a thread panicked while the query was answered: {:?}", panics),
                    ));
                }
            }
            Called::Err(QueryError::Canceled { .. }) => {
                impl_out = Sx::a("canceled");
                tainted = true;
                let sig = panics.first().map(|p| db::panic_signature(p)).unwrap_or_else(|| "no-panic-recorded".into());
                oracle = Some((format!("lost-answer:{}", sig), format!("the answer was lost (Canceled); pool-thread panics: {:?}", panics)));
            }
            Called::Err(e) => {
                impl_out = canon::err(e);
                if !panics.is_empty() {
                    oracle = Some((
                        format!("background-panic:{}", db::panic_signature(&panics[0])),
                        format!("a thread panicked while the query failed with {:?}: {:?}", canon::err_kind(e), panics),
                    ));
                }
            }
            Called::Panic(m) => {
                let class = canon::panic_class(m);
                impl_out = Sx::tagged("panic", vec![Sx::a(class)]);
                tainted = true;
                // the recorder entry of THIS panic (stragglers of a discarded database may have recorded others)
                let site = panics
                    .iter()
                    .find(|p| p.ends_with(m.as_str()))
                    .or(panics.first())
                    .map(|p| p.split(':').next().unwrap_or("").to_string())
                    .unwrap_or_default();
                oracle = Some((format!("caller-panic:run_query:{}:{}", site, class), format!("run_query panicked in the caller: {}", m)));
            }
            Called::Hang => {
                impl_out = Sx::a("hang");
                tainted = true;
                // a pool-thread panic whose task stays queued (or whose peers died too) never answers
                let sig = match panics.first() {
                    Some(p) => format!("lost-answer:{}", db::panic_signature(p)),
                    None => "hang:no-panic-recorded".to_string(),
                };
                oracle = Some((sig, format!("run_query did not return within {:?}; panics: {:?}", DEADLINE, panics)));
            }
        }
        // error delivery: what parse_query rejects, run_query must reject with the same kind
        if oracle.is_none() {
            let t = text.clone();
            if let Ok(Err(pe)) = std::panic::catch_unwind(move || parse_query(&t)) {
                let same = matches!(&called, Called::Err(e) if canon::err_kind(e) == canon::err_kind(&pe));
                if !same {
                    oracle = Some(("parse-error-not-delivered".into(), format!("parse_query fails with {} but run_query returned {}", canon::err_kind(&pe), impl_out)));
                }
            }
        }
        if tainted {
            // the database may have lost a worker or hold a poisoned lock: never reuse it; give its
            // remaining threads a moment to finish so that their panics are not attributed to the next case
            *guard = None;
            std::thread::sleep(Duration::from_millis(30));
        }
        let nontrivial = !matches!(&called, Called::Err(QueryError::ParseError(_)));
        vec![Outcome {
            model: None,
            impl_out: Some(impl_out),
            signature: oracle.as_ref().map(|o| o.0.clone()),
            oracle: oracle.map(|o| o.1),
            nontrivial,
            ..Default::default()
        }]
    }
}
