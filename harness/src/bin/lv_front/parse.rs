//! C12 suite `c12_parse`: the real `parse_query` (and `Query::normalize`) against the Coq model of
//! the conversion, on generated / mutated query strings. The reduced AST handed to the model is
//! produced here by parsing the same text with sqlparser (ast.rs, trusted glue).
use crate::ast;
use crate::canon;
use crate::gen;
use locustdb::verif::syntax::parser::parse_query;
use lvharness::rng::Rng;
use lvharness::suite::{panic_message, Case, Outcome, Suite};
use lvharness::sx::Sx;

pub struct Parse;

pub fn text_of(input: &Sx) -> String {
    String::from_utf8(input.items()[1].as_bytes()).expect("query text must be UTF-8")
}

pub fn case_of(class: &str, text: &str) -> Case {
    Case { class: class.to_string(), input: Sx::tagged("q", vec![Sx::bytes(text.as_bytes())]) }
}

/// statements every run includes: the former panic witnesses (C12_former_witnesses_repaired) and one
/// representative per unsupported construct named in the property text
pub const PINNED: [(&str, &str); 26] = [
    ("pinned", "SELECT i FROM t LIMIT 1.5"),
    ("pinned", "SELECT i FROM t LIMIT 99999999999999999999999"),
    ("pinned", "SELECT i FROM t LIMIT 1 OFFSET 1.5"),
    ("pinned", "SELECT \"\"\"\" FROM t"),
    ("pinned", "SELECT \"\"\"é\" FROM t"),
    ("pinned", "SELECT \"i\" = é FROM t"),
    ("pinned", "SELECT i FROM \"t\".é"),
    ("pinned", ""),
    ("pinned", ";"),
    ("pinned", "SELECT i FROM t LIMIT 18446744073709551615"),
    ("pinned", "SELECT i FROM t JOIN u ON 1 = 1"),
    ("pinned", "SELECT i, COUNT(1) FROM t GROUP BY i"),
    ("pinned", "SELECT COUNT(1) FROM t HAVING COUNT(1) > 1"),
    ("pinned", "SELECT DISTINCT i FROM t"),
    ("pinned", "SELECT i FROM t, u"),
    ("pinned", "SELECT i FROM t UNION SELECT i FROM u"),
    ("pinned", "SELECT i FROM (SELECT i FROM t) AS x"),
    ("pinned", "SELECT i FROM t WHERE i IN (1, 2)"),
    ("pinned", "SELECT i FROM t WHERE i BETWEEN 1 AND 2"),
    ("pinned", "SELECT CASE WHEN i > 1 THEN 1 ELSE 0 END FROM t"),
    ("pinned", "INSERT INTO t (i) VALUES (1)"),
    ("pinned", "UPDATE t SET i = 1"),
    ("pinned", "SELECT s FROM t WHERE s LIKE 'a!%' ESCAPE '!'"),
    ("pinned", "SELECT COUNT(*) FROM t"),
    ("pinned", "SELECT SUM(x => i) FROM t"),
    ("pinned", "SELECT SUM(SUM(i)) FROM t"),
];

impl Suite for Parse {
    fn name(&self) -> &'static str {
        "c12_parse"
    }
    fn generate(&self, seed: u64, tier: &str) -> Vec<Case> {
        let mut r = Rng::new(seed ^ 0xC12_0001);
        let n = if tier == "thorough" { 120_000 } else { 5_000 };
        let mut cases: Vec<Case> = PINNED.iter().map(|(c, t)| case_of(&crate::features::class_of(c, t), t)).collect();
        for _ in 0..n {
            let (class, text) = gen::any(&mut r);
            cases.push(case_of(&crate::features::class_of(class, &text), &text));
        }
        cases
    }
    fn run(&self, input: &Sx) -> Vec<Outcome> {
        let text = text_of(input);
        let mut outs = vec![];
        let reduced = match ast::reduce(&text) {
            Ok((sx, _)) => sx,
            Err(msg) => {
                // sqlparser itself panicked: parse_query would too (same call)
                outs.push(Outcome {
                    model: None,
                    impl_out: Some(Sx::tagged("panic", vec![Sx::a("sqlparser")])),
                    oracle: Some(format!("sqlparser panicked on the query text: {}", msg)),
                    signature: Some("caller-panic:sqlparser".into()),
                    nontrivial: true,
                    ..Default::default()
                });
                return outs;
            }
        };
        let accepted = reduced.tag() == "ok";
        // the premise of C12_total: every reduced AST handed to the model satisfies the parser invariants
        outs.push(Outcome {
            model: Some("wf".into()),
            model_input: Some(reduced.clone()),
            impl_out: Some(Sx::boolean(true)),
            nontrivial: false,
            ..Default::default()
        });
        let t = text.clone();
        let res = std::panic::catch_unwind(move || parse_query(&t));
        match res {
            Err(e) => {
                let msg = panic_message(e);
                let class = canon::panic_class(&msg);
                outs.push(Outcome {
                    model: Some("parse".into()),
                    model_input: Some(reduced),
                    impl_out: Some(Sx::tagged("panic", vec![Sx::a(class)])),
                    oracle: Some(format!("parse_query panicked in the caller: {}", msg)),
                    signature: Some(format!("caller-panic:parse_query:{}", class)),
                    nontrivial: true,
                });
            }
            Ok(Err(e)) => outs.push(Outcome {
                model: Some("parse".into()),
                model_input: Some(reduced),
                impl_out: Some(canon::err(&e)),
                nontrivial: accepted,
                ..Default::default()
            }),
            Ok(Ok(q)) => {
                outs.push(Outcome {
                    model: Some("parse".into()),
                    model_input: Some(reduced.clone()),
                    impl_out: Some(canon::query(&q)),
                    nontrivial: true,
                    ..Default::default()
                });
                let q2 = q.clone();
                let norm = std::panic::catch_unwind(move || q2.normalize());
                let (impl_out, oracle, signature) = match norm {
                    Err(e) => {
                        let msg = panic_message(e);
                        (
                            Sx::tagged("panic", vec![Sx::a("normalize")]),
                            Some(format!("Query::normalize panicked: {}", msg)),
                            Some(format!("caller-panic:normalize:{}", canon::skeleton(&msg))),
                        )
                    }
                    Ok(Err(e)) => (canon::err(&e), None, None),
                    Ok(Ok(n)) => (canon::normalized(&n), None, None),
                };
                outs.push(Outcome {
                    model: Some("normalize".into()),
                    model_input: Some(reduced),
                    impl_out: Some(impl_out),
                    oracle,
                    signature,
                    nontrivial: true,
                });
            }
        }
        outs
    }
}
