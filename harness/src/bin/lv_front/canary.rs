//! C11: the canary differential. One database lifetime = one child process (re-exec of this binary
//! with the `c11-child` sub-command) so that a wedged database cannot take the harness down; the
//! parent kills the child on a deadline.
//!
//! A scenario is `(scenario <threads> <disk> (round <req>...)...)`. The requests of a round are
//! issued concurrently from one client thread each; after every round the child runs a canary
//! query, a canary ingestion, a canary force_flush and a canary table_stats call under deadlines and
//! prints every observed outcome as one s-expression per line.
use crate::canon;
use crate::db;
use locustdb::{LocustDB, Options, QueryError};
use locustdb_serialization::api::AnyVal;
use locustdb_serialization::event_buffer::{ColumnBuffer, ColumnData, EventBuffer, TableBuffer};
use lvharness::sx::Sx;
use std::collections::HashMap;
use std::sync::Arc;
use std::time::Duration;

pub const CALL_DEADLINE: Duration = Duration::from_secs(8);

/// what one API call did, as seen by the caller
#[derive(Clone, Debug, PartialEq)]
pub enum Seen {
    Ok,
    Err(String),
    /// panic in the caller: source file of the panic site (from the hook), message
    Panic(String, String),
    Canceled,
    Hang,
}

impl Seen {
    pub fn sx(&self) -> Sx {
        match self {
            Seen::Ok => Sx::a("ok"),
            Seen::Err(k) if k == "flushstep-hang" => Sx::a("flushhang"),
            Seen::Err(k) => Sx::tagged("err", vec![Sx::a(k)]),
            Seen::Panic(..) => Sx::a("panic"),
            Seen::Canceled => Sx::a("canceled"),
            Seen::Hang => Sx::a("hang"),
        }
    }
}

fn strs(v: &[&str]) -> ColumnBuffer {
    ColumnBuffer { data: ColumnData::String(v.iter().map(|s| s.to_string()).collect()) }
}
fn ints(v: &[i64]) -> ColumnBuffer {
    ColumnBuffer { data: ColumnData::I64(v.to_vec()) }
}

/// the ingestion requests of the scenarios, by name
fn ingest_buffer(kind: &str) -> EventBuffer {
    let mut tables = HashMap::new();
    match kind {
        // a valid batch for table `t`
        "ok" => {
            let mut c = HashMap::new();
            c.insert("i".to_string(), ints(&[100, 101]));
            c.insert("s".to_string(), strs(&["k", "l"]));
            tables.insert("t".to_string(), TableBuffer::new(c));
        }
        // a new column appears
        "new_column" => {
            let mut c = HashMap::new();
            c.insert("i".to_string(), ints(&[7]));
            c.insert("fresh".to_string(), ints(&[1]));
            tables.insert("t".to_string(), TableBuffer::new(c));
        }
        // an integer column receives strings
        "type_change" => {
            let mut c = HashMap::new();
            c.insert("i".to_string(), strs(&["x", "y"]));
            tables.insert("t".to_string(), TableBuffer::new(c));
        }
        // a table buffer with zero rows (F12)
        "zero_rows" => {
            tables.insert("t".to_string(), TableBuffer::default());
        }
        // a zero-row buffer for a table that does not exist yet
        "zero_rows_new_table" => {
            tables.insert("z".to_string(), TableBuffer::default());
        }
        // row API: the string column is present in the first row only (F11)
        "short_string" => {
            let mut tb = TableBuffer::default();
            tb.push_row_and_timestamp(vec![("s".to_string(), AnyVal::Str("a".into())), ("i".to_string(), AnyVal::Int(1))]);
            tb.push_row_and_timestamp(vec![("i".to_string(), AnyVal::Int(2))]);
            tables.insert("t".to_string(), tb);
        }
        // F4, step by step on table `m`: a column sees a string, then a number, then is missing
        "mixed_a" => {
            let mut c = HashMap::new();
            c.insert("k".to_string(), ints(&[1]));
            c.insert("v".to_string(), strs(&["a"]));
            tables.insert("m".to_string(), TableBuffer::new(c));
        }
        "mixed_b" => {
            let mut c = HashMap::new();
            c.insert("k".to_string(), ints(&[2]));
            c.insert("v".to_string(), ints(&[5]));
            tables.insert("m".to_string(), TableBuffer::new(c));
        }
        "mixed_c" => {
            let mut c = HashMap::new();
            c.insert("k".to_string(), ints(&[3]));
            tables.insert("m".to_string(), TableBuffer::new(c));
        }
        // a batch that spans two tables
        "two_tables" => {
            let mut c = HashMap::new();
            c.insert("i".to_string(), ints(&[1]));
            tables.insert("t".to_string(), TableBuffer::new(c));
            let mut c = HashMap::new();
            c.insert("i".to_string(), ints(&[2]));
            tables.insert("u".to_string(), TableBuffer::new(c));
        }
        // strings that the column builder hex-packs (F2: compaction cannot decode them)
        "hex" => {
            let mut c = HashMap::new();
            c.insert("h".to_string(), strs(&["deadbeef00112233", "cafebabe44556677", "0123456789abcdef"]));
            tables.insert("h".to_string(), TableBuffer::new(c));
        }
        // table `ov`: three partitions whose SUM overflows only when all three are merged
        // (2^62 + 2^61 and 2^61 + 2^62 fit, 2^62 + 2^61 + 2^62 does not)
        "ov_a" | "ov_c" => {
            let mut c = HashMap::new();
            c.insert("v".to_string(), ints(&[1i64 << 62]));
            tables.insert("ov".to_string(), TableBuffer::new(c));
        }
        "ov_b" => {
            let mut c = HashMap::new();
            c.insert("v".to_string(), ints(&[1i64 << 61]));
            tables.insert("ov".to_string(), TableBuffer::new(c));
        }
        // table `dict`: a few rows first (so that the next flush compacts), then one batch of 140 000
        // rows with 69 000 distinct strings: a dictionary column whose indices need 32 bits
        "dict_small" => {
            let mut c = HashMap::new();
            c.insert("d".to_string(), strs(&["k-a", "k-b"]));
            tables.insert("dict".to_string(), TableBuffer::new(c));
        }
        "dict_big" => {
            let mut c = HashMap::new();
            let v: Vec<String> = (0..140_000usize).map(|i| format!("k{:06}", (i * 7919) % 69_000)).collect();
            c.insert("d".to_string(), ColumnBuffer { data: ColumnData::String(v) });
            tables.insert("dict".to_string(), TableBuffer::new(c));
        }
        "canary" => {
            let mut c = HashMap::new();
            c.insert("x".to_string(), ints(&[1]));
            tables.insert("canary".to_string(), TableBuffer::new(c));
        }
        other => panic!("unknown ingestion kind {}", other),
    }
    EventBuffer { tables }
}

fn initial_table() -> EventBuffer {
    let n = 12usize;
    let idx: Vec<usize> = (0..n).collect();
    let words = ["a", "b", "abc", "x y", "m", "zz", "é", "", "a", "b", "mm", "z"];
    let mut c = HashMap::new();
    c.insert("i".to_string(), ints(&idx.iter().map(|&r| r as i64 + 1).collect::<Vec<_>>()));
    c.insert("s".to_string(), strs(&idx.iter().map(|&r| words[r]).collect::<Vec<_>>()));
    c.insert("big".to_string(), ints(&idx.iter().map(|&r| if r == 0 { i64::MIN } else { i64::MAX - r as i64 }).collect::<Vec<_>>()));
    c.insert(
        "n".to_string(),
        ColumnBuffer {
            data: ColumnData::Mixed(idx.iter().map(|&r| if r % 3 == 1 { AnyVal::Null } else { AnyVal::Int(r as i64) }).collect()),
        },
    );
    c.insert("f".to_string(), ColumnBuffer { data: ColumnData::Dense(idx.iter().map(|&r| r as f64 * 0.5).collect()) });
    let mut tables = HashMap::new();
    tables.insert("t".to_string(), TableBuffer::new(c));
    let mut c = HashMap::new();
    c.insert("i".to_string(), ints(&[1, 2, 3]));
    tables.insert("u".to_string(), TableBuffer::new(c));
    let mut c = HashMap::new();
    c.insert("x".to_string(), ints(&[0]));
    tables.insert("canary".to_string(), TableBuffer::new(c));
    EventBuffer { tables }
}

fn seen_of_panic(m: String) -> Seen {
    // the hook recorded `<file>: <message>` for this thread's panic as the latest entry with that message
    let site = db::peek_panics().iter().rev().find(|p| p.ends_with(&m)).map(|p| p.split(": ").next().unwrap_or("").to_string());
    Seen::Panic(site.unwrap_or_default(), m)
}

fn do_query(dbh: &Arc<LocustDB>, text: &str) -> Seen {
    let dbh = dbh.clone();
    let t = text.to_string();
    let r = db::with_deadline(CALL_DEADLINE, move || {
        db::runtime().block_on(async move { tokio::time::timeout(CALL_DEADLINE + db::HARD_EXTRA + Duration::from_secs(5), dbh.run_query(&t, false, true, vec![])).await })
    });
    match r {
        Ok(Ok(Ok(_))) => Seen::Ok,
        Ok(Ok(Err(QueryError::Canceled { .. }))) => Seen::Canceled,
        Ok(Ok(Err(e))) => Seen::Err(canon::err_kind(&e).to_string()),
        Ok(Err(_)) => Seen::Hang,
        Err(db::CallError::Panic(m)) => seen_of_panic(m),
        Err(db::CallError::Deadline) => Seen::Hang,
    }
}

fn do_ingest(dbh: &Arc<LocustDB>, kind: &str) -> Seen {
    if kind == "mixed_all" {
        // F4 in one request: a column sees a string, then a number, then is missing from a batch
        for k in ["mixed_a", "mixed_b", "mixed_c"] {
            let s = do_ingest(dbh, k);
            if s != Seen::Ok {
                return s;
            }
        }
        return Seen::Ok;
    }
    let dbh = dbh.clone();
    let eb = match std::panic::catch_unwind(|| ingest_buffer(kind)) {
        Ok(eb) => eb,
        Err(e) => return seen_of_panic(lvharness::suite::panic_message(e)),
    };
    let r = db::with_deadline(CALL_DEADLINE, move || {
        db::runtime().block_on(async move { dbh.ingest_efficient(eb).await });
    });
    match r {
        Ok(()) => Seen::Ok,
        Err(db::CallError::Panic(m)) => seen_of_panic(m),
        Err(db::CallError::Deadline) => Seen::Hang,
    }
}

fn do_flush(dbh: &Arc<LocustDB>) -> Seen {
    let dbh = dbh.clone();
    match db::with_deadline(CALL_DEADLINE, move || dbh.force_flush()) {
        Ok(()) => Seen::Ok,
        Err(db::CallError::Panic(m)) => seen_of_panic(m),
        Err(db::CallError::Deadline) => Seen::Hang,
    }
}

fn do_stats(dbh: &Arc<LocustDB>, memtree: bool) -> Seen {
    let dbh = dbh.clone();
    let r = db::with_deadline(CALL_DEADLINE, move || {
        db::runtime().block_on(async move {
            if memtree {
                tokio::time::timeout(CALL_DEADLINE + db::HARD_EXTRA + Duration::from_secs(5), dbh.mem_tree(2, None)).await.map(|r| r.map(|_| ()))
            } else {
                tokio::time::timeout(CALL_DEADLINE + db::HARD_EXTRA + Duration::from_secs(5), dbh.table_stats()).await.map(|r| r.map(|_| ()))
            }
        })
    });
    match r {
        Ok(Ok(Ok(()))) => Seen::Ok,
        Ok(Ok(Err(_))) => Seen::Canceled,
        Ok(Err(_)) => Seen::Hang,
        Err(db::CallError::Panic(m)) => seen_of_panic(m),
        Err(db::CallError::Deadline) => Seen::Hang,
    }
}

/// an ingestion request = the ingestion followed by reading the table back
fn do_ingest_request(dbh: &Arc<LocustDB>, kind: &str) -> Seen {
    if kind == "bigdict" {
        // a large dictionary column in one partition, compacted by the flush that follows it
        for step in ["dict_small", "flush", "dict_big", "flush", "flush"] {
            let r = if step == "flush" { do_flush(dbh) } else { do_ingest(dbh, step) };
            match r {
                Seen::Ok => {}
                Seen::Panic(site, msg) if step == "flush" => return Seen::Panic(format!("flushstep {}", site), msg),
                Seen::Hang if step == "flush" => return Seen::Err("flushstep-hang".into()),
                other => return other,
            }
        }
        return do_query(dbh, "SELECT COUNT(1) FROM dict WHERE d = 'k000007'");
    }
    if kind == "hex_compact" {
        // F2 in one request: hex-packed strings, flushed until the partitions are compacted
        for _ in 0..6 {
            let s = do_ingest(dbh, "hex");
            if s != Seen::Ok {
                return s;
            }
            match do_flush(dbh) {
                Seen::Ok => {}
                Seen::Panic(site, msg) => return Seen::Panic(format!("flushstep {}", site), msg),
                Seen::Hang => return Seen::Err("flushstep-hang".into()),
                other => return other,
            }
        }
        return do_query(dbh, "SELECT * FROM h");
    }
    let s = do_ingest(dbh, kind);
    if s != Seen::Ok {
        return s;
    }
    let table = match kind {
        "zero_rows_new_table" => "z",
        "mixed_a" | "mixed_b" | "mixed_c" | "mixed_all" => "m",
        "hex" => "h",
        _ => "t",
    };
    match do_query(dbh, &format!("SELECT * FROM {}", table)) {
        Seen::Panic(site, msg) => Seen::Panic(format!("readback {}", site), msg),
        other => other,
    }
}

/// deeply nested expressions, built here so that scenarios stay short: `(deep <kind> <depth>)`
pub fn deep_query(kind: &str, depth: usize) -> String {
    match kind {
        "paren" => format!("SELECT {}i{} FROM t", "(".repeat(depth), ")".repeat(depth)),
        "minus" => format!("SELECT {}i FROM t", "- ".repeat(depth)),
        "not" => format!("SELECT i FROM t WHERE {}i = 1", "NOT ".repeat(depth)),
        "mixed" => format!("SELECT i FROM t WHERE {}i = 1{}", "NOT (".repeat(depth), ")".repeat(depth)),
        "sub" => format!("SELECT i FROM t WHERE i = {}1{}", "(SELECT ".repeat(depth), ")".repeat(depth)),
        other => panic!("unknown deep kind {}", other),
    }
}

fn do_request(dbh: &Arc<LocustDB>, req: &Sx) -> Seen {
    match req.tag() {
        "deep" => do_query(dbh, &deep_query(req.items()[1].atom(), req.items()[2].as_usize())),
        "q" => do_query(dbh, &String::from_utf8(req.items()[1].as_bytes()).unwrap()),
        "ingest" => do_ingest_request(dbh, req.items()[1].atom()),
        "flush" => do_flush(dbh),
        "stats" => do_stats(dbh, false),
        "memtree" => do_stats(dbh, true),
        other => panic!("unknown request {}", other),
    }
}

fn emit(tag: &str, round: usize, what: &str, seen: &Seen, panics: &[(&'static str, String)], ms: u128) {
    // pool-thread panics are lost workers; everything else (the caller's own panic, flush jobs, the
    // flush thread or a background thread dying on a poisoned lock) is reported through `seen`
    let pool: Vec<&String> = panics.iter().filter(|p| p.0 == "pool").map(|p| &p.1).collect();
    let detail = match seen {
        Seen::Panic(site, msg) => format!("{}: {}", site, msg),
        _ => pool
            .first()
            .map(|s| s.to_string())
            .or_else(|| panics.iter().find(|p| !p.1.contains("PoisonError")).map(|p| p.1.clone()))
            .or_else(|| panics.first().map(|p| p.1.clone()))
            .unwrap_or_default(),
    };
    println!(
        "{}",
        Sx::l(vec![
            Sx::a(tag),
            Sx::int(round),
            Sx::a(what),
            seen.sx(),
            Sx::bytes(canon::skeleton(&detail).as_bytes()),
            Sx::int(pool.len()),
            Sx::int(ms),
        ])
    );
}

/// The child: builds the database, runs the scenario, prints observations, exits.
pub fn child_main(spec: &str) {
    db::install_panic_hook();
    let sc = Sx::parse(spec).expect("bad scenario");
    let it = sc.items();
    let threads = it[1].as_usize();
    let disk = it[2].as_bool();
    let dir = if disk { Some(db::scratch_dir("c11")) } else { None };
    let opts = Options {
        threads,
        read_threads: 1,
        db_path: dir.clone(),
        metrics_table_name: None,
        partition_combine_factor: 4,
        ..Options::default()
    };
    let dbh = Arc::new(LocustDB::new(&opts));
    {
        let d = dbh.clone();
        db::runtime().block_on(async move { d.ingest_efficient(initial_table()).await });
    }
    // table `ov`: two flushed partitions and the open buffer (three partitions for every query)
    for step in ["ov_a", "flush", "ov_b", "flush", "ov_c"] {
        let r = if step == "flush" { do_flush(&dbh) } else { do_ingest(&dbh, step) };
        if r != Seen::Ok {
            println!("(nostart)");
            std::process::exit(0);
        }
    }
    let _ = db::take_panics();
    if !db::learn_pool_threads(&dbh, threads) {
        println!("(nostart)");
        std::process::exit(0);
    }
    // warm-up: touch every call path once (on a machine whose disk is saturated the first execution of a
    // code path can stall for a long time on demand paging of the binary; nothing has panicked yet, so these
    // calls get the long evidence-free deadline)
    let warm = [
        do_ingest(&dbh, "canary"),
        do_flush(&dbh),
        do_query(&dbh, "SELECT COUNT(1) FROM canary"),
        do_stats(&dbh, false),
        do_stats(&dbh, true),
        do_query(&dbh, "SELECT * FROM t LIMIT 1"),
    ];
    let _ = do_query(&dbh, "SELECT FROM");
    let _ = do_query(&dbh, "SELECT i FROM nosuchtable");
    let _ = do_query(&dbh, "SELECT s + 1 FROM t");
    if warm.iter().any(|s| *s != Seen::Ok) || db::any_panic_so_far() {
        println!("(nostart)");
        std::process::exit(0);
    }
    println!("(ready)");
    let mut wedged = false;
    for (ri, round) in it[3..].iter().enumerate() {
        println!("(begin {})", ri);
        let reqs: Vec<Sx> = round.items()[1..].to_vec();
        // the requests of a round run concurrently, one client thread each
        let handles: Vec<_> = reqs
            .iter()
            .map(|rq| {
                let d = dbh.clone();
                let rq = rq.clone();
                std::thread::spawn(move || {
                    let t0 = std::time::Instant::now();
                    let s = do_request(&d, &rq);
                    (s, t0.elapsed().as_millis())
                })
            })
            .collect();
        let seen_ms: Vec<(Seen, u128)> = handles.into_iter().map(|h| h.join().unwrap_or((Seen::Hang, 0))).collect();
        let seen: Vec<Seen> = seen_ms.iter().map(|x| x.0.clone()).collect();
        // give stragglers (pool threads still unwinding) a moment before reading the recorder
        std::thread::sleep(Duration::from_millis(20));
        let panics = db::take_panic_records();
        for (k, s) in seen.iter().enumerate() {
            emit("req", ri, &format!("{}", k), s, &panics, seen_ms[k].1);
        }
        // canaries
        // order: the pool-independent canaries first; table_stats is skipped after a hanging canary
        // query (both need a live worker: the second hang would only cost another deadline)
        let mut query_hung = false;
        for (what, f) in [
            ("ingest", Box::new(|d: &Arc<LocustDB>| do_ingest(d, "canary")) as Box<dyn Fn(&Arc<LocustDB>) -> Seen>),
            ("flush", Box::new(|d: &Arc<LocustDB>| do_flush(d))),
            ("query", Box::new(|d: &Arc<LocustDB>| do_query(d, "SELECT COUNT(1) FROM canary"))),
            ("stats", Box::new(|d: &Arc<LocustDB>| do_stats(d, false))),
        ] {
            if what == "stats" && query_hung {
                continue;
            }
            let t0 = std::time::Instant::now();
            let s = f(&dbh);
            let ms = t0.elapsed().as_millis();
            std::thread::sleep(Duration::from_millis(5));
            let p = db::take_panic_records();
            emit("canary", ri, what, &s, &p, ms);
            if s == Seen::Hang {
                wedged = true;
                if what == "query" {
                    query_hung = true;
                }
            }
        }
        if wedged {
            // every further call would cost a deadline: stop here, the model predicts the rest
            println!("(wedged {})", ri);
            break;
        }
    }
    println!("(done)");
    if let Some(d) = dir {
        let _ = std::fs::remove_dir_all(d);
    }
    // detached threads may be blocked forever: leave without joining anything
    std::process::exit(0);
}

// ---- the parent side: suite `c11_canary` ------------------------------------------------------------

use lvharness::rng::Rng;
use lvharness::suite::{Case, Outcome, Suite};
use std::collections::HashMap as Map;
use std::io::Read;
use std::sync::Mutex;

pub struct Canary;

fn q(text: &str) -> Sx {
    Sx::tagged("q", vec![Sx::bytes(text.as_bytes())])
}
fn ing(kind: &str) -> Sx {
    Sx::tagged("ingest", vec![Sx::a(kind)])
}

/// requests that succeed (several of them were findings before the fix commits: OFFSET beyond the
/// rows / without LIMIT, LIMIT 0 with ORDER BY, i64::MIN % -1, quote-only identifiers, empty batches,
/// short string columns, mixed-type columns with NULLs)
fn valid_pool() -> Vec<Sx> {
    vec![
        q("SELECT i FROM t LIMIT 3"),
        q("SELECT COUNT(1) FROM t"),
        q("SELECT s, i FROM t WHERE i > 3 ORDER BY i"),
        q("SELECT SUM(i), MAX(i) FROM u"),
        q("SELECT * FROM t LIMIT 2 OFFSET 1"),
        q("SELECT nosuch FROM t"),
        q("SELECT i FROM t LIMIT 0"),
        q("SELECT i FROM t LIMIT 1 OFFSET 50"),
        q("SELECT i FROM u LIMIT 5 OFFSET 4"),
        q("SELECT i FROM t OFFSET 1"),
        q("SELECT i FROM t OFFSET 18446744073709551615"),
        q("SELECT i FROM t LIMIT 18446744073709551615 OFFSET 1"),
        q("SELECT big % -1 FROM t"),
        q("SELECT i FROM t ORDER BY s LIMIT 0"),
        q("SELECT i FROM t ORDER BY i DESC LIMIT 1"),
        q("SELECT SUM(v) FROM ov WHERE v < 4611686018427387904"),
        q("SELECT MAX(v), COUNT(1) FROM ov"),
        Sx::l(vec![Sx::a("deep"), Sx::a("paren"), Sx::int(20)]),
        Sx::l(vec![Sx::a("deep"), Sx::a("minus"), Sx::int(20)]),
        q("SELECT \"\"\"\" FROM t"),
        q("SELECT \"i\" = é FROM t"),
        ing("ok"),
        ing("new_column"),
        ing("two_tables"),
        ing("type_change"),
        ing("zero_rows"),
        ing("zero_rows_new_table"),
        ing("short_string"),
        ing("mixed_all"),
        Sx::l(vec![Sx::a("flush")]),
        Sx::l(vec![Sx::a("stats")]),
        Sx::l(vec![Sx::a("memtree")]),
    ]
}

/// requests that fail with an error value: bad SQL, type errors, overflow, unsupported features
fn failing_pool() -> Vec<Sx> {
    vec![
        q("SELEC i FROM t"),
        q("SELECT FROM t"),
        q("SELECT i FROM"),
        q("SELECT 'unterminated FROM t"),
        q(""),
        q(";"),
        q("SELECT i FROM t LIMIT 1.5"),
        q("SELECT i FROM t LIMIT 99999999999999999999999"),
        q("SELECT i FROM t LIMIT 1 OFFSET 1e2"),
        q("SELECT i FROM nosuchtable"),
        q("SELECT * FROM nosuchtable"),
        q("SELECT s + 1 FROM t"),
        q("SELECT i FROM t WHERE s > 1"),
        q("SELECT LENGTH(i) FROM t"),
        q("SELECT big + big FROM t"),
        q("SELECT big * 2 FROM t"),
        q("SELECT i * 9223372036854775807 FROM t"),
        q("SELECT SUM(big) FROM t"),
        // overflows only in the final cross-partition merge (see table `ov`)
        q("SELECT SUM(v) FROM ov"),
        q("SELECT SUM(v) + 0 FROM ov"),
        q("SELECT i / 0 FROM t"),
        q("SELECT i % 0 FROM t"),
        q("SELECT DISTINCT i FROM t"),
        q("SELECT i FROM t JOIN u ON 1 = 1"),
        q("SELECT i, COUNT(1) FROM t GROUP BY i"),
        q("SELECT i FROM t UNION SELECT i FROM u"),
        q("SELECT i FROM t WHERE i IN (1, 2)"),
        q("SELECT CASE WHEN i > 1 THEN 1 ELSE 0 END FROM t"),
        q("SELECT i FROM t LIMIT -1"),
        q("SELECT SUM(SUM(i)) FROM t"),
        q("INSERT INTO t (i) VALUES (1)"),
        q("SELECT i FROM t; SELECT i FROM u"),
        q("SELECT UPPER(s) FROM t"),
        q("SELECT i FROM t WHERE s LIKE 'a!%' ESCAPE '!'"),
        // nesting beyond sqlparser's recursion limit (50): an error value, whatever the depth
        Sx::l(vec![Sx::a("deep"), Sx::a("paren"), Sx::int(60)]),
        Sx::l(vec![Sx::a("deep"), Sx::a("paren"), Sx::int(100)]),
        Sx::l(vec![Sx::a("deep"), Sx::a("paren"), Sx::int(1000)]),
        Sx::l(vec![Sx::a("deep"), Sx::a("paren"), Sx::int(30000)]),
        Sx::l(vec![Sx::a("deep"), Sx::a("minus"), Sx::int(100)]),
        Sx::l(vec![Sx::a("deep"), Sx::a("minus"), Sx::int(1000)]),
        Sx::l(vec![Sx::a("deep"), Sx::a("minus"), Sx::int(30000)]),
        Sx::l(vec![Sx::a("deep"), Sx::a("not"), Sx::int(100)]),
        Sx::l(vec![Sx::a("deep"), Sx::a("not"), Sx::int(1000)]),
        Sx::l(vec![Sx::a("deep"), Sx::a("not"), Sx::int(30000)]),
        Sx::l(vec![Sx::a("deep"), Sx::a("sub"), Sx::int(100)]),
        Sx::l(vec![Sx::a("deep"), Sx::a("mixed"), Sx::int(20)]),
    ]
}

/// requests of the findings that are still open (at most one per scenario)
fn damaging_pool() -> Vec<(&'static str, Sx)> {
    vec![
        ("F27", q("SELECT SUM(i) + 9223372036854775807 FROM t")),
        ("F32", q("SELECT 1 FROM t")),
        ("F32", q("SELECT 'a', i FROM t")),
        ("F23", q("SELECT n FROM t ORDER BY n DESC LIMIT 1")),
        ("F2", ing("hex_compact")),
    ]
}

fn gen_scenario(r: &mut Rng) -> (String, Sx) {
    let threads = 1 + r.below(3);
    let disk = r.chance(1, 2);
    let nrounds = 2 + r.below(5) as usize;
    let valid = valid_pool();
    let failing = failing_pool();
    let damaging = damaging_pool();
    let damage_at = if r.chance(1, 5) { Some(r.below(nrounds as u64) as usize) } else { None };
    let mut class = format!("k{}{}", threads, if disk { "d" } else { "m" });
    let mut rounds = vec![];
    for i in 0..nrounds {
        let mut reqs = vec![];
        if damage_at == Some(i) {
            let (id, rq) = r.pick(&damaging).clone();
            class.push_str(&format!("+{}", id));
            reqs.push(rq);
        } else {
            let n = if r.chance(1, 5) { 2 + r.below(2) } else { 1 };
            for _ in 0..n {
                reqs.push(if r.chance(3, 5) { r.pick(&failing).clone() } else { r.pick(&valid).clone() });
            }
        }
        rounds.push(Sx::tagged("round", reqs));
    }
    let mut v = vec![Sx::int(threads), Sx::boolean(disk)];
    v.extend(rounds);
    (class, Sx::tagged("scenario", v))
}

struct Line {
    tag: String,
    round: usize,
    what: String,
    seen: String,
    detail: String,
    npanics: usize,
}

fn parse_lines(out: &str) -> (Vec<Line>, bool, bool, Option<usize>) {
    let mut lines = vec![];
    let mut ready = false;
    let mut done = false;
    let mut begun = None;
    for l in out.lines() {
        let sx = match Sx::parse(l.trim()) {
            Ok(s) => s,
            Err(_) => continue,
        };
        let it = sx.items();
        match it[0].atom() {
            "ready" => ready = true,
            "begin" => begun = Some(it[1].as_usize()),
            "done" => done = true,
            "req" | "canary" => lines.push(Line {
                tag: it[0].atom().to_string(),
                round: it[1].as_usize(),
                what: it[2].atom().to_string(),
                seen: it[3].tag().to_string(),
                detail: String::from_utf8_lossy(&it[4].as_bytes()).to_string(),
                npanics: it[5].as_usize(),
            }),
            _ => {}
        }
    }
    (lines, ready, done, begun)
}

/// run the child under a total deadline; returns its stdout (None when it had to be killed)
fn run_child(spec: &str, total: Duration) -> (String, bool) {
    let exe = std::env::current_exe().unwrap();
    let mut child = std::process::Command::new(exe)
        .arg("c11-child")
        .arg(spec)
        .stdout(std::process::Stdio::piped())
        .stderr(std::process::Stdio::null())
        .env("RUST_LOG", "off")
        .spawn()
        .expect("spawn child");
    let mut stdout = child.stdout.take().unwrap();
    let reader = std::thread::spawn(move || {
        let mut s = String::new();
        let _ = stdout.read_to_string(&mut s);
        s
    });
    let t0 = std::time::Instant::now();
    let mut killed = false;
    loop {
        match child.try_wait() {
            Ok(Some(_)) => break,
            Ok(None) => {
                if t0.elapsed() > total {
                    let _ = child.kill();
                    let _ = child.wait();
                    killed = true;
                    break;
                }
                std::thread::sleep(Duration::from_millis(20));
            }
            Err(_) => break,
        }
    }
    (reader.join().unwrap_or_default(), killed)
}

static PREFETCH: Mutex<Option<Map<String, std::sync::mpsc::Receiver<(String, bool)>>>> = Mutex::new(None);

fn total_deadline(sc: &Sx) -> Duration {
    let rounds = sc.items().len().saturating_sub(3) as u64;
    Duration::from_secs(300 + 40 * rounds)
}

/// which locks a caller-side panic held, from the request kind and the panic site (trusted table)
fn held_of(kind: &str, detail: &str) -> &'static str {
    // the read-back query of an ingestion request is a query
    let (kind, detail) = match detail.strip_prefix("readback ") {
        Some(d) => ("query", d),
        None => (kind, detail),
    };
    if detail.contains("PoisonError") || detail.starts_with("src/syntax/") {
        "none"
    } else if detail.starts_with("src/ingest/input_column.rs") {
        "ingest"
    } else if detail.starts_with("src/ingest/") || detail.starts_with("src/mem_store/") {
        if kind == "ingest" {
            "ingesttable"
        } else {
            "table"
        }
    } else {
        "none"
    }
}

fn req_kind(rq: &Sx) -> &'static str {
    match rq.tag() {
        "q" | "deep" => "query",
        "ingest" => "ingest",
        "flush" => "flush",
        _ => "stats",
    }
}

impl Suite for Canary {
    fn name(&self) -> &'static str {
        "c11_canary"
    }
    fn generate(&self, seed: u64, tier: &str) -> Vec<Case> {
        let mut r = Rng::new(seed ^ 0xC11_0001);
        let n = if tier == "thorough" { 1_200 } else { 170 };
        let mut cases = vec![];
        // every known-finding request once, followed by two more rounds
        for (k, (id, rq)) in damaging_pool().into_iter().enumerate() {
            // alternate 1 worker in memory / 2 workers on disk (the random scenarios cover the other combinations)
            for threads in [1 + (k as u64 % 2)] {
                let sc = Sx::tagged(
                    "scenario",
                    vec![
                        Sx::int(threads),
                        Sx::boolean(threads == 2),
                        Sx::tagged("round", vec![q("SELECT i FROM t LIMIT 3")]),
                        Sx::tagged("round", vec![rq.clone()]),
                        Sx::tagged("round", vec![q("SELECT i FROM nosuchtable")]),
                        Sx::tagged("round", vec![ing("ok")]),
                    ],
                );
                cases.push(Case { class: format!("pinned-k{}+{}", threads, id), input: sc });
            }
        }
        let deep = |k: &str, d: usize| Sx::l(vec![Sx::a("deep"), Sx::a(k), Sx::int(d)]);
        // F36 first: it costs a full evidence-free deadline and overlaps with everything else
        cases.insert(
            0,
            Case {
                class: "pinned-k2+F36".into(),
                input: Sx::tagged(
                    "scenario",
                    vec![Sx::int(2), Sx::boolean(false), Sx::tagged("round", vec![deep("mixed", 64)]), Sx::tagged("round", vec![q("SELECT i FROM t LIMIT 3")])],
                ),
            },
        );
        // an overflow that appears only in the final cross-partition merge, with 1 and with 3 workers
        for threads in [1u64, 3] {
            cases.push(Case {
                class: format!("pinned-k{}-lastmerge", threads),
                input: Sx::tagged(
                    "scenario",
                    vec![
                        Sx::int(threads),
                        Sx::boolean(false),
                        Sx::tagged("round", vec![q("SELECT SUM(v) FROM ov")]),
                        Sx::tagged("round", vec![q("SELECT MAX(v), COUNT(1) FROM ov")]),
                        Sx::tagged("round", vec![q("SELECT SUM(v) + 0 FROM ov")]),
                        Sx::tagged("round", vec![q("SELECT i FROM t LIMIT 3")]),
                    ],
                ),
            });
        }
        // nesting far beyond the parser's recursion limit, every form, one worker
        cases.push(Case {
            class: "pinned-k1-deep".into(),
            input: Sx::tagged(
                "scenario",
                vec![
                    Sx::int(1),
                    Sx::boolean(false),
                    Sx::tagged("round", vec![deep("paren", 60)]),
                    Sx::tagged("round", vec![deep("paren", 100)]),
                    Sx::tagged("round", vec![deep("minus", 100)]),
                    Sx::tagged("round", vec![deep("not", 100)]),
                    Sx::tagged("round", vec![deep("paren", 1000)]),
                    Sx::tagged("round", vec![deep("minus", 1000)]),
                    Sx::tagged("round", vec![deep("not", 1000)]),
                    Sx::tagged("round", vec![deep("sub", 1000)]),
                    Sx::tagged("round", vec![deep("paren", 30000)]),
                    Sx::tagged("round", vec![deep("minus", 30000)]),
                    Sx::tagged("round", vec![deep("not", 30000)]),
                ],
            ),
        });
        // a dictionary column with more than 65535 distinct values, compacted by force_flush
        cases.push(Case {
            class: "pinned-k2-bigdict".into(),
            input: Sx::tagged(
                "scenario",
                vec![Sx::int(2), Sx::boolean(true), Sx::tagged("round", vec![ing("bigdict")]), Sx::tagged("round", vec![ing("ok")])],
            ),
        });
        for _ in 0..n {
            let (class, sc) = gen_scenario(&mut r);
            cases.push(Case { class, input: sc });
        }
        // run the children ahead of time, 8 at once: each database lifetime is its own process
        let mut map = Map::new();
        let (work_tx, work_rx) = std::sync::mpsc::channel::<(String, Duration, std::sync::mpsc::Sender<(String, bool)>)>();
        let work_rx = Arc::new(Mutex::new(work_rx));
        for c in &cases {
            let (tx, rx) = std::sync::mpsc::channel();
            let spec = c.input.to_string();
            map.insert(spec.clone(), rx);
            work_tx.send((spec, total_deadline(&c.input), tx)).unwrap();
        }
        drop(work_tx);
        for _ in 0..6 {
            let work_rx = work_rx.clone();
            std::thread::spawn(move || loop {
                let job = { work_rx.lock().unwrap().recv() };
                match job {
                    Ok((spec, d, tx)) => {
                        let _ = tx.send(run_child(&spec, d));
                    }
                    Err(_) => break,
                }
            });
        }
        *PREFETCH.lock().unwrap() = Some(map);
        cases
    }
    fn run(&self, input: &Sx) -> Vec<Outcome> {
        let spec = input.to_string();
        let pre = PREFETCH.lock().unwrap().as_mut().and_then(|m| m.remove(&spec));
        let (out, killed) = match pre {
            Some(rx) => rx.recv().unwrap_or((String::new(), true)),
            None => run_child(&spec, total_deadline(input)),
        };
        let (lines, ready, done, begun) = parse_lines(&out);
        let it = input.items();
        let threads = it[1].as_usize();
        let rounds: Vec<&Sx> = it[3..].iter().collect();
        if !ready {
            return vec![Outcome {
                impl_out: Some(Sx::a("no-start")),
                oracle: Some("the database did not start within the deadline".into()),
                signature: Some("c11:no-start".into()),
                nontrivial: true,
                ..Default::default()
            }];
        }
        // observed sequence -> model input, expected model output, oracle
        let mut model_rounds = vec![];
        let mut expect_rounds = vec![];
        let mut first_bad: Option<(String, String)> = None;
        let mut note_bad = |first_bad: &mut Option<(String, String)>, kind: &str, l: &Line, what: String| {
            if first_bad.is_none() {
                let site = if l.detail.is_empty() { "no-panic-recorded".to_string() } else { db::panic_signature(&l.detail) };
                *first_bad = Some((format!("c11:{}:{}", kind, site), what));
            }
        };
        let nrounds_seen = lines.iter().map(|l| l.round + 1).max().unwrap_or(0);
        for ri in 0..nrounds_seen {
            let reqs: Vec<&Sx> = rounds[ri].items()[1..].iter().collect();
            let rl: Vec<&Line> = lines.iter().filter(|l| l.round == ri && l.tag == "req").collect();
            let cl: Vec<&Line> = lines.iter().filter(|l| l.round == ri && l.tag == "canary").collect();
            if rl.len() != reqs.len() {
                break;
            }
            // the child counts pool-thread panics only (role read off the backtrace in the panic hook)
            let mut pool_panics = rl.first().map_or(0, |l| l.npanics);
            let mut mr = vec![];
            for (l, rq) in rl.iter().zip(&reqs) {
                let mut kind = req_kind(rq);
                if l.seen == "flushhang" || l.detail.starts_with("flushstep ") {
                    // the failing step of a composite request was its force_flush
                    kind = "flush";
                }
                let obs = match l.seen.as_str() {
                    "ok" => Sx::a("ok"),
                    "err" => Sx::a("err"),
                    "panic" => {
                        note_bad(&mut first_bad, "caller-panic", l, format!("request {} of round {} panicked in the caller: {}", l.what, ri, l.detail));
                        if kind == "flush" && l.detail.contains("RecvError") {
                            Sx::a("flushlost")
                        } else {
                            Sx::tagged("panic", vec![Sx::a(held_of(kind, &l.detail))])
                        }
                    }
                    "canceled" => {
                        note_bad(&mut first_bad, "lost-answer", l, format!("request {} of round {}: the answer was lost (Canceled), pool thread panicked: {}", l.what, ri, l.detail));
                        let n = pool_panics.max(1);
                        pool_panics = 0;
                        Sx::tagged("canceled", vec![Sx::int(n)])
                    }
                    _ => {
                        note_bad(&mut first_bad, "hang", l, format!("request {} of round {} did not return within the deadline: {}", l.what, ri, l.detail));
                        // a hanging force_flush: the recorded panic is the flush job's, not a pool worker's
                        let n = if kind == "flush" { 0 } else { pool_panics };
                        pool_panics = 0;
                        let h = if kind == "flush" && l.detail.starts_with("src/mem_store/partition.rs") { "table" } else { "none" };
                        Sx::tagged("hang", vec![Sx::int(n), Sx::a(h)])
                    }
                };
                mr.push(Sx::l(vec![Sx::a(kind), obs]));
            }
            if pool_panics > 0 {
                // a pool thread panicked although every request of the round was answered
                if let Some(l) = rl.first() {
                    note_bad(&mut first_bad, "worker-lost", l, format!("round {}: {} pool thread(s) panicked although every request was answered: {}", ri, pool_panics, l.detail));
                }
                mr.push(Sx::l(vec![Sx::a("stats"), Sx::tagged("canceled", vec![Sx::int(pool_panics)])]));
            }
            model_rounds.push(Sx::L(mr));
            let mut ec = vec![];
            for l in &cl {
                let o = match l.seen.as_str() {
                    "panic" if l.what == "flush" && l.detail.contains("RecvError") => "flushlost",
                    s => s,
                };
                if o != "ok" {
                    let kind = match o {
                        "hang" => "canary-hang",
                        "canceled" => "canary-canceled",
                        _ => "canary-panic",
                    };
                    note_bad(&mut first_bad, kind, l, format!("canary {} after round {} observed {}: {}", l.what, ri, o, l.detail));
                }
                ec.push(Sx::a(o));
            }
            expect_rounds.push(Sx::L(ec));
        }
        let died = !done && !killed;
        if died {
            // the child process itself went away (abort / stack overflow / SIGSEGV): every later call fails
            let r = begun.unwrap_or(0);
            let what = rounds.get(r).map(|x| x.to_string()).unwrap_or_default();
            let what: String = what.chars().take(160).collect();
            first_bad = Some((
                "c11:process-died".into(),
                format!("the database process died while round {} was in flight: {}", r, what),
            ));
        }
        let impl_out = if died {
            Sx::tagged("died", expect_rounds.clone())
        } else if killed && !done {
            Sx::tagged("killed", expect_rounds.clone())
        } else {
            Sx::L(expect_rounds)
        };
        if killed && !done && first_bad.is_none() {
            first_bad = Some(("c11:child-killed".into(), "the scenario did not finish within its total deadline".into()));
        }
        let mut mi = vec![Sx::int(threads)];
        mi.extend(model_rounds);
        vec![Outcome {
            model: Some("canary".into()),
            model_input: Some(Sx::tagged("scenario", mi)),
            impl_out: Some(impl_out),
            signature: first_bad.as_ref().map(|b| b.0.clone()),
            oracle: first_bad.map(|b| b.1),
            nontrivial: true,
        }]
    }
}
