//! lv_front: query front end (C12) and the canary differential (C11).
mod api;
mod ast;
mod canary;
mod canon;
mod db;
mod features;
mod gen;
mod parse;

fn main() {
    let args: Vec<String> = std::env::args().collect();
    if args.len() >= 3 && args[1] == "c11-child" {
        std::panic::set_hook(Box::new(|_| {}));
        canary::child_main(&args[2]);
        return;
    }
    let v: Vec<Box<dyn lvharness::suite::Suite>> = vec![Box::new(parse::Parse), Box::new(api::Api), Box::new(canary::Canary)];
    lvharness::cli_main(v);
}
