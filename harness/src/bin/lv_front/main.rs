//! lv_front: query front end (C12) and the canary differential (C11).
mod api;
mod ast;
mod canon;
mod db;
mod features;
mod gen;
mod parse;

fn main() {
    let v: Vec<Box<dyn lvharness::suite::Suite>> = vec![Box::new(parse::Parse), Box::new(api::Api)];
    lvharness::cli_main(v);
}
