//! Canonical s-expressions of what the implementation returns: the converted `Query`, the normal
//! form, error kinds and panic classes. Mirrors the printers of ocaml/front/lvmodel.ml.
use crate::ast::b;
use locustdb::verif::engine::{ColumnInfo, NormalFormQuery, Query, ResultColumn};
use locustdb::verif::syntax::expression::Expr;
use locustdb::{QueryError, Value};
use lvharness::sx::Sx;

pub fn rawval(v: &Value) -> Sx {
    match v {
        Value::Int(i) => Sx::tagged("int", vec![Sx::int(i)]),
        Value::Float(f) => Sx::tagged("float", vec![Sx::int(f.0.to_bits())]),
        Value::Str(s) => Sx::tagged("str", vec![b(s)]),
        Value::Null => Sx::a("null"),
    }
}

pub fn nexpr(e: &Expr) -> Sx {
    match e {
        Expr::ColName(n) => Sx::tagged("col", vec![b(n)]),
        Expr::Const(v) => rawval(v),
        Expr::Func1(f, x) => Sx::tagged("f1", vec![Sx::a(format!("{:?}", f)), nexpr(x)]),
        Expr::Func2(f, x, y) => Sx::tagged("f2", vec![Sx::a(format!("{:?}", f)), nexpr(x), nexpr(y)]),
        Expr::Aggregate(a, x) => Sx::tagged("agg", vec![Sx::a(format!("{:?}", a)), nexpr(x)]),
    }
}

fn column_info(c: &ColumnInfo) -> Sx {
    Sx::l(vec![nexpr(&c.expr), b(&c.name)])
}

fn order(o: &[(Expr, bool)]) -> Sx {
    Sx::list(o, |(e, desc)| Sx::l(vec![nexpr(e), Sx::boolean(*desc)]))
}

pub fn query(q: &Query) -> Sx {
    Sx::tagged(
        "val",
        vec![
            Sx::list(&q.select, column_info),
            b(&q.table),
            nexpr(&q.filter),
            order(&q.order_by),
            Sx::int(q.limit.limit),
            Sx::int(q.limit.offset),
        ],
    )
}

fn normal_form(n: &NormalFormQuery) -> Sx {
    Sx::l(vec![
        Sx::list(&n.projection, column_info),
        Sx::list(&n.aggregate, |(a, c)| Sx::l(vec![Sx::a(format!("{:?}", a)), column_info(c)])),
        nexpr(&n.filter),
        order(&n.order_by),
        Sx::int(n.limit.limit),
        Sx::int(n.limit.offset),
    ])
}

pub fn normalized(r: &(NormalFormQuery, Option<NormalFormQuery>, Vec<ResultColumn>)) -> Sx {
    Sx::tagged(
        "val",
        vec![
            normal_form(&r.0),
            Sx::opt(r.1.as_ref().map(normal_form)),
            Sx::list(&r.2, |c| match c {
                ResultColumn::Proj(i) => Sx::tagged("proj", vec![Sx::int(i)]),
                ResultColumn::Agg(i) => Sx::tagged("agg", vec![Sx::int(i)]),
            }),
        ],
    )
}

pub fn err_kind(e: &QueryError) -> &'static str {
    match e {
        QueryError::SytaxErrorCharsRemaining(_) => "SyntaxChars",
        QueryError::SyntaxErrorBytesRemaining(_) => "SyntaxBytes",
        QueryError::ParseError(_) => "ParseError",
        QueryError::FatalError(_, _) => "Fatal",
        QueryError::NotImplemented(_) => "NotImplemented",
        QueryError::TypeError(_) => "TypeError",
        QueryError::Overflow => "Overflow",
        QueryError::Canceled { .. } => "Canceled",
    }
}

pub fn err(e: &QueryError) -> Sx {
    Sx::tagged("err", vec![Sx::a(err_kind(e))])
}

/// class of a caller-side panic by its message (the model names the same classes)
pub fn panic_class(msg: &str) -> &'static str {
    if msg.contains("Option::unwrap()") {
        "unwrap_none"
    } else if msg.contains("ParseIntError") {
        "parse_int"
    } else if msg.contains("ParseFloatError") {
        "parse_float"
    } else if msg.contains("is not a char boundary") {
        "char_boundary"
    } else if msg.contains("slice index starts at") || msg.contains("begin <= end") {
        "slice_range"
    } else {
        "other"
    }
}

/// bucket signature of a message: digit runs replaced by '#', newlines by spaces, truncated
pub fn skeleton(text: &str) -> String {
    let mut out = String::new();
    let mut in_num = false;
    for c in text.chars() {
        if c.is_ascii_digit() {
            if !in_num {
                out.push('#');
                in_num = true;
            }
        } else {
            in_num = false;
            out.push(if c == '\n' { ' ' } else { c });
        }
    }
    out.chars().take(120).collect()
}
