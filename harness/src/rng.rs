//! One deterministic PRNG for every random choice (splitmix64 / xorshift), so disagreements replay.
#[derive(Clone)]
pub struct Rng(pub u64);

impl Rng {
    pub fn new(seed: u64) -> Rng {
        let mut r = Rng(seed ^ 0x9E37_79B9_7F4A_7C15);
        r.next();
        r
    }
    pub fn fork(&mut self, salt: u64) -> Rng {
        Rng::new(self.next() ^ salt.wrapping_mul(0xD6E8_FEB8_6659_FD93))
    }
    pub fn next(&mut self) -> u64 {
        self.0 = self.0.wrapping_add(0x9E37_79B9_7F4A_7C15);
        let mut z = self.0;
        z = (z ^ (z >> 30)).wrapping_mul(0xBF58_476D_1CE4_E5B9);
        z = (z ^ (z >> 27)).wrapping_mul(0x94D0_49BB_1331_11EB);
        z ^ (z >> 31)
    }
    pub fn below(&mut self, n: u64) -> u64 {
        if n == 0 {
            0
        } else {
            self.next() % n
        }
    }
    pub fn range(&mut self, lo: i64, hi: i64) -> i64 {
        // inclusive
        let span = (hi as i128 - lo as i128 + 1) as u128;
        (lo as i128 + (self.next() as u128 % span) as i128) as i64
    }
    pub fn chance(&mut self, num: u64, den: u64) -> bool {
        self.below(den) < num
    }
    pub fn pick<'a, T>(&mut self, xs: &'a [T]) -> &'a T {
        &xs[self.below(xs.len() as u64) as usize]
    }
    pub fn usize(&mut self, lo: usize, hi: usize) -> usize {
        lo + self.below((hi - lo + 1) as u64) as usize
    }
}
