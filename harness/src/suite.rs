//! Suite plumbing: a suite generates inputs (s-expressions), runs the implementation on one input
//! and reports the implementation's canonical output plus the verdict of the property oracle.
use crate::sx::Sx;
use std::io::Write;

pub struct Case {
    /// generator class (for the input distribution printed into the evidence)
    pub class: String,
    pub input: Sx,
}

#[derive(Default)]
pub struct Outcome {
    /// name of the lvmodel entry point that must reproduce `impl_out` on `input` (None: oracle only)
    pub model: Option<String>,
    /// if set, the input handed to the model instead of the case input
    pub model_input: Option<Sx>,
    pub impl_out: Option<Sx>,
    /// Some(message) when the implementation alone violates the property on this input
    pub oracle: Option<String>,
    pub signature: Option<String>,
    pub nontrivial: bool,
}

pub trait Suite: Sync {
    fn name(&self) -> &'static str;
    fn generate(&self, seed: u64, tier: &str) -> Vec<Case>;
    fn run(&self, input: &Sx) -> Vec<Outcome>;
}

pub fn panic_message(e: Box<dyn std::any::Any + Send>) -> String {
    if let Some(s) = e.downcast_ref::<&str>() {
        s.to_string()
    } else if let Some(s) = e.downcast_ref::<String>() {
        s.clone()
    } else {
        "panic with non-string payload".to_string()
    }
}

pub fn json_escape(s: &str) -> String {
    serde_json::to_string(s).unwrap()
}

pub fn emit(out: &mut dyn Write, suite: &str, class: &str, input: &Sx, o: &Outcome) {
    let mut m = serde_json::Map::new();
    m.insert("suite".into(), suite.into());
    m.insert("class".into(), class.into());
    let inp = o.model_input.as_ref().unwrap_or(input);
    m.insert("input".into(), inp.to_string().into());
    if o.model_input.is_some() {
        m.insert("case_input".into(), input.to_string().into());
    }
    m.insert(
        "model".into(),
        match &o.model {
            Some(s) => s.clone().into(),
            None => serde_json::Value::Null,
        },
    );
    m.insert(
        "impl".into(),
        match &o.impl_out {
            Some(s) => s.to_string().into(),
            None => serde_json::Value::Null,
        },
    );
    m.insert(
        "oracle".into(),
        match &o.oracle {
            Some(s) => s.clone().into(),
            None => serde_json::Value::Null,
        },
    );
    if let Some(sig) = &o.signature {
        m.insert("signature".into(), sig.clone().into());
    }
    m.insert("nontrivial".into(), o.nontrivial.into());
    writeln!(out, "{}", serde_json::Value::Object(m)).unwrap();
}
