//! lvharness library: s-expression syntax, PRNG, suite plumbing and the command-line loop shared by
//! the per-cluster harness binaries (src/bin/lv_*.rs).
pub mod rng;
pub mod suite;
pub mod sx;

use std::io::Write;
use suite::Suite;

/// lv_<cluster> run <suite> --seed N --tier quick|thorough --out file.jsonl
/// lv_<cluster> replay <suite> --input '<sexp>'
/// lv_<cluster> list
pub fn cli_main(suites: Vec<Box<dyn Suite>>) {
    let args: Vec<String> = std::env::args().collect();
    if args.len() < 2 {
        eprintln!("usage: run|replay|list ...");
        std::process::exit(2);
    }
    // silence the default panic hook: panics are caught and reported as outcomes
    if std::env::var("LV_PANIC_TRACE").is_err() {
        std::panic::set_hook(Box::new(|_| {}));
    }
    let get = |flag: &str| -> Option<String> {
        args.iter().position(|a| a == flag).and_then(|i| args.get(i + 1).cloned())
    };
    match args[1].as_str() {
        "list" => {
            for s in &suites {
                println!("{}", s.name());
            }
        }
        "run" => {
            let name = &args[2];
            let seed: u64 = get("--seed").map(|s| s.parse().unwrap()).unwrap_or(1);
            let tier = get("--tier").unwrap_or_else(|| "quick".into());
            let out_path = get("--out").expect("--out");
            let s = suites.iter().find(|s| s.name() == name).unwrap_or_else(|| {
                eprintln!("unknown suite {}", name);
                std::process::exit(2)
            });
            let cases = s.generate(seed, &tier);
            let mut out = std::io::BufWriter::new(std::fs::File::create(&out_path).unwrap());
            for c in &cases {
                for o in s.run(&c.input) {
                    suite::emit(&mut out, s.name(), &c.class, &c.input, &o);
                }
            }
            out.flush().unwrap();
            eprintln!("{}: {} cases", name, cases.len());
        }
        "replay" => {
            let name = &args[2];
            let input = get("--input").expect("--input");
            let s = suites.iter().find(|s| s.name() == name).expect("unknown suite");
            let inp = sx::Sx::parse(&input).expect("bad input sexp");
            let stdout = std::io::stdout();
            let mut out = stdout.lock();
            for o in s.run(&inp) {
                suite::emit(&mut out, s.name(), "replay", &inp, &o);
            }
        }
        _ => {
            eprintln!("unknown command");
            std::process::exit(2);
        }
    }
}
