//! Minimal s-expression syntax shared with the OCaml model runner (see ocaml/sx.ml).
use std::fmt::Write;

#[derive(Clone, Debug, PartialEq, Eq)]
pub enum Sx {
    A(String),
    L(Vec<Sx>),
}

impl Sx {
    pub fn a<S: ToString>(s: S) -> Sx {
        Sx::A(s.to_string())
    }
    pub fn l(v: Vec<Sx>) -> Sx {
        Sx::L(v)
    }
    pub fn int<T: std::fmt::Display>(v: T) -> Sx {
        Sx::A(format!("{}", v))
    }
    pub fn boolean(b: bool) -> Sx {
        Sx::A(if b { "true" } else { "false" }.to_string())
    }
    pub fn bytes(b: &[u8]) -> Sx {
        let mut s = String::with_capacity(1 + 2 * b.len());
        s.push('x');
        for x in b {
            write!(s, "{:02x}", x).unwrap();
        }
        Sx::A(s)
    }
    pub fn none() -> Sx {
        Sx::a("none")
    }
    pub fn some(x: Sx) -> Sx {
        Sx::L(vec![Sx::a("some"), x])
    }
    pub fn opt(x: Option<Sx>) -> Sx {
        match x {
            None => Sx::none(),
            Some(x) => Sx::some(x),
        }
    }
    pub fn list<T, F: Fn(&T) -> Sx>(xs: &[T], f: F) -> Sx {
        Sx::L(xs.iter().map(f).collect())
    }
    pub fn tagged(tag: &str, mut rest: Vec<Sx>) -> Sx {
        let mut v = vec![Sx::a(tag)];
        v.append(&mut rest);
        Sx::L(v)
    }

    pub fn atom(&self) -> &str {
        match self {
            Sx::A(a) => a,
            Sx::L(_) => panic!("expected atom, got {}", self),
        }
    }
    pub fn items(&self) -> &[Sx] {
        match self {
            Sx::L(l) => l,
            Sx::A(a) => panic!("expected list, got {}", a),
        }
    }
    pub fn tag(&self) -> &str {
        match self {
            Sx::A(a) => a,
            Sx::L(l) => l[0].atom(),
        }
    }
    pub fn as_i64(&self) -> i64 {
        self.atom().parse().unwrap()
    }
    pub fn as_u64(&self) -> u64 {
        self.atom().parse().unwrap()
    }
    pub fn as_i128(&self) -> i128 {
        self.atom().parse().unwrap()
    }
    pub fn as_usize(&self) -> usize {
        self.atom().parse().unwrap()
    }
    pub fn as_bool(&self) -> bool {
        self.atom() == "true"
    }
    pub fn as_bytes(&self) -> Vec<u8> {
        let a = self.atom();
        assert!(a.starts_with('x'));
        (0..(a.len() - 1) / 2)
            .map(|i| u8::from_str_radix(&a[1 + 2 * i..3 + 2 * i], 16).unwrap())
            .collect()
    }
    pub fn as_opt(&self) -> Option<&Sx> {
        match self {
            Sx::A(a) if a == "none" => None,
            Sx::L(l) if l.len() == 2 && l[0] == Sx::a("some") => Some(&l[1]),
            _ => panic!("expected option, got {}", self),
        }
    }

    pub fn parse(s: &str) -> Result<Sx, String> {
        let b = s.as_bytes();
        let mut pos = 0usize;
        let r = Self::parse_item(b, &mut pos)?;
        while pos < b.len() && b[pos] == b' ' {
            pos += 1;
        }
        if pos != b.len() {
            return Err("trailing input".into());
        }
        Ok(r)
    }

    fn parse_item(b: &[u8], pos: &mut usize) -> Result<Sx, String> {
        while *pos < b.len() && b[*pos] == b' ' {
            *pos += 1;
        }
        if *pos >= b.len() {
            return Err("eof".into());
        }
        if b[*pos] == b'(' {
            *pos += 1;
            let mut v = vec![];
            loop {
                while *pos < b.len() && b[*pos] == b' ' {
                    *pos += 1;
                }
                if *pos >= b.len() {
                    return Err("unclosed".into());
                }
                if b[*pos] == b')' {
                    *pos += 1;
                    return Ok(Sx::L(v));
                }
                v.push(Self::parse_item(b, pos)?);
            }
        }
        let st = *pos;
        while *pos < b.len() && b[*pos] != b' ' && b[*pos] != b'(' && b[*pos] != b')' {
            *pos += 1;
        }
        if st == *pos {
            return Err("empty atom".into());
        }
        Ok(Sx::A(String::from_utf8_lossy(&b[st..*pos]).to_string()))
    }
}

impl std::fmt::Display for Sx {
    fn fmt(&self, f: &mut std::fmt::Formatter<'_>) -> std::fmt::Result {
        match self {
            Sx::A(a) => f.write_str(a),
            Sx::L(l) => {
                f.write_str("(")?;
                for (i, x) in l.iter().enumerate() {
                    if i > 0 {
                        f.write_str(" ")?;
                    }
                    write!(f, "{}", x)?;
                }
                f.write_str(")")
            }
        }
    }
}
