(* Proofs about Model/SortKernels.v (properties C05 and C02). *)
From Coq Require Import NArith Arith List Bool Lia Permutation Sorting.Sorted.
From LV Require Import Model.QuerySpecList Proofs.QuerySpecList Model.SortKernels.
Import ListNotations.

Section MergeProofs.
  Context {A : Type}.
  Variable le : A -> A -> bool.                       (* Comparator::cmp_eq *)
  Hypothesis le_total : forall x y, le x y = true \/ le y x = true.
  Hypothesis le_trans : forall x y z, le x y = true -> le y z = true -> le x z = true.

  Lemma le_refl x : le x x = true.
  Proof. destruct (le_total x x); assumption. Qed.

  Definition leP (x y : A) : Prop := le x y = true.
  Definition sorted (l : list A) : Prop := StronglySorted leP l.

  (* the textbook stable merge (left wins ties) *)
  Fixpoint mspec (l : list A) : list A -> list A :=
    fix aux (r : list A) : list A :=
      match l, r with
      | [], _ => r
      | _, [] => l
      | x :: l', y :: r' => if le x y then x :: mspec l' r else y :: aux r'
      end.

  Lemma mspec_nil_r l : mspec l [] = l.
  Proof. destruct l; reflexivity. Qed.

  Lemma mspec_nil_l r : mspec [] r = r.
  Proof. destruct r; reflexivity. Qed.

  (* merge.rs with a limit = the first [limit] elements of the stable merge *)
  Lemma merge_n_firstn n : forall l r, fst (merge_n le n l r) = firstn n (mspec l r).
  Proof.
    induction n as [|n IH]; intros l r; [reflexivity|].
    destruct l as [|x l'], r as [|y r']; cbn [merge_n].
    - reflexivity.
    - specialize (IH [] r'). destruct (merge_n le n [] r') as [m o]. cbn [fst] in *.
      rewrite mspec_nil_l in *. cbn [firstn]. rewrite IH. reflexivity.
    - specialize (IH l' []). destruct (merge_n le n l' []) as [m o]. cbn [fst] in *.
      rewrite mspec_nil_r in *. cbn [firstn]. rewrite IH. reflexivity.
    - cbn [mspec]. destruct (le x y).
      + specialize (IH l' (y :: r')). destruct (merge_n le n l' (y :: r')) as [m o].
        cbn [fst firstn] in *. rewrite IH. reflexivity.
      + specialize (IH (x :: l') r'). destruct (merge_n le n (x :: l') r') as [m o].
        cbn [fst firstn] in *. rewrite IH. reflexivity.
  Qed.

  Lemma mspec_length l : forall r, length (mspec l r) = (length l + length r)%nat.
  Proof.
    induction l as [|x l' IHl]; intros r; [rewrite mspec_nil_l; reflexivity|].
    induction r as [|y r' IHr]; [cbn; lia|].
    cbn [mspec]. destruct (le x y); cbn [length].
    - rewrite IHl. cbn [length]. lia.
    - change ((fix aux (r : list A) : list A :=
                 match r with [] => x :: l' | y :: r' => if le x y then x :: mspec l' r else y :: aux r' end) r')
        with (mspec (x :: l') r'). rewrite IHr. cbn [length]. lia.
  Qed.

  Lemma mspec_unfold x l' y r' :
    mspec (x :: l') (y :: r') = if le x y then x :: mspec l' (y :: r') else y :: mspec (x :: l') r'.
  Proof. reflexivity. Qed.

  Lemma mspec_perm l : forall r, Permutation (mspec l r) (l ++ r).
  Proof.
    induction l as [|x l' IHl]; intros r; [rewrite mspec_nil_l; reflexivity|].
    induction r as [|y r' IHr]; [rewrite mspec_nil_r, app_nil_r; reflexivity|].
    rewrite mspec_unfold. destruct (le x y).
    - cbn [app]. constructor. apply IHl.
    - rewrite IHr. apply Permutation_middle.
  Qed.

  Lemma mspec_sorted l : forall r, sorted l -> sorted r -> sorted (mspec l r).
  Proof.
    unfold sorted. induction l as [|x l' IHl]; intros r Hl Hr; [rewrite mspec_nil_l; exact Hr|].
    induction r as [|y r' IHr]; [rewrite mspec_nil_r; exact Hl|].
    rewrite mspec_unfold. inversion Hl as [|? ? Hl' Hx]; subst. inversion Hr as [|? ? Hr' Hy]; subst.
    destruct (le x y) eqn:E.
    - constructor; [apply IHl; assumption|].
      apply Forall_forall. intros z Hz.
      apply (Permutation_in _ (mspec_perm l' (y :: r'))) in Hz. apply in_app_or in Hz as [Hz|Hz].
      + rewrite Forall_forall in Hx. apply Hx. exact Hz.
      + destruct Hz as [<-|Hz]; [exact E|]. rewrite Forall_forall in Hy.
        apply (le_trans x y z E). apply Hy. exact Hz.
    - assert (Eyx : le y x = true) by (destruct (le_total x y); congruence).
      constructor; [apply IHr; assumption|].
      apply Forall_forall. intros z Hz.
      apply (Permutation_in _ (mspec_perm (x :: l') r')) in Hz. apply in_app_or in Hz as [Hz|Hz].
      + destruct Hz as [<-|Hz]; [exact Eyx|]. rewrite Forall_forall in Hx.
        apply (le_trans y x z Eyx). apply Hx. exact Hz.
      + rewrite Forall_forall in Hy. apply Hy. exact Hz.
  Qed.

  Lemma clip_spec limit len : clip limit len = Nat.min len (N.to_nat limit) \/ clip limit len = len /\ (len <= N.to_nat limit)%nat.
  Proof. unfold clip. left. lia. Qed.

  Lemma clip_min limit len : clip limit len = Nat.min (N.to_nat limit) len.
  Proof. unfold clip. lia. Qed.

  (* C05_merge_limit, part 1: merge = first [limit] elements of the stable merge *)
  Theorem merge_is_prefix_of_stable_merge l r limit :
    fst (merge le l r limit) = firstn (N.to_nat limit) (mspec l r).
  Proof.
    unfold merge. rewrite merge_n_firstn, clip_min.
    rewrite <- (mspec_length l r). rewrite Nat.min_comm.
    destruct (Nat.le_ge_cases (length (mspec l r)) (N.to_nat limit)) as [H|H].
    - rewrite Nat.min_l by exact H. rewrite !firstn_all2 by lia. reflexivity.
    - rewrite Nat.min_r by exact H. reflexivity.
  Qed.

  Lemma firstn_sorted n l : sorted l -> sorted (firstn n l).
  Proof.
    unfold sorted. revert n. induction l as [|x l IH]; intros n H; [rewrite firstn_nil; constructor|].
    destruct n; [constructor|]. cbn [firstn]. inversion H as [|? ? Hl Hx]; subst.
    constructor; [apply IH; exact Hl|].
    apply Forall_forall. intros z Hz. rewrite Forall_forall in Hx. apply Hx.
    rewrite <- (firstn_skipn n l). apply in_or_app. left. exact Hz.
  Qed.

  Lemma sorted_firstn_le_skipn n l :
    sorted l -> forall o z, In o (firstn n l) -> In z (skipn n l) -> leP o z.
  Proof.
    unfold sorted. revert n. induction l as [|x l IH]; intros n H o z Ho Hz.
    - rewrite firstn_nil in Ho. destruct Ho.
    - destruct n; [destruct Ho|]. cbn [firstn skipn] in *. inversion H as [|? ? Hl Hx]; subst.
      destruct Ho as [<-|Ho].
      + rewrite Forall_forall in Hx. apply Hx. rewrite <- (firstn_skipn n l). apply in_or_app. right. exact Hz.
      + eapply IH; eassumption.
  Qed.

  (* ---- the ORDER BY / LIMIT relation on keys ---------------------------------------------------- *)

  (* [out] is a correct answer for "the first k rows of [rows] in key order, ties in any order":
     sorted, of the right length, and every row left out is not smaller than any row kept *)
  Definition topk (k : nat) (rows out : list A) : Prop :=
    sorted out /\ length out = Nat.min k (length rows) /\
    exists rest, Permutation (out ++ rest) rows /\
                 forall o z, In o out -> In z rest -> leP o z.

  Lemma sorted_head_le x l z : sorted (x :: l) -> In z (x :: l) -> leP x z.
  Proof.
    intros H [<-|Hz]; [apply le_refl|]. inversion H as [|? ? _ Hx]; subst.
    rewrite Forall_forall in Hx. apply Hx. exact Hz.
  Qed.

  (* if [x] (at least k elements, all <= z) is contained in a sorted list s, the first k elements of s
     are <= z *)
  Lemma prefix_bounded_by_contained k :
    forall s x y z,
      sorted s -> Permutation s (x ++ y) -> (k <= length x)%nat ->
      (forall e, In e x -> leP e z) ->
      forall o, In o (firstn k s) -> leP o z.
  Proof.
    induction k as [|k IH]; intros s x y z Hs Hp Hk Hx o Ho; [destruct Ho|].
    destruct s as [|h t].
    - apply Permutation_nil in Hp. apply app_eq_nil in Hp as [-> _]. cbn in Hk. lia.
    - cbn [firstn] in Ho. destruct Ho as [<-|Ho].
      + destruct x as [|e x']; [cbn in Hk; lia|].
        apply (le_trans h e z); [|apply Hx; left; reflexivity].
        apply (sorted_head_le h t e Hs). apply (Permutation_in _ (Permutation_sym Hp)). left. reflexivity.
      + assert (Hin : In h (x ++ y)) by (apply (Permutation_in _ Hp); left; reflexivity).
        inversion Hs as [|? ? Ht _]; subst.
        apply in_app_or in Hin as [Hin|Hin].
        * apply in_split in Hin as (x1 & x2 & ->).
          assert (Hp' : Permutation t ((x1 ++ x2) ++ y)).
          { apply Permutation_cons_inv with (a := h). rewrite Hp. rewrite <- !app_assoc. cbn [app].
            symmetry. apply Permutation_middle. }
          apply (IH t (x1 ++ x2) y z Ht Hp'); [rewrite app_length in *; cbn [length] in *; lia| |exact Ho].
          intros e He. apply Hx. apply in_app_or in He as [He|He]; apply in_or_app; [left|right; right]; exact He.
        * apply in_split in Hin as (y1 & y2 & ->).
          assert (Hp' : Permutation t (x ++ (y1 ++ y2))).
          { apply Permutation_cons_inv with (a := h). rewrite Hp. rewrite !app_assoc.
            symmetry. apply Permutation_middle. }
          apply (IH t x (y1 ++ y2) z Ht Hp'); [lia|exact Hx|exact Ho].
  Qed.

  (* C05: merging two correct partial answers with `merge` and the same limit gives a correct answer
     for the concatenated rows *)
  Theorem topk_merge k a b x y :
    topk k a x -> topk k b y -> topk k (a ++ b) (firstn k (mspec x y)).
  Proof.
    intros (Sx & Lx & rx & Px & Bx) (Sy & Ly & ry & Py & By_).
    pose proof (mspec_sorted x y Sx Sy) as Ss.
    pose proof (mspec_perm x y) as Ps.
    split; [apply firstn_sorted; exact Ss|]. split.
    - rewrite firstn_length, mspec_length, app_length. lia.
    - exists (skipn k (mspec x y) ++ rx ++ ry). split.
      + rewrite app_assoc, firstn_skipn, Ps.
        rewrite <- Px, <- Py. rewrite <- !app_assoc. apply Permutation_app_head.
        rewrite !app_assoc. apply Permutation_app_tail. apply Permutation_app_comm.
      + intros o z Ho Hz. apply in_app_or in Hz as [Hz|Hz];
          [eapply sorted_firstn_le_skipn; eassumption|].
        apply in_app_or in Hz as [Hz|Hz].
        * (* z was dropped from a: then x holds k rows, all <= z *)
          assert (Hk : (k <= length x)%nat).
          { destruct rx as [|z0 rx']; [destruct Hz|].
            apply Permutation_length in Px. rewrite app_length in Px. cbn [length] in Px. lia. }
          apply (prefix_bounded_by_contained k (mspec x y) x y z Ss Ps Hk); [|exact Ho].
          intros e He. apply Bx; assumption.
        * assert (Hk : (k <= length y)%nat).
          { destruct ry as [|z0 ry']; [destruct Hz|].
            apply Permutation_length in Py. rewrite app_length in Py. cbn [length] in Py. lia. }
          assert (Ps' : Permutation (mspec x y) (y ++ x)) by (rewrite Ps; apply Permutation_app_comm).
          apply (prefix_bounded_by_contained k (mspec x y) y x z Ss Ps' Hk); [|exact Ho].
          intros e He. apply By_; assumption.
  Qed.

  (* a full sort cut at k is a correct partial answer (what a partition does when it does not use
     top-n); stated for any sorted permutation *)
  Lemma topk_of_sorted k rows s :
    sorted s -> Permutation s rows -> topk k rows (firstn k s).
  Proof.
    intros Ss Ps. split; [apply firstn_sorted; exact Ss|]. split.
    - rewrite firstn_length. rewrite (Permutation_length Ps). reflexivity.
    - exists (skipn k s). split; [rewrite firstn_skipn; exact Ps|].
      intros o z. apply sorted_firstn_le_skipn. exact Ss.
  Qed.

  (* binary merge trees over per-partition answers *)
  Inductive rtree := RLeaf (rows out : list A) | RNode (l r : rtree).

  Fixpoint rtree_rows (t : rtree) : list A :=
    match t with RLeaf rows _ => rows | RNode l r => rtree_rows l ++ rtree_rows r end.

  Fixpoint rtree_out (limit : N) (t : rtree) : list A :=
    match t with
    | RLeaf _ out => out
    | RNode l r => fst (merge le (rtree_out limit l) (rtree_out limit r) limit)
    end.

  Fixpoint leaves_ok (k : nat) (t : rtree) : Prop :=
    match t with
    | RLeaf rows out => topk k rows out
    | RNode l r => leaves_ok k l /\ leaves_ok k r
    end.

  (* C05_spec / C02_any_tree (order-by kind): whatever the merge tree, the result is a correct
     answer for the concatenation of all partitions *)
  Theorem topk_any_tree limit t :
    leaves_ok (N.to_nat limit) t -> topk (N.to_nat limit) (rtree_rows t) (rtree_out limit t).
  Proof.
    induction t as [rows out|l IHl r IHr]; intros H; cbn [rtree_rows rtree_out leaves_ok] in *.
    - exact H.
    - destruct H as [Hl Hr]. rewrite merge_is_prefix_of_stable_merge.
      apply topk_merge; [apply IHl; exact Hl|apply IHr; exact Hr].
  Qed.
End MergeProofs.

(* ---- merge_keep: the ops replay the merge on the other columns --------------------------------- *)

Section KeepProofs.
  Context {A B : Type}.
  Variable le : A -> A -> bool.

  Definition le_row (p q : A * B) : bool := le (fst p) (fst q).

  (* merging the key column and replaying the ops on a payload column = merging whole rows by key *)
  Lemma merge_keep_rows n :
    forall (l r : list A) (pl pr : list B),
      length pl = length l -> length pr = length r ->
      let '(m, ops) := merge_n le n l r in
      let '(mrows, ops') := merge_n le_row n (combine l pl) (combine r pr) in
      ops' = ops /\ map fst mrows = m /\ merge_keep ops pl pr = Some (map snd mrows).
  Proof.
    induction n as [|n IH]; intros l r pl pr Hl Hr; [cbn; auto|].
    destruct l as [|x l'], r as [|y r']; destruct pl as [|px pl'], pr as [|py pr']; try discriminate;
      cbn [merge_n combine].
    - cbn. auto.
    - injection Hr as Hr. specialize (IH [] r' [] pr' eq_refl Hr). cbn [combine] in IH.
      destruct (merge_n le n [] r') as [m o]. destruct (merge_n le_row n [] (combine r' pr')) as [mr o'].
      destruct IH as (-> & <- & K). cbn [map fst snd merge_keep]. rewrite K. auto.
    - injection Hl as Hl. specialize (IH l' [] pl' [] Hl eq_refl).
      assert (E : combine l' pl' = combine l' pl') by reflexivity.
      destruct (merge_n le n l' []) as [m o].
      replace (@combine A B [] []) with (@nil (A * B)) in IH by reflexivity.
      destruct (merge_n le_row n (combine l' pl') []) as [mr o'].
      destruct IH as (-> & <- & K). cbn [map fst snd merge_keep]. rewrite K. auto.
    - injection Hl as Hl. injection Hr as Hr. unfold le_row at 1. cbn [fst].
      destruct (le x y).
      + specialize (IH l' (y :: r') pl' (py :: pr') Hl ltac:(cbn; congruence)). cbn [combine] in IH.
        destruct (merge_n le n l' (y :: r')) as [m o].
        destruct (merge_n le_row n (combine l' pl') ((y, py) :: combine r' pr')) as [mr o'].
        destruct IH as (-> & <- & K). cbn [map fst snd merge_keep]. rewrite K. auto.
      + specialize (IH (x :: l') r' (px :: pl') pr' ltac:(cbn; congruence) Hr). cbn [combine] in IH.
        destruct (merge_n le n (x :: l') r') as [m o].
        destruct (merge_n le_row n ((x, px) :: combine l' pl') (combine r' pr')) as [mr o'].
        destruct IH as (-> & <- & K). cbn [map fst snd merge_keep]. rewrite K. auto.
  Qed.
End KeepProofs.

(* ---- select without ORDER BY: append with limit -------------------------------------------------- *)

Section AppendProofs.
  Context {B : Type}.

  Lemma append_limit_spec (limit : N) (l r : list B) :
    (N.of_nat (length l) <= limit)%N ->
    append_limit limit l r = firstn (N.to_nat limit) (l ++ r).
  Proof.
    intros Hl. unfold append_limit. rewrite qfirstn_eq.
    destruct (limit <=? N.of_nat (length l))%N eqn:E.
    - apply N.leb_le in E. assert (N.to_nat limit = length l) by lia.
      rewrite firstn_app. replace (N.to_nat limit - length l)%nat with O by lia.
      rewrite firstn_all2 by lia. cbn [firstn]. rewrite app_nil_r. reflexivity.
    - apply N.leb_gt in E. rewrite firstn_app. rewrite (firstn_all2 l) by lia. f_equal.
      destruct (N.min_spec (N.of_nat (length r)) (limit - N.of_nat (length l))) as [[H ->]|[H ->]].
      + rewrite Nnat.Nat2N.id. rewrite !firstn_all2 by lia. reflexivity.
      + f_equal. lia.
  Qed.

  (* C05_no_order / C02 (select kind): per-partition prefixes appended with the limit are the prefix
     of the concatenation, i.e. the ingestion-order prefix *)
  Theorem append_limit_prefix (limit : N) (a b : list B) :
    append_limit limit (firstn (N.to_nat limit) a) (firstn (N.to_nat limit) b)
    = firstn (N.to_nat limit) (a ++ b).
  Proof.
    rewrite append_limit_spec by (rewrite firstn_length; lia).
    rewrite !firstn_app, !firstn_firstn, !firstn_length.
    rewrite Nat.min_id.
    destruct (Nat.le_ge_cases (N.to_nat limit) (length a)) as [H|H].
    - rewrite (Nat.min_l _ _ H). replace (N.to_nat limit - N.to_nat limit)%nat with O by lia.
      replace (N.to_nat limit - length a)%nat with O by lia. reflexivity.
    - rewrite (Nat.min_r _ _ H). f_equal. rewrite Nat.min_l by lia. reflexivity.
  Qed.

  Inductive stree := SLeaf (rows : list B) | SNode (l r : stree).

  Fixpoint stree_rows (t : stree) : list B :=
    match t with SLeaf rows => rows | SNode l r => stree_rows l ++ stree_rows r end.

  (* each partition returns its own rows cut at limit; nodes append with limit *)
  Fixpoint stree_out (limit : N) (t : stree) : list B :=
    match t with
    | SLeaf rows => firstn (N.to_nat limit) rows
    | SNode l r => append_limit limit (stree_out limit l) (stree_out limit r)
    end.

  Theorem select_any_tree limit t :
    stree_out limit t = firstn (N.to_nat limit) (stree_rows t).
  Proof.
    induction t as [rows|l IHl r IHr]; cbn [stree_out stree_rows]; [reflexivity|].
    rewrite IHl, IHr. apply append_limit_prefix.
  Qed.

  (* the final slice is total and returns rows offset+1 .. offset+limit, fewer or none when short *)
  Theorem final_slice_spec (limit offset : N) (rows : list B) :
    final_slice limit offset rows =
      firstn (N.to_nat limit) (skipn (N.to_nat offset) rows).
  Proof.
    unfold final_slice. rewrite qfirstn_eq, qskipn_eq.
    set (len := length rows).
    destruct (N.le_gt_cases offset (N.of_nat len)) as [Ho|Ho].
    - rewrite (N.min_l _ _ Ho).
      destruct (N.le_gt_cases limit (N.of_nat len - offset)) as [Hl|Hl].
      + rewrite (N.min_l _ _ Hl). reflexivity.
      + rewrite N.min_r by lia.
        rewrite !firstn_all2; [reflexivity| |]; rewrite skipn_length; fold len; lia.
    - rewrite (N.min_r offset) by lia.
      replace (N.of_nat len - N.of_nat len)%N with 0%N by lia. rewrite N.min_0_r. cbn [N.to_nat firstn].
      replace (skipn (N.to_nat offset) rows) with (@nil B) by (symmetry; apply skipn_all2; fold len; lia).
      rewrite firstn_nil. reflexivity.
  Qed.

  Lemma final_slice_length (limit offset : N) (rows : list B) :
    N.of_nat (length (final_slice limit offset rows)) = N.min limit (N.of_nat (length rows) - N.min offset (N.of_nat (length rows))).
  Proof.
    rewrite final_slice_spec, firstn_length, skipn_length. lia.
  Qed.

  (* limit + offset never overflows u64 any more *)
  Lemma combined_limit_bounded limit offset : (combined_limit limit offset <= u64_max)%N.
  Proof. unfold combined_limit. lia. Qed.

  Lemma combined_limit_exact limit offset :
    (limit + offset <= u64_max)%N -> combined_limit limit offset = (limit + offset)%N.
  Proof. unfold combined_limit. lia. Qed.
End AppendProofs.
