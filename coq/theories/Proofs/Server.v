From Coq Require Import ZArith NArith List Bool Lia.
From LV Require Import Model.XorFloat Proofs.XorFloat Model.Server.
Import ListNotations.

(* ---------- type signatures ---------- *)
Lemma sig_fold_mono : forall xs acc b, N.testbit acc b = true ->
  N.testbit (fold_left (fun a v => N.lor a (sig_bit v)) xs acc) b = true.
Proof.
  induction xs as [|v xs IH]; intros acc b H; cbn [fold_left]; [exact H|].
  apply IH. rewrite N.lor_spec, H. reflexivity.
Qed.

(* every element's bit is set in the signature *)
Lemma signature_covers : forall xs acc v, In v xs ->
  N.testbit (fold_left (fun a v => N.lor a (sig_bit v)) xs acc) (N.log2 (sig_bit v)) = true.
Proof.
  induction xs as [|x xs IH]; intros acc v Hin; [destruct Hin|].
  cbn [fold_left]. destruct Hin as [->|Hin]; [|apply IH; exact Hin].
  apply sig_fold_mono. rewrite N.lor_spec.
  destruct v; cbn; rewrite orb_true_r; reflexivity.
Qed.

Lemma sig_cases xs : forall v, In v xs ->
  match v with
  | RInt _ => N.testbit (type_signature xs) 0 = true
  | RStr _ => N.testbit (type_signature xs) 1 = true
  | RNull => N.testbit (type_signature xs) 2 = true
  | RFloat _ => N.testbit (type_signature xs) 3 = true
  end.
Proof.
  intros v Hin. pose proof (signature_covers xs 0%N v Hin) as H. unfold type_signature.
  destruct v; exact H.
Qed.

(* C17_binary_equiv, uncompressed: the client reads exactly the embedded result's cells, for every
   column kind and every mix of value types in a Mixed column *)
Theorem encode_column_cells (o : encoding_opts) (c : basic_column) :
  xor_float_compression o = false ->
  client_cells (encode_column o c) = Some (basic_cells c).
Proof.
  intros Hx. destruct c as [xs|xs|xs|n|xs]; cbn [encode_column basic_cells]; try reflexivity.
  - unfold encode_floats. rewrite Hx. reflexivity.
  - set (s := type_signature xs).
    assert (Hc := sig_cases xs). fold s in Hc.
    destruct (N.eqb_spec s 2) as [E2|N2].
    { cbn [client_cells]. f_equal.
      assert (HF : Forall (fun v => exists x, v = RStr x) xs).
      { apply Forall_forall. intros v Hin. specialize (Hc v Hin). rewrite E2 in Hc.
        destruct v; cbn in Hc; try discriminate. eexists; reflexivity. }
      clear - HF. induction xs as [|v xs IH]; [reflexivity|].
      inversion HF as [|? ? [x ->] Hr]; subst. cbn. f_equal. apply IH. exact Hr. }
    destruct (N.eqb_spec s 1) as [E1|N1].
    { cbn [client_cells]. f_equal.
      assert (HF : Forall (fun v => exists x, v = RInt x) xs).
      { apply Forall_forall. intros v Hin. specialize (Hc v Hin). rewrite E1 in Hc.
        destruct v; cbn in Hc; try discriminate. eexists; reflexivity. }
      clear - HF. induction xs as [|v xs IH]; [reflexivity|].
      inversion HF as [|? ? [x ->] Hr]; subst. cbn. f_equal. apply IH. exact Hr. }
    destruct (N.eqb_spec s 4) as [E4|N4].
    { cbn [client_cells]. f_equal. rewrite Nat2N.id.
      assert (HF : Forall (fun v => v = RNull) xs).
      { apply Forall_forall. intros v Hin. specialize (Hc v Hin). rewrite E4 in Hc.
        destruct v; cbn in Hc; try discriminate. reflexivity. }
      clear - HF. induction xs as [|v xs IH]; [reflexivity|].
      inversion HF as [|? ? -> Hr]; subst. cbn. f_equal. apply IH. exact Hr. }
    destruct (N.eqb s 8 || N.eqb s 12) eqn:E8.
    { unfold encode_floats. rewrite Hx. cbn [client_cells]. f_equal.
      assert (HF : Forall (fun v => (exists f, v = RFloat f) \/ v = RNull) xs).
      { apply Forall_forall. intros v Hin. specialize (Hc v Hin).
        apply orb_prop in E8. destruct E8 as [E|E]; apply N.eqb_eq in E; rewrite E in Hc;
          destruct v; cbn in Hc; try discriminate; eauto. }
      clear - HF. induction xs as [|v xs IH]; [reflexivity|].
      inversion HF as [|? ? [[f ->]| ->] Hr]; subst; cbn; f_equal; try (apply IH; exact Hr). }
    reflexivity.
Qed.

(* C17_binary_equiv, XOR-compressed float columns: what the client decodes agrees with the embedded
   floats on every bit the mantissa mask keeps (all bits when no mantissa is requested) *)
Theorem encode_floats_xor (o : encoding_opts) (fs : list N) mask :
  xor_float_compression o = true -> mask_of (mantissa o) = Some mask ->
  Forall (fun f => (f < 2 ^ 64)%N) fs -> (N.of_nat (length fs) < 2 ^ 64)%N ->
  exists bytes ds,
    encode_floats o fs = AXor (Some bytes) /\ decode_bytes bytes = Some ds /\
    Forall2 (fun f x => N.land x mask = N.land f mask) fs ds.
Proof.
  intros Hx Hm HF Hl. unfold encode_floats. rewrite Hx. unfold encode_bytes. rewrite Hm. cbn [obind].
  destruct (encode_total mask 100 fs HF ltac:(vm_compute; discriminate)) as (bits & Eb).
  rewrite Eb. cbn [obind].
  eexists _, (expected mask fs). split; [reflexivity|]. split; [|apply expected_masked].
  unfold decode_bytes.
  destruct (bits_of_bytes_of_bits bits) as (pad & Ep). rewrite Ep.
  apply (decode_encode_suffix mask 100 fs bits pad HF Hl Eb).
Qed.
