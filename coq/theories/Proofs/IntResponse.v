From Coq Require Import ZArith List Bool Lia.
From LV Require Import Model.IntResponse.
Import ListNotations.
Open Scope Z_scope.

(* ---------- wrap64 ---------- *)
Lemma wrap64_spec z : exists k, wrap64 z = z + k * two64 /\ in_i64 (wrap64 z).
Proof.
  unfold wrap64, in_i64.
  pose proof (Z.div_mod (z + two63) two64 ltac:(unfold two64; lia)) as E.
  pose proof (Z.mod_pos_bound (z + two63) two64 ltac:(unfold two64; lia)) as B.
  exists (- ((z + two63) / two64)). unfold two63, two64 in *. lia.
Qed.

Lemma in_i64_unique x y k : in_i64 x -> in_i64 y -> x = y + k * two64 -> x = y.
Proof. unfold in_i64, two63, two64. intros Hx Hy E. assert (k = 0) by lia. subst. lia. Qed.

Lemma wrap64_id z : in_i64 z -> wrap64 z = z.
Proof.
  intros Hz. destruct (wrap64_spec z) as (k & E & Hw).
  apply (in_i64_unique _ _ k Hw Hz E).
Qed.

Lemma wrap64_in z : in_i64 (wrap64 z).
Proof. destruct (wrap64_spec z) as (k & _ & H). exact H. Qed.

(* congruence: wrap64 only depends on the residue *)
Lemma wrap64_congr a b k : a = b + k * two64 -> wrap64 a = wrap64 b.
Proof.
  intros E. destruct (wrap64_spec a) as (ka & Ea & Ha). destruct (wrap64_spec b) as (kb & Eb & Hb).
  apply (in_i64_unique _ _ (ka + k - kb) Ha Hb). lia.
Qed.

Lemma wadd_wrap_r a b : wadd a (wrap64 b) = wrap64 (a + b).
Proof.
  unfold wadd. destruct (wrap64_spec b) as (k & E & _). rewrite E.
  apply (wrap64_congr _ _ k). lia.
Qed.

Lemma wadd_wrap_l a b : wadd (wrap64 a) b = wrap64 (a + b).
Proof.
  unfold wadd. destruct (wrap64_spec a) as (k & E & _). rewrite E.
  apply (wrap64_congr _ _ k). lia.
Qed.

(* re-applying a wrapped difference recovers the value *)
Lemma wadd_wsub a b : in_i64 b -> wadd a (wsub b a) = b.
Proof.
  intros Hb. unfold wsub. rewrite wadd_wrap_r. replace (a + (b - a)) with b by lia.
  apply wrap64_id. exact Hb.
Qed.

(* ---------- min / max folds ---------- *)
Lemma min_of_le : forall l init, min_of init l <= init /\ Forall (fun x => min_of init l <= x) l.
Proof.
  induction l as [|x l IH]; intros init; cbn; [split; [lia|constructor]|].
  destruct (IH (Z.min init x)) as [H1 H2]. fold (min_of (Z.min init x) l) in *.
  split; [lia|]. constructor; [lia|exact H2].
Qed.

Lemma max_of_ge : forall l init, init <= max_of init l /\ Forall (fun x => x <= max_of init l) l.
Proof.
  induction l as [|x l IH]; intros init; cbn; [split; [lia|constructor]|].
  destruct (IH (Z.max init x)) as [H1 H2]. fold (max_of (Z.max init x) l) in *.
  split; [lia|]. constructor; [lia|exact H2].
Qed.

Lemma all_fit_bounds w l lo hi :
  wlo w <= lo -> hi <= whi w -> Forall (fun x => lo <= x <= hi) l -> all_fit w l = true.
Proof.
  intros Hlo Hhi HF. unfold all_fit. apply forallb_forall. intros x Hx.
  rewrite Forall_forall in HF. specialize (HF x Hx). unfold fits.
  apply andb_true_iff. split; apply Z.leb_le; lia.
Qed.

(* ---------- decoders undo the difference lists ---------- *)
Lemma undelta_wdeltas : forall xs prev, Forall in_i64 xs -> undelta prev (wdeltas prev xs) = xs.
Proof.
  induction xs as [|x r IH]; intros prev HF; [reflexivity|].
  inversion HF as [|? ? Hx Hr]; subst. cbn [wdeltas undelta].
  rewrite wadd_wsub by exact Hx. f_equal. apply IH. exact Hr.
Qed.

Lemma wdeltas_in : forall xs prev, Forall in_i64 (wdeltas prev xs).
Proof.
  induction xs as [|x r IH]; intros prev; cbn [wdeltas]; constructor; [apply wrap64_in|apply IH].
Qed.

(* double delta: the decoder state (last, last_delta) tracks (x_k, d_k) *)
Lemma undd_ok : forall xs x d,
  Forall in_i64 xs -> in_i64 d ->
  undd x d (xdeltas d (wdeltas x xs)) = xs.
Proof.
  induction xs as [|y r IH]; intros x d HF Hd; [reflexivity|].
  inversion HF as [|? ? Hy Hr]; subst. cbn [wdeltas xdeltas undd].
  assert (E1 : wadd d (wsub y x - d) = wsub y x).
  { unfold wadd. replace (d + (wsub y x - d)) with (wsub y x) by lia.
    apply wrap64_id. apply wrap64_in. }
  rewrite E1. rewrite wadd_wsub by exact Hy. f_equal.
  apply IH; [exact Hr|apply wrap64_in].
Qed.

(* range: a list all of whose wrapped neighbour differences equal step *)
Lemma range_ok : forall xs prev x0 i step,
  Forall in_i64 xs -> prev = wrap64 (x0 + i * step) ->
  Forall (fun d => d = step) (wdeltas prev xs) ->
  range_from x0 step (i + 1) (length xs) = xs.
Proof.
  induction xs as [|x r IH]; intros prev x0 i step HF Hprev Hd; [reflexivity|].
  inversion HF as [|? ? Hx Hr]. subst.
  cbn [wdeltas] in Hd. apply Forall_cons_iff in Hd. destruct Hd as [Hstep Hd'].
  cbn [length range_from].
  assert (Ex : x = wrap64 (x0 + (i + 1) * step)).
  { rewrite <- (wadd_wsub (wrap64 (x0 + i * step)) x Hx). rewrite Hstep.
    rewrite wadd_wrap_l. f_equal. lia. }
  f_equal.
  - unfold wmul. rewrite wadd_wrap_r. symmetry. exact Ex.
  - apply (IH x x0 (i + 1) step Hr Ex Hd').
Qed.

Lemma all_eq_of_min_max d1 dtail :
  min_of d1 dtail = max_of d1 dtail ->
  d1 = min_of d1 dtail /\ Forall (fun d => d = min_of d1 dtail) dtail.
Proof.
  intros E. destruct (min_of_le dtail d1) as [H1 H2]. destruct (max_of_ge dtail d1) as [H3 H4].
  split; [lia|]. rewrite Forall_forall in *. intros d Hd.
  specialize (H2 d Hd). specialize (H4 d Hd). lia.
Qed.

Lemma bounds_delta d1 dtail :
  Forall (fun x => min_of d1 dtail <= x <= max_of d1 dtail) (d1 :: dtail).
Proof.
  destruct (min_of_le dtail d1) as [H1 H2]. destruct (max_of_ge dtail d1) as [H3 H4].
  constructor; [lia|]. rewrite Forall_forall in *. intros d Hd.
  specialize (H2 d Hd). specialize (H4 d Hd). lia.
Qed.

Lemma bounds_dd dds :
  Forall (fun x => min_of i128_max dds <= x <= max_of i128_min dds) dds.
Proof.
  destruct (min_of_le dds i128_max) as [_ H2]. destruct (max_of_ge dds i128_min) as [_ H4].
  rewrite Forall_forall in *. intros d Hd. specialize (H2 d Hd). specialize (H4 d Hd). lia.
Qed.

(* C16_int_roundtrip: every i64 list survives serialisation, through whichever layout is chosen,
   and the encoder's try_from(..).unwrap() never fails *)
Theorem roundtrip_ok xs : Forall in_i64 xs -> roundtrip xs = Some xs.
Proof.
  intros HF. unfold roundtrip, encode.
  destruct xs as [|x0 [|x1 rest]]; [reflexivity|reflexivity|].
  inversion HF as [|? ? Hx0 HF1]; subst. inversion HF1 as [|? ? Hx1 HFr]; subst.
  set (d1 := wsub x1 x0). set (dtail := wdeltas x1 rest).
  change (wdeltas x0 (x1 :: rest)) with (d1 :: dtail).
  set (dds := xdeltas d1 dtail).
  assert (Hdelta : decode (LDelta W8 x0 (d1 :: dtail)) = x0 :: x1 :: rest).
  { cbn [decode]. f_equal. change (d1 :: dtail) with (wdeltas x0 (x1 :: rest)).
    apply undelta_wdeltas. exact HF1. }
  assert (Hdd : decode (LDD W8 x0 x1 dds) = x0 :: x1 :: rest).
  { cbn [decode]. f_equal. f_equal. unfold dds, dtail. fold d1.
    apply undd_ok; [exact HFr|apply wrap64_in]. }
  assert (Hfit_delta : forall w, (wlo w <=? min_of d1 dtail) && (max_of d1 dtail <=? whi w) = true ->
                                 all_fit w (d1 :: dtail) = true).
  { intros w Hc. apply andb_true_iff in Hc as [Ha Hb]. apply Z.leb_le in Ha, Hb.
    eapply all_fit_bounds; [exact Ha|exact Hb|apply bounds_delta]. }
  assert (Hfit_dd : forall w, (wlo w <=? min_of i128_max dds) && (max_of i128_min dds <=? whi w) = true ->
                              all_fit w dds = true).
  { intros w Hc. apply andb_true_iff in Hc as [Ha Hb]. apply Z.leb_le in Ha, Hb.
    eapply all_fit_bounds; [exact Ha|exact Hb|apply bounds_dd]. }
  destruct ((min_of d1 dtail =? max_of d1 dtail) && (max_of d1 dtail <=? two63 - 1) &&
            (- two63 <=? max_of d1 dtail)) eqn:Hrange.
  - (* range *)
    apply andb_true_iff in Hrange as [Hrange _]. apply andb_true_iff in Hrange as [Heq _].
    apply Z.eqb_eq in Heq. destruct (all_eq_of_min_max d1 dtail Heq) as [Hd1 Hdt].
    cbn [decode]. f_equal. cbn [length range_from].
    assert (E0 : wadd x0 (wmul 0 (min_of d1 dtail)) = x0).
    { unfold wmul. rewrite wadd_wrap_r. replace (x0 + 0 * min_of d1 dtail) with x0 by lia.
      apply wrap64_id. exact Hx0. }
    rewrite E0. f_equal.
    apply (range_ok (x1 :: rest) x0 x0 0 (min_of d1 dtail) HF1).
    + replace (x0 + 0 * min_of d1 dtail) with x0 by lia. symmetry. apply wrap64_id. exact Hx0.
    + cbn [wdeltas]. constructor; [fold d1; exact Hd1|exact Hdt].
  - destruct ((wlo W8 <=? min_of d1 dtail) && (max_of d1 dtail <=? whi W8)) eqn:C1.
    { rewrite (Hfit_delta W8 C1). f_equal. exact Hdelta. }
    destruct ((wlo W8 <=? min_of i128_max dds) && (max_of i128_min dds <=? whi W8)) eqn:C2.
    { rewrite (Hfit_dd W8 C2). f_equal. exact Hdd. }
    destruct ((wlo W16 <=? min_of d1 dtail) && (max_of d1 dtail <=? whi W16)) eqn:C3.
    { rewrite (Hfit_delta W16 C3). f_equal. exact Hdelta. }
    destruct ((wlo W16 <=? min_of i128_max dds) && (max_of i128_min dds <=? whi W16)) eqn:C4.
    { rewrite (Hfit_dd W16 C4). f_equal. exact Hdd. }
    destruct ((wlo W32 <=? min_of d1 dtail) && (max_of d1 dtail <=? whi W32)) eqn:C5.
    { rewrite (Hfit_delta W32 C5). f_equal. exact Hdelta. }
    destruct ((wlo W32 <=? min_of i128_max dds) && (max_of i128_min dds <=? whi W32)) eqn:C6.
    { rewrite (Hfit_dd W32 C6). f_equal. exact Hdd. }
    reflexivity.
Qed.
