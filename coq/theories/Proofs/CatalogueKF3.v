(* Catalogue, part 8: with the literal of Table::new (code_seed = "column_name", since 647a26b)
   compaction always iterates over every column the merged partitions carry: the guarded run never
   stops at the KF3 site. *)
From Coq Require Import NArith ZArith List Bool Lia.
From LV Require Import Model.TableSM Model.Catalogue Model.WalSM
     Proofs.TableSM Proofs.WalSMBase Proofs.WalSM Proofs.WalSMLog Proofs.Catalogue
     Proofs.CatalogueLog Proofs.CatalogueInv Proofs.CatalogueFlush Proofs.CatalogueRecover
     Proofs.CatalogueMain Proofs.CatalogueSeed.
Import ListNotations.
Open Scope N_scope.

Lemma cols_complete_true : forall cols rows,
  (forall r, In r rows -> incl (row_cols r) cols) -> cols_complete cols rows = true.
Proof.
  intros cols rows H. unfold cols_complete. apply forallb_forall. intros r Hr.
  apply forallb_forall. intros c Hc. apply mem_name_In. apply (H r Hr). exact Hc.
Qed.

Lemma compact_not_kf3 : forall sz i cols t,
  cols_complete cols (part_rows (skipn i (t_parts t))) = true -> compact true sz i cols t <> TKnown KF3.
Proof.
  intros sz i cols t H. unfold compact. destruct (skipn i (t_parts t)) as [|first rest]; [discriminate|].
  cbn [andb]. rewrite H. cbn [negb]. destruct (negb (f1_free cols (first :: rest))); discriminate.
Qed.

Lemma part_rows_skipn_in : forall i ps r, In r (part_rows (skipn i ps)) -> In r (part_rows ps).
Proof.
  intros i ps r H. rewrite <- (firstn_skipn i ps), part_rows_app. apply in_or_app. right. exact H.
Qed.

Lemma cat_row_cols : forall r, cat_row r -> row_cols r = [s_column_name].
Proof. intros r [c ->]. reflexivity. Qed.

Section NoKF3.
  Variable s : db.
  Hypothesis I : Inv s.
  Hypothesis C : Cat s.

  (* every row of table n (as of s) carries only columns of a loaded, seeded name set *)
  Lemma rows_covered : forall l n t cols,
    cat_rel s l -> SeededT s_column_name l -> lookup n l = Some t -> t_cols t = Some cols ->
    forall r, In r (table_content t) -> incl (row_cols r) cols.
  Proof.
    intros l n t cols R S L Hc r Hr. rewrite (cr_content _ _ R _ _ L), (i_acked _ I) in Hr.
    destruct (user_table n) eqn:Hu.
    - pose proof (log_rows_catalogued _ _ (c_log _ C) Hu) as Hl. rewrite Forall_forall in Hl.
      pose proof (cr_cols _ _ R _ _ _ Hu L Hc) as Hs. intros x Hx. apply Hs. apply (Hl r Hr). exact Hx.
    - destruct (S _ _ Hu L) as [cs [Hcs [S1 S2]]]. rewrite Hc in Hcs. injection Hcs as <-.
      pose proof (log_meta_rows _ _ (c_log _ C) Hu) as Hl. rewrite Forall_forall in Hl.
      destruct (Hl r Hr) as [[En Hi]|[Em Hcr]].
      + destruct (S2 En) as [H1 H2]. intros x Hx. apply Hi in Hx. cbn in Hx.
        destruct Hx as [<-|[<-|[]]]; assumption.
      + rewrite (cat_row_cols _ Hcr). intros x [<-|[]]. apply S1. exact Em.
  Qed.

  Lemma flush_table_not_kf3 : forall c o n l,
    cat_rel s l -> SeededT s_column_name l -> flush_table true c o n l <> Known KF3.
  Proof.
    intros c o n l R S. unfold flush_table. destruct (lookup n l) as [t|] eqn:L; [|discriminate].
    set (t1 := batch_table (fst (sizes_for o n)) t).
    assert (R1 : cat_rel s (upd n t1 l)).
    { eapply cat_rel_upd; eauto.
      - apply batch_table_content.
      - intros Hu cs Hcs. unfold t1 in Hcs. rewrite batch_table_cols in Hcs. eapply (cr_cols _ _ R); eauto.
      - intro Hu. unfold t1. rewrite batch_table_cols. eapply (cr_meta _ _ R); eauto. }
    assert (S1 : SeededT s_column_name (upd n t1 l)).
    { eapply seededT_upd; eauto. intros Hu cs Hc Hs. exists cs. split; auto. unfold t1.
      rewrite batch_table_cols. exact Hc. }
    destruct (plan_compaction (c_factor c) (t_parts t1)); try discriminate.
    destruct (ensure_cols n (upd n t1 l)) as [l1| | | |] eqn:Ee; cbn [bind]; try discriminate.
    - pose proof (cat_rel_ensure s I C _ _ _ R1 Ee) as R2.
      pose proof (seededT_ensure _ _ _ _ S1 Ee) as S2.
      destruct (lookup n l1) as [t2|] eqn:L2; [|discriminate].
      destruct (t_cols t2) as [cols|] eqn:Ec; [|discriminate].
      destruct (compact true (snd (sizes_for o n)) i cols t2) as [t3|k|] eqn:Ecp; cbn [lift_t bind]; try discriminate.
      intro H. injection H as ->. revert Ecp. apply compact_not_kf3. apply cols_complete_true.
      intros r Hr. apply (rows_covered _ _ _ _ R2 S2 L2 Ec). unfold table_content.
      apply in_or_app. left. eapply part_rows_skipn_in. exact Hr.
    - apply ensure_cols_shape_known in Ee. destruct Ee.
  Qed.

  Lemma flush_tables_not_kf3 : forall c o names l,
    cat_rel s l -> SeededT s_column_name l -> flush_tables true c o names l <> Known KF3.
  Proof.
    induction names as [|n names IH]; cbn [flush_tables]; intros l R S; [discriminate|].
    destruct (flush_table true c o n l) as [l1|k| | |] eqn:E; cbn [bind]; try discriminate.
    - apply IH; [eapply cat_rel_flush_table; eauto|eapply seededT_flush_table; eauto].
    - intro H. injection H as ->. eapply flush_table_not_kf3; eauto.
  Qed.

End NoKF3.

Definition Seeded (c : cfg) (s : db) : Prop := SeededT code_seed (tabs s).

Lemma seeded_init : forall c, Seeded c (init c).
Proof.
  intros c n t Hu L. unfold init in L. cbn [tabs lookup] in L.
  destruct (name_eqb n s_meta_tables) eqn:E; [|discriminate].
  apply name_eqb_eq in E. subst n. injection L as <-. cbn [t_cols empty_table]. apply seed_cols_seeded. exact Hu.
Qed.

Lemma freeze_cols : forall t t', freeze t = Some t' -> t_cols t' = t_cols t.
Proof. intros t t' H. apply freeze_content in H. tauto. Qed.

Lemma delete_dead_cols : forall t t', delete_dead t = Some t' -> t_cols t' = t_cols t.
Proof. intros t t' H. apply delete_dead_content in H. tauto. Qed.

Lemma step_seeded : forall c s o s', Seeded c s -> step true c s o = Val s' -> Seeded c s'.
Proof.
  intros c s o s' S. unfold Seeded in *. destruct o as [b bytes|bg orc| |]; cbn [step].
  - unfold ingest. destruct (c_max_wal_bytes c <? wal_size s); [discriminate|].
    destruct (prepare code_seed b (tabs s) [] []) as [[[l1 created] colrows]| | | |] eqn:Ep; cbn [bind]; try discriminate.
    destruct (apply_batch _ l1) as [l2| | | |] eqn:Ea; cbn [bind]; try discriminate.
    intro H. injection H as <-. cbn [tabs]. eapply seededT_apply_batch; [|exact Ea]. eapply seededT_prepare; eauto.
  - destruct (bg && negb (bg_enabled c s)); [discriminate|]. unfold flush, flush_mid.
    destruct (freeze_all (tabs s)) as [l0| | | |] eqn:E0; cbn [bind]; try discriminate.
    destruct (flush_tables true c orc (map fst l0) l0) as [l1| | | |] eqn:E1; cbn [bind]; try discriminate.
    destruct (map_tabs SNoTable (fun t => Some (publish_meta t)) l1) as [l2| | | |] eqn:E2; cbn [bind]; try discriminate.
    destruct (delete_orphans l2) as [l3| | | |] eqn:E3; cbn [bind]; try discriminate.
    destruct (delete_segments _ _ _); cbn [of_opt bind]; [|discriminate].
    intro H. injection H as <-. cbn [tabs].
    eapply seededT_map; [apply delete_dead_cols| |exact E3].
    eapply seededT_map; [|  |exact E2]. { intros t t' Ht. injection Ht as <-. reflexivity. }
    eapply seededT_flush_tables; [|exact E1].
    eapply seededT_map; [apply freeze_cols|exact S|exact E0].
  - intro H. injection H as <-. exact S.
  - unfold recover.
    destruct (restore_tables code_seed (tabs s)) as [l0| | | |] eqn:E0; cbn [bind]; try discriminate.
    destruct (create_if_empty code_seed s_meta_tables l0) as [l1 b1] eqn:E1.
    destruct (replay code_seed _ None l1) as [l2| | | |] eqn:E2; cbn [bind]; try discriminate.
    intro H. injection H as <-. cbn [tabs]. eapply seededT_replay; [|exact E2].
    eapply seededT_create; [|exact E1]. eapply seededT_restore; eauto.
Qed.

Lemma flush_not_kf3 : forall c o s, Inv s -> Cat s -> Seeded c s ->
  flush true c o s <> Known KF3.
Proof.
  intros c o s I C S. unfold Seeded, code_seed in S. unfold flush, flush_mid.
  destruct (freeze_all (tabs s)) as [l0|k| | |] eqn:E0; cbn [bind]; try discriminate.
  - assert (R0 : cat_rel s l0) by (eapply cat_rel_map; [apply freeze_content|apply cat_rel_start; exact C|exact E0]).
    assert (S0 : SeededT s_column_name l0) by (eapply seededT_map; [apply freeze_cols|exact S|exact E0]).
    destruct (flush_tables true c o (map fst l0) l0) as [l1|k| | |] eqn:E1; cbn [bind]; try discriminate.
    + destruct (map_tabs SNoTable (fun t => Some (publish_meta t)) l1) as [l2|k| | |] eqn:E2; cbn [bind]; try discriminate.
      * destruct (delete_orphans l2) as [l3|k| | |] eqn:E3; cbn [bind]; try discriminate.
        -- destruct (delete_segments _ _ _); cbn [of_opt bind]; discriminate.
        -- unfold delete_orphans in E3. destruct (map_tabs_total _ _ _ _ E3) as [[? ?]|?]; discriminate.
      * destruct (map_tabs_total _ _ _ _ E2) as [[? ?]|?]; discriminate.
    + intro H. injection H as ->. eapply flush_tables_not_kf3; eauto.
  - unfold freeze_all in E0. destruct (map_tabs_total _ _ _ _ E0) as [[? ?]|?]; discriminate.
Qed.

Lemma step_not_kf3 : forall c s o, Inv s -> Cat s -> Seeded c s ->
  step true c s o <> Known KF3.
Proof.
  intros c s o I C S. destruct o as [b bytes|bg orc| |]; cbn [step].
  - unfold ingest. destruct (c_max_wal_bytes c <? wal_size s); [discriminate|].
    destruct (prepare_shape code_seed b (tabs s) [] []) as [[[[l1 created] colrows] ->]|[st ->]]; cbn [bind]; [|discriminate].
    destruct (apply_batch_shape (b ++ meta_tables_batch created ++ colrows) l1) as [[l2 ->]|[st ->]]; cbn [bind]; discriminate.
  - destruct (bg && negb (bg_enabled c s)); [discriminate|]. apply flush_not_kf3; auto.
  - discriminate.
  - destruct (recover_outcome c s I) as [[s' ->]|[st [-> _]]]; discriminate.
Qed.

Theorem run_not_kf3 : forall c ops,
  Forall wf_op ops -> run true c ops (init c) <> Known KF3.
Proof.
  intros c ops W.
  assert (G : forall s, Inv s -> Cat s -> Seeded c s -> run true c ops s <> Known KF3).
  { induction W as [|o ops Wo W IH]; intros s I C S; cbn [run]; [discriminate|].
    destruct (step true c s o) as [s1|k| | |] eqn:E; cbn [bind]; try discriminate.
    - apply IH; [eapply step_inv; eauto|eapply step_cat; eauto|eapply step_seeded; eauto].
    - intro H. injection H as ->. eapply step_not_kf3; eauto. }
  apply G; [apply inv_init|apply cat_init|apply seeded_init].
Qed.
