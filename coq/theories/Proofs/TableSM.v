(* Lemmas about the per-table model (Model/TableSM.v): files of a table directory, tiling of the
   partition ranges, batching, compaction planning, the guarded compaction, restoring from disk. *)
From Coq Require Import NArith ZArith List Bool Lia Permutation.
From LV Require Import Model.TableSM.
Import ListNotations.
Open Scope N_scope.

Ltac proj_simpl :=
  cbn [t_buf t_frozen t_parts t_next_id t_next_off t_cols t_files t_meta t_dead
       p_id p_off p_size p_rows pm_id pm_off pm_len pm_size].

(* ---------------------------------------------------------------------------------------------- *)
(* NoDup helpers (not in the 8.16 standard library) *)

Lemma nodup_app_comm : forall {A} (a b : list A), NoDup (a ++ b) -> NoDup (b ++ a).
Proof. intros A a b H. eapply Permutation_NoDup; [apply Permutation_app_comm|exact H]. Qed.

Lemma nodup_app_l : forall {A} (a b : list A), NoDup (a ++ b) -> NoDup a.
Proof.
  induction a as [|x a IH]; cbn; intros b H; [constructor|].
  inversion H as [|? ? Hn H']; subst. constructor.
  - intro HI. apply Hn. apply in_or_app. left. exact HI.
  - eapply IH. exact H'.
Qed.

Lemma nodup_app_r : forall {A} (a b : list A), NoDup (a ++ b) -> NoDup b.
Proof. intros A a b H. apply nodup_app_comm in H. eapply nodup_app_l. exact H. Qed.

Lemma nodup_app_disj : forall {A} (a b : list A) x, NoDup (a ++ b) -> In x a -> In x b -> False.
Proof.
  induction a as [|y a IH]; cbn; intros b x H Ha Hb; [tauto|].
  inversion H as [|? ? Hn H']; subst. destruct Ha as [->|Ha].
  - apply Hn. apply in_or_app. right. exact Hb.
  - eapply IH; eauto.
Qed.

(* ---------------------------------------------------------------------------------------------- *)
(* names *)

Lemma name_eqb_eq : forall a b, name_eqb a b = true <-> a = b.
Proof.
  induction a as [|x a IH]; destruct b as [|y b]; cbn; split; intro H; try congruence; auto.
  - apply andb_prop in H. destruct H as [H1 H2]. apply N.eqb_eq in H1. apply IH in H2. congruence.
  - injection H as -> ->. rewrite N.eqb_refl. cbn. apply IH. reflexivity.
Qed.

Lemma name_eqb_refl : forall a, name_eqb a a = true.
Proof. intro a. apply name_eqb_eq. reflexivity. Qed.

Lemma name_eqb_neq : forall a b, name_eqb a b = false <-> a <> b.
Proof.
  intros a b. split.
  - intros H E. apply name_eqb_eq in E. congruence.
  - intro H. destruct (name_eqb a b) eqn:E; auto. apply name_eqb_eq in E. contradiction.
Qed.

Lemma name_eqb_sym : forall a b, name_eqb a b = name_eqb b a.
Proof.
  intros a b. destruct (name_eqb a b) eqn:E.
  - apply name_eqb_eq in E. subst. symmetry. apply name_eqb_refl.
  - apply name_eqb_neq in E. symmetry. apply name_eqb_neq. congruence.
Qed.

Lemma mem_name_In : forall n l, mem_name n l = true <-> In n l.
Proof.
  induction l as [|x l IH]; cbn.
  - split; [discriminate | tauto].
  - rewrite orb_true_iff, IH, name_eqb_eq. split; intros [H|H]; auto.
Qed.

(* ---------------------------------------------------------------------------------------------- *)
(* files *)

Lemma find_file_app : forall id a b,
  find_file id (a ++ b) = match find_file id a with Some r => Some r | None => find_file id b end.
Proof.
  induction a as [|[k v] a IH]; intro b; cbn; auto.
  destruct (k =? id); auto.
Qed.

Lemma find_file_none_map : forall id ps,
  ~ In id (map p_id ps) -> find_file id (map file_of ps) = None.
Proof.
  induction ps as [|p ps IH]; cbn; intro H; auto.
  destruct (p_id p =? id) eqn:E.
  - apply N.eqb_eq in E. tauto.
  - apply IH. tauto.
Qed.

Lemma find_file_map : forall ps p,
  NoDup (map p_id ps) -> In p ps -> find_file (p_id p) (map file_of ps) = Some (p_rows p).
Proof.
  induction ps as [|q ps IH]; cbn; intros p ND HI; [tauto|].
  inversion ND as [|? ? Hn ND']; subst.
  destruct HI as [->|HI].
  - rewrite N.eqb_refl. reflexivity.
  - destruct (p_id q =? p_id p) eqn:E.
    + apply N.eqb_eq in E. exfalso. apply Hn. rewrite E. apply in_map. exact HI.
    + apply IH; auto.
Qed.

Lemma remove_file_notin : forall id ps,
  ~ In id (map p_id ps) -> remove_file id (map file_of ps) = map file_of ps.
Proof.
  induction ps as [|p ps IH]; cbn; intro H; auto.
  destruct (p_id p =? id) eqn:E.
  - apply N.eqb_eq in E. tauto.
  - cbn. f_equal. apply IH. tauto.
Qed.

Lemma remove_file_app : forall id a b, remove_file id (a ++ b) = remove_file id a ++ remove_file id b.
Proof. intros. unfold remove_file. apply filter_app. Qed.

Lemma remove_file_cons_eq : forall id r fs, remove_file id ((id, r) :: fs) = remove_file id fs.
Proof. intros. unfold remove_file. cbn. rewrite N.eqb_refl. reflexivity. Qed.

Lemma store_file_fresh : forall id rows ps,
  ~ In id (map p_id ps) ->
  store_file id rows (map file_of ps) = map file_of ps ++ [(id, rows)].
Proof. intros. unfold store_file. rewrite remove_file_notin; auto. Qed.

(* deleting the files of [gone] from a directory that holds keep, gone and extra *)
Lemma delete_files_middle : forall gone keep extra,
  NoDup (map p_id (keep ++ gone ++ extra)) ->
  delete_files (map p_id gone) (map file_of keep ++ map file_of gone ++ map file_of extra)
  = Some (map file_of keep ++ map file_of extra).
Proof.
  induction gone as [|g gone IH]; intros keep extra ND.
  - reflexivity.
  - cbn [map delete_files].
    assert (Hk : ~ In (p_id g) (map p_id keep)).
    { intro HI. rewrite map_app in ND. eapply (nodup_app_disj _ _ (p_id g) ND HI).
      cbn. left. reflexivity. }
    assert (ND' : NoDup (map p_id (keep ++ gone ++ extra))).
    { rewrite !map_app in *. cbn in ND. apply NoDup_remove_1 in ND. exact ND. }
    assert (Hg : ~ In (p_id g) (map p_id gone) /\ ~ In (p_id g) (map p_id extra)).
    { rewrite !map_app in ND. cbn in ND. apply NoDup_remove_2 in ND.
      rewrite !in_app_iff in ND. tauto. }
    destruct Hg as [Hg He].
    rewrite find_file_app, (find_file_none_map _ _ Hk).
    change ((file_of g :: map file_of gone) ++ map file_of extra)
      with (file_of g :: (map file_of gone ++ map file_of extra)).
    cbn [find_file file_of]. rewrite N.eqb_refl.
    rewrite remove_file_app, (remove_file_notin _ _ Hk).
    unfold file_of at 2. rewrite remove_file_cons_eq, remove_file_app.
    rewrite (remove_file_notin _ _ Hg), (remove_file_notin _ _ He).
    apply IH. exact ND'.
Qed.

(* ---------------------------------------------------------------------------------------------- *)
(* tiling *)

Fixpoint tiles (o : N) (ps : list part) (e : N) : Prop :=
  match ps with
  | [] => o = e
  | p :: r => p_off p = o /\ tiles (o + p_len p) r e
  end.

Lemma tiles_app : forall a b o e,
  tiles o (a ++ b) e <-> exists m, tiles o a m /\ tiles m b e.
Proof.
  induction a as [|p a IH]; intros b o e; cbn.
  - split.
    + intro H. exists o. auto.
    + intros [m [-> H]]. exact H.
  - rewrite IH. split.
    + intros [Ho [m [H1 H2]]]. exists m. auto.
    + intros [m [[Ho H1] H2]]. split; auto. exists m. auto.
Qed.

Lemma tiles_le : forall ps o e, tiles o ps e -> o <= e.
Proof.
  induction ps as [|p ps IH]; cbn; intros o e H.
  - subst. lia.
  - destruct H as [_ H]. apply IH in H. lia.
Qed.

Lemma tiles_fun : forall ps o e e', tiles o ps e -> tiles o ps e' -> e = e'.
Proof.
  induction ps as [|p ps IH]; cbn; intros o e e' H H'.
  - congruence.
  - destruct H as [_ H], H' as [_ H']. eapply IH; eauto.
Qed.

Lemma tiles_len : forall ps o e,
  tiles o ps e -> e = o + N.of_nat (length (flat_map p_rows ps)).
Proof.
  induction ps as [|p ps IH]; cbn; intros o e H.
  - subst. lia.
  - destruct H as [_ H]. apply IH in H. rewrite app_length. unfold p_len in H. lia.
Qed.

(* ---------------------------------------------------------------------------------------------- *)
(* invariants of one table *)

Record tcore (t : tstate) : Prop := {
  tc_tiles : tiles 0 (t_parts t) (t_next_off t);
  tc_ids : Forall (fun p => p_id p < t_next_id t) (t_parts t);
  tc_nodup : NoDup (map p_id (t_parts t))
}.

(* at rest (outside a flush) *)
Record tinv (t : tstate) : Prop := {
  ti_core : tcore t;
  ti_files : t_files t = map file_of (t_parts t);
  ti_frozen : t_frozen t = [];
  ti_meta : t_meta t = map pmeta_of (t_parts t);
  ti_dead : t_dead t = []
}.

(* inside a flush, after this table was batched / compacted: the directory still holds the files of
   the merged-away partitions, which are exactly the ones recorded for deletion *)
Record tmid (t : tstate) : Prop := {
  tm_core : tcore t;
  tm_files : delete_files (t_dead t) (t_files t) = Some (map file_of (t_parts t));
  tm_frozen : t_frozen t = []
}.

Lemma tinv_empty : forall c, tinv (empty_table c).
Proof.
  intro c. constructor; cbn; auto. constructor; cbn; auto. constructor.
Qed.

Lemma tinv_set_cols : forall t c, tinv t -> tinv (set_cols t c).
Proof. intros t c [[H1 H2 H3] H4 H5 H6 H7]. constructor; cbn; auto. constructor; cbn; auto. Qed.

Lemma tinv_set_buf : forall t b, tinv t -> tinv (set_buf t b).
Proof. intros t c [[H1 H2 H3] H4 H5 H6 H7]. constructor; cbn; auto. constructor; cbn; auto. Qed.

Lemma ids_fresh : forall t, tcore t -> ~ In (t_next_id t) (map p_id (t_parts t)).
Proof.
  intros t [_ H _] HI. apply in_map_iff in HI. destruct HI as [p [E HI]].
  rewrite Forall_forall in H. apply H in HI. lia.
Qed.

(* ---------------------------------------------------------------------------------------------- *)
(* freeze, batch *)

Lemma freeze_spec : forall t, tinv t ->
  exists t', freeze t = Some t' /\
    t_buf t' = [] /\ t_frozen t' = t_buf t /\ t_parts t' = t_parts t /\
    t_next_id t' = t_next_id t /\ t_next_off t' = t_next_off t /\ t_cols t' = t_cols t /\
    t_files t' = t_files t /\ t_meta t' = t_meta t /\ t_dead t' = t_dead t.
Proof.
  intros t H. unfold freeze. rewrite (ti_frozen _ H). eexists. split; [reflexivity|].
  cbn. repeat split; reflexivity.
Qed.

(* the state of a table after the freeze step of a flush *)
Record tpre (t : tstate) : Prop := {
  tp_core : tcore t;
  tp_files : t_files t = map file_of (t_parts t);
  tp_dead : t_dead t = []
}.

(* files added by a step: appended to the directory, with ids drawn from the id counter *)
Definition appended_files (t t' : tstate) : Prop :=
  exists added, t_files t' = t_files t ++ added /\
    Forall (fun f => t_next_id t <= fst f /\ fst f < t_next_id t') added /\
    NoDup (map fst added) /\ t_next_id t <= t_next_id t'.

Lemma appended_files_refl : forall t, appended_files t t.
Proof.
  intro t. exists []. rewrite app_nil_r. repeat split; [constructor|constructor|lia].
Qed.

Lemma appended_files_trans : forall a b c, appended_files a b -> appended_files b c -> appended_files a c.
Proof.
  intros a b c [x [Ex [Fx [Nx Lx]]]] [y [Ey [Fy [Ny Ly]]]]. exists (x ++ y).
  rewrite Ey, Ex, app_assoc. split; [reflexivity|]. split; [|split; [|lia]].
  - apply Forall_app. split; eapply Forall_impl; try eassumption; cbn; intros; lia.
  - rewrite map_app. apply nodup_app_comm.
    assert (D : forall i, In i (map fst y) -> In i (map fst x) -> False).
    { intros i Hy Hx. apply in_map_iff in Hy, Hx. destruct Hy as [fy [<- Hy]], Hx as [fx [E Hx]].
      rewrite Forall_forall in Fx, Fy. apply Fx in Hx. apply Fy in Hy. lia. }
    clear - Nx Ny D. induction (map fst y) as [|i l IH]; cbn; auto.
    inversion Ny; subst. constructor.
    + intro HI. apply in_app_or in HI. destruct HI as [HI|HI]; [contradiction|].
      eapply D; [left; reflexivity|exact HI].
    + apply IH; auto. intros j Hj. apply D. right. exact Hj.
Qed.

Lemma batch_table_spec : forall sz t, tpre t ->
  let t' := batch_table sz t in
  tpre t' /\ t_frozen t' = [] /\ t_buf t' = t_buf t /\ t_meta t' = t_meta t /\
  t_cols t' = t_cols t /\
  part_rows (t_parts t') = part_rows (t_parts t) ++ t_frozen t /\
  appended_files t t'.
Proof.
  intros sz t [[Ht Hi Hn] Hf Hd]. unfold batch_table.
  destruct (t_frozen t) as [|r rows] eqn:Efr.
  - cbn. rewrite Efr, app_nil_r. repeat split; auto. apply appended_files_refl.
  - cbn. set (p := {| p_id := t_next_id t; p_off := t_next_off t; p_size := sz; p_rows := r :: rows |}).
    assert (Hfresh : ~ In (t_next_id t) (map p_id (t_parts t))).
    { apply ids_fresh. constructor; auto. }
    repeat split; cbn; auto.
    + apply tiles_app. exists (t_next_off t). split; auto. cbn. split; reflexivity.
    + apply Forall_app. split.
      * eapply Forall_impl; [|exact Hi]. cbn. intros; lia.
      * constructor; [cbn; lia | constructor].
    + rewrite map_app. apply nodup_app_comm. cbn. constructor; auto.
    + rewrite Hf, store_file_fresh; auto. rewrite map_app. reflexivity.
    + unfold part_rows. rewrite flat_map_app. cbn. rewrite app_nil_r. reflexivity.
    + exists [(t_next_id t, r :: rows)]. cbn. rewrite Hf, store_file_fresh; auto.
      repeat split; auto; try lia.
      * constructor; [cbn; lia|constructor].
      * constructor; [tauto|constructor].
Qed.

(* ---------------------------------------------------------------------------------------------- *)
(* plan_compaction returns an index inside the list: the merged partitions are a non-empty suffix
   in offset order, whatever the sizes and the factor *)

Lemma plan_aux_range : forall f ps i,
  snd (plan_aux f ps) = PlanFrom i -> (i < length ps)%nat.
Proof.
  induction ps as [|p ps IH]; cbn; intros i H.
  - discriminate.
  - destruct (plan_aux f ps) as [tot best] eqn:E. cbn in IH.
    destruct best as [|j|].
    + destruct ((u64_lim <=? p_size p + tot) || (u64_lim <=? p_size p * f)); cbn in H; [discriminate|].
      destruct (p_size p * f <? p_size p + tot); cbn in H; [injection H as <-; lia | discriminate].
    + destruct ((u64_lim <=? p_size p + tot) || (u64_lim <=? p_size p * f)); cbn in H; [discriminate|].
      destruct (p_size p * f <? p_size p + tot); cbn in H; injection H as <-; [lia|].
      specialize (IH j eq_refl). lia.
    + cbn in H. discriminate.
Qed.

Lemma plan_compaction_range : forall f ps i,
  plan_compaction f ps = PlanFrom i -> (i < length ps)%nat.
Proof. intros. apply (plan_aux_range f). exact H. Qed.

(* ---------------------------------------------------------------------------------------------- *)
(* the guarded rebuild keeps every row as it is *)

Lemma restrict_id : forall cols r,
  forallb (fun c => mem_name c cols) (row_cols r) = true -> restrict cols r = r.
Proof.
  intros cols r. unfold restrict, row_cols. induction r as [|[k v] r IH]; cbn; intro H; auto.
  apply andb_prop in H. destruct H as [H1 H2]. rewrite H1. f_equal. auto.
Qed.

Lemma rebuild_rows_id : forall cols ps,
  cols_complete cols (part_rows ps) = true -> f1_free cols ps = true ->
  rebuild_rows cols ps = part_rows ps.
Proof.
  intros cols ps Hc Hf. unfold rebuild_rows.
  assert (E : flat_map (fun p => lossy_part_rows cols (p_rows p)) ps = part_rows ps).
  { clear Hc. unfold part_rows. unfold f1_free in Hf. induction ps as [|p ps IH]; [reflexivity|].
    cbn [forallb] in Hf. apply andb_prop in Hf. destruct Hf as [H1 H2].
    cbn [flat_map]. rewrite (IH H2). f_equal.
    unfold lossy_part_rows. destruct (nullable_cols cols (p_rows p)); [reflexivity|discriminate]. }
  rewrite E. clear E Hf. unfold cols_complete in Hc.
  induction (part_rows ps) as [|r rs IH]; [reflexivity|].
  cbn [forallb] in Hc. apply andb_prop in Hc. destruct Hc as [H1 H2].
  cbn [map]. rewrite (restrict_id _ _ H1), (IH H2). reflexivity.
Qed.

(* ---------------------------------------------------------------------------------------------- *)
(* compaction *)

Lemma tiles_firstn_skipn : forall i ps o e,
  tiles o ps e -> exists m, tiles o (firstn i ps) m /\ tiles m (skipn i ps) e.
Proof.
  intros i ps o e H. rewrite <- (firstn_skipn i ps) in H at 1. apply tiles_app in H. exact H.
Qed.

Lemma part_rows_app : forall a b, part_rows (a ++ b) = part_rows a ++ part_rows b.
Proof. intros. unfold part_rows. apply flat_map_app. Qed.

Lemma compact_spec : forall sz i cols t t',
  tpre t -> t_frozen t = [] ->
  compact true sz i cols t = TVal t' ->
  tmid t' /\ t_buf t' = t_buf t /\ t_meta t' = t_meta t /\ t_cols t' = t_cols t /\
  part_rows (t_parts t') = part_rows (t_parts t) /\ appended_files t t'.
Proof.
  intros sz i cols t t' [[Ht Hi Hn] Hf Hd] Hfr H. unfold compact in H.
  destruct (skipn i (t_parts t)) as [|first rest] eqn:Esk; [discriminate|].
  cbn [andb] in H.
  destruct (cols_complete cols (part_rows (first :: rest))) eqn:Ec; cbn [negb] in H; [|discriminate].
  destruct (f1_free cols (first :: rest)) eqn:Ef; cbn [negb] in H; [|discriminate].
  injection H as <-. proj_simpl.
  rewrite (rebuild_rows_id _ _ Ec Ef).
  set (keep := firstn i (t_parts t)).
  assert (Esplit : t_parts t = keep ++ first :: rest).
  { unfold keep. rewrite <- Esk. symmetry. apply firstn_skipn. }
  set (p := {| p_id := t_next_id t; p_off := p_off first; p_size := sz;
               p_rows := part_rows (first :: rest) |}).
  assert (Hfresh : ~ In (t_next_id t) (map p_id (t_parts t))).
  { apply ids_fresh. constructor; auto. }
  split; [constructor; [constructor|..]|]; proj_simpl.
  - (* tiling *)
    rewrite Esplit in Ht. apply tiles_app in Ht. destruct Ht as [m [H1 H2]].
    apply tiles_app. exists m. split; auto.
    pose proof H2 as H2'. cbn [tiles] in H2'. destruct H2' as [Ho _].
    cbn [tiles]. split; [exact Ho|].
    apply tiles_len in H2. unfold p_len, p. proj_simpl. unfold part_rows. lia.
  - rewrite Esplit in Hi. apply Forall_app in Hi. destruct Hi as [Hk _].
    apply Forall_app. split.
    + eapply Forall_impl; [|exact Hk]. cbn. intros; lia.
    + constructor; [unfold p; proj_simpl; lia|constructor].
  - rewrite map_app. apply nodup_app_comm. cbn [map app]. constructor.
    + intro HI. apply Hfresh. rewrite Esplit, map_app. apply in_or_app. left. exact HI.
    + rewrite Esplit, map_app in Hn. apply nodup_app_l in Hn. exact Hn.
  - (* files *)
    rewrite Hd. cbn [app]. rewrite Hf. unfold p at 1. proj_simpl. rewrite store_file_fresh; auto.
    rewrite Esplit, !map_app.
    change [(t_next_id t, part_rows (first :: rest))] with (map file_of [p]).
    rewrite <- app_assoc.
    change (p_id first :: map p_id rest) with (map p_id (first :: rest)).
    rewrite (delete_files_middle (first :: rest) keep [p]).
    + reflexivity.
    + rewrite app_assoc. rewrite map_app. apply nodup_app_comm. cbn [map app]. constructor.
      * rewrite <- Esplit. exact Hfresh.
      * rewrite <- Esplit. exact Hn.
  - exact Hfr.
  - repeat split; auto.
    + rewrite Esplit, !part_rows_app. f_equal. unfold part_rows at 1. cbn [flat_map p_rows p].
      rewrite app_nil_r. reflexivity.
    + exists [(t_next_id t, part_rows (first :: rest))]. unfold p. proj_simpl.
      rewrite Hf, store_file_fresh; auto. repeat split; try lia.
      * constructor; [cbn; lia|constructor].
      * constructor; [cbn; tauto|constructor].
Qed.

Lemma tpre_tmid : forall t, tpre t -> t_frozen t = [] -> tmid t.
Proof.
  intros t [Hc Hf Hd] Hfr. constructor; auto. rewrite Hd. cbn. rewrite Hf. reflexivity.
Qed.

(* publish_meta + delete_dead bring a table back to rest *)
Lemma finish_spec : forall t, tmid t ->
  exists t', delete_dead (publish_meta t) = Some t' /\ tinv t' /\
    t_parts t' = t_parts t /\ t_buf t' = t_buf t /\ t_cols t' = t_cols t /\
    t_next_id t' = t_next_id t /\ t_next_off t' = t_next_off t.
Proof.
  intros t [[Ht Hi Hn] Hf Hfr]. unfold delete_dead, publish_meta. cbn. rewrite Hf.
  eexists. split; [reflexivity|]. cbn. split.
  - constructor; cbn; auto. constructor; auto.
  - repeat split; reflexivity.
Qed.

(* ---------------------------------------------------------------------------------------------- *)
(* restoring a table from its catalogue entries and files *)

Lemma restore_parts_spec : forall ps fs,
  (forall p, In p ps -> find_file (p_id p) fs = Some (p_rows p)) ->
  restore_parts (map pmeta_of ps) fs = Some ps.
Proof.
  induction ps as [|p ps IH]; cbn; intros fs H; auto.
  rewrite (H p (or_introl eq_refl)). rewrite IH; [|intros; apply H; auto].
  destruct p; reflexivity.
Qed.

Lemma fold_max_ge : forall (f : pmeta -> N) ms a, a <= fold_left (fun a m => N.max a (f m)) ms a.
Proof.
  induction ms as [|m ms IH]; cbn; intro a; [lia|].
  specialize (IH (N.max a (f m))). lia.
Qed.

Lemma fold_max_bound : forall (f : pmeta -> N) ms a m,
  In m ms -> f m <= fold_left (fun a m => N.max a (f m)) ms a.
Proof.
  induction ms as [|x ms IH]; cbn; intros a m H; [tauto|].
  destruct H as [->|H].
  - pose proof (fold_max_ge f ms (N.max a (f m))). lia.
  - apply IH. exact H.
Qed.

Lemma max_next_id_bound : forall ps,
  Forall (fun p => p_id p < max_next_id (map pmeta_of ps)) ps.
Proof.
  intro ps. apply Forall_forall. intros p HI. unfold max_next_id.
  pose proof (fold_max_bound (fun m => pm_id m + 1) (map pmeta_of ps) 0 (pmeta_of p)
                (in_map _ _ _ HI)) as H. cbn in H. lia.
Qed.

Lemma fold_max_off_tiles : forall ps o e a,
  tiles o ps e -> a <= o ->
  fold_left (fun a m => N.max a (pm_off m + pm_len m)) (map pmeta_of ps) a = N.max a e \/ ps = [].
Proof.
  induction ps as [|p ps IH]; cbn; intros o e a H Ha; [right; reflexivity|left].
  destruct H as [Ho H]. destruct (IH _ _ (N.max a (p_off p + p_len p)) H) as [E|E].
  - rewrite Ho. lia.
  - rewrite E. apply tiles_le in H. rewrite Ho in *. lia.
  - subst ps. cbn in *. subst e. rewrite Ho. reflexivity.
Qed.

Lemma max_next_off_tiles : forall ps e, tiles 0 ps e -> max_next_off (map pmeta_of ps) = e.
Proof.
  intros ps e H. unfold max_next_off.
  destruct (fold_max_off_tiles ps 0 e 0 H) as [E|E]; [lia| |].
  - rewrite E. lia.
  - subst ps. cbn in *. congruence.
Qed.

Lemma restore_spec : forall c t, tinv t ->
  exists t', restore c t = Some t' /\ tinv t' /\ t_parts t' = t_parts t /\ t_buf t' = [] /\
             t_cols t' = c.
Proof.
  intros c t [[Ht Hi Hn] Hf Hfr Hm Hd]. unfold restore.
  rewrite Hm, Hf, restore_parts_spec.
  - eexists. split; [reflexivity|]. cbn. split; [|auto].
    constructor; cbn; auto. constructor; cbn; auto.
    + rewrite (max_next_off_tiles _ _ Ht). exact Ht.
    + apply max_next_id_bound.
  - intros p HI. apply find_file_map; auto.
Qed.
