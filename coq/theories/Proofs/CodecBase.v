(* Bit-level facts about the null bitmap of src/bitvec.rs as modelled in Model/CodecBase.v. *)
From Coq Require Import ZArith List Bool Lia.
From LV Require Import Model.CodecBase.
Import ListNotations.
Open Scope Z_scope.

(* decide every Z comparison that occurs in the goal, then close by computation / arithmetic *)
Ltac zb_split :=
  repeat match goal with
  | |- context [?a <=? ?b] => destruct (Z.leb_spec a b)
  | |- context [?a <? ?b] => destruct (Z.ltb_spec a b)
  | |- context [?a =? ?b] => destruct (Z.eqb_spec a b)
  end.
Ltac zb := zb_split; cbn [andb orb negb]; try reflexivity; try lia; try (exfalso; lia).

(* ---------------------------------------------------------------------------------------------- *)
(* result monad *)

Lemma bind_val {A B} (r : result A) (f : A -> result B) b :
  bind r f = Val b -> exists a, r = Val a /\ f a = Val b.
Proof. destruct r as [a|s]; cbn; [eauto|discriminate]. Qed.

Lemma in_i64_iff z : in_i64 z = true <-> i64_min <= z <= i64_max.
Proof. unfold in_i64. rewrite andb_true_iff, !Z.leb_le. tauto. Qed.

Lemma sub64_val a b c : sub64 a b = Val c -> c = a - b /\ i64_min <= a - b <= i64_max.
Proof.
  unfold sub64. destruct (in_i64 (a - b)) eqn:E; [|discriminate].
  intros H. injection H as <-. split; [reflexivity|now apply in_i64_iff].
Qed.

Lemma sub64_ok a b : i64_min <= a - b <= i64_max -> sub64 a b = Val (a - b).
Proof. intros H. unfold sub64. apply in_i64_iff in H. now rewrite H. Qed.

Lemma add64_ok a b : i64_min <= a + b <= i64_max -> add64 a b = Val (a + b).
Proof. intros H. unfold add64. apply in_i64_iff in H. now rewrite H. Qed.

Lemma zlen_app {A} (a b : list A) : zlen (a ++ b) = zlen a + zlen b.
Proof. unfold zlen. rewrite app_length. lia. Qed.

Lemma zlen_nonneg {A} (a : list A) : 0 <= zlen a.
Proof. unfold zlen. lia. Qed.

Lemma zlen_cons {A} (x : A) l : zlen (x :: l) = 1 + zlen l.
Proof. unfold zlen. cbn [length]. lia. Qed.

Lemma zlen_repeat {A} (x : A) n : zlen (repeat x n) = Z.of_nat n.
Proof. unfold zlen. now rewrite repeat_length. Qed.

Lemma zlen_map {A B} (f : A -> B) l : zlen (map f l) = zlen l.
Proof. unfold zlen. now rewrite map_length. Qed.

(* ---------------------------------------------------------------------------------------------- *)
(* bytes *)

Definition byte_at (bm : list Z) (s : nat) : Z := nth s bm 0.

Lemma land_pow2 b k : 0 <= k ->
  Z.land b (2 ^ k) = if Z.testbit b k then 2 ^ k else 0.
Proof.
  intros Hk. apply Z.bits_inj'. intros n Hn.
  rewrite Z.land_spec, Z.pow2_bits_eqb by lia.
  destruct (Z.testbit b k) eqn:E.
  - rewrite Z.pow2_bits_eqb by lia. destruct (Z.eqb_spec k n) as [->|]; [now rewrite E|apply andb_false_r].
  - rewrite Z.bits_0. destruct (Z.eqb_spec k n) as [->|]; [now rewrite E|apply andb_false_r].
Qed.

Lemma bit_test b k : 0 <= k -> (0 <? Z.land b (Z.shiftl 1 k)) = Z.testbit b k.
Proof.
  intros Hk. rewrite Z.shiftl_1_l, land_pow2 by lia.
  destruct (Z.testbit b k).
  - apply Z.ltb_lt. apply Z.pow_pos_nonneg; lia.
  - reflexivity.
Qed.

Lemma bv_get_byte bm i : 0 <= i ->
  bv_get bm i = Z.testbit (byte_at bm (Z.to_nat (i / 8))) (i mod 8).
Proof.
  intros Hi. unfold bv_get, byte_at.
  assert (Hm : 0 <= i mod 8) by (apply Z.mod_pos_bound; lia).
  destruct (nth_error bm (Z.to_nat (i / 8))) as [b|] eqn:E.
  - rewrite (nth_error_nth _ _ 0 E). now apply bit_test.
  - apply nth_error_None in E. rewrite nth_overflow by lia. now rewrite Z.bits_0.
Qed.

Lemma byte_at_set_slot : forall s bm bit s',
  byte_at (bv_set_slot bm s bit) s' =
  if Nat.eqb s s' then Z.lor (byte_at bm s) (Z.shiftl 1 bit) else byte_at bm s'.
Proof.
  unfold byte_at.
  induction s as [|s IH]; intros bm bit s'.
  - destruct bm as [|b r]; destruct s' as [|s']; cbn; try reflexivity.
    now destruct s'.
  - destruct bm as [|b r]; destruct s' as [|s']; cbn [bv_set_slot nth Nat.eqb]; try reflexivity.
    + rewrite IH. destruct (Nat.eqb s s'); [|now destruct s']. now destruct s.
    + apply IH.
Qed.

Lemma bv_get_set bm i j : 0 <= i -> 0 <= j ->
  bv_get (bv_set bm i) j = (i =? j) || bv_get bm j.
Proof.
  intros Hi Hj. rewrite !bv_get_byte by assumption. unfold bv_set.
  rewrite byte_at_set_slot.
  assert (Hmi : 0 <= i mod 8 < 8) by (apply Z.mod_pos_bound; lia).
  assert (Hmj : 0 <= j mod 8 < 8) by (apply Z.mod_pos_bound; lia).
  destruct (Nat.eqb_spec (Z.to_nat (i / 8)) (Z.to_nat (j / 8))) as [E|E].
  - assert (E' : i / 8 = j / 8).
    { apply Z2Nat.inj; [apply Z.div_pos; lia|apply Z.div_pos; lia|exact E]. }
    rewrite Z.lor_spec, Z.shiftl_1_l, Z.pow2_bits_eqb by lia. rewrite E.
    rewrite orb_comm. f_equal.
    destruct (Z.eqb_spec (i mod 8) (j mod 8)) as [M|M]; destruct (Z.eqb_spec i j) as [N|N]; try reflexivity.
    + exfalso. apply N. rewrite (Z.div_mod i 8), (Z.div_mod j 8) by lia. now rewrite E', M.
    + exfalso. apply M. now rewrite N.
  - destruct (Z.eqb_spec i j) as [N|N]; [|reflexivity].
    exfalso. apply E. now rewrite N.
Qed.

Lemma bv_get_nil i : bv_get [] i = false.
Proof. unfold bv_get. now destruct (Z.to_nat (i / 8)). Qed.

Lemma bv_get_set_run : forall count bm s j, 0 <= s -> 0 <= j ->
  bv_get (bv_set_run bm s count) j = ((s <=? j) && (j <? s + Z.of_nat count)) || bv_get bm j.
Proof.
  induction count as [|c IH]; intros bm s j Hs Hj.
  - cbn [bv_set_run]. change (Z.of_nat 0) with 0. destruct (bv_get bm j); zb.
  - cbn [bv_set_run]. rewrite IH by lia. rewrite bv_get_set by lia. rewrite Nat2Z.inj_succ.
    destruct (bv_get bm j); zb.
Qed.

Lemma byte_at_repeat x k s : byte_at (repeat x k) s = if Nat.ltb s k then x else 0.
Proof.
  unfold byte_at. revert s. induction k as [|k IH]; intros s.
  - now destruct s.
  - destruct s as [|s]; [reflexivity|]. cbn [repeat nth]. rewrite IH. reflexivity.
Qed.

Lemma bv_get_zeros k j : 0 <= j -> bv_get (repeat 0 k) j = false.
Proof.
  intros Hj. rewrite bv_get_byte by assumption. rewrite byte_at_repeat.
  destruct (Nat.ltb _ _); apply Z.bits_0.
Qed.

Lemma testbit_255 b : 0 <= b < 8 -> Z.testbit 255 b = true.
Proof.
  intros H. assert (C : b = 0 \/ b = 1 \/ b = 2 \/ b = 3 \/ b = 4 \/ b = 5 \/ b = 6 \/ b = 7) by lia.
  destruct C as [->|[->|[->|[->|[->|[->|[->| ->]]]]]]]; reflexivity.
Qed.

Lemma bv_get_ones k j : 0 <= j -> bv_get (repeat 255 k) j = (j <? 8 * Z.of_nat k).
Proof.
  intros Hj. rewrite bv_get_byte by assumption. rewrite byte_at_repeat.
  assert (Hm : 0 <= j mod 8 < 8) by (apply Z.mod_pos_bound; lia).
  assert (Hd : 0 <= j / 8) by (apply Z.div_pos; lia).
  assert (Hdm := Z.div_mod j 8).
  destruct (Nat.ltb_spec (Z.to_nat (j / 8)) k) as [L|L].
  - rewrite testbit_255 by assumption. symmetry. apply Z.ltb_lt. lia.
  - rewrite Z.bits_0. symmetry. apply Z.ltb_ge. lia.
Qed.

(* ---------------------------------------------------------------------------------------------- *)
(* masking cells *)

Section Mask.
Context {A : Type}.

Fixpoint mask_list (p : list Z) (i : Z) (dflt : A) (cs : list A) : list A :=
  match cs with
  | [] => []
  | c :: r => (if bv_get p i then c else dflt) :: mask_list p (i + 1) dflt r
  end.

Lemma mask_list_app p dflt : forall a b i,
  mask_list p i dflt (a ++ b) = mask_list p i dflt a ++ mask_list p (i + zlen a) dflt b.
Proof.
  induction a as [|x a IH]; intros b i.
  - cbn. f_equal. unfold zlen. cbn. lia.
  - cbn [app mask_list]. rewrite IH. cbn [app]. do 3 f_equal. rewrite zlen_cons. lia.
Qed.

Lemma mask_list_ext p q dflt : forall cs i,
  (forall j, i <= j < i + zlen cs -> bv_get p j = bv_get q j) ->
  mask_list p i dflt cs = mask_list q i dflt cs.
Proof.
  induction cs as [|c cs IH]; intros i H; [reflexivity|].
  cbn [mask_list]. rewrite (H i) by (rewrite zlen_cons; pose proof (zlen_nonneg cs); lia).
  f_equal. apply IH. intros j Hj. apply H. rewrite zlen_cons. lia.
Qed.

Lemma mask_list_all_set p dflt : forall cs i,
  (forall j, i <= j < i + zlen cs -> bv_get p j = true) -> mask_list p i dflt cs = cs.
Proof.
  induction cs as [|c cs IH]; intros i H; [reflexivity|].
  cbn [mask_list]. rewrite (H i) by (rewrite zlen_cons; pose proof (zlen_nonneg cs); lia).
  f_equal. apply IH. intros j Hj. apply H. rewrite zlen_cons. lia.
Qed.

Lemma mask_list_none_set p dflt : forall cs i,
  (forall j, i <= j < i + zlen cs -> bv_get p j = false) ->
  mask_list p i dflt cs = repeat dflt (length cs).
Proof.
  induction cs as [|c cs IH]; intros i H; [reflexivity|].
  cbn [mask_list length repeat]. rewrite (H i) by (rewrite zlen_cons; pose proof (zlen_nonneg cs); lia).
  f_equal. apply IH. intros j Hj. apply H. rewrite zlen_cons. lia.
Qed.

Lemma mask_list_length p dflt : forall cs i, length (mask_list p i dflt cs) = length cs.
Proof. induction cs as [|c cs IH]; intros i; cbn; [reflexivity|now rewrite IH]. Qed.

End Mask.

Lemma mask_list_map {A B} (f : A -> B) p da db : f da = db -> forall cs i,
  mask_list p i db (map f cs) = map f (mask_list p i da cs).
Proof.
  intros Hf. induction cs as [|c cs IH]; intros i; [reflexivity|].
  cbn [map mask_list]. rewrite IH. destruct (bv_get p i); [reflexivity|now rewrite Hf].
Qed.
