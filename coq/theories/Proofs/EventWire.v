From Coq Require Import NArith ZArith List Bool Lia.
From LV Require Import Model.Routing Proofs.Routing Model.EventBuf Model.EventWire.
Import ListNotations.

Lemma combine_fst_snd {A B} : forall l : list (A * B), combine (map fst l) (map snd l) = l.
Proof. induction l as [|[a b] r IH]; [reflexivity|]. cbn. rewrite IH. reflexivity. Qed.

(* every representation of a column survives the message unchanged *)
Lemma de_ser_data d : de_data (ser_data d) = d.
Proof. destruct d; cbn; try reflexivity; rewrite combine_fst_snd; reflexivity. Qed.

Lemma str_eqb_neq a b : a <> b -> str_eqb a b = false.
Proof.
  intros Hne. destruct (str_eqb a b) eqn:E; [|reflexivity].
  unfold str_eqb in E. destruct (lex_cmp a b) eqn:C; try discriminate.
  apply lex_cmp_eq in C. contradiction.
Qed.

Lemma aput_fresh {B} k (v : B) : forall l, ~ In k (map fst l) -> aput k v l = l ++ [(k, v)].
Proof.
  induction l as [|[k' v'] r IH]; intros Hn; [reflexivity|].
  cbn [aput]. rewrite str_eqb_neq.
  - cbn. f_equal. apply IH. intros Hin. apply Hn. right. exact Hin.
  - intros ->. apply Hn. left. reflexivity.
Qed.

Lemma de_cols_ser : forall (cols acc : list (str * coldata)),
  NoDup (map fst acc ++ map fst cols) ->
  de_cols (map (fun kd => (fst kd, ser_data (snd kd))) cols) acc = acc ++ cols.
Proof.
  induction cols as [|[k d] r IH]; intros acc HN; cbn [map de_cols].
  - rewrite app_nil_r. reflexivity.
  - cbn [fst snd]. rewrite de_ser_data. cbn [map fst] in HN.
    rewrite aput_fresh.
    + rewrite IH.
      * rewrite <- app_assoc. reflexivity.
      * rewrite map_app, <- app_assoc. cbn. exact HN.
    + intros Hin. apply NoDup_remove_2 in HN. apply HN. apply in_or_app. left. exact Hin.
Qed.

Definition cols_distinct (e : event_buf) : Prop := Forall (fun nt => NoDup (map fst (tb_cols (snd nt)))) e.

Lemma de_tables_ser : forall (e acc : event_buf),
  NoDup (map fst acc ++ map fst e) -> cols_distinct e ->
  de_tables (map ser_table e) acc = acc ++ e.
Proof.
  induction e as [|[n t] r IH]; intros acc HN HC; cbn [map de_tables].
  - rewrite app_nil_r. reflexivity.
  - inversion HC as [|? ? Ht Hr]; subst. cbn [ser_table tm_name tm_len tm_cols fst snd].
    rewrite (de_cols_ser (tb_cols t) []) by exact Ht. cbn [app].
    assert (Et : {| tb_len := tb_len t; tb_cols := tb_cols t |} = t) by (destruct t; reflexivity).
    rewrite Et. cbn [map fst] in HN.
    rewrite aput_fresh.
    + rewrite IH; [rewrite <- app_assoc; reflexivity | | exact Hr].
      rewrite map_app, <- app_assoc. cbn. exact HN.
    + intros Hin. apply NoDup_remove_2 in HN. apply HN. apply in_or_app. left. exact Hin.
Qed.

(* the message is lossless: a buffer whose tables have distinct names and whose columns have distinct
   names within a table -- they are HashMaps -- comes out of the reader exactly as it went into the
   writer: every table with its row count, every column in its representation, value for value *)
Theorem event_wire_roundtrip (e : event_buf) :
  NoDup (map fst e) -> cols_distinct e -> deserialize (serialize e) = e.
Proof. intros HN HC. unfold deserialize, serialize. rewrite (de_tables_ser e [] HN HC). reflexivity. Qed.

(* hand-built or foreign messages: sparse index / value lists of different lengths are cut to the shorter *)
Theorem de_sparse_truncates i v :
  de_data (MSparseF64 i v) = CSparse (combine i v) /\
  length (combine i v) = Nat.min (length i) (length v).
Proof. split; [reflexivity | apply combine_length]. Qed.

(* a repeated table or column name: the later entry replaces the earlier one *)
Fixpoint alookup {B} (k : str) (l : list (str * B)) : option B :=
  match l with
  | [] => None
  | (k', v) :: r => if str_eqb k k' then Some v else alookup k r
  end.

Lemma str_eqb_refl' a : str_eqb a a = true.
Proof. unfold str_eqb. rewrite lex_cmp_refl. reflexivity. Qed.

Theorem aput_lookup {B} k (v : B) : forall l, alookup k (aput k v l) = Some v.
Proof.
  induction l as [|[k' v'] r IH]; cbn [aput alookup].
  - rewrite str_eqb_refl'. reflexivity.
  - destruct (str_eqb k k') eqn:E; cbn [alookup].
    + rewrite str_eqb_refl'. reflexivity.
    + rewrite E. exact IH.
Qed.

Theorem aput_lookup_other {B} k k' (v : B) : k <> k' -> forall l, alookup k' (aput k v l) = alookup k' l.
Proof.
  intros Hne. assert (E0 : str_eqb k' k = false) by (apply str_eqb_neq; congruence).
  induction l as [|[k2 v2] r IH]; cbn [aput alookup].
  - rewrite E0. reflexivity.
  - destruct (str_eqb k k2) eqn:E; cbn [alookup].
    + unfold str_eqb in E. destruct (lex_cmp k k2) eqn:C; try discriminate.
      apply lex_cmp_eq in C. subst k2. rewrite E0. reflexivity.
    + destruct (str_eqb k' k2); [reflexivity | exact IH].
Qed.
