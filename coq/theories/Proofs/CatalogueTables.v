(* Catalogue, part 10: _meta_tables lists every table (other than itself) exactly once.
   Log level: [seg_ok2 pre full] - the _meta_tables rows of the buffer [full] name exactly the tables
   of the request that have no rows in [pre], client table first, then its catalogue table. *)
From Coq Require Import NArith ZArith List Bool Lia.
From LV Require Import Model.TableSM Model.Catalogue Model.WalSM
     Proofs.TableSM Proofs.WalSMBase Proofs.WalSM Proofs.WalSMLog Proofs.Catalogue
     Proofs.CatalogueLog Proofs.CatalogueInv Proofs.CatalogueFlush Proofs.CatalogueRecover
     Proofs.CatalogueMain.
Import ListNotations.
Open Scope N_scope.

Definition mt_row (r : row) : Prop := exists n, r = meta_tables_row n.

Definition tnames_of (rows : list row) : list name :=
  flat_map (fun r => match get r s_name with CStr s => [s] | _ => [] end) rows.

Lemma tnames_of_app : forall a b, tnames_of (a ++ b) = tnames_of a ++ tnames_of b.
Proof. intros. unfold tnames_of. apply flat_map_app. Qed.

Lemma get_name_mt_row : forall n, get (meta_tables_row n) s_name = CStr n.
Proof. intro n. reflexivity. Qed.

Lemma string_column_mt_rows : forall rows, Forall mt_row rows -> string_column s_name rows = Some (tnames_of rows).
Proof.
  induction rows as [|r rows IH]; intro H; [reflexivity|]. inversion H as [|? ? [n ->] H']; subst.
  cbn [string_column tnames_of flat_map]. rewrite get_name_mt_row, (IH H'). reflexivity.
Qed.

Lemma tnames_of_map : forall l, tnames_of (map meta_tables_row l) = l.
Proof.
  induction l as [|x l IH]; [reflexivity|]. cbn [map]. unfold tnames_of in *. cbn [flat_map].
  rewrite get_name_mt_row. cbn. f_equal. exact IH.
Qed.

Definition is_nil {A} (l : list A) : bool := match l with [] => true | _ => false end.

(* the tables a request creates, given which tables already have rows *)
Definition created_of (has_rows : name -> bool) (b : batch) : list name :=
  flat_map (fun tb => (if has_rows (tb_name tb) then [] else [tb_name tb]) ++
                      (if has_rows (meta_columns_of (tb_name tb)) then [] else [meta_columns_of (tb_name tb)])) b.

Definition log_has (log : list batch) (n : name) : bool := negb (is_nil (acked_rows log n)).

Definition seg_ok2 (pre : list batch) (full : batch) : Prop :=
  exists b extra,
    full = b ++ extra /\ wf_batch b /\ meta_named extra /\
    Forall mt_row (batch_rows s_meta_tables full) /\
    tnames_of (batch_rows s_meta_tables full) = created_of (log_has pre) b /\
    Forall (fun tb => tb_rows tb <> [] /\
                      (tb_name tb = s_meta_tables \/ exists t, In t (map tb_name b) /\ tb_name tb = meta_columns_of t)) extra.

Inductive log_ok2 : list batch -> Prop :=
| log_ok2_nil : log_ok2 []
| log_ok2_snoc : forall log full, log_ok2 log -> seg_ok2 log full -> log_ok2 (log ++ [full]).

Definition mt_names (log : list batch) : list name := tnames_of (acked_rows log s_meta_tables).

Lemma mt_rows_log : forall log, log_ok2 log -> Forall mt_row (acked_rows log s_meta_tables).
Proof.
  intros log H. induction H as [|log full H IH S]; [constructor|]. rewrite acked_rows_snoc.
  apply Forall_app. split; auto. destruct S as [b [extra [_ [_ [_ [Hm _]]]]]]. exact Hm.
Qed.

Lemma log_has_snoc : forall log full n, log_has (log ++ [full]) n = log_has log n || negb (is_nil (batch_rows n full)).
Proof.
  intros. unfold log_has. rewrite acked_rows_snoc. destruct (acked_rows log n); [reflexivity|reflexivity].
Qed.

Lemma in_created_of : forall h b n, In n (created_of h b) <->
  exists tb, In tb b /\ ((n = tb_name tb /\ h n = false) \/ (n = meta_columns_of (tb_name tb) /\ h n = false)).
Proof.
  intros h b n. unfold created_of. rewrite in_flat_map. split.
  - intros [tb [HI Hn]]. exists tb. split; auto. apply in_app_or in Hn. destruct Hn as [Hn|Hn].
    + destruct (h (tb_name tb)) eqn:E; [destruct Hn|]. destruct Hn as [<-|[]]. left. auto.
    + destruct (h (meta_columns_of (tb_name tb))) eqn:E; [destruct Hn|]. destruct Hn as [<-|[]]. right. auto.
  - intros [tb [HI [[-> Hh]|[-> Hh]]]]; exists tb; split; auto; apply in_or_app.
    + left. rewrite Hh. left. reflexivity.
    + right. rewrite Hh. left. reflexivity.
Qed.

Lemma created_of_nodup : forall h b, NoDup (map tb_name b) ->
  Forall (fun tb => user_table (tb_name tb) = true) b -> NoDup (created_of h b).
Proof.
  intros h b. unfold created_of. induction b as [|tb b IH]; intros ND Hu; [constructor|].
  inversion ND as [|? ? Hn ND']; subst. inversion Hu as [|? ? Hu1 Hu2]; subst. cbn [flat_map].
  assert (N1 : NoDup ((if h (tb_name tb) then [] else [tb_name tb]) ++
                      (if h (meta_columns_of (tb_name tb)) then [] else [meta_columns_of (tb_name tb)]))).
  { destruct (h (tb_name tb)); destruct (h (meta_columns_of (tb_name tb))); cbn [app].
    - constructor.
    - constructor; [intros []|constructor].
    - constructor; [intros []|constructor].
    - constructor; [|constructor; [intros []|constructor]].
      intros [E|[]]. rewrite <- E in Hu1. rewrite meta_columns_of_meta in Hu1. discriminate. }
  assert (D : forall x, In x ((if h (tb_name tb) then [] else [tb_name tb]) ++
                              (if h (meta_columns_of (tb_name tb)) then [] else [meta_columns_of (tb_name tb)])) ->
                        In x (created_of h b) -> False).
  { intros x Hx Hc. apply in_created_of in Hc. destruct Hc as [tb' [HI' Hc]].
    assert (Hu' : user_table (tb_name tb') = true) by (rewrite Forall_forall in Hu2; auto).
    assert (Hne : tb_name tb' <> tb_name tb) by (intro E; apply Hn; rewrite <- E; apply in_map; exact HI').
    apply in_app_or in Hx. destruct Hx as [Hx|Hx].
    - destruct (h (tb_name tb)); [destruct Hx|]. destruct Hx as [<-|[]].
      destruct Hc as [[E _]|[E _]]; [congruence|]. rewrite E, meta_columns_of_meta in Hu1. discriminate.
    - destruct (h (meta_columns_of (tb_name tb))); [destruct Hx|]. destruct Hx as [<-|[]].
      destruct Hc as [[E _]|[E _]].
      + rewrite <- E, meta_columns_of_meta in Hu'. discriminate.
      + apply meta_columns_of_inj in E. congruence. }
  fold (created_of h b) in *. specialize (IH ND' Hu2).
  revert N1 D. generalize ((if h (tb_name tb) then [] else [tb_name tb]) ++
                           (if h (meta_columns_of (tb_name tb)) then [] else [meta_columns_of (tb_name tb)])).
  intros l N1 D. induction l as [|x l IHl]; cbn [app]; auto. inversion N1; subst. constructor.
  - intro HI. apply in_app_or in HI. destruct HI as [HI|HI]; [contradiction|]. apply (D x); [left; reflexivity|exact HI].
  - apply IHl; auto. intros y Hy. apply D. right. exact Hy.
Qed.

(* a written buffer splits in exactly one way into client entries and catalogue entries *)
Lemma split_unique : forall (b1 extra1 b extra : batch),
  b1 ++ extra1 = b ++ extra ->
  Forall (fun tb => user_table (tb_name tb) = true) b1 -> Forall (fun tb => user_table (tb_name tb) = true) b ->
  meta_named extra1 -> meta_named extra -> b1 = b /\ extra1 = extra.
Proof.
  induction b1 as [|x b1 IH]; intros extra1 b extra E U1 U M1 M.
  - destruct b as [|y b]; [cbn in E; auto|]. cbn in E. subst extra1. exfalso.
    inversion U; subst. unfold meta_named in M1. inversion M1; subst. congruence.
  - destruct b as [|y b].
    + cbn in E. subst extra. exfalso. inversion U1; subst. unfold meta_named in M. inversion M; subst. congruence.
    + cbn in E. injection E as -> E. inversion U1; subst. inversion U; subst.
      destruct (IH _ _ _ E H2 H4 M1 M) as [-> ->]. auto.
Qed.

(* the tables with rows in the log, other than _meta_tables itself, are the ones listed - once *)
Lemma mt_names_exact : forall log, log_ok log -> log_ok2 log ->
  NoDup (mt_names log) /\
  forall n, In n (mt_names log) <-> (n <> s_meta_tables /\ log_has log n = true).
Proof.
  intros log H1 H2. revert H1. induction H2 as [|log full H2 IH S2]; intro H1.
  - split; [constructor|]. intro n. split; [intros []|intros [_ H]; discriminate].
  - assert (H1' : log_ok log) by (eapply log_ok_prefix; exact H1).
    assert (S1 : seg_ok log full).
    { remember (log ++ [full]) as x eqn:Ex. destruct H1 as [|l0 f0 Hl Sl]; [destruct log; discriminate|].
      apply app_inj_tail in Ex. destruct Ex as [-> ->]. exact Sl. }
    destruct (IH H1') as [ND Hex]. clear IH.
    destruct S2 as [b [extra [Ef [W [M [Hm [Hc Hx]]]]]]].
    unfold mt_names in *. rewrite acked_rows_snoc, tnames_of_app, Hc.
    (* membership in created_of, semantically *)
    assert (Hcr : forall n, In n (created_of (log_has log) b) <->
                  (n <> s_meta_tables /\ log_has log n = false /\ batch_rows n full <> [])).
    { intro n. rewrite in_created_of. split.
      - intros [tb [HI [[-> Hh]|[-> Hh]]]].
        + assert (Hu : user_table (tb_name tb) = true).
          { pose proof (wb_user _ W) as Hu. rewrite Forall_forall in Hu. auto. }
          split; [intro E; rewrite E in Hu; discriminate|]. split; auto.
          rewrite Ef, batch_rows_app. pose proof (wb_nonempty _ W) as Hne. rewrite Forall_forall in Hne.
          destruct (Hne _ HI) as [_ Hr]. pose proof (in_batch_rows _ _ HI Hr) as Hb.
          destruct (batch_rows (tb_name tb) b); [contradiction|discriminate].
        + assert (Hu : user_table (tb_name tb) = true).
          { pose proof (wb_user _ W) as Hu. rewrite Forall_forall in Hu. auto. }
          split; [intro E; symmetry in E; apply meta_tables_not_columns in E; exact E|]. split; auto.
          (* no catalogue rows before: every column of the entry is new, so rows are appended *)
          destruct S1 as [b1 [extra1 [Ef1 [W1 [M1 [_ Hs1]]]]]].
          assert (Eb : b1 = b /\ extra1 = extra).
          { rewrite Ef in Ef1. symmetry in Ef1.
            apply (split_unique _ _ _ _ Ef1 (wb_user _ W1) (wb_user _ W) M1 M). }
          destruct Eb as [-> ->]. destruct (Hs1 _ Hu) as [_ En].
          assert (Ef' : find_tb (tb_name tb) b = Some tb).
          { pose proof (wb_names _ W) as NDb. clear - NDb HI. unfold find_tb.
            induction b as [|y b IHb]; [destruct HI|]. inversion NDb as [|? ? Hn ND']; subst. cbn [find].
            destruct HI as [->|HI]; [rewrite name_eqb_refl; reflexivity|].
            destruct (name_eqb (tb_name y) (tb_name tb)) eqn:E.
            - apply name_eqb_eq in E. exfalso. apply Hn. rewrite E. apply in_map. exact HI.
            - apply IHb; auto. }
          rewrite Ef' in En.
          assert (Eln : log_names log (tb_name tb) = []).
          { unfold log_names. unfold log_has in Hh. destruct (acked_rows log (meta_columns_of (tb_name tb))); [reflexivity|discriminate]. }
          assert (Enew : new_names [] (tb_cols tb) = tb_cols tb).
          { unfold new_names. apply filter_all. intros; reflexivity. }
          rewrite Eln, Enew in En.
          pose proof (wb_nonempty _ W) as Hne. rewrite Forall_forall in Hne. destruct (Hne _ HI) as [Hcols _].
          intro E0. rewrite E0 in En. unfold names_of in En. cbn [flat_map] in En. symmetry in En. contradiction.
      - intros [Hnm [Hh Hr]]. rewrite Ef, batch_rows_app in Hr.
        destruct (user_table n) eqn:Hu.
        + (* a client table: its rows come from its entry *)
          rewrite (meta_named_rows _ _ M Hu), app_nil_r, (batch_rows_find _ _ (wb_names _ W)) in Hr.
          destruct (find_tb n b) as [tb|] eqn:Ef'; [|contradiction].
          destruct (find_tb_in _ _ _ Ef') as [HI Hn]. exists tb. split; [exact HI|]. left. split; [congruence|exact Hh].
        + (* a catalogue table of an entry *)
          pose proof (wb_user _ W) as Ub. rewrite (user_rows_nil _ _ Ub Hu) in Hr. cbn [app] in Hr.
          assert (Hent : exists tbx, In tbx extra /\ tb_name tbx = n).
          { clear - Hr. induction extra as [|y extra IHe]; [exfalso; apply Hr; reflexivity|].
            rewrite batch_rows_cons in Hr. destruct (name_eqb (tb_name y) n) eqn:E.
            - apply name_eqb_eq in E. exists y. split; [left; reflexivity|exact E].
            - cbn [app] in Hr. destruct (IHe Hr) as [z [Hz Ez]]. exists z. split; [right; exact Hz|exact Ez]. }
          destruct Hent as [tbx [Hx1 Hx2]]. rewrite Forall_forall in Hx. destruct (Hx _ Hx1) as [_ [Emt|[t [Ht Et]]]].
          * congruence.
          * apply in_map_iff in Ht. destruct Ht as [tb [<- HI]]. exists tb. split; auto. right.
            split; [congruence|exact Hh]. }
    split.
    + (* NoDup *)
      apply nodup_app_comm.
      assert (Nc : NoDup (created_of (log_has log) b)) by (apply created_of_nodup; [apply (wb_names _ W)|apply (wb_user _ W)]).
      assert (D : forall x, In x (created_of (log_has log) b) -> In x (tnames_of (acked_rows log s_meta_tables)) -> False).
      { intros x Hx1 Hx2. apply Hcr in Hx1. apply Hex in Hx2. destruct Hx1 as [_ [Hf _]], Hx2 as [_ Ht]. congruence. }
      revert Nc D. generalize (created_of (log_has log) b). intros l Nc D.
      induction l as [|x l IHl]; cbn [app]; auto. inversion Nc; subst. constructor.
      * intro HI. apply in_app_or in HI. destruct HI as [HI|HI]; [contradiction|]. apply (D x); [left; reflexivity|exact HI].
      * apply IHl; auto. intros y Hy. apply D. right. exact Hy.
    + intro n. rewrite in_app_iff, Hex, Hcr, log_has_snoc. split.
      * intros [[Hn Hh]|[Hn [Hh Hr]]]; split; auto.
        -- rewrite Hh. reflexivity.
        -- destruct (batch_rows n full); [contradiction|]. rewrite orb_true_r. reflexivity.
      * intros [Hn Hh]. destruct (log_has log n) eqn:E; [left; auto|]. right. split; auto. split; auto.
        cbn [orb] in Hh. destruct (batch_rows n full); [discriminate|discriminate].
Qed.
