(* Proofs about Model/QuerySpec.v: the canonical evaluator's answer passes the checker
   (soundness of [valid] with respect to [eval_query]), and the arithmetic of the specification is
   the engine's checked arithmetic. *)
From Coq Require Import ZArith NArith Arith List Bool Lia.
From LV Require Import Model.QuerySpecList Proofs.QuerySpecList Model.CheckedArith Proofs.CheckedArith
     Model.QuerySpec Model.SortKernels Proofs.SortKernels.
Import ListNotations.

(* ---- matching is reflexive ---------------------------------------------------------------------- *)

Lemma bytes_cmp_refl s : bytes_cmp s s = Eq.
Proof. induction s as [|x s IH]; cbn [bytes_cmp]; [reflexivity|]. rewrite N.compare_refl. exact IH. Qed.

Lemma val_cmp_refl v : val_cmp v v = Eq.
Proof.
  destruct v as [|z|b|s|b|]; cbn [val_cmp type_rank]; try apply Z.compare_refl; try apply bytes_cmp_refl.
Qed.

Lemma val_match_refl v : val_match v v = true.
Proof. destruct v; cbn [val_match]; unfold val_eqb; try rewrite val_cmp_refl; reflexivity. Qed.

Lemma row_match_refl r : row_match r r = true.
Proof. induction r as [|v r IH]; cbn [row_match]; [reflexivity|]. rewrite val_match_refl, IH. reflexivity. Qed.

(* ---- subsequences and the greedy sub-multiset test ---------------------------------------------- *)

Inductive subseq {A : Type} : list A -> list A -> Prop :=
| ss_nil : forall c, subseq [] c
| ss_take : forall a s c, subseq s c -> subseq (a :: s) (a :: c)
| ss_skip : forall a s c, subseq s c -> subseq s (a :: c).

Lemma subseq_refl {A} (c : list A) : subseq c c.
Proof. induction c; constructor; assumption. Qed.

Lemma subseq_tail {A} (a : A) s c : subseq (a :: s) c -> subseq s c.
Proof.
  intros H. remember (a :: s) as l eqn:E. revert a s E.
  induction H as [c|b s' c H IH|b s' c H IH]; intros a s E.
  - discriminate.
  - injection E as -> ->. apply ss_skip. exact H.
  - apply ss_skip. eapply IH. exact E.
Qed.

Lemma subseq_firstn {A} k (c : list A) : subseq (firstn k c) c.
Proof.
  revert k. induction c as [|a c IH]; intros k; [rewrite firstn_nil; constructor|].
  destruct k; cbn [firstn]; [constructor|apply ss_take; apply IH].
Qed.

Lemma subseq_skipn {A} k (c : list A) : subseq (skipn k c) c.
Proof.
  revert k. induction c as [|a c IH]; intros k; [rewrite skipn_nil; constructor|].
  destruct k; cbn [skipn]; [apply subseq_refl|apply ss_skip; apply IH].
Qed.

Lemma subseq_trans {A} (a b c : list A) : subseq a b -> subseq b c -> subseq a c.
Proof.
  intros Hab Hbc. revert a Hab. induction Hbc as [c|x s c H IH|x s c H IH]; intros a Hab.
  - inversion Hab; subst. constructor.
  - inversion Hab as [?|y s' c' H'|y s' c' H']; subst; [constructor|apply ss_take; apply IH; exact H'|apply ss_skip; apply IH; exact H'].
  - apply ss_skip. apply IH. exact Hab.
Qed.

Lemma remove_match_subseq a s c :
  subseq (a :: s) c -> exists c', remove_match a c = Some c' /\ subseq s c'.
Proof.
  revert s. induction c as [|e c IH]; intros s H; [inversion H|].
  cbn [remove_match]. destruct (row_match e a) eqn:M.
  - exists c. split; [reflexivity|]. inversion H as [?|? ? ? H'|? ? ? H']; subst; [exact H'|eapply subseq_tail; exact H'].
  - inversion H as [?|? ? ? H'|? ? ? H']; subst.
    + rewrite row_match_refl in M. discriminate.
    + destruct (IH s H') as (c' & E & S'). rewrite E. exists (e :: c'). split; [reflexivity|apply ss_skip; exact S'].
Qed.

Lemma sub_multiset_subseq seg : forall c, subseq seg c -> sub_multiset seg c = true.
Proof.
  induction seg as [|a seg IH]; intros c H; [reflexivity|].
  cbn [sub_multiset]. destruct (remove_match_subseq a seg c H) as (c' & E & S'). rewrite E. apply IH. exact S'.
Qed.

(* ---- the checker accepts the canonical window --------------------------------------------------- *)

Definition take_opt {A} (take : option nat) (l : list A) : list A :=
  match take with None => l | Some n => firstn n l end.

Lemma chk_exhausted classes : chk classes 0 (Some 0%nat) [] = true.
Proof.
  induction classes as [|c rest IH]; [reflexivity|]. cbn [chk].
  destruct (Nat.leb (length c) 0) eqn:E; [rewrite Nat.sub_0_l; exact IH|].
  rewrite Nat.min_0_r. rewrite qfirstn_eq, qskipn_eq. cbn [firstn skipn length sub_multiset Nat.eqb andb Nat.sub].
  exact IH.
Qed.

Lemma chk_canonical classes :
  forall skip take,
    chk classes skip take (take_opt take (skipn skip (concat classes))) = true.
Proof.
  induction classes as [|c rest IH]; intros skip take.
  - cbn [concat]. rewrite skipn_nil. destruct take as [n|]; cbn [take_opt]; [rewrite firstn_nil|]; reflexivity.
  - cbn [chk concat]. destruct (Nat.leb (length c) skip) eqn:E.
    + apply Nat.leb_le in E. rewrite skipn_app.
      replace (skipn skip c) with (@nil prow) by (symmetry; apply skipn_all2; exact E).
      cbn [app]. apply IH.
    + apply Nat.leb_gt in E.
      change (@qfirstn prow) with (@firstn prow). change (@qskipn prow) with (@skipn prow).
      rewrite skipn_app. replace (skip - length c)%nat with O by lia. cbn [skipn].
      set (tailc := skipn skip c). set (X := concat rest).
      assert (Ltail : length tailc = (length c - skip)%nat) by (unfold tailc; apply skipn_length).
      set (k := match take with None => (length c - skip)%nat | Some n => Nat.min (length c - skip) n end).
      set (out := take_opt take (tailc ++ X)).
      assert (Hk : (k <= length tailc)%nat) by (unfold k; destruct take; lia).
      (* the segment checked against this class *)
      assert (Hseg : firstn k out = firstn k tailc).
      { unfold out. destruct take as [n|]; cbn [take_opt].
        - rewrite firstn_firstn. replace (Nat.min k n) with k by (unfold k; lia).
          rewrite firstn_app. replace (k - length tailc)%nat with O by lia. cbn [firstn]. apply app_nil_r.
        - rewrite firstn_app. replace (k - length tailc)%nat with O by lia. cbn [firstn]. apply app_nil_r. }
      rewrite Hseg. rewrite firstn_length, (Nat.min_l _ _ Hk), Nat.eqb_refl. cbn [andb].
      rewrite (sub_multiset_subseq (firstn k tailc) c
                 (subseq_trans _ _ _ (subseq_firstn k tailc) (subseq_skipn skip c))).
      cbn [andb].
      (* what is left for the remaining classes *)
      unfold out. destruct take as [n|]; cbn [take_opt].
      * rewrite skipn_firstn_comm, skipn_app.
        destruct (Nat.le_gt_cases (length c - skip) n) as [Hle|Hgt].
        -- assert (Ek : k = length tailc) by (unfold k; lia).
           replace (skipn k tailc) with (@nil prow) by (symmetry; apply skipn_all2; lia).
           replace (k - length tailc)%nat with O by lia. cbn [skipn app].
           specialize (IH O (Some (n - k)%nat)). cbn [skipn take_opt] in IH. exact IH.
        -- assert (Ek : k = n) by (unfold k; lia).
           replace (n - k)%nat with O by lia. cbn [firstn]. apply chk_exhausted.
      * assert (Ek : k = length tailc) by (unfold k; lia).
        rewrite skipn_app. replace (skipn k tailc) with (@nil prow) by (symmetry; apply skipn_all2; lia).
        replace (k - length tailc)%nat with O by lia. cbn [skipn app].
        specialize (IH O None). cbn [skipn take_opt] in IH. exact IH.
Qed.

Lemma total_rows_concat classes : total_rows classes = length (concat classes).
Proof.
  unfold total_rows. rewrite qfold_left_eq.
  assert (G : forall n, fold_left (fun (m : nat) (c : list prow) => (m + length c)%nat) classes n
                        = (n + length (concat classes))%nat).
  { induction classes as [|c rest IH]; intros n; cbn [fold_left concat length]; [lia|].
    rewrite IH, app_length. lia. }
  rewrite G. reflexivity.
Qed.

(* soundness of the checker: the canonical answer is valid *)
Theorem valid_eval_rows q t classes :
  eval_classes q t = Ok classes ->
  valid q t (ORows (window (q_offset q) (q_limit q) (qconcat classes))) = true.
Proof.
  intros E. unfold valid. rewrite E. rewrite total_rows_concat.
  unfold window, off_nat, lim_nat.
  change (@qconcat prow) with (@concat prow). change (@qskipn prow) with (@skipn prow).
  change (@qfirstn prow) with (@firstn prow).
  set (l := concat classes). set (off := N.to_nat (N.min (q_offset q) (N.of_nat (length l)))).
  destruct (q_limit q) as [lim|].
  - assert (Hw : firstn (N.to_nat (N.min lim (N.of_nat (length (skipn off l))))) (skipn off l)
                 = firstn (N.to_nat (N.min lim (N.of_nat (length l)))) (skipn off l)).
    { rewrite skipn_length.
      destruct (N.le_gt_cases lim (N.of_nat (length l - off))) as [H|H].
      - rewrite (N.min_l _ _ H). rewrite N.min_l by lia. reflexivity.
      - rewrite N.min_r by lia. rewrite Nnat.Nat2N.id.
        rewrite !firstn_all2; [reflexivity| |]; rewrite skipn_length; lia. }
    rewrite Hw. exact (chk_canonical classes off (Some (N.to_nat (N.min lim (N.of_nat (length l)))))).
  - exact (chk_canonical classes off None).
Qed.

Corollary valid_eval_query q t :
  (exists rows, eval_query q t = ORows rows) -> valid q t (eval_query q t) = true.
Proof.
  intros [rows E]. unfold eval_query in *. destruct (eval_classes q t) as [classes| |] eqn:Ec; try discriminate.
  apply valid_eval_rows. exact Ec.
Qed.

(* ---- the specification's arithmetic is the engine's checked arithmetic -------------------------- *)

Lemma spec_arith_matches_kernel op a b :
  in_i64 a = true -> in_i64 b = true ->
  match perform_checked op a b with
  | RVal v false => spec_arith op a b = EVal (VInt v)
  | RVal _ true => spec_arith op a b = EOverflow
  end.
Proof.
  intros Ha Hb. destruct (perform_checked op a b) as [v o] eqn:P.
  destruct o.
  - destruct (perform_checked_flag op a b v Ha Hb P) as [H|[[z [H Hz]]|[-> [-> ->]]]]; unfold spec_arith.
    + rewrite H. reflexivity.
    + rewrite H, Hz. reflexivity.
    + reflexivity.
  - destruct (perform_checked_exact op a b v Ha Hb P) as [H Hv]. unfold spec_arith. rewrite H, Hv.
    destruct op; try reflexivity. cbn [andb negb].
    unfold perform_checked in P.
    destruct ((b =? 0)%Z || ((a <=? - i64_max)%Z && (b =? -1)%Z)) eqn:G; [discriminate|].
    apply orb_false_iff in G as [_ G]. rewrite G. reflexivity.
Qed.

(* ---- the engine's final slice is the specification's LIMIT / OFFSET window ------------------------ *)

Lemma window_some_spec {A} (off lim : N) (l : list A) :
  window off (Some lim) l = firstn (N.to_nat lim) (skipn (N.to_nat off) l).
Proof.
  unfold window. change (@qfirstn A) with (@firstn A). change (@qskipn A) with (@skipn A).
  assert (Hs : skipn (N.to_nat (N.min off (N.of_nat (length l)))) l = skipn (N.to_nat off) l).
  { destruct (N.le_gt_cases off (N.of_nat (length l))) as [H|H].
    - rewrite (N.min_l _ _ H). reflexivity.
    - rewrite N.min_r by lia. rewrite Nnat.Nat2N.id.
      replace (skipn (length l) l) with (@nil A) by (symmetry; apply skipn_all2; lia).
      symmetry. apply skipn_all2. lia. }
  rewrite Hs. set (rest := skipn (N.to_nat off) l).
  destruct (N.le_gt_cases lim (N.of_nat (length rest))) as [H|H].
  - rewrite (N.min_l _ _ H). reflexivity.
  - rewrite N.min_r by lia. rewrite Nnat.Nat2N.id. rewrite !firstn_all2; [reflexivity|lia|lia].
Qed.

Theorem final_slice_is_window {A} (lim off : N) (rows : list A) :
  final_slice lim off rows = window off (Some lim) rows.
Proof. rewrite final_slice_spec, window_some_spec. reflexivity. Qed.

(* no LIMIT clause is LIMIT u64::MAX in the engine: the same window as "no limit" for any list whose
   length fits in u64 *)
Lemma window_none_is_big_limit {A} (off lim : N) (l : list A) :
  (N.of_nat (length l) <= lim)%N -> window off (Some lim) l = window off None l.
Proof.
  intros H. unfold window. change (@qfirstn A) with (@firstn A). change (@qskipn A) with (@skipn A).
  set (rest := skipn (N.to_nat (N.min off (N.of_nat (length l)))) l).
  assert (Hr : (N.of_nat (length rest) <= lim)%N) by (unfold rest; rewrite skipn_length; lia).
  rewrite N.min_r by exact Hr. rewrite Nnat.Nat2N.id. apply firstn_all.
Qed.
