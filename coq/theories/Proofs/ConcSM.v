(* C10 — every step of every role preserves the invariant; hence it holds after every schedule. *)
From Coq Require Import NArith List Bool Arith Lia.
From LV Require Import Model.ConcSM Proofs.ConcSMBase Proofs.ConcSMData.
Import ListNotations.

Lemma holds_step_ext lo (h1 h2 h' : lk -> bool) :
  (forall k, h1 k = h2 k) -> holds_step lo h1 h' -> holds_step lo h2 h'.
Proof.
  intros E. destruct lo as [|k0|k0]; simpl.
  - intros H k. rewrite <- E. apply H.
  - intros (A & B & C). repeat split; [rewrite <- E; exact A|exact B|]. intros k Hk. rewrite <- E. apply C. exact Hk.
  - intros (A & B). split; [exact A|]. intros k Hk. rewrite <- E. apply B. exact Hk.
Qed.

(* ---------------------------------------------------------------------------------------------- *)
(* LockInv                                                                                          *)

Lemma lockinv_TI st n a st' : LockInv st -> step (TI n) a st = Some st' -> LockInv st'.
Proof.
  intros LI H. destruct (step_TI _ _ _ _ H) as (p & lo & p' & d' & Hn & Htr & Hal & Hd & Hi & Hf & Hq).
  apply (lockinv_step st st' (TI n) lo (i_holds p')); auto.
  - apply (holds_step_ext lo (i_holds p)).
    + intro k. simpl. rewrite Hn. reflexivity.
    + eapply itrans_holds; eauto.
  - intro k. simpl. rewrite Hi, nth_error_upd_same by (eapply nth_error_lt; eauto). reflexivity.
  - intros [m| |m] k N; simpl.
    + rewrite Hi, nth_error_upd_other by congruence. reflexivity.
    + rewrite Hf. reflexivity.
    + rewrite Hq. reflexivity.
Qed.

Lemma lockinv_TQ st n a st' : LockInv st -> step (TQ n) a st = Some st' -> LockInv st'.
Proof.
  intros LI H. destruct (step_TQ _ _ _ _ H) as (p & lo & p' & d' & Hn & Htr & Hal & Hd & Hq & Hf & Hi).
  apply (lockinv_step st st' (TQ n) lo (q_holds p')); auto.
  - apply (holds_step_ext lo (q_holds p)).
    + intro k. simpl. rewrite Hn. reflexivity.
    + eapply qtrans_holds; eauto.
  - intro k. simpl. rewrite Hq, nth_error_upd_same by (eapply nth_error_lt; eauto). reflexivity.
  - intros [m| |m] k N; simpl.
    + rewrite Hi. reflexivity.
    + rewrite Hf. reflexivity.
    + rewrite Hq, nth_error_upd_other by congruence. reflexivity.
Qed.

Lemma lockinv_TF st a st' : LockInv st -> step TF a st = Some st' -> fl st' <> F_panic -> LockInv st'.
Proof.
  intros LI H NP. destruct (step_TF _ _ _ H) as (lo & p' & d' & Htr & Hal & Hd & Hf & Hi & Hq).
  apply (lockinv_step st st' TF lo (f_holds p')); auto.
  - simpl. eapply ftrans_holds; eauto. congruence.
  - intro k. simpl. rewrite Hf. reflexivity.
  - intros [m| |m] k N; simpl.
    + rewrite Hi. reflexivity.
    + congruence.
    + rewrite Hq. reflexivity.
Qed.

(* two threads cannot both be at program counters that hold the same mutex *)
Lemma mutex_excl st t1 t2 k :
  LockInv st -> ExclInv (lks st) -> is_mutex k = true ->
  t_holds st t1 k = true -> t_holds st t2 k = true -> t1 = t2.
Proof.
  intros LI (M & _) Mk H1 H2. apply (M k Mk); apply LI; assumption.
Qed.

(* ---------------------------------------------------------------------------------------------- *)
(* DInv: ingester steps                                                                             *)

Lemma flinv_parts fp d d' : parts d' = parts d -> FlInv fp d -> FlInv fp d'.
Proof. intros E. destruct fp; simpl; rewrite ?E; auto. Qed.

Lemma dinv_TI st n a st' : Inv st -> step (TI n) a st = Some st' -> DInv (dat st') (fl st') (ing st') (qs st').
Proof.
  intros (LI & EI & DI) H.
  destruct (step_TI _ _ _ _ H) as (p & lo & p' & d' & Hn & Htr & Hal & Hd & Hi & Hf & Hq).
  rewrite Hd, Hi, Hf, Hq. clear Hd Hf Hq.
  assert (Hlt : n < length (ing st)) by (eapply nth_error_lt; eauto).
  destruct DI as [d_log d_ack d_iack d_frozen d_nodup d_fresh d_pend d_swaps d_fl d_q].
  destruct p, a; simpl in Htr; try discriminate; injection Htr as <- <- <-.
  - (* AIStart *)
    constructor; auto. intros m q Hm Pq.
    destruct (Nat.eq_dec n m) as [<-|N].
    + rewrite nth_error_upd_same in Hm by exact Hlt. injection Hm as <-. discriminate.
    + rewrite nth_error_upd_other in Hm by exact N. eauto.
  - (* AILockBuf *)
    constructor; auto. intros m q Hm Pq.
    destruct (Nat.eq_dec n m) as [<-|N].
    + rewrite nth_error_upd_same in Hm by exact Hlt. injection Hm as <-. discriminate.
    + rewrite nth_error_upd_other in Hm by exact N. eauto.
  - (* AIPush *)
    constructor; simpl.
    + rewrite <- d_log. rewrite !app_assoc. reflexivity.
    + rewrite app_length. simpl. lia.
    + intros. rewrite app_length. simpl. lia.
    + exact d_frozen.
    + exact d_nodup.
    + exact d_fresh.
    + exact d_pend.
    + exact d_swaps.
    + eapply flinv_parts; [|exact d_fl]. reflexivity.
    + intros m q Hm. specialize (d_q m q Hm). eapply qinv_ext; eauto; simpl; eauto.
  - (* AIUnlockBuf *)
    constructor; auto. intros m q Hm Pq.
    destruct (Nat.eq_dec n m) as [<-|N].
    + eapply (d_iack n I_pushed_l); [exact Hn|reflexivity].
    + rewrite nth_error_upd_other in Hm by exact N. eauto.
  - (* AIAck *)
    assert (Hack : acked (dat st) < length (log (dat st))) by (eapply (d_iack n I_pushed); [exact Hn|reflexivity]).
    constructor; simpl.
    + exact d_log.
    + lia.
    + intros m q Hm Pq. exfalso.
      destruct (Nat.eq_dec n m) as [<-|N].
      * rewrite nth_error_upd_same in Hm by exact Hlt. injection Hm as <-. discriminate.
      * rewrite nth_error_upd_other in Hm by exact N.
        assert (E : TI n = TI m).
        { apply (mutex_excl st (TI n) (TI m) KWal LI EI); [reflexivity| |].
          - simpl. rewrite Hn. reflexivity.
          - simpl. rewrite Hm. destruct q; simpl in Pq; try discriminate; reflexivity. }
        congruence.
    + exact d_frozen.
    + exact d_nodup.
    + exact d_fresh.
    + exact d_pend.
    + exact d_swaps.
    + eapply flinv_parts; [|exact d_fl]. reflexivity.
    + intros m q Hm. specialize (d_q m q Hm). eapply qinv_ext; eauto; simpl; eauto.
      exists []. rewrite app_nil_r. reflexivity.
Qed.

(* ---------------------------------------------------------------------------------------------- *)
(* DInv: querier steps                                                                              *)

Lemma f_taken_frozen fp : f_holds fp KFrozen = false -> f_taken fp = [].
Proof. destruct fp; simpl; intro H; try reflexivity; discriminate. Qed.

Lemma dinv_ql d fp il ql ql' :
  DInv d fp il ql -> (forall m q, nth_error ql' m = Some q -> QInv q fp d) -> DInv d fp il ql'.
Proof. intros [] H. constructor; assumption. Qed.

Lemma dinv_TQ st n a st' : Inv st -> step (TQ n) a st = Some st' -> DInv (dat st') (fl st') (ing st') (qs st').
Proof.
  intros (LI & EI & DI) H.
  destruct (step_TQ _ _ _ _ H) as (p & lo & p' & d' & Hn & Htr & Hal & Hd & Hq & Hf & Hi).
  rewrite Hd, Hi, Hf, Hq. clear Hd Hf Hq Hi.
  assert (Hlt : n < length (qs st)) by (eapply nth_error_lt; eauto).
  assert (HQ : QInv p (fl st) (dat st)) by (eapply di_q; eauto).
  assert (G : forall p0, d' = dat st -> QInv p0 (fl st) (dat st) ->
              DInv d' (fl st) (ing st) (upd n p0 (qs st))).
  { intros p0 -> HQ0. eapply dinv_ql; [exact DI|]. intros m q Hm.
    destruct (Nat.eq_dec n m) as [<-|N].
    - rewrite nth_error_upd_same in Hm by exact Hlt. injection Hm as <-. exact HQ0.
    - rewrite nth_error_upd_other in Hm by exact N. eapply di_q; eauto. }
  destruct p, a; simpl in Htr; try discriminate; injection Htr as <- <- <-;
    try (apply G; [reflexivity|simpl in *; auto; lia]).
  (* AQCopy *)
  apply G; [reflexivity|]. simpl.
  assert (NF : f_holds (fl st) KFrozen = false).
  { destruct (f_holds (fl st) KFrozen) eqn:E; [|reflexivity]. exfalso.
    assert (X : TQ n = TF).
    { apply (mutex_excl st (TQ n) TF KFrozen LI EI); [reflexivity| |exact E].
      simpl. rewrite Hn. reflexivity. }
    discriminate. }
  destruct DI as [d_log d_ack d_iack d_frozen d_nodup d_fresh d_pend d_swaps d_fl d_q].
  rewrite (f_taken_frozen _ NF) in d_log. simpl in d_log.
  repeat split; simpl.
  - exists (length (log (dat st))). repeat split; [simpl in HQ; lia|lia|].
    rewrite firstn_all. exact d_log.
  - apply d_fresh.
  - intros i Hi. apply (d_pend i Hi).
  - intros olds m Hin _ o Ho. apply (d_swaps olds m Hin o Ho).
Qed.

(* ---------------------------------------------------------------------------------------------- *)
(* DInv: flusher steps that change the data                                                         *)

Ltac qext H :=
  let m := fresh "m" in let q := fresh "q" in let Hm := fresh "Hm" in
  intros m q Hm; eapply qinv_ext;
  [exact (H m q Hm)|simpl; lia|exists []; simpl; rewrite app_nil_r; reflexivity|simpl; lia| | ].

(* freeze_buffer: the swap *)
Lemma dinv_swapbuf d il ql :
  DInv d F_fz2 il ql -> fbuf d = [] ->
  DInv (mkData (log d) (acked d) (fbuf d) (obuf d) (parts d) (next_pid d) (swaps d)) F_fz3 il ql.
Proof.
  intros [] E. constructor; simpl.
  - simpl in di_log. rewrite E in *. simpl in *. rewrite app_nil_r. exact di_log.
  - exact di_ack.
  - exact di_iack.
  - discriminate.
  - exact di_nodup.
  - exact di_fresh.
  - discriminate.
  - exact di_swaps.
  - exact I.
  - qext di_q.
    + simpl. discriminate.
    + left. reflexivity.
Qed.

(* batch: the frozen rows are taken out and a partition id is allocated *)
Lemma dinv_take d il ql :
  DInv d F_b1 il ql ->
  DInv (mkData (log d) (acked d) (obuf d) [] (parts d) (S (next_pid d)) (swaps d))
       (F_b2 (fbuf d) (next_pid d)) il ql.
Proof.
  intros []. constructor; simpl.
  - simpl in di_log. exact di_log.
  - exact di_ack.
  - exact di_iack.
  - reflexivity.
  - exact di_nodup.
  - intros i Hi. specialize (di_fresh i Hi). lia.
  - intros i Hi. injection Hi as <-. repeat split.
    + lia.
    + intro I. specialize (di_fresh _ I). lia.
    + intros olds n Hin I. destruct (di_swaps olds n Hin _ I). lia.
  - intros olds n Hin o Ho. destruct (di_swaps olds n Hin o Ho). split; [lia|assumption].
  - exact I.
  - qext di_q.
    + simpl. intros i Hi. injection Hi as <-. right. lia.
    + left. reflexivity.
Qed.

(* batch: the new partition is registered *)
Lemma dinv_insert d tk i il ql :
  DInv d (F_b3 tk i) il ql ->
  DInv (mkData (log d) (acked d) (obuf d) (fbuf d) (parts d ++ [(i, tk)]) (next_pid d) (swaps d)) F_b4 il ql.
Proof.
  intros []. destruct (di_pend i eq_refl) as (P1 & P2 & P3).
  constructor; simpl.
  - simpl in di_log. rewrite part_batches_app, part_batches_single, <- app_assoc. exact di_log.
  - exact di_ack.
  - exact di_iack.
  - intros _. apply di_frozen. reflexivity.
  - unfold ids in *. simpl. rewrite map_app. simpl. apply NoDup_snoc; assumption.
  - unfold ids in *. simpl. rewrite map_app. simpl. intros j Hj. apply in_app_or in Hj.
    destruct Hj as [Hj|[<-|[]]]; [apply di_fresh; exact Hj|exact P1].
  - discriminate.
  - unfold ids in *. simpl. rewrite map_app. simpl. intros olds n Hin o Ho.
    destruct (di_swaps olds n Hin o Ho) as (S1 & S2). split; [exact S1|].
    intro I. apply in_app_or in I. destruct I as [I|[<-|[]]]; [tauto|]. exact (P3 olds n Hin Ho).
  - exact I.
  - qext di_q.
    + simpl. discriminate.
    + left. reflexivity.
Qed.

(* plan_compaction selected the suffix starting at i; flush_table_buffer allocated the new id *)
Lemma dinv_plan d i il ql :
  DInv d F_p1 il ql ->
  DInv (mkData (log d) (acked d) (obuf d) (fbuf d) (parts d) (S (next_pid d)) (swaps d))
       (F_c0 (map fst (skipn i (parts d))) (next_pid d)) il ql.
Proof.
  intros []. constructor; simpl.
  - simpl in di_log. exact di_log.
  - exact di_ack.
  - exact di_iack.
  - intros _. apply di_frozen. reflexivity.
  - exact di_nodup.
  - intros j Hj. specialize (di_fresh j Hj). lia.
  - intros j Hj. injection Hj as <-. repeat split.
    + lia.
    + intro I. specialize (di_fresh _ I). lia.
    + intros olds n Hin I. destruct (di_swaps olds n Hin _ I). lia.
  - intros olds n Hin o Ho. destruct (di_swaps olds n Hin o Ho). split; [lia|assumption].
  - exists i. reflexivity.
  - qext di_q.
    + simpl. intros j Hj. injection Hj as <-. right. lia.
    + left. reflexivity.
Qed.

(* snapshot_parts finds every planned partition *)
Lemma lookup_planned d olds n il ql :
  DInv d (F_cr olds n) il ql ->
  exists i, olds = map fst (skipn i (parts d)) /\
            lookup_all olds (parts d) = Some (part_batches (skipn i (parts d))).
Proof.
  intros []. simpl in di_fl. destruct di_fl as [i E]. exists i. split; [exact E|].
  rewrite E. apply lookup_all_incl; [exact di_nodup|apply incl_skipn].
Qed.

(* Table::compact: the swap *)
Lemma dinv_cswap d olds n m il ql :
  DInv d (F_c1 olds n m) il ql ->
  DInv (mkData (log d) (acked d) (obuf d) (fbuf d)
               (filter (fun p => negb (mem_nat (fst p) olds)) (parts d) ++ [(n, m)])
               (next_pid d) ((olds, n) :: swaps d)) F_c2 il ql.
Proof.
  intros []. destruct (di_pend n eq_refl) as (P1 & P2 & P3).
  simpl in di_fl. destruct di_fl as (i & Eo & Em).
  destruct d as [lg ak ob fb ps np sw]. unfold ids in *. simpl in *.
  remember (firstn i ps) as a eqn:Ea. remember (skipn i ps) as b eqn:Eb.
  assert (Eab : ps = a ++ b) by (subst a b; symmetry; apply firstn_skipn).
  assert (Ef : filter (fun p => negb (mem_nat (fst p) olds)) ps = a).
  { rewrite Eo, Eab. apply filter_not_suffix. rewrite <- Eab. exact di_nodup. }
  rewrite Ef. clear Ef.
  assert (NDab : NoDup (map fst a ++ map fst b)) by (rewrite <- map_app, <- Eab; exact di_nodup).
  assert (Hids : forall x, In x (map fst ps) <-> In x (map fst a) \/ In x (map fst b)).
  { intro x. rewrite Eab, map_app, in_app_iff. tauto. }
  constructor; simpl.
  - rewrite part_batches_app, part_batches_single, Em. rewrite <- di_log, Eab, part_batches_app.
    rewrite <- !app_assoc. reflexivity.
  - exact di_ack.
  - exact di_iack.
  - intros _. apply di_frozen. reflexivity.
  - unfold ids. simpl. rewrite map_app. simpl. apply NoDup_snoc.
    + eapply NoDup_app_l. exact NDab.
    + intro I. apply P2. apply Hids. left. exact I.
  - unfold ids. simpl. rewrite map_app. simpl. intros j Hj. apply in_app_or in Hj.
    destruct Hj as [Hj|[<-|[]]]; [|exact P1]. apply di_fresh. apply Hids. left. exact Hj.
  - discriminate.
  - unfold ids. simpl. rewrite map_app. simpl. intros olds0 n0 [Hin|Hin] o Ho.
    + injection Hin as <- <-. subst olds. split.
      * apply di_fresh. apply Hids. right. exact Ho.
      * intro I. apply in_app_or in I. destruct I as [I|[<-|[]]].
        -- exact (NoDup_app_disj _ _ _ NDab I Ho).
        -- apply P2. apply Hids. right. exact Ho.
    + destruct (di_swaps olds0 n0 Hin o Ho) as (S1 & S2). split; [exact S1|].
      intro I. apply in_app_or in I. destruct I as [I|[<-|[]]].
      * apply S2. apply Hids. left. exact I.
      * exact (P3 olds0 n0 Hin Ho).
  - exact I.
  - qext di_q.
    + simpl. discriminate.
    + right. exists olds, n. split; reflexivity.
Qed.

(* ---------------------------------------------------------------------------------------------- *)
(* DInv: all flusher steps                                                                          *)

Lemma dinv_TF st a st' : Inv st -> step TF a st = Some st' -> DInv (dat st') (fl st') (ing st') (qs st').
Proof.
  intros (LI & EI & DI) H.
  destruct (step_TF _ _ _ H) as (lo & p' & d' & Htr & Hal & Hd & Hf & Hi & Hq).
  rewrite Hd, Hf, Hi, Hq. clear Hd Hf Hi Hq H Hal.
  remember (fl st) as fp eqn:Efp. remember (dat st) as d eqn:Ed. clear Efp Ed.
  destruct fp, a; simpl in Htr; try discriminate;
    try (injection Htr as <- <- <-; apply (dinv_fl_pc _ _ _ _ _ DI); simpl;
         [reflexivity|reflexivity
         |first [discriminate | intros _; apply (di_frozen _ _ _ _ DI); reflexivity]
         |first [exact I | exact (di_fl _ _ _ _ DI)]]; fail).
  - (* F_fz2, AFzSwap *)
    destruct (is_nil (fbuf d)) eqn:E.
    + injection Htr as <- <- <-. apply dinv_swapbuf; [exact DI|]. apply is_nil_true. exact E.
    + exfalso. rewrite (di_frozen _ _ _ _ DI eq_refl) in E. discriminate.
  - (* F_b1, ABTake *)
    destruct (is_nil (fbuf d)) eqn:E.
    + injection Htr as <- <- <-. apply (dinv_fl_pc _ _ _ _ _ DI); simpl; auto.
      intros _. apply is_nil_true. exact E.
    + injection Htr as <- <- <-. apply dinv_take. exact DI.
  - (* F_b3, ABInsert *)
    injection Htr as <- <- <-. apply dinv_insert. exact DI.
  - (* F_p1, APlan *)
    destruct choice as [i|].
    + destruct (Nat.ltb i (length (parts d))); [|discriminate].
      injection Htr as <- <- <-. apply dinv_plan. exact DI.
    + injection Htr as <- <- <-. apply (dinv_fl_pc _ _ _ _ _ DI); simpl; auto.
      intros _. apply (di_frozen _ _ _ _ DI). reflexivity.
  - (* F_cr, ACReadDone *)
    destruct (lookup_planned _ _ _ _ _ DI) as (i & Eo & El). rewrite El in Htr.
    injection Htr as <- <- <-. apply (dinv_fl_pc _ _ _ _ _ DI); simpl; auto.
    + intros _. apply (di_frozen _ _ _ _ DI). reflexivity.
    + exists i. split; [exact Eo|reflexivity].
  - (* F_c1, ACSwap *)
    injection Htr as <- <- <-. apply dinv_cswap. exact DI.
Qed.

(* ---------------------------------------------------------------------------------------------- *)
(* the invariant is inductive                                                                       *)

Lemma inv_init ni nq : Inv (init ni nq).
Proof.
  split; [|split].
  - intros t k. split.
    + destruct k; simpl; intros [].
    + intro H. exfalso. destruct t as [n| |n]; simpl in H.
      * destruct (nth_error (repeat I_idle ni) n) eqn:E; [|discriminate].
        apply nth_error_In, repeat_spec in E. subst. destruct k; discriminate.
      * destruct k; discriminate.
      * destruct (nth_error (repeat Q_idle nq) n) eqn:E; [|discriminate].
        apply nth_error_In, repeat_spec in E. subst. destruct k; discriminate.
  - split; [|split]; simpl.
    + intros k _ t1 t2 I1. destruct k; destruct I1.
    + intros t1 t2 [].
    + reflexivity.
  - constructor; simpl; auto; try discriminate.
    + intros n p E Hp. apply nth_error_In, repeat_spec in E. subst. discriminate Hp.
    + constructor.
    + intros i [].
    + intros olds n [].
    + intros n p E. apply nth_error_In, repeat_spec in E. subst. exact I.
Qed.

Lemma inv_step st t a st' : Inv st -> step t a st = Some st' -> Inv st'.
Proof.
  intros HI H. assert (HI' := HI). destruct HI' as (LI & EI & DI).
  destruct t as [n| |n].
  - split; [eapply lockinv_TI; eauto|split; [|eapply dinv_TI; eauto]].
    destruct (step_TI _ _ _ _ H) as (p & lo & p' & d' & _ & _ & Hal & _). eapply exclinv_step; eauto.
  - assert (D' := dinv_TF _ _ _ HI H).
    split; [eapply lockinv_TF; eauto|split; [|exact D']].
    + intro E. apply di_fl in D'. rewrite E in D'. exact D'.
    + destruct (step_TF _ _ _ H) as (lo & p' & d' & _ & Hal & _). eapply exclinv_step; eauto.
  - split; [eapply lockinv_TQ; eauto|split; [|eapply dinv_TQ; eauto]].
    destruct (step_TQ _ _ _ _ H) as (p & lo & p' & d' & _ & _ & Hal & _). eapply exclinv_step; eauto.
Qed.

Lemma inv_run sched : forall st st', Inv st -> run sched st = Some st' -> Inv st'.
Proof.
  induction sched as [|[t a] r IH]; simpl; intros st st' HI H.
  - injection H as <-. exact HI.
  - destruct (step t a st) as [st1|] eqn:E; [|discriminate].
    eapply IH; [|exact H]. eapply inv_step; eauto.
Qed.
