From Coq Require Import ZArith NArith List Bool Arith Lia.
From LV Require Import Model.EventBuf.
Import ListNotations.

(* indices strictly increasing, within [lo, hi) *)
Fixpoint idx_ok {A} (lo hi : nat) (data : list (nat * A)) : Prop :=
  match data with
  | [] => True
  | (j, _) :: r => lo <= j < hi /\ idx_ok (S j) hi r
  end.

Lemma idx_ok_weaken {A} : forall (data : list (nat * A)) lo lo' hi hi',
  lo' <= lo -> hi <= hi' -> idx_ok lo hi data -> idx_ok lo' hi' data.
Proof.
  induction data as [|[j v] r IH]; intros lo lo' hi hi' Hlo Hhi H; [exact I|].
  cbn in *. destruct H as [Hj Hr]. split; [lia|]. eapply IH; [| |exact Hr]; lia.
Qed.

Lemma idx_ok_snoc {A} : forall (data : list (nat * A)) lo hi x,
  idx_ok lo hi data -> lo <= hi -> idx_ok lo (S hi) (data ++ [(hi, x)]).
Proof.
  induction data as [|[j v] r IH]; intros lo hi x H Hle; cbn in *.
  - split; [lia|exact I].
  - destruct H as [Hj Hr]. split; [lia|]. apply IH; [exact Hr|lia].
Qed.

Lemma idx_ok_map {A B} (f : A -> B) : forall (data : list (nat * A)) lo hi,
  idx_ok lo hi data -> idx_ok lo hi (map (fun iv => (fst iv, f (snd iv))) data).
Proof.
  induction data as [|[j v] r IH]; intros lo hi H; [exact I|].
  cbn in *. destruct H as [Hj Hr]. split; [exact Hj|apply IH; exact Hr].
Qed.

Lemma idx_ok_enumerate {A} : forall (l : list A) i, idx_ok i (i + length l) (enumerate_from i l).
Proof.
  induction l as [|x r IH]; intros i; [exact I|].
  cbn. split; [lia|]. replace (i + S (length r)) with (S i + length r) by lia. apply IH.
Qed.

Section WithI2F.
  Variable i2f : Z -> N.

  Notation push := (push i2f).
  Notation push_float := (push_float i2f).
  Notation cell_of := (cell_of i2f).
  Notation to_float := (to_float i2f).

  (* ---------- expand_from ---------- *)
  Lemma expand_nil {A} (mk : A -> cell) : forall n i, expand_from mk i [] n = repeat XNone n.
  Proof. induction n as [|n IH]; intros i; cbn; [reflexivity|]. f_equal. apply IH. Qed.

  Lemma repeat_snoc {A} (x : A) n : repeat x (S n) = repeat x n ++ [x].
  Proof. induction n as [|n IH]; [reflexivity|]. cbn [repeat] in *. cbn [app]. f_equal. exact IH. Qed.

  Lemma expand_cons_eq {A} (mk : A -> cell) i v (r : list (nat * A)) n :
    expand_from mk i ((i, v) :: r) (S n) = mk v :: expand_from mk (S i) r n.
  Proof. cbn [expand_from]. rewrite Nat.eqb_refl. reflexivity. Qed.

  Lemma expand_cons_ne {A} (mk : A -> cell) i j v (r : list (nat * A)) n :
    j <> i -> expand_from mk i ((j, v) :: r) (S n) = XNone :: expand_from mk (S i) ((j, v) :: r) n.
  Proof. intros H. cbn [expand_from]. destruct (Nat.eqb_spec j i); [contradiction|reflexivity]. Qed.

  (* a further row without a value *)
  Lemma expand_more {A} (mk : A -> cell) : forall n i (data : list (nat * A)),
    idx_ok i (i + n) data ->
    expand_from mk i data (S n) = expand_from mk i data n ++ [XNone].
  Proof.
    induction n as [|n IH]; intros i data H.
    - destruct data as [|[j v] r]; [reflexivity|]. cbn in H. lia.
    - destruct data as [|[j v] r].
      + rewrite !expand_nil. apply repeat_snoc.
      + cbn in H. destruct H as [Hj Hr].
        destruct (Nat.eq_dec j i) as [->|Hne].
        * rewrite (expand_cons_eq mk i v r (S n)), (expand_cons_eq mk i v r n).
          cbn [app]. f_equal. apply IH. eapply idx_ok_weaken; [| |exact Hr]; lia.
        * rewrite (expand_cons_ne mk i j v r (S n) Hne), (expand_cons_ne mk i j v r n Hne).
          cbn [app]. f_equal. apply IH. cbn [idx_ok]. split; [lia|].
          eapply idx_ok_weaken; [| |exact Hr]; lia.
  Qed.

  (* a further row with a value, appended at index i + n *)
  Lemma expand_snoc {A} (mk : A -> cell) : forall n i (data : list (nat * A)) x,
    idx_ok i (i + n) data ->
    expand_from mk i (data ++ [(i + n, x)]) (S n) = expand_from mk i data n ++ [mk x].
  Proof.
    induction n as [|n IH]; intros i data x H.
    - destruct data as [|[j v] r]; [|cbn in H; lia].
      cbn. rewrite Nat.add_0_r, Nat.eqb_refl. reflexivity.
    - destruct data as [|[j v] r].
      + cbn [app]. rewrite (expand_cons_ne mk i (i + S n) x [] (S n)) by lia.
        rewrite (expand_nil mk (S n) i). cbn [repeat app]. f_equal.
        replace (i + S n) with (S i + n) by lia.
        change [(S i + n, x)] with ([] ++ [(S i + n, x)]).
        rewrite (IH (S i) [] x I). rewrite expand_nil. reflexivity.
      + cbn in H. destruct H as [Hj Hr]. cbn [app].
        destruct (Nat.eq_dec j i) as [->|Hne].
        * rewrite (expand_cons_eq mk i v _ (S n)), (expand_cons_eq mk i v r n).
          cbn [app]. f_equal. replace (i + S n) with (S i + n) by lia. apply IH.
          eapply idx_ok_weaken; [| |exact Hr]; lia.
        * rewrite (expand_cons_ne mk i j v _ (S n) Hne), (expand_cons_ne mk i j v r n Hne).
          cbn [app]. f_equal. replace (i + S n) with (S i + n) by lia.
          change ((j, v) :: r ++ [(S i + n, x)]) with (((j, v) :: r) ++ [(S i + n, x)]).
          apply IH. cbn [idx_ok]. split; [lia|]. eapply idx_ok_weaken; [| |exact Hr]; lia.
  Qed.

  Lemma expand_snoc0 {A} (mk : A -> cell) len (data : list (nat * A)) x :
    idx_ok 0 len data ->
    expand_from mk 0 (data ++ [(len, x)]) (S len) = expand_from mk 0 data len ++ [mk x].
  Proof. intros H. exact (expand_snoc mk len 0 data x H). Qed.

  Lemma expand_more0 {A} (mk : A -> cell) len (data : list (nat * A)) :
    idx_ok 0 len data -> expand_from mk 0 data (S len) = expand_from mk 0 data len ++ [XNone].
  Proof. intros H. exact (expand_more mk len 0 data H). Qed.

  Lemma expand_enumerate {A} (mk : A -> cell) : forall (l : list A) i n,
    length l <= n ->
    expand_from mk i (enumerate_from i l) n = map mk l ++ repeat XNone (n - length l).
  Proof.
    induction l as [|x r IH]; intros i n Hn.
    - cbn. rewrite expand_nil. f_equal. lia.
    - destruct n as [|n]; [cbn in Hn; lia|]. cbn [enumerate_from expand_from map app length].
      rewrite Nat.eqb_refl. f_equal. cbn [length] in Hn. rewrite IH by lia. reflexivity.
  Qed.

  Lemma expand_map {A B} (f : A -> B) (mk : A -> cell) (mk' : B -> cell) (g : cell -> cell) :
    (forall a, g (mk a) = mk' (f a)) -> g XNone = XNone ->
    forall n i (data : list (nat * A)),
      map g (expand_from mk i data n) = expand_from mk' i (map (fun iv => (fst iv, f (snd iv))) data) n.
  Proof.
    intros Hg Hn. induction n as [|n IH]; intros i data; [reflexivity|].
    destruct data as [|[j v] r]; cbn [expand_from map fst snd].
    - rewrite Hn. f_equal. apply (IH (S i) []).
    - destruct (Nat.eqb j i); cbn [map].
      + rewrite Hg. f_equal. apply IH.
      + rewrite Hn. f_equal. apply (IH (S i) ((j, v) :: r)).
  Qed.

  (* ---------- pad ---------- *)
  Lemma pad_snoc {A} (mk : A -> cell) (data : list A) x len :
    length data = len -> pad mk (data ++ [x]) (S len) = pad mk data len ++ [mk x].
  Proof.
    intros <-. unfold pad. rewrite app_length, map_app. cbn [length map].
    replace (S (length data) - (length data + 1)) with 0 by lia.
    rewrite Nat.sub_diag. cbn [repeat]. rewrite !app_nil_r. reflexivity.
  Qed.

  Lemma pad_more {A} (mk : A -> cell) (data : list A) len :
    length data <= len -> pad mk data (S len) = pad mk data len ++ [XNone].
  Proof.
    intros H. unfold pad. replace (S len - length data) with (S (len - length data)) by lia.
    rewrite repeat_snoc, app_assoc. reflexivity.
  Qed.

  Lemma pad_map {A B} (f : A -> B) (mk : A -> cell) (mk' : B -> cell) (g : cell -> cell) data len :
    (forall a, g (mk a) = mk' (f a)) -> g XNone = XNone ->
    map g (pad mk data len) = pad mk' (map f data) len.
  Proof.
    intros Hg Hn. unfold pad. rewrite map_app, map_map, map_length. f_equal.
    - rewrite map_map. apply map_ext. exact Hg.
    - induction (len - length data) as [|k IH]; [reflexivity|]. cbn. rewrite Hn. f_equal. exact IH.
  Qed.

  (* ---------- well-formed column buffers ---------- *)
  Definition wf (d : coldata) (len : nat) : Prop :=
    match d with
    | CEmpty => True
    | CDense data => length data <= len
    | CSparse data => idx_ok 0 len data
    | CI64 data => length data <= len
    | CSparseI64 data => idx_ok 0 len data
    | CString data => length data <= len
    | CMixed data => length data <= len
    end.

  Lemma to_float_int i : to_float (XInt i) = XFloat (i2f i).
  Proof. reflexivity. Qed.

  Definition degrade (d d' : coldata) (c : cell) : cell :=
    if is_inty d && is_floaty d' then to_float c else c.

  Lemma map_id_cells (l : list cell) : map (fun c => c) l = l.
  Proof. apply map_id. Qed.

  (* a row that does not mention the column *)
  Lemma denote_skip d len : wf d len -> denote d (S len) = denote d len ++ [XNone].
  Proof.
    destruct d; cbn [wf denote]; intros H.
    - apply repeat_snoc.
    - apply pad_more; exact H.
    - apply (expand_more0 XFloat len data H).
    - apply pad_more; exact H.
    - apply (expand_more0 XInt len data H).
    - apply pad_more; exact H.
    - apply pad_more; exact H.
  Qed.

  Lemma wf_skip d len : wf d len -> wf d (S len).
  Proof.
    destruct d; cbn [wf]; intros H; try lia; try exact I.
    - eapply idx_ok_weaken; [| |exact H]; lia.
    - eapply idx_ok_weaken; [| |exact H]; lia.
  Qed.

  Lemma push_float_ok d f len d' :
    wf d len -> push_float d f len = Pushed d' ->
    wf d' (S len) /\ denote d' (S len) = map (degrade d d') (denote d len) ++ [XFloat f].
  Proof.
    intros Hwf. destruct d as [|data|data|data|data|data|data]; cbn [push_float wf] in *;
      try discriminate.
    - (* Empty *)
      destruct (Nat.eqb_spec len 0) as [->|Hne]; intros E; assert (E' := E); injection E' as <-.
      + split; [cbn; lia|reflexivity].
      + split; [cbn; lia|].
        unfold degrade. cbn [is_inty andb]. rewrite map_id_cells. cbn [denote].
        rewrite <- (expand_nil XFloat len 0).
        apply (expand_snoc0 XFloat len [] f I).
    - (* Dense *)
      destruct (Nat.eqb_spec (length data) len) as [El|Hne]; intros E; assert (E' := E); injection E' as <-.
      + split; [cbn; rewrite app_length; cbn; lia|].
        unfold degrade. cbn [is_inty andb]. rewrite map_id_cells. cbn [denote].
        apply pad_snoc. exact El.
      + assert (Hok : idx_ok 0 len (enumerate_from 0 data)).
        { eapply idx_ok_weaken; [| |apply idx_ok_enumerate]; lia. }
        split; [cbn; apply idx_ok_snoc; [exact Hok|lia]|].
        unfold degrade. cbn [is_inty andb]. rewrite map_id_cells. cbn [denote].
        rewrite (expand_snoc0 XFloat len _ f Hok).
        rewrite expand_enumerate by exact Hwf. reflexivity.
    - (* Sparse *)
      intros E; assert (E' := E); injection E' as <-.
      split; [cbn; apply idx_ok_snoc; [exact Hwf|lia]|].
      unfold degrade. cbn [is_inty andb]. rewrite map_id_cells. cbn [denote].
      apply (expand_snoc0 XFloat len data f Hwf).
    - (* I64 -> Dense / Sparse *)
      rewrite map_length.
      destruct (Nat.eqb_spec (length data) len) as [El|Hne]; intros E; assert (E' := E); injection E' as <-.
      + split; [cbn; rewrite app_length, map_length; cbn; lia|].
        unfold degrade. cbn [is_inty is_floaty andb denote].
        change (fun c : cell => to_float c) with to_float.
        rewrite (pad_map i2f XInt XFloat to_float data len to_float_int eq_refl).
        apply pad_snoc. rewrite map_length. exact El.
      + assert (Hok : idx_ok 0 len (enumerate_from 0 (map i2f data))).
        { eapply idx_ok_weaken; [| |apply idx_ok_enumerate]; rewrite ?map_length; lia. }
        split; [cbn; apply idx_ok_snoc; [exact Hok|lia]|].
        unfold degrade. cbn [is_inty is_floaty andb denote].
        change (fun c : cell => to_float c) with to_float.
        rewrite (expand_snoc0 XFloat len _ f Hok).
        rewrite expand_enumerate by (rewrite map_length; exact Hwf).
        rewrite (pad_map i2f XInt XFloat to_float data len to_float_int eq_refl).
        reflexivity.
    - (* SparseI64 -> Sparse *)
      intros E; assert (E' := E); injection E' as <-.
      assert (Hok : idx_ok 0 len (map (fun iv => (fst iv, i2f (snd iv))) data))
        by (apply idx_ok_map; exact Hwf).
      split; [cbn; apply idx_ok_snoc; [exact Hok|lia]|].
      unfold degrade. cbn [is_inty is_floaty andb denote].
      change (fun c : cell => to_float c) with to_float.
      rewrite (expand_snoc0 XFloat len _ f Hok).
      rewrite (expand_map i2f XInt XFloat to_float to_float_int eq_refl). reflexivity.
  Qed.

  (* C16_event_push: one push extends what the buffer denotes by exactly the pushed cell, after
     applying int -> float degradation to the existing cells when the buffer changes kind *)
  Theorem push_ok d v len d' :
    wf d len -> push d v len = Pushed d' ->
    wf d' (S len) /\ denote d' (S len) = map (degrade d d') (denote d len) ++ [cell_of d' v].
  Proof.
    intros Hwf. destruct v as [i|f|s|]; cbn [push].
    - (* Int *)
      destruct d as [|data|data|data|data|data|data]; try discriminate.
      + destruct (Nat.eqb_spec len 0) as [->|Hne]; intros E; assert (E' := E); injection E' as <-.
        * split; [cbn; lia|reflexivity].
        * split; [cbn; lia|].
          unfold degrade. cbn [is_inty andb]. rewrite map_id_cells. cbn [denote cell_of is_floaty].
          rewrite <- (expand_nil XInt len 0). apply (expand_snoc0 XInt len [] i I).
      + intros E. destruct (push_float_ok _ _ _ _ Hwf E) as [H1 H2]. split; [exact H1|].
        rewrite H2. f_equal. f_equal. cbn [cell_of].
        cbn [push_float] in E. destruct (Nat.eqb (length data) len); injection E as <-; reflexivity.
      + intros E. destruct (push_float_ok _ _ _ _ Hwf E) as [H1 H2]. split; [exact H1|].
        rewrite H2. f_equal. f_equal. cbn [cell_of].
        cbn [push_float] in E. injection E as <-; reflexivity.
      + cbn [wf] in Hwf.
        destruct (Nat.eqb_spec (length data) len) as [El|Hne]; intros E; assert (E' := E); injection E' as <-.
        * split; [cbn; rewrite app_length; cbn; lia|].
          unfold degrade. cbn [is_inty is_floaty andb]. rewrite map_id_cells. cbn [denote cell_of is_floaty].
          apply pad_snoc. exact El.
        * assert (Hok : idx_ok 0 len (enumerate_from 0 data)).
          { eapply idx_ok_weaken; [| |apply idx_ok_enumerate]; lia. }
          split; [cbn; apply idx_ok_snoc; [exact Hok|lia]|].
          unfold degrade. cbn [is_inty is_floaty andb]. rewrite map_id_cells. cbn [denote cell_of is_floaty].
          rewrite (expand_snoc0 XInt len _ i Hok).
          rewrite expand_enumerate by exact Hwf. reflexivity.
      + cbn [wf] in Hwf. intros E; assert (E' := E); injection E' as <-.
        split; [cbn; apply idx_ok_snoc; [exact Hwf|lia]|].
        unfold degrade. cbn [is_inty is_floaty andb]. rewrite map_id_cells. cbn [denote cell_of is_floaty].
        apply (expand_snoc0 XInt len data i Hwf).
    - (* Float *)
      intros E. destruct (push_float_ok _ _ _ _ Hwf E) as [H1 H2]. split; [exact H1|exact H2].
    - (* Str *)
      destruct d as [|data|data|data|data|data|data]; try discriminate.
      + destruct (Nat.eqb_spec len 0) as [->|Hne]; [|discriminate].
        intros E; injection E as <-. split; [cbn; lia|reflexivity].
      + cbn [wf] in Hwf. destruct (Nat.eqb_spec (length data) len) as [El|Hne]; [|discriminate].
        intros E; injection E as <-.
        split; [cbn; rewrite app_length; cbn; lia|].
        unfold degrade. cbn [is_inty andb]. rewrite map_id_cells. cbn [denote cell_of].
        apply pad_snoc. exact El.
    - (* Null *)
      intros E; injection E as <-. split; [apply wf_skip; exact Hwf|].
      unfold degrade. destruct (is_inty d && is_floaty d) eqn:Eb.
      + destruct d; discriminate.
      + rewrite map_id_cells. cbn [cell_of]. apply denote_skip. exact Hwf.
  Qed.

  (* exactly which pushes are rejected (panic): strings into numeric columns and vice versa,
     strings that would make a string column sparse, anything into a Mixed column *)
  Theorem push_panics_iff d v len :
    push d v len = PushPanic <->
    match v, d with
    | VNull, _ => False
    | _, CMixed _ => True
    | VStr _, CEmpty => len <> 0
    | VStr _, CString data => length data <> len
    | VStr _, _ => True
    | (VInt _ | VFloat _), CString _ => True
    | _, _ => False
    end.
  Proof.
    destruct v as [i|f|s|]; destruct d as [|data|data|data|data|data|data]; cbn [push push_float];
      repeat match goal with |- context [Nat.eqb ?a ?b] => destruct (Nat.eqb_spec a b) end;
      split; intros H; try discriminate; try exact I; try reflexivity; try contradiction; try lia.
  Qed.

  (* ---------- histories: any accepted sequence of rows ---------- *)
  Definition cellc (d : coldata) (c : option anyval) : cell :=
    match c with None => XNone | Some v => cell_of d v end.

  Definition is_stringy (d : coldata) : bool := match d with CString _ => true | _ => false end.

  (* the values a buffer of this kind can have accepted so far *)
  Definition okcell (d : coldata) (c : option anyval) : Prop :=
    match c with
    | None | Some VNull => True
    | Some (VInt _) => is_inty d = true \/ is_floaty d = true
    | Some (VFloat _) => is_floaty d = true
    | Some (VStr _) => is_stringy d = true
    end.

  Definition Rep (d : coldata) (prefix : list (option anyval)) : Prop :=
    wf d (length prefix) /\ denote d (length prefix) = map (cellc d) prefix /\ Forall (okcell d) prefix /\
    (match d with CMixed _ => False | _ => True end).

  (* kinds only move forward: empty -> anything, int -> int|float, float -> float, string -> string *)
  Definition kind_step (d d' : coldata) : Prop :=
    (is_floaty d = true -> is_floaty d' = true) /\
    (is_inty d = true -> is_inty d' = true \/ is_floaty d' = true) /\
    (is_stringy d = true -> is_stringy d' = true) /\
    (match d' with CMixed _ => False | CEmpty => d = CEmpty | _ => True end).

  Lemma push_kind d v len d' :
    (match d with CMixed _ => False | _ => True end) ->
    push d v len = Pushed d' -> kind_step d d' /\ okcell d' (Some v).
  Proof.
    intros Hm. destruct v as [i|f|s|]; destruct d as [|data|data|data|data|data|data];
      cbn [push push_float]; try contradiction; try discriminate;
      repeat match goal with |- context [Nat.eqb ?a ?b] => destruct (Nat.eqb a b) end;
      intros E; try discriminate; injection E as <-; unfold kind_step; cbn; repeat split; auto;
      try (intros; discriminate); try tauto.
  Qed.

  Lemma okcell_mono d d' c : kind_step d d' -> okcell d c -> okcell d' c.
  Proof.
    intros (Hf & Hi & Hs & _) H. destruct c as [[i|f|s|]|]; cbn in *; auto.
    destruct H as [H|H]; auto.
  Qed.

  Lemma degrade_cellc d d' c : kind_step d d' -> okcell d c ->
    degrade d d' (cellc d c) = cellc d' c.
  Proof.
    intros (Hf & Hi & Hs & _) H. unfold degrade.
    destruct c as [[i|f|s|]|]; cbn [cellc cell_of okcell] in *;
      try (destruct (is_inty d && is_floaty d'); reflexivity).
    destruct H as [H|H].
    - (* was an int column *)
      assert (Hnf : is_floaty d = false) by (destruct d; cbn in *; congruence).
      rewrite Hnf, H. cbn [andb].
      destruct (is_floaty d') eqn:E; reflexivity.
    - rewrite H, (Hf H).
      assert (Hni : is_inty d = false) by (destruct d; cbn in *; congruence).
      rewrite Hni. reflexivity.
  Qed.

  Lemma Rep_step d prefix c d' :
    Rep d prefix ->
    match c with None => Pushed d | Some v => push d v (length prefix) end = Pushed d' ->
    Rep d' (prefix ++ [c]).
  Proof.
    intros (Hwf & Hden & Hok & Hm) E. unfold Rep. rewrite app_length. cbn [length]. rewrite Nat.add_1_r.
    destruct c as [v|].
    - destruct (push_kind d v _ d' Hm E) as [Hk Hv].
      destruct (push_ok d v _ d' Hwf E) as [Hwf' Hden'].
      split; [exact Hwf'|]. split; [|split].
      + rewrite Hden', Hden, map_map, map_app. cbn [map cellc]. f_equal.
        apply map_ext_in. intros a Ha. apply degrade_cellc; [exact Hk|].
        rewrite Forall_forall in Hok. auto.
      + apply Forall_app. split.
        * eapply Forall_impl; [|exact Hok]. intros a. apply okcell_mono. exact Hk.
        * constructor; [exact Hv|constructor].
      + destruct Hk as (_ & _ & _ & Hk). destruct d'; auto.
    - injection E as <-. split; [apply wf_skip; exact Hwf|]. split; [|split].
      + rewrite denote_skip by exact Hwf. rewrite Hden, map_app. reflexivity.
      + apply Forall_app. split; [exact Hok|]. constructor; [exact I|constructor].
      + exact Hm.
  Qed.

  Lemma push_rows_Rep : forall cells d prefix d',
    Rep d prefix -> push_rows i2f d (length prefix) cells = Pushed d' -> Rep d' (prefix ++ cells).
  Proof.
    induction cells as [|c cells IH]; intros d prefix d' HR E.
    - cbn in E. injection E as <-. rewrite app_nil_r. exact HR.
    - cbn [push_rows] in E.
      destruct (match c with None => Pushed d | Some v => push d v (length prefix) end) as [d1|] eqn:E1;
        [|discriminate].
      pose proof (Rep_step d prefix c d1 HR E1) as HR1.
      replace (prefix ++ c :: cells) with ((prefix ++ [c]) ++ cells) by (rewrite <- app_assoc; reflexivity).
      apply IH with d1; [exact HR1|].
      rewrite app_length. cbn [length]. rewrite Nat.add_1_r. exact E.
  Qed.

  (* C16_event_rows: whatever sequence of rows the row API accepts, the column buffer it ends with
     denotes exactly the pushed cells, row for row, with integers shown as floats iff the column
     ended up a float column *)
  Theorem push_rows_ok cells d' :
    push_rows i2f CEmpty 0 cells = Pushed d' ->
    denote d' (length cells) = map (cellc d') cells.
  Proof.
    intros E.
    assert (HR : Rep CEmpty []) by (repeat split; constructor).
    destruct (push_rows_Rep cells CEmpty [] d' HR E) as (_ & H & _). exact H.
  Qed.

End WithI2F.
