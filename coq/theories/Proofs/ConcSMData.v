(* C10 — the data invariant of the interleaving model and its preservation by every step.

   DInv: partitions (offset order) ++ rows taken out by `batch` ++ frozen buffer ++ open buffer is always the
   log of pushed batches; partition ids are unique and below the id counter; the flusher's compaction locals
   describe a suffix of the current partition list; every snapshot a query runs on is a prefix of the log that
   covers everything acknowledged before the query was issued. *)
From Coq Require Import NArith List Bool Arith Lia.
From LV Require Import Model.ConcSM Proofs.ConcSMBase.
Import ListNotations.

(* ---------------------------------------------------------------------------------------------- *)
(* list facts                                                                                       *)

Lemma part_batches_app a b : part_batches (a ++ b) = part_batches a ++ part_batches b.
Proof. unfold part_batches. rewrite map_app, concat_app. reflexivity. Qed.

Lemma part_batches_single i (m : list batch) : part_batches [(i, m)] = m.
Proof. unfold part_batches. simpl. apply app_nil_r. Qed.

Lemma mem_nat_in x l : mem_nat x l = true <-> In x l.
Proof.
  induction l as [|y r IH]; simpl.
  - split; [discriminate|tauto].
  - rewrite orb_true_iff, IH, Nat.eqb_eq. split; intros [H|H]; auto.
Qed.

Lemma firstn_app_le {A} j (l x : list A) : j <= length l -> firstn j (l ++ x) = firstn j l.
Proof.
  intro H. rewrite firstn_app. replace (j - length l) with 0 by lia. simpl. apply app_nil_r.
Qed.

Lemma lookup_part_in i b ps : NoDup (map fst ps) -> In (i, b) ps -> lookup_part i ps = Some b.
Proof.
  induction ps as [|[j c] r IH]; simpl; intros ND H; [contradiction|].
  inversion ND as [|? ? NI ND']; subst.
  destruct H as [H|H].
  - injection H as -> ->. rewrite Nat.eqb_refl. reflexivity.
  - destruct (Nat.eqb i j) eqn:E.
    + apply Nat.eqb_eq in E. subst j. exfalso. apply NI. apply (in_map fst) in H. exact H.
    + apply IH; assumption.
Qed.

Lemma lookup_all_incl sub ps :
  NoDup (map fst ps) -> incl sub ps -> lookup_all (map fst sub) ps = Some (part_batches sub).
Proof.
  intros ND. induction sub as [|[i b] r IH]; simpl; intro I.
  - reflexivity.
  - rewrite (lookup_part_in i b ps ND) by (apply I; left; reflexivity).
    rewrite IH by (intros x Hx; apply I; right; exact Hx).
    unfold part_batches. simpl. reflexivity.
Qed.

Lemma incl_skipn {A} i (l : list A) : incl (skipn i l) l.
Proof.
  intros x Hx. rewrite <- (firstn_skipn i l). apply in_or_app. right. exact Hx.
Qed.

Lemma filter_not_suffix (a b : list (pid * list batch)) :
  NoDup (map fst (a ++ b)) ->
  filter (fun p => negb (mem_nat (fst p) (map fst b))) (a ++ b) = a.
Proof.
  intro ND. rewrite filter_app.
  assert (Ha : filter (fun p => negb (mem_nat (fst p) (map fst b))) a = a).
  { rewrite map_app in ND. clear - ND. induction a as [|x r IH]; simpl in *; [reflexivity|].
    inversion ND as [|? ? NI ND']; subst.
    destruct (mem_nat (fst x) (map fst b)) eqn:E.
    - apply mem_nat_in in E. exfalso. apply NI. apply in_or_app. right. exact E.
    - simpl. rewrite IH by exact ND'. reflexivity. }
  assert (Hb : filter (fun p => negb (mem_nat (fst p) (map fst b))) b = []).
  { clear. assert (G : forall c, incl c b -> filter (fun p => negb (mem_nat (fst p) (map fst b))) c = []).
    { induction c as [|x r IH]; simpl; intro I; [reflexivity|].
      assert (E : mem_nat (fst x) (map fst b) = true).
      { apply mem_nat_in. apply in_map. apply I. left. reflexivity. }
      rewrite E. simpl. apply IH. intros y Hy. apply I. right. exact Hy. }
    apply G. apply incl_refl. }
  rewrite Ha, Hb. apply app_nil_r.
Qed.

Lemma NoDup_app_l {A} (a b : list A) : NoDup (a ++ b) -> NoDup a.
Proof. induction a as [|x r IH]; simpl; intro H; [constructor|].
  inversion H as [|? ? NI ND]; subst. constructor.
  - intro I. apply NI. apply in_or_app. left. exact I.
  - apply IH. exact ND.
Qed.

Lemma NoDup_snoc {A} (a : list A) x : NoDup a -> ~ In x a -> NoDup (a ++ [x]).
Proof.
  induction a as [|y r IH]; simpl; intros ND NI.
  - constructor; [tauto|constructor].
  - inversion ND as [|? ? NI' ND']; subst. constructor.
    + intro I. apply in_app_or in I. destruct I as [I|[I|[]]]; [tauto|]. subst. tauto.
    + apply IH; tauto.
Qed.

Lemma NoDup_app_disj {A} (a b : list A) x : NoDup (a ++ b) -> In x a -> In x b -> False.
Proof.
  induction a as [|y r IH]; simpl; intros ND Ia Ib; [contradiction|].
  inversion ND as [|? ? NI ND']; subst. destruct Ia as [->|Ia].
  - apply NI. apply in_or_app. right. exact Ib.
  - eapply IH; eauto.
Qed.

(* ---------------------------------------------------------------------------------------------- *)
(* the invariant                                                                                    *)

Definition f_taken (p : fpc) : list batch :=
  match p with F_b2 tk _ | F_b3 tk _ => tk | _ => [] end.

Definition f_pending (p : fpc) : option pid :=
  match p with
  | F_b2 _ i | F_b3 _ i => Some i
  | F_c0 _ n | F_cr _ n | F_cb _ n _ | F_c1 _ n _ => Some n
  | _ => None
  end.

Definition f_may_have_frozen (p : fpc) : bool :=
  match p with F_fz3 | F_fz4 | F_fz5 | F_batch | F_b1 => true | _ => false end.

Definition i_pushed (p : ipc) : bool :=
  match p with I_pushed_l | I_pushed => true | _ => false end.

Definition ids (d : data) : list pid := map fst (parts d).

Definition FlInv (p : fpc) (d : data) : Prop :=
  match p with
  | F_c0 olds _ | F_cr olds _ => exists i, olds = map fst (skipn i (parts d))
  | F_cb olds _ m | F_c1 olds _ m =>
      exists i, olds = map fst (skipn i (parts d)) /\ m = part_batches (skipn i (parts d))
  | F_panic => False
  | _ => True
  end.

Definition SnapOK (k : nat) (s : snapshot) (fp : fpc) (d : data) : Prop :=
  (exists j, k <= j /\ j <= length (log d) /\ s_batches s = firstn j (log d))
  /\ (forall i, In i (s_pids s) -> i < next_pid d)
  /\ (forall i, f_pending fp = Some i -> ~ In i (s_pids s))
  /\ (forall olds n, In (olds, n) (swaps d) -> In n (s_pids s) -> forall o, In o olds -> ~ In o (s_pids s)).

Definition QInv (p : qpc) (fp : fpc) (d : data) : Prop :=
  match p with
  | Q_idle => True
  | Q_start k | Q_l1 k | Q_l2 k | Q_l3 k => k <= acked d
  | Q_c k s | Q_r1 k s | Q_r2 k s | Q_done k s => SnapOK k s fp d
  end.

Record DInv (d : data) (fp : fpc) (il : list ipc) (ql : list qpc) : Prop := mkDInv {
  di_log : part_batches (parts d) ++ f_taken fp ++ fbuf d ++ obuf d = log d;
  di_ack : acked d <= length (log d);
  di_iack : forall n p, nth_error il n = Some p -> i_pushed p = true -> acked d < length (log d);
  di_frozen : f_may_have_frozen fp = false -> fbuf d = [];
  di_nodup : NoDup (ids d);
  di_fresh : forall i, In i (ids d) -> i < next_pid d;
  di_pend : forall i, f_pending fp = Some i ->
            i < next_pid d /\ ~ In i (ids d) /\ (forall olds n, In (olds, n) (swaps d) -> ~ In i olds);
  di_swaps : forall olds n, In (olds, n) (swaps d) -> forall o, In o olds -> o < next_pid d /\ ~ In o (ids d);
  di_fl : FlInv fp d;
  di_q : forall n p, nth_error ql n = Some p -> QInv p fp d }.

Definition Inv (st : state) : Prop :=
  LockInv st /\ ExclInv (lks st) /\ DInv (dat st) (fl st) (ing st) (qs st).

(* ---------------------------------------------------------------------------------------------- *)
(* decomposition of a step                                                                          *)

Lemma step_TI st n a st' :
  step (TI n) a st = Some st' ->
  exists p lo p' d',
    nth_error (ing st) n = Some p /\ itrans p a (dat st) = Some (lo, p', d') /\
    apply_lockop (TI n) lo (lks st) = Some (lks st') /\
    dat st' = d' /\ ing st' = upd n p' (ing st) /\ fl st' = fl st /\ qs st' = qs st.
Proof.
  unfold step. destruct (nth_error (ing st) n) as [p|] eqn:E1; [|discriminate].
  destruct (itrans p a (dat st)) as [[[lo p'] d']|] eqn:E2; [|discriminate].
  destruct (apply_lockop (TI n) lo (lks st)) as [l'|] eqn:E3; [|discriminate].
  intro H. injection H as <-. exists p, lo, p', d'. simpl. repeat split; try reflexivity; assumption.
Qed.

Lemma step_TQ st n a st' :
  step (TQ n) a st = Some st' ->
  exists p lo p' d',
    nth_error (qs st) n = Some p /\ qtrans p a (dat st) = Some (lo, p', d') /\
    apply_lockop (TQ n) lo (lks st) = Some (lks st') /\
    dat st' = d' /\ qs st' = upd n p' (qs st) /\ fl st' = fl st /\ ing st' = ing st.
Proof.
  unfold step. destruct (nth_error (qs st) n) as [p|] eqn:E1; [|discriminate].
  destruct (qtrans p a (dat st)) as [[[lo p'] d']|] eqn:E2; [|discriminate].
  destruct (apply_lockop (TQ n) lo (lks st)) as [l'|] eqn:E3; [|discriminate].
  intro H. injection H as <-. exists p, lo, p', d'. simpl. repeat split; try reflexivity; assumption.
Qed.

Lemma step_TF st a st' :
  step TF a st = Some st' ->
  exists lo p' d',
    ftrans (fl st) a (dat st) = Some (lo, p', d') /\
    apply_lockop TF lo (lks st) = Some (lks st') /\
    dat st' = d' /\ fl st' = p' /\ ing st' = ing st /\ qs st' = qs st.
Proof.
  unfold step.
  destruct (ftrans (fl st) a (dat st)) as [[[lo p'] d']|] eqn:E2; [|discriminate].
  destruct (apply_lockop TF lo (lks st)) as [l'|] eqn:E3; [|discriminate].
  intro H. injection H as <-. exists lo, p', d'. simpl. repeat split; try reflexivity; assumption.
Qed.

(* ---------------------------------------------------------------------------------------------- *)
(* snapshots stay valid when the data only grows                                                    *)

Lemma snapok_ext k s fp fp' d d' :
  SnapOK k s fp d ->
  (exists x, log d' = log d ++ x) ->
  next_pid d <= next_pid d' ->
  (forall i, f_pending fp' = Some i -> f_pending fp = Some i \/ next_pid d <= i) ->
  (swaps d' = swaps d \/ exists olds n, swaps d' = (olds, n) :: swaps d /\ f_pending fp = Some n) ->
  SnapOK k s fp' d'.
Proof.
  intros (HJ & HP & HN & HS) [x Hx] Hnp Hpend Hsw. repeat split.
  - destruct HJ as (j & J1 & J2 & J3). exists j. rewrite Hx, app_length.
    repeat split; [exact J1|lia|]. rewrite firstn_app_le by exact J2. exact J3.
  - intros i Hi. specialize (HP i Hi). lia.
  - intros i Hi I. destruct (Hpend i Hi) as [H|H].
    + exact (HN i H I).
    + specialize (HP i I). lia.
  - intros olds n Hin Hn o Ho.
    destruct Hsw as [E|(olds0 & n0 & E & Hp0)]; rewrite E in Hin.
    + eapply HS; eauto.
    + destruct Hin as [Hin|Hin].
      * injection Hin as <- <-. exfalso. exact (HN n0 Hp0 Hn).
      * eapply HS; eauto.
Qed.

Lemma qinv_ext p fp fp' d d' :
  QInv p fp d ->
  acked d <= acked d' ->
  (exists x, log d' = log d ++ x) ->
  next_pid d <= next_pid d' ->
  (forall i, f_pending fp' = Some i -> f_pending fp = Some i \/ next_pid d <= i) ->
  (swaps d' = swaps d \/ exists olds n, swaps d' = (olds, n) :: swaps d /\ f_pending fp = Some n) ->
  QInv p fp' d'.
Proof.
  intros HQ Ha Hl Hn Hp Hs.
  destruct p; simpl in *; try exact I; try lia; eapply snapok_ext; eauto.
Qed.

(* a flusher step that changes nothing the invariant looks at, except the program counter *)
Lemma dinv_fl_pc d fp fp' il ql :
  DInv d fp il ql ->
  f_taken fp' = f_taken fp ->
  f_pending fp' = f_pending fp ->
  (f_may_have_frozen fp' = false -> fbuf d = []) ->
  FlInv fp' d ->
  DInv d fp' il ql.
Proof.
  intros [] Ht Hp Hf Hfl. constructor; try assumption.
  - rewrite Ht. assumption.
  - rewrite Hp. assumption.
  - intros n p Hn. specialize (di_q0 n p Hn).
    eapply qinv_ext; eauto.
    + exists []. rewrite app_nil_r. reflexivity.
    + intros i Hi. left. rewrite <- Hp. exact Hi.
Qed.
