(* Whole-query lemmas about the model of parse_query: acceptance = supported grammar, output names,
   and the slot bookkeeping of Query::normalize. *)
From Coq Require Import NArith ZArith List Bool Lia.
From LV Require Import Model.Frontend Model.FrontendSpec Proofs.Frontend.
Import ListNotations.
Open Scope N_scope.

Definition shell_ok (s : select) : bool :=
  negb (match s_group_by s with
        | GBExprs ne nm => negb (Nat.eqb ne 0) || negb (Nat.eqb nm 0)
        | GBAll => false end)
  && negb (s_having s) && negb (s_distinct s)
  && negb (Nat.ltb 1 (length (s_from s)))
  && negb (match s_from s with f :: _ => negb (Nat.eqb (fi_joins f) 0) | [] => false end).

Lemma components_is_val : forall s ob lc,
  is_val (get_query_components (BdSelect s) ob lc) = shell_ok s.
Proof.
  intros s ob lc. unfold get_query_components, shell_ok.
  destruct (match s_group_by s with GBExprs ne nm => _ | GBAll => false end); [reflexivity|].
  destruct (s_having s); [reflexivity|]. destruct (s_distinct s); [reflexivity|].
  destruct (Nat.ltb 1 (length (s_from s))); [reflexivity|].
  destruct (match s_from s with f :: _ => _ | [] => false end); [reflexivity|].
  destruct lc; reflexivity.
Qed.

Lemma table_is_val : forall rel,
  match rel with Some (TFTable d) => valid_utf8 d = true | _ => True end ->
  is_val (get_table_name rel) = match rel with Some (TFTable _) => true | _ => false end.
Proof.
  intros [[d|]|] H; try reflexivity. cbn. apply strip_quotes_is_val. exact H.
Qed.

(* parse_query returns a query iff the statement is in the supported grammar; otherwise it returns
   an error value *)
Lemma parse_query_is_val : forall p, parser_output p = true -> is_val (parse_query p) = supported p.
Proof.
  intros [| |stmts] H; try reflexivity.
  destruct stmts as [|st rest]; [reflexivity|].
  destruct rest as [|st2 rest]; [|destruct st as [[?|] ? ?|]; reflexivity].
  destruct st as [b ob lc|]; [|reflexivity].
  destruct b as [s|]; [|reflexivity].
  cbn in H. rewrite andb_true_r in H.
  apply andb_true_iff in H as [H Hord]. apply andb_true_iff in H as [H Hsel].
  apply andb_true_iff in H as [Hitems Hrel].
  cbn [parse_query length Nat.ltb Nat.leb].
  rewrite (is_val_bind2 _ _ _ _
    (forallb item_supported (s_projection s)
     && match s_from s with f :: _ => match fi_relation f with TFTable _ => true | _ => false end | [] => false end
     && match s_selection s with Some e => expr_supported e | None => true end
     && match ob with OBExprs l => forallb (fun p => expr_supported (fst p)) l | _ => true end
     && match lc with LCLimitOffset l o => count_supported l && count_supported o | _ => true end)).
  - rewrite components_is_val. unfold supported, select_supported, shell_ok.
    destruct (s_group_by s) as [[|ne] [|nm]|]; cbn [negb orb andb Nat.eqb]; try reflexivity;
    destruct (s_having s); cbn [negb andb]; try reflexivity;
    destruct (s_distinct s); cbn [negb andb]; try reflexivity;
    destruct (s_from s) as [|f [|g r]]; cbn [length Nat.ltb Nat.leb negb andb];
      try (rewrite ?andb_false_r; reflexivity);
    destruct (Nat.eqb (fi_joins f) 0); cbn [negb andb]; try (rewrite ?andb_false_r; reflexivity);
    destruct (fi_relation f); cbn [andb]; rewrite ?andb_false_r, ?andb_true_r; try reflexivity;
    repeat rewrite <- andb_assoc; reflexivity.
  - intros c Hc. destruct (components_fields _ _ _ _ Hc) as (Ep & Es & Er & Eo & Elo & Hlen).
    rewrite (is_val_bind2 _ _ _ _
      (match s_from s with f :: _ => match fi_relation f with TFTable _ => true | _ => false end | [] => false end
       && match s_selection s with Some e => expr_supported e | None => true end
       && match ob with OBExprs l => forallb (fun p => expr_supported (fst p)) l | _ => true end
       && match lc with LCLimitOffset l o => count_supported l && count_supported o | _ => true end)).
    { rewrite Ep, projection_is_val by assumption. repeat rewrite <- andb_assoc. reflexivity. }
    intros pr _.
    rewrite (is_val_bind2 _ _ _ _
      (match s_selection s with Some e => expr_supported e | None => true end
       && match ob with OBExprs l => forallb (fun p => expr_supported (fst p)) l | _ => true end
       && match lc with LCLimitOffset l o => count_supported l && count_supported o | _ => true end)).
    { rewrite Er. rewrite table_is_val.
      - destruct (s_from s) as [|f fr]; [reflexivity|]. destruct (fi_relation f); repeat rewrite <- andb_assoc; reflexivity.
      - destruct (s_from s) as [|f fr]; [exact I|]. cbn in Hrel. apply andb_true_iff in Hrel as [Hf _].
        unfold relation_wf in Hf. destruct (fi_relation f); [exact Hf|exact I]. }
    intros tb _.
    rewrite (is_val_bind2 _ _ _ _
      (match ob with OBExprs l => forallb (fun p => expr_supported (fst p)) l | _ => true end
       && match lc with LCLimitOffset l o => count_supported l && count_supported o | _ => true end)).
    { rewrite Es. destruct (s_selection s) as [e|]; [|reflexivity].
      rewrite convert_is_val by assumption. repeat rewrite <- andb_assoc. reflexivity. }
    intros fl _.
    rewrite (is_val_bind2 _ _ _ _
      (match lc with LCLimitOffset l o => count_supported l && count_supported o | _ => true end)).
    { rewrite Eo. destruct ob as [|l|]; try reflexivity. cbn [get_order_by].
      rewrite order_list_is_val by assumption. reflexivity. }
    intros od _.
    assert (Hl : count_supported (c_limit c) && count_supported (c_offset c)
                 = match lc with LCLimitOffset l o => count_supported l && count_supported o | _ => true end).
    { destruct lc; cbn in Elo; injection Elo as -> ->; reflexivity. }
    rewrite <- Hl.
    rewrite (is_val_bind2 _ _ _ _ (count_supported (c_offset c))).
    { rewrite limit_is_val. reflexivity. }
    intros lv _.
    rewrite (is_val_bind2 _ _ _ _ true); [|reflexivity].
    rewrite offset_is_val. apply andb_true_r.
Qed.

(* output names: one per select item, in order, the alias or the written text unquoted *)
Lemma parse_query_names : forall p q, parse_query p = Val q ->
  map (fun n => Some n) (output_names q) = map expected_name (projection_of p).
Proof.
  intros [| |stmts] q H; try discriminate.
  cbn [parse_query] in H.
  destruct (Nat.ltb 1 (length stmts)) eqn:L; [discriminate|].
  destruct stmts as [|st rest]; [discriminate|].
  destruct rest as [|st2 rest]; [|cbn in L; discriminate].
  destruct st as [b ob lc|]; [|discriminate].
  apply bind_val in H as (c & Hc & H).
  destruct b as [s|]; [|discriminate].
  destruct (components_fields _ _ _ _ Hc) as (Ep & _).
  apply bind_val in H as (pr & Hpr & H). apply bind_val in H as (tb & _ & H).
  apply bind_val in H as (fl & _ & H). apply bind_val in H as (od & _ & H).
  apply bind_val in H as (lv & _ & H). apply bind_val in H as (ov & _ & H).
  injection H as <-. unfold output_names. cbn [q_select projection_of].
  rewrite Ep in Hpr. rewrite map_map. apply projection_names. exact Hpr.
Qed.

Lemma parse_query_names_length : forall p q, parse_query p = Val q ->
  length (output_names q) = length (projection_of p).
Proof.
  intros p q H. apply parse_query_names in H.
  apply (f_equal (@length _)) in H. now rewrite !map_length in H.
Qed.
