(* Crash cuts, part 1: what a recovery returns depends only on the durable fields - the rows of the
   partitions the catalogue file lists (read from their files) followed by the rows of the kept log
   segments - and frame lemmas about those. *)
From Coq Require Import NArith ZArith List Bool Lia.
From LV Require Import Model.TableSM Model.Catalogue Model.WalSM Model.CrashSM
     Proofs.TableSM Proofs.WalSMBase Proofs.WalSM Proofs.WalSMLog.
Import ListNotations.
Open Scope N_scope.

Definition cat_site (st : site) : Prop := st = SNoTable \/ st = SCatalogue \/ st = SColsNotInit.

Definition cursor_of (s : db) : N := match d_cursor s with Some k => k | None => 0 end.
Definition kept (s : db) : list (N * segment) :=
  sort_segs (filter (fun x => cursor_of s <=? fst x) (d_wal s)).

Lemma durable_wal_rows_kept : forall s n, durable_wal_rows s n = wal_rows n (kept s).
Proof. reflexivity. Qed.

(* ---------------------------------------------------------------------------------------------- *)
(* files *)

Lemma find_file_remove_other : forall id id' fs, id <> id' -> find_file id' (remove_file id fs) = find_file id' fs.
Proof.
  intros id id' fs H. unfold remove_file. induction fs as [|[k v] fs IH]; cbn; auto.
  destruct (k =? id) eqn:E; cbn.
  - apply N.eqb_eq in E. subst. assert (E : id =? id' = false) by (apply N.eqb_neq; auto). rewrite E. exact IH.
  - destruct (k =? id'); auto.
Qed.

Lemma find_file_remove_same : forall id fs, find_file id (remove_file id fs) = None.
Proof.
  intros id fs. unfold remove_file. induction fs as [|[k v] fs IH]; cbn; auto.
  destruct (k =? id) eqn:E; cbn; auto. rewrite E. exact IH.
Qed.

Lemma find_file_store_other : forall id id' rows fs, id <> id' -> find_file id' (store_file id rows fs) = find_file id' fs.
Proof.
  intros id id' rows fs H. unfold store_file. rewrite find_file_app, find_file_remove_other; auto.
  destruct (find_file id' fs); auto. cbn. assert (E : id =? id' = false) by (apply N.eqb_neq; auto).
  rewrite E. reflexivity.
Qed.

Lemma find_file_store_same : forall id rows fs, find_file id (store_file id rows fs) = Some rows.
Proof.
  intros id rows fs. unfold store_file. rewrite find_file_app, find_file_remove_same. cbn.
  rewrite N.eqb_refl. reflexivity.
Qed.

Lemma find_file_in : forall id rows fs, find_file id fs = Some rows -> In (id, rows) fs.
Proof.
  induction fs as [|[k v] fs IH]; cbn; intro H; [discriminate|].
  destruct (k =? id) eqn:E.
  - apply N.eqb_eq in E. subst. injection H as ->. auto.
  - auto.
Qed.

Lemma in_find_file : forall id rows fs, NoDup (map fst fs) -> In (id, rows) fs -> find_file id fs = Some rows.
Proof.
  induction fs as [|[k v] fs IH]; cbn; intros ND H; [tauto|].
  inversion ND as [|? ? Hn ND']; subst. destruct H as [E|H].
  - injection E as -> ->. rewrite N.eqb_refl. reflexivity.
  - destruct (k =? id) eqn:E.
    + apply N.eqb_eq in E. subst. exfalso. apply Hn. change id with (fst (id, rows)). apply in_map. exact H.
    + auto.
Qed.

Lemma delete_files_incl : forall ids fs fs', delete_files ids fs = Some fs' -> forall f, In f fs' -> In f fs.
Proof.
  induction ids as [|id ids IH]; cbn; intros fs fs' H f Hf.
  - injection H as <-. exact Hf.
  - destruct (find_file id fs); [|discriminate]. eapply IH in H; [|exact Hf].
    unfold remove_file in H. apply filter_In in H. tauto.
Qed.

Lemma delete_files_gone : forall ids fs fs' id, delete_files ids fs = Some fs' -> In id ids -> find_file id fs' = None.
Proof.
  induction ids as [|i ids IH]; cbn; intros fs fs' id H HI; [tauto|].
  destruct (find_file i fs) eqn:E; [|discriminate].
  destruct (in_dec N.eq_dec id ids) as [HI'|HI'].
  - eapply IH; eauto.
  - destruct HI as [->|HI]; [|contradiction].
    (* id is removed first and never comes back *)
    assert (G : forall ids' fs0 fs1, delete_files ids' fs0 = Some fs1 -> find_file id fs0 = None -> find_file id fs1 = None).
    { induction ids' as [|j ids' IH']; cbn; intros fs0 fs1 H0 Hn.
      - injection H0 as <-. exact Hn.
      - destruct (find_file j fs0) eqn:Ej; [|discriminate]. eapply IH'; [exact H0|].
        destruct (N.eq_dec j id) as [->|Hne]; [apply find_file_remove_same|].
        rewrite find_file_remove_other; auto. }
    eapply G; [exact H|]. apply find_file_remove_same.
Qed.

(* ---------------------------------------------------------------------------------------------- *)
(* restore depends on the files only at the ids the catalogue entries name *)

Definition meta_rows (ms : list pmeta) (fs : list (N * list row)) : list row :=
  flat_map (fun m => match find_file (pm_id m) fs with Some r => r | None => [] end) ms.

Lemma meta_rows_cons : forall m ms fs,
  meta_rows (m :: ms) fs = (match find_file (pm_id m) fs with Some r => r | None => [] end) ++ meta_rows ms fs.
Proof. reflexivity. Qed.

Lemma durable_part_rows_meta : forall t, durable_part_rows t = meta_rows (t_meta t) (t_files t).
Proof. reflexivity. Qed.

Lemma restore_parts_rows : forall ms fs ps, restore_parts ms fs = Some ps -> part_rows ps = meta_rows ms fs.
Proof.
  induction ms as [|m ms IH]; cbn [restore_parts]; intros fs ps H.
  - injection H as <-. reflexivity.
  - rewrite meta_rows_cons.
    destruct (find_file (pm_id m) fs) as [rows|]; [|discriminate].
    destruct (restore_parts ms fs) as [ps'|] eqn:E; [|discriminate].
    injection H as <-. rewrite <- (IH _ _ E). reflexivity.
Qed.

Lemma restore_parts_ext : forall ms fs fs',
  (forall m, In m ms -> find_file (pm_id m) fs' = find_file (pm_id m) fs) ->
  restore_parts ms fs' = restore_parts ms fs.
Proof.
  induction ms as [|m ms IH]; cbn; intros fs fs' H; auto.
  rewrite (H m (or_introl eq_refl)), (IH fs fs'); auto.
Qed.

Lemma meta_rows_ext : forall ms fs fs',
  (forall m, In m ms -> find_file (pm_id m) fs' = find_file (pm_id m) fs) ->
  meta_rows ms fs' = meta_rows ms fs.
Proof.
  induction ms as [|m ms IH]; intros fs fs' H; [reflexivity|].
  rewrite !meta_rows_cons, (H m (or_introl eq_refl)). f_equal. apply IH. intros; apply H; right; auto.
Qed.

Lemma meta_rows_parts : forall ps fs,
  (forall p, In p ps -> find_file (p_id p) fs = Some (p_rows p)) ->
  meta_rows (map pmeta_of ps) fs = part_rows ps.
Proof.
  induction ps as [|p ps IH]; intros fs H; [reflexivity|].
  cbn [map]. rewrite meta_rows_cons. cbn [pmeta_of pm_id]. rewrite (H p (or_introl eq_refl)).
  unfold part_rows. cbn [flat_map]. f_equal. apply IH. intros; apply H; right; auto.
Qed.

(* ---------------------------------------------------------------------------------------------- *)
(* the general statement about a restart: no invariant of the volatile state is needed *)

Lemma restore_tables_gen : forall seed (l : tabsT),
  NoDup (keys l) ->
  (forall n t, lookup n l = Some t -> exists ps, restore_parts (t_meta t) (t_files t) = Some ps) ->
  exists l0, restore_tables seed l = Val l0 /\ NoDup (keys l0) /\
    forall n, part_rows (t_parts (view l0 n)) = durable_part_rows (view l n) /\
              t_buf (view l0 n) = [] /\ t_frozen (view l0 n) = [].
Proof.
  induction l as [|[k t] l IH]; cbn [restore_tables]; intros ND H.
  - exists []. split; [reflexivity|]. split; [constructor|]. intro n. unfold view. cbn. auto.
  - inversion ND as [|? ? Hk ND']; subst.
    assert (H' : forall n t0, lookup n l = Some t0 -> exists ps, restore_parts (t_meta t0) (t_files t0) = Some ps).
    { intros n t0 L. apply (H n). cbn. destruct (name_eqb n k) eqn:E; auto.
      apply name_eqb_eq in E. subst. apply lookup_some_in in L. contradiction. }
    destruct (IH ND' H') as [r [Er [NDr Hr]]]. rewrite Er. cbn [bind].
    assert (Hkr : lookup k r = None).
    { destruct (lookup k r) eqn:E; auto. exfalso.
      clear - Er E Hk. revert r Er E. induction l as [|[k' t'] l IH]; cbn [restore_tables]; intros r Er E.
      - injection Er as <-. discriminate.
      - destruct (restore_tables seed l) as [r'| | | |] eqn:Er'; cbn [bind] in Er; try discriminate.
        cbn in Hk. destruct (t_meta t').
        + injection Er as <-. eapply IH; eauto.
        + destruct (restore (seed_cols seed k' None) t'); cbn [of_opt bind] in Er; [|discriminate].
          injection Er as <-. cbn in E. destruct (name_eqb k k') eqn:E'.
          * apply name_eqb_eq in E'. subst. tauto.
          * eapply IH; eauto. }
    destruct (t_meta t) as [|m ms] eqn:Em.
    + exists r. split; [reflexivity|]. split; [exact NDr|]. intro n. specialize (Hr n).
      unfold view at 2. cbn [lookup]. destruct (name_eqb n k) eqn:E; [|exact Hr].
      apply name_eqb_eq in E. subst n. unfold view. rewrite Hkr. cbn.
      unfold durable_part_rows. rewrite Em. cbn. auto.
    + destruct (H k t) as [ps Eps]. { cbn. rewrite name_eqb_refl. reflexivity. }
      unfold restore. rewrite Em in *. rewrite Eps. cbn [of_opt bind].
      eexists. split; [reflexivity|]. split.
      * cbn. constructor; auto. apply lookup_none. exact Hkr.
      * intro n. unfold view. cbn [lookup]. destruct (name_eqb n k) eqn:E.
        -- cbn [t_parts t_buf t_frozen]. split; [|auto]. rewrite (restore_parts_rows _ _ _ Eps).
           unfold durable_part_rows. rewrite Em. reflexivity.
        -- apply Hr.
Qed.

Lemma recover_durable : forall c s,
  NoDup (keys (tabs s)) ->
  (forall n t, lookup n (tabs s) = Some t -> exists ps, restore_parts (t_meta t) (t_files t) = Some ps) ->
  (exists a k, map fst (kept s) = seqN a k) ->
  (exists s', recover c s = Val s' /\
     forall n, content s' n = durable_part_rows (view (tabs s) n) ++ durable_wal_rows s n) \/
  (exists st, recover c s = Panic st /\ cat_site st).
Proof.
  intros c s ND HR [a [k HK]]. unfold recover. fold (cursor_of s). fold (kept s).
  destruct (restore_tables_gen code_seed (tabs s) ND HR) as [l0 [E0 [ND0 H0]]]. rewrite E0. cbn [bind].
  destruct (create_if_empty code_seed s_meta_tables l0) as [l1 b1] eqn:E1.
  pose proof (grows_view _ _ (grows_create _ _ _ _ _ E1)) as GV1.
  destruct (replay_shape code_seed (kept s) None l1) as [[l2 E2]|[st E2]]; rewrite E2; cbn [bind].
  - left. eexists. split; [reflexivity|]. intro n. rewrite content_view. cbn [tabs].
    destruct (replay_spec _ _ _ _ _ E2) as [_ A2]. destruct (H0 n) as [Hp [Hb Hf]].
    destruct (modc_fields _ _ (GV1 n)) as [Fb [Ff [Fp _]]].
    destruct (appended_fields _ _ _ (A2 n)) as [Ab [Af Ap]].
    unfold table_content. rewrite Ap, Af, Ab, Fp, Ff, Fb, Hp, Hb, Hf. reflexivity.
  - right. exists st. split; auto.
    destruct (replay_panic _ _ _ _ _ E2) as [->|H]; auto.
    exfalso. eapply replay_contiguous; [exact HK|left; reflexivity|exact E2].
Qed.

(* with nothing to replay no catalogue look-up is made *)
Lemma recover_durable_nolog : forall c s,
  NoDup (keys (tabs s)) ->
  (forall n t, lookup n (tabs s) = Some t -> exists ps, restore_parts (t_meta t) (t_files t) = Some ps) ->
  kept s = [] ->
  exists s', recover c s = Val s' /\ forall n, content s' n = durable_part_rows (view (tabs s) n).
Proof.
  intros c s ND HR K.
  destruct (recover_durable c s ND HR) as [[s' [R C]]|[st [P _]]].
  - rewrite K. exists 0, 0%nat. reflexivity.
  - exists s'. split; auto. intro n. rewrite C, durable_wal_rows_kept, K. unfold wal_rows. cbn [flat_map].
    apply app_nil_r.
  - exfalso. revert P. unfold recover. fold (cursor_of s). fold (kept s). rewrite K.
    destruct (restore_tables_gen code_seed (tabs s) ND HR) as [l0 [E0 _]]. rewrite E0. cbn [bind].
    destruct (create_if_empty code_seed s_meta_tables l0) as [l1 b1]. cbn [replay bind]. discriminate.
Qed.

(* a state at rest satisfies the premises *)
Lemma inv_restore_ok : forall s, Inv s ->
  forall n t, lookup n (tabs s) = Some t -> exists ps, restore_parts (t_meta t) (t_files t) = Some ps.
Proof.
  intros s I n t L. pose proof (i_tabs _ I n) as T. unfold view in T. rewrite L in T.
  destruct T as [[_ _ Tn] Tf _ Tm _]. exists (t_parts t). rewrite Tm, Tf.
  apply restore_parts_spec. intros p HI. apply find_file_map; auto.
Qed.

Lemma inv_kept : forall s, Inv s -> kept s = d_wal s.
Proof.
  intros s I. unfold kept.
  assert (Ecur : cursor_of s = earliest s).
  { unfold cursor_of. pose proof (i_cursor _ I) as H. destruct (d_cursor s); congruence. }
  rewrite Ecur, filter_all.
  - eapply sort_segs_sorted. apply (i_ids _ I).
  - intros x HI. apply N.leb_le. eapply seqN_ge. rewrite <- (i_ids _ I). apply in_map. exact HI.
Qed.
