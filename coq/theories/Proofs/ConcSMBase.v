(* C10 — lock bookkeeping of the interleaving model: which resources a program counter holds, the
   consistency of the holder lists with the program counters (LockInv), mutual exclusion (ExclInv),
   and their preservation by every step. *)
From Coq Require Import NArith List Bool Arith Lia.
From LV Require Import Model.ConcSM.
Import ListNotations.

(* ---------------------------------------------------------------------------------------------- *)
(* small list facts                                                                                 *)

Lemma thr_eqb_eq a b : thr_eqb a b = true <-> a = b.
Proof.
  destruct a, b; simpl; split; intro H; try discriminate; try reflexivity;
    try (apply Nat.eqb_eq in H; subst; reflexivity);
    try (injection H as ->; apply Nat.eqb_refl).
Qed.

Lemma thr_eqb_refl a : thr_eqb a a = true.
Proof. apply thr_eqb_eq; reflexivity. Qed.

Lemma thr_eqb_neq a b : a <> b -> thr_eqb a b = false.
Proof.
  intro H. destruct (thr_eqb a b) eqn:E; [|reflexivity].
  apply thr_eqb_eq in E. contradiction.
Qed.

Lemma thr_eq_dec (a b : thr) : {a = b} + {a <> b}.
Proof. decide equality; apply Nat.eq_dec. Qed.

Lemma lk_eq_dec (a b : lk) : {a = b} + {a <> b}.
Proof. decide equality. Qed.

Lemma in_remove_thr t x l : In x (remove_thr t l) <-> In x l /\ x <> t.
Proof.
  induction l as [|y r IH]; simpl.
  - tauto.
  - destruct (thr_eqb t y) eqn:E.
    + apply thr_eqb_eq in E. subst y. rewrite IH. split.
      * intros [H1 H2]. auto.
      * intros [[H1|H1] H2]; [congruence|auto].
    + simpl. rewrite IH. split.
      * intros [H1|[H1 H2]].
        -- subst x. split; [auto|]. intro H. subst y. rewrite thr_eqb_refl in E. discriminate.
        -- auto.
      * intros [[H1|H1] H2]; auto.
Qed.

Lemma mem_thr_in t l : mem_thr t l = true <-> In t l.
Proof.
  induction l as [|y r IH]; simpl.
  - split; [discriminate|tauto].
  - rewrite orb_true_iff, IH, thr_eqb_eq. split; intros [H|H]; auto.
Qed.

Lemma is_nil_true {A} (l : list A) : is_nil l = true <-> l = [].
Proof. destruct l; simpl; split; intro H; congruence. Qed.

Lemma holders_set_same ls k v : holders (set_holders ls k v) k = v.
Proof. destruct k; reflexivity. Qed.

Lemma holders_set_other ls k k' v : k <> k' -> holders (set_holders ls k v) k' = holders ls k'.
Proof. destruct k, k'; intro H; try reflexivity; congruence. Qed.

Lemma upd_length {A} n (x : A) l : length (upd n x l) = length l.
Proof.
  revert n. induction l as [|y r IH]; intros [|n]; simpl; auto.
Qed.

Lemma nth_error_upd_same {A} n (x : A) l : n < length l -> nth_error (upd n x l) n = Some x.
Proof.
  revert n. induction l as [|y r IH]; intros [|n] H; simpl in *; try lia; auto.
  apply IH. lia.
Qed.

Lemma nth_error_upd_other {A} n m (x : A) l : n <> m -> nth_error (upd n x l) m = nth_error l m.
Proof.
  revert n m. induction l as [|y r IH]; intros [|n] [|m] H; simpl in *; try reflexivity; try lia.
  apply IH. lia.
Qed.

Lemma nth_error_lt {A} (l : list A) n x : nth_error l n = Some x -> n < length l.
Proof. intro H. apply nth_error_Some. congruence. Qed.

(* ---------------------------------------------------------------------------------------------- *)
(* the resources held at each program counter                                                       *)

Definition i_holds (p : ipc) (k : lk) : bool :=
  match p, k with
  | I_wal _, KWal | I_buf _, KWal | I_pushed_l, KWal | I_pushed, KWal => true
  | I_buf _, KBuffer | I_pushed_l, KBuffer => true
  | _, _ => false
  end.

Definition f_holds (p : fpc) (k : lk) : bool :=
  match p, k with
  | F_wal, KWal | F_fz1, KWal | F_fz2, KWal | F_fz3, KWal | F_fz4, KWal | F_fz5, KWal => true
  | F_fz1, KFrozen | F_fz2, KFrozen | F_fz3, KFrozen | F_fz4, KFrozen => true
  | F_fz2, KBuffer | F_fz3, KBuffer => true
  | F_b1, KFrozen | F_b_none, KFrozen | F_b2 _ _, KFrozen | F_b3 _ _, KFrozen | F_b4, KFrozen
  | F_b5, KFrozen => true
  | F_b3 _ _, KPW | F_b4, KPW => true
  | F_p1, KPR | F_cr _ _, KPR => true
  | F_c1 _ _ _, KPW | F_c2, KPW => true
  | _, _ => false
  end.

Definition q_holds (p : qpc) (k : lk) : bool :=
  match p, k with
  | Q_l1 _, KFrozen | Q_l2 _, KFrozen | Q_l3 _, KFrozen | Q_c _ _, KFrozen | Q_r1 _ _, KFrozen
  | Q_r2 _ _, KFrozen => true
  | Q_l2 _, KPR | Q_l3 _, KPR | Q_c _ _, KPR | Q_r1 _ _, KPR => true
  | Q_l3 _, KBuffer | Q_c _ _, KBuffer => true
  | _, _ => false
  end.

Definition t_holds (st : state) (t : thr) (k : lk) : bool :=
  match t with
  | TI n => match nth_error (ing st) n with Some p => i_holds p k | None => false end
  | TF => f_holds (fl st) k
  | TQ n => match nth_error (qs st) n with Some p => q_holds p k | None => false end
  end.

(* effect of one lock operation on the set of held resources *)
Definition holds_step (lo : lockop) (h h' : lk -> bool) : Prop :=
  match lo with
  | LNone => forall k, h' k = h k
  | Acq k0 => h k0 = false /\ h' k0 = true /\ forall k, k <> k0 -> h' k = h k
  | Rel k0 => h' k0 = false /\ forall k, k <> k0 -> h' k = h k
  end.

Ltac holds_tac :=
  simpl; repeat split; try reflexivity;
  let k := fresh "k" in let Hk := fresh "Hk" in
  try (intros k Hk; destruct k; try reflexivity; congruence);
  try (intros k; destruct k; reflexivity).

Lemma itrans_holds p a d lo p' d' :
  itrans p a d = Some (lo, p', d') -> holds_step lo (i_holds p) (i_holds p').
Proof.
  destruct p, a; simpl; intro H; try discriminate; injection H as <- <- <-; holds_tac.
Qed.

Lemma qtrans_holds p a d lo p' d' :
  qtrans p a d = Some (lo, p', d') -> holds_step lo (q_holds p) (q_holds p').
Proof.
  destruct p, a; simpl; intro H; try discriminate; injection H as <- <- <-; holds_tac.
Qed.

Lemma ftrans_holds p a d lo p' d' :
  ftrans p a d = Some (lo, p', d') -> p' <> F_panic -> holds_step lo (f_holds p) (f_holds p').
Proof.
  destruct p, a; simpl; intros H NP; try discriminate;
    repeat match type of H with
           | context [if ?c then _ else _] => destruct c
           | context [match ?c with Some _ => _ | None => _ end] => destruct c
           end;
    try discriminate; injection H as <- <- <-; try congruence; holds_tac.
Qed.

(* the acquisition order: whatever is acquired ranks above everything already held *)
Definition acq_ordered (lo : lockop) (h : lk -> bool) : Prop :=
  match lo with
  | Acq k0 => forall k, h k = true -> rank k < rank k0
  | _ => True
  end.

Ltac order_tac :=
  simpl; try exact I;
  let k := fresh "k" in let Hk := fresh "Hk" in
  intros k Hk; destruct k; simpl in *; try discriminate; lia.

Lemma itrans_order p a d lo p' d' :
  itrans p a d = Some (lo, p', d') -> acq_ordered lo (i_holds p).
Proof.
  destruct p, a; simpl; intro H; try discriminate; injection H as <- <- <-; order_tac.
Qed.

Lemma qtrans_order p a d lo p' d' :
  qtrans p a d = Some (lo, p', d') -> acq_ordered lo (q_holds p).
Proof.
  destruct p, a; simpl; intro H; try discriminate; injection H as <- <- <-; order_tac.
Qed.

Lemma ftrans_order p a d lo p' d' :
  ftrans p a d = Some (lo, p', d') -> acq_ordered lo (f_holds p).
Proof.
  destruct p, a; simpl; intros H; try discriminate;
    repeat match type of H with
           | context [if ?c then _ else _] => destruct c
           | context [match ?c with Some _ => _ | None => _ end] => destruct c
           end;
    try discriminate; injection H as <- <- <-; order_tac.
Qed.

(* ---------------------------------------------------------------------------------------------- *)
(* LockInv: the holder lists say exactly what the program counters say                              *)

Definition LockInv (st : state) : Prop :=
  forall t k, In t (holders (lks st) k) <-> t_holds st t k = true.

Lemma lockinv_step st st' t lo (h' : lk -> bool) :
  LockInv st ->
  apply_lockop t lo (lks st) = Some (lks st') ->
  holds_step lo (t_holds st t) h' ->
  (forall k, t_holds st' t k = h' k) ->
  (forall t' k, t' <> t -> t_holds st' t' k = t_holds st t' k) ->
  LockInv st'.
Proof.
  intros LI AL HS Hme Hoth t0 k.
  destruct lo as [|k0|k0]; simpl in AL.
  - injection AL as AL. rewrite <- AL. rewrite (LI t0 k).
    destruct (thr_eq_dec t0 t) as [->|N].
    + rewrite Hme. simpl in HS. rewrite HS. tauto.
    + rewrite Hoth by exact N. tauto.
  - destruct (can_acquire (lks st) k0); [|discriminate].
    injection AL as AL. rewrite <- AL. destruct HS as (H0 & H1 & H2).
    destruct (lk_eq_dec k0 k) as [->|NK].
    + rewrite holders_set_same. simpl.
      destruct (thr_eq_dec t0 t) as [->|N].
      * rewrite Hme, H1. tauto.
      * rewrite Hoth by exact N. rewrite <- (LI t0 k). split; [intros [E|E]; [congruence|exact E]|auto].
    + rewrite holders_set_other by exact NK. rewrite (LI t0 k).
      destruct (thr_eq_dec t0 t) as [->|N].
      * rewrite Hme, H2 by congruence. tauto.
      * rewrite Hoth by exact N. tauto.
  - destruct (mem_thr t (holders (lks st) k0)); [|discriminate].
    injection AL as AL. rewrite <- AL. destruct HS as (H1 & H2).
    destruct (lk_eq_dec k0 k) as [->|NK].
    + rewrite holders_set_same, in_remove_thr.
      destruct (thr_eq_dec t0 t) as [->|N].
      * rewrite Hme, H1. split; [intros [_ E]; congruence|discriminate].
      * rewrite Hoth by exact N. rewrite <- (LI t0 k). tauto.
    + rewrite holders_set_other by exact NK. rewrite (LI t0 k).
      destruct (thr_eq_dec t0 t) as [->|N].
      * rewrite Hme, H2 by congruence. tauto.
      * rewrite Hoth by exact N. tauto.
Qed.

(* ---------------------------------------------------------------------------------------------- *)
(* ExclInv: mutexes have at most one holder; a writer excludes readers and other writers            *)

Definition is_mutex (k : lk) : bool :=
  match k with KWal | KFrozen | KBuffer => true | _ => false end.

Definition ExclInv (ls : locks) : Prop :=
  (forall k, is_mutex k = true -> forall t1 t2, In t1 (holders ls k) -> In t2 (holders ls k) -> t1 = t2)
  /\ (forall t1 t2, In t1 (h_pw ls) -> In t2 (h_pw ls) -> t1 = t2)
  /\ (h_pw ls <> [] -> h_pr ls = []).

Lemma remove_thr_nil t l : l = [] -> remove_thr t l = [].
Proof. intros ->. reflexivity. Qed.

Lemma exclinv_step t lo ls ls' : ExclInv ls -> apply_lockop t lo ls = Some ls' -> ExclInv ls'.
Proof.
  intros (M & W & R) AL. destruct lo as [|k0|k0]; simpl in AL.
  - injection AL as <-. repeat split; assumption.
  - destruct (can_acquire ls k0) eqn:CA; [|discriminate]. injection AL as <-.
    split; [|split].
    + intros k Mk t1 t2 I1 I2. destruct (lk_eq_dec k0 k) as [->|NK].
      * rewrite holders_set_same in *. destruct k; simpl in Mk; try discriminate;
          simpl in *; apply is_nil_true in CA; rewrite CA in *;
          simpl in I1, I2; destruct I1 as [<-|[]]; destruct I2 as [<-|[]]; reflexivity.
      * rewrite holders_set_other in * by exact NK. eapply M; eauto.
    + destruct k0; simpl in *; try (apply W).
      apply andb_true_iff in CA. destruct CA as [CA _]. apply is_nil_true in CA. rewrite CA.
      intros t1 t2 [<-|[]] [<-|[]]. reflexivity.
    + destruct k0; simpl in *; try (exact R).
      * apply andb_true_iff in CA. destruct CA as [_ CA]. apply is_nil_true in CA. intros _. exact CA.
      * apply is_nil_true in CA. intro H. congruence.
  - destruct (mem_thr t (holders ls k0)); [|discriminate]. injection AL as <-.
    split; [|split].
    + intros k Mk t1 t2 I1 I2. destruct (lk_eq_dec k0 k) as [->|NK].
      * rewrite holders_set_same in *. apply in_remove_thr in I1, I2. eapply M; [exact Mk| |]; tauto.
      * rewrite holders_set_other in * by exact NK. eapply M; eauto.
    + destruct k0; simpl in *; try (apply W).
      intros t1 t2 I1 I2. apply in_remove_thr in I1, I2. apply W; tauto.
    + destruct k0; simpl in *; try (exact R).
      * intro H. apply R. intro E. apply H. rewrite E. reflexivity.
      * intro H. rewrite (R H). reflexivity.
Qed.
