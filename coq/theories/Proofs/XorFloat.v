(* Proofs about Model/XorFloat.v *)
From Coq Require Import NArith Arith PeanoNat List Lia Bool.
From LV Require Import Model.XorFloat.
Import ListNotations.
Open Scope N_scope.

Lemma of_bits_bits_of k : forall v, v < 2 ^ N.of_nat k -> of_bits (bits_of v k) = v.
Proof.
  induction k as [|k IH]; intros v Hv.
  - simpl in *. lia.
  - cbn [bits_of of_bits]. rewrite IH.
    + rewrite N.div2_div. pose proof (N.div_mod v 2 ltac:(lia)) as E.
      rewrite <- N.bit0_mod in E. rewrite N.bit0_odd in E.
      destruct (N.odd v); simpl N.b2n in E; lia.
    + rewrite N.div2_div. apply N.div_lt_upper_bound; [lia|].
      rewrite Nat2N.inj_succ, N.pow_succ_r' in Hv. lia.
Qed.

Lemma length_bits_of k : forall v, length (bits_of v k) = k.
Proof. induction k as [|k IH]; intros v; cbn [bits_of length]; [reflexivity|now rewrite IH]. Qed.

Lemma read_bits_app k : forall v s, read_bits k (bits_of v k ++ s) = Some (bits_of v k, s).
Proof.
  induction k as [|k IH]; intros v s; [reflexivity|].
  cbn [bits_of app read_bits]. now rewrite IH.
Qed.

Lemma read_write k v s : v < 2 ^ N.of_nat k -> read k (bits_of v k ++ s) = Some (v, s).
Proof. intros Hv. unfold read. rewrite read_bits_app. now rewrite of_bits_bits_of. Qed.

(* ---------- trailing / leading zeros ---------- *)
Lemma pctz_divides p : (Npos p) mod 2 ^ pctz p = 0.
Proof.
  induction p as [q IH|q IH|]; cbn [pctz]; try (rewrite N.pow_0_r; apply N.mod_1_r).
  change (Npos q~0) with (2 * Npos q).
  rewrite N.pow_add_r, N.pow_1_r.
  rewrite N.mul_mod_distr_l; [rewrite IH; reflexivity| |lia].
  apply N.pow_nonzero; lia.
Qed.

Lemma divides_le x c t : x mod 2 ^ c = 0 -> t <= c -> x mod 2 ^ t = 0.
Proof.
  intros H Ht. replace c with (t + (c - t)) in H by lia.
  rewrite N.pow_add_r in H.
  apply N.mod_divide in H; [|apply N.neq_mul_0; split; apply N.pow_nonzero; lia].
  apply N.mod_divide; [apply N.pow_nonzero; lia|].
  destruct H as [k Hk]. exists (k * 2 ^ (c - t)). lia.
Qed.

Lemma shift_back x t : x mod 2 ^ t = 0 -> N.shiftl (N.shiftr x t) t = x.
Proof.
  intros H. rewrite N.shiftl_mul_pow2, N.shiftr_div_pow2.
  pose proof (N.div_mod x (2 ^ t) ltac:(apply N.pow_nonzero; lia)). lia.
Qed.

Lemma pctz_lt_size p : pctz p < N.size (Npos p).
Proof.
  induction p as [q IH|q IH|]; cbn [pctz N.size Pos.size] in *; try lia.
  all: try (destruct q; simpl; lia).
Qed.

Lemma size_le_64 x : x < 2 ^ 64 -> N.size x <= 64.
Proof.
  intros H. destruct (N.eq_dec x 0) as [->|Hx]; [simpl; lia|].
  rewrite N.size_log2 by assumption.
  assert (N.log2 x < 64) by (apply N.log2_lt_pow2; lia). lia.
Qed.

Lemma ctz_lt_size x : x <> 0 -> ctz64 x < N.size x.
Proof. destruct x; [congruence|]. intros _. apply pctz_lt_size. Qed.

Lemma ctz_divides x t : x <> 0 -> t <= ctz64 x -> x mod 2 ^ t = 0.
Proof.
  destruct x; [congruence|]. intros _ Ht. eapply divides_le; [apply pctz_divides|exact Ht].
Qed.

Lemma ctz_64_iff x : x < 2 ^ 64 -> (ctz64 x =? 64) = (x =? 0).
Proof.
  intros H. destruct (N.eq_dec x 0) as [->|Hx]; [reflexivity|].
  pose proof (ctz_lt_size x Hx). pose proof (size_le_64 x H).
  destruct (N.eqb_spec (ctz64 x) 64); destruct (N.eqb_spec x 0); try lia; congruence.
Qed.

Lemma shr_bound x l t : x < 2 ^ (64 - l) -> l + t <= 64 -> N.shiftr x t < 2 ^ (64 - l - t).
Proof.
  intros Hx Hl. rewrite N.shiftr_div_pow2.
  apply N.div_lt_upper_bound; [apply N.pow_nonzero; lia|].
  rewrite <- N.pow_add_r. replace (t + (64 - l - t)) with (64 - l) by lia. exact Hx.
Qed.

Lemma lt_pow_clz x l : x < 2 ^ 64 -> l <= clz64 x -> x < 2 ^ (64 - l).
Proof.
  intros Hx Hl. unfold clz64 in Hl. pose proof (size_le_64 x Hx).
  eapply N.lt_le_trans; [apply N.size_gt|]. apply N.pow_le_mono_r; lia.
Qed.

Global Opaque bits_of.
Arguments read : simpl never.

(* encoder-side window invariant *)
Definition WinOk (e : enc_st) : Prop :=
  e_lz e = 65 \/ (e_lz e + e_tz e + e_sb e = 64 /\ e_lz e <= 31 /\ 1 <= e_sb e).

Definition Rel (e : enc_st) (d : dec_st) : Prop :=
  e_lz e = 65 \/ (d_tz d = e_tz e /\ d_sb d = e_sb e).

Lemma read1_true s : read 1 (true :: s) = Some (1, s).
Proof. reflexivity. Qed.
Lemma read1_false s : read 1 (false :: s) = Some (0, s).
Proof. reflexivity. Qed.
Lemma eqb10 : (1 =? 0) = false. Proof. reflexivity. Qed.
Lemma eqb11 : (1 =? 1) = true. Proof. reflexivity. Qed.
Lemma eqb00 : (0 =? 0) = true. Proof. reflexivity. Qed.
Lemma eqb01 : (0 =? 1) = false. Proof. reflexivity. Qed.

(* One encoder step is undone by one decoder step: the decoder's value moves by exactly the masked
   xor, the windows stay in agreement, and the regret bookkeeping stays below maxr + 63. *)
Lemma step_ok mask maxr e d f e' out s :
  WinOk e -> Rel e d -> N.land (N.lxor f (e_last e)) mask < 2 ^ 64 ->
  enc_step mask maxr e f = Some (e', out) ->
  exists d', dec_step d (out ++ s) = Some (d', s) /\
             d_last d' = N.lxor (d_last d) (N.land (N.lxor f (e_last e)) mask) /\
             e_last e' = f /\ WinOk e' /\ Rel e' d'.
Proof.
  intros Hwin Hrel Hx. unfold enc_step.
  set (x := N.land (N.lxor f (e_last e)) mask) in *.
  rewrite (ctz_64_iff x Hx).
  destruct (N.eqb_spec x 0) as [Hx0|Hx0].
  - intros E; injection E as <- <-. cbn [app].
    exists d. unfold dec_step. rewrite read1_false. rewrite ?eqb10, ?eqb11, ?eqb00, ?eqb01.
    repeat split; cbn; auto. now rewrite Hx0, N.lxor_0_r.
  - pose proof (ctz_lt_size x Hx0) as Hts. pose proof (size_le_64 x Hx) as Hs64.
    set (lzs := N.min (clz64 x) 31). set (tzs := ctz64 x). fold tzs in Hts.
    assert (Hlzs : lzs <= clz64 x) by (unfold lzs; lia).
    assert (Hlzs31 : lzs <= 31) by (unfold lzs; lia).
    assert (Hclz : clz64 x + N.size x = 64) by (unfold clz64; lia).
    set (sbs := 64 - lzs - tzs).
    assert (Hsum : lzs + tzs + sbs = 64) by (unfold sbs; lia).
    assert (Hsb1 : 1 <= sbs) by (unfold sbs; lia).
    destruct ((e_lz e <=? lzs) && (e_tz e <=? tzs) && ((e_regret e <? maxr) || (sbs =? e_sb e))) eqn:Hc.
    + destruct ((sbs <=? e_sb e) && (e_regret e + (e_sb e - sbs) <=? u32_max)) eqn:Hg; [|discriminate].
      intros E; injection E as <- <-.
      apply andb_prop in Hc as [Hc _]. apply andb_prop in Hc as [Hc1 Hc2].
      apply N.leb_le in Hc1, Hc2.
      destruct Hwin as [H65|(Hsum' & Hlz31 & Hsbe)]; [lia|].
      destruct Hrel as [H65|(Htz & Hsb)]; [lia|].
      cbn [app]. unfold dec_step. rewrite read1_true. rewrite ?eqb10, ?eqb11, ?eqb00, ?eqb01.
      rewrite read1_false. rewrite ?eqb10, ?eqb11, ?eqb00, ?eqb01. rewrite Hsb, Htz.
      rewrite read_write.
      2:{ rewrite N2Nat.id. replace (e_sb e) with (64 - e_lz e - e_tz e) by lia.
          apply shr_bound; [|lia]. apply lt_pow_clz; [exact Hx|lia]. }
      eexists; split; [reflexivity|]. cbn.
      rewrite shift_back by (apply ctz_divides; [exact Hx0|exact Hc2]).
      repeat split; auto.
      * right. repeat split; auto.
      * right. split; reflexivity.
    + intros E; injection E as <- <-.
      cbn [app]. unfold dec_step. rewrite read1_true. rewrite ?eqb10, ?eqb11, ?eqb00, ?eqb01.
      rewrite read1_true. rewrite ?eqb10, ?eqb11, ?eqb00, ?eqb01. rewrite <- !app_assoc.
      rewrite (read_write 5) by (cbn; lia).
      rewrite (read_write 6) by (cbn; lia).
      replace (sbs - 1 + 1) with sbs by lia.
      replace (64 - lzs - sbs) with tzs by lia.
      rewrite read_write.
      2:{ rewrite N2Nat.id. unfold sbs. apply shr_bound; [|lia]. apply lt_pow_clz; [exact Hx|exact Hlzs]. }
      eexists; split; [reflexivity|]. cbn.
      rewrite shift_back by (apply ctz_divides; [exact Hx0|unfold tzs; lia]).
      repeat split; auto.
      * right. repeat split; auto; lia.
      * right. split; reflexivity.
Qed.

(* The encoder never panics when max_regret leaves 63 of head-room below u32::MAX. *)
Definition RegOk (maxr : N) (e : enc_st) : Prop := e_regret e <= maxr + 62.

Lemma step_total mask maxr e f :
  WinOk e -> RegOk maxr e -> maxr + 62 <= u32_max ->
  N.land (N.lxor f (e_last e)) mask < 2 ^ 64 ->
  exists e' out, enc_step mask maxr e f = Some (e', out) /\ RegOk maxr e'.
Proof.
  intros Hwin Hreg Hmax Hx. unfold enc_step.
  set (x := N.land (N.lxor f (e_last e)) mask) in *.
  rewrite (ctz_64_iff x Hx).
  destruct (N.eqb_spec x 0) as [Hx0|Hx0].
  - eexists _, _; split; [reflexivity|exact Hreg].
  - pose proof (ctz_lt_size x Hx0) as Hts. pose proof (size_le_64 x Hx) as Hs64.
    set (lzs := N.min (clz64 x) 31). set (tzs := ctz64 x). fold tzs in Hts.
    assert (Hlzs : lzs <= clz64 x) by (unfold lzs; lia).
    assert (Hclz : clz64 x + N.size x = 64) by (unfold clz64; lia).
    set (sbs := 64 - lzs - tzs).
    assert (Hsb1 : 1 <= sbs) by (unfold sbs; lia).
    destruct ((e_lz e <=? lzs) && (e_tz e <=? tzs) && ((e_regret e <? maxr) || (sbs =? e_sb e))) eqn:Hc.
    + apply andb_prop in Hc as [Hc Hc3]. apply andb_prop in Hc as [Hc1 Hc2].
      apply N.leb_le in Hc1, Hc2.
      assert (Hlzs31 : lzs <= 31) by (unfold lzs; lia).
      destruct Hwin as [H65|(Hsum' & Hlz31 & Hsbe)]; [lia|].
      assert (Hle : sbs <= e_sb e) by (unfold sbs; lia).
      assert (Hnew : e_regret e + (e_sb e - sbs) <= maxr + 62).
      { apply orb_prop in Hc3 as [Hr|Hs].
        - apply N.ltb_lt in Hr. lia.
        - apply N.eqb_eq in Hs. unfold RegOk in Hreg. lia. }
      replace ((sbs <=? e_sb e) && (e_regret e + (e_sb e - sbs) <=? u32_max)) with true.
      2:{ symmetry. apply andb_true_iff. split; apply N.leb_le; lia. }
      eexists _, _; split; [reflexivity|]. unfold RegOk; cbn. exact Hnew.
    + eexists _, _; split; [reflexivity|]. unfold RegOk; cbn. lia.
Qed.

Lemma lxor_lt64 a b : a < 2 ^ 64 -> b < 2 ^ 64 -> N.lxor a b < 2 ^ 64.
Proof.
  intros Ha Hb. destruct (N.eq_dec (N.lxor a b) 0) as [->|Hn]; [lia|].
  apply N.log2_lt_pow2; [lia|].
  eapply N.le_lt_trans; [apply N.log2_lxor|].
  destruct (N.eq_dec a 0) as [->|Ha0]; destruct (N.eq_dec b 0) as [->|Hb0];
    try (rewrite N.lxor_0_l in Hn); try (rewrite N.lxor_0_r in Hn); try congruence.
  - simpl. apply N.max_lub_lt; [simpl; lia|apply N.log2_lt_pow2; lia].
  - apply N.max_lub_lt; [apply N.log2_lt_pow2; lia|simpl; lia].
  - apply N.max_lub_lt; apply N.log2_lt_pow2; lia.
Qed.

Lemma land_lt64_l a m : a < 2 ^ 64 -> N.land a m < 2 ^ 64.
Proof.
  intros Ha. destruct (N.eq_dec (N.land a m) 0) as [->|Hn]; [lia|].
  apply N.log2_lt_pow2; [lia|].
  eapply N.le_lt_trans; [apply N.log2_land|].
  destruct (N.eq_dec a 0) as [->|Ha0]; [rewrite N.land_0_l in Hn; congruence|].
  eapply N.le_lt_trans; [apply N.le_min_l|]. apply N.log2_lt_pow2; lia.
Qed.

Lemma loop_ok mask maxr : forall fs e d s bits,
  WinOk e -> Rel e d -> Forall (fun f => f < 2 ^ 64) fs -> e_last e < 2 ^ 64 ->
  enc_loop mask maxr e fs = Some bits ->
  dec_loop (length fs) d (bits ++ s) = Some (expected_from mask (d_last d) (e_last e) fs).
Proof.
  induction fs as [|f fs IH]; intros e d s bits HW HR HF Hl E.
  - cbn in E. injection E as <-. reflexivity.
  - inversion HF as [|? ? Hf HF']; subst.
    cbn [enc_loop] in E.
    destruct (enc_step mask maxr e f) as [[e' out]|] eqn:Es; [|discriminate].
    destruct (enc_loop mask maxr e' fs) as [rest|] eqn:El; [|discriminate].
    injection E as <-.
    assert (Hx : N.land (N.lxor f (e_last e)) mask < 2 ^ 64).
    { apply land_lt64_l, lxor_lt64; assumption. }
    cbn [length dec_loop expected_from]. rewrite <- app_assoc.
    destruct (step_ok mask maxr e d f e' out (rest ++ s) HW HR Hx Es)
      as (d' & Hd & Hlast & Hel & HW' & HR').
    rewrite Hd.
    rewrite (IH e' d' s rest HW' HR' HF'); [|now rewrite Hel|exact El].
    rewrite Hlast, Hel. reflexivity.
Qed.

Lemma loop_total mask maxr : forall fs e,
  WinOk e -> RegOk maxr e -> maxr + 62 <= u32_max ->
  Forall (fun f => f < 2 ^ 64) fs -> e_last e < 2 ^ 64 ->
  exists bits, enc_loop mask maxr e fs = Some bits.
Proof.
  induction fs as [|f fs IH]; intros e HW HG Hm HF Hl; [eexists; reflexivity|].
  inversion HF as [|? ? Hf HF']; subst.
  assert (Hx : N.land (N.lxor f (e_last e)) mask < 2 ^ 64).
  { apply land_lt64_l, lxor_lt64; assumption. }
  destruct (step_total mask maxr e f HW HG Hm Hx) as (e' & out & Es & HG').
  cbn [enc_loop]. rewrite Es.
  (* the window invariant of e' comes from step_ok with any decoder state in relation *)
  assert (HWe' : WinOk e' /\ e_last e' = f).
  { destruct (step_ok mask maxr e {| d_last := 0; d_tz := e_tz e; d_sb := e_sb e |} f e' out []
                      HW (or_intror (conj eq_refl eq_refl)) Hx Es) as (d' & _ & _ & Hel & HW' & _).
    split; assumption. }
  destruct HWe' as [HW' Hel].
  destruct (IH e' HW' HG' Hm HF') as (rest & ->); [now rewrite Hel|].
  eexists; reflexivity.
Qed.

Lemma WinOk_init f0 : WinOk (enc_init f0).
Proof. left; reflexivity. Qed.

(* decode . encode, with an arbitrary suffix (the zero padding of the last byte) *)
Theorem decode_encode_suffix mask maxr fs bits s :
  Forall (fun f => f < 2 ^ 64) fs -> N.of_nat (length fs) < 2 ^ 64 ->
  encode mask maxr fs = Some bits ->
  decode (bits ++ s) = Some (expected mask fs).
Proof.
  intros HF Hlen. unfold encode, decode.
  destruct fs as [|f0 fs].
  - intros E; injection E as <-. rewrite (read_write 64) by exact Hlen. reflexivity.
  - inversion HF as [|? ? Hf0 HF']; subst.
    destruct (enc_loop mask maxr (enc_init f0) fs) as [body|] eqn:El; [|discriminate].
    cbn [obind]. intros E; injection E as <-.
    rewrite <- !app_assoc.
    rewrite (read_write 64) by exact Hlen.
    rewrite (read_write 64) by exact Hf0.
    cbn [length N.of_nat].
    replace (N.pos (Pos.of_succ_nat (length fs)) =? 0) with false by reflexivity.
    replace (N.to_nat (N.pos (Pos.of_succ_nat (length fs))) - 1)%nat with (length fs) by lia.
    rewrite (loop_ok mask maxr fs (enc_init f0) {| d_last := f0; d_tz := 65; d_sb := 0 |} s body);
      auto using WinOk_init.
    left; reflexivity.
Qed.

Theorem decode_encode mask maxr fs bits :
  Forall (fun f => f < 2 ^ 64) fs -> N.of_nat (length fs) < 2 ^ 64 ->
  encode mask maxr fs = Some bits ->
  decode bits = Some (expected mask fs).
Proof.
  intros HF Hlen E. rewrite <- (app_nil_r bits). eapply decode_encode_suffix; eauto.
Qed.

Theorem encode_total mask maxr fs :
  Forall (fun f => f < 2 ^ 64) fs -> maxr + 62 <= u32_max ->
  exists bits, encode mask maxr fs = Some bits.
Proof.
  intros HF Hm. unfold encode. destruct fs as [|f0 fs]; [eexists; reflexivity|].
  inversion HF as [|? ? Hf0 HF']; subst.
  destruct (loop_total mask maxr fs (enc_init f0)) as (body & ->); auto using WinOk_init.
  - unfold RegOk; cbn; lia.
  - eexists; reflexivity.
Qed.

(* ---------- what [expected] means ---------- *)
Lemma land_ones64 a : a < 2 ^ 64 -> N.land a all_ones = a.
Proof.
  intros H. change all_ones with (N.ones 64). rewrite N.land_ones. apply N.mod_small. exact H.
Qed.

Lemma lxor_cancel a b : N.lxor a (N.lxor b a) = b.
Proof. rewrite (N.lxor_comm b a), <- N.lxor_assoc, N.lxor_nilpotent, N.lxor_0_l. reflexivity. Qed.

Lemma expected_from_all_ones : forall fs p,
  p < 2 ^ 64 -> Forall (fun f => f < 2 ^ 64) fs -> expected_from all_ones p p fs = fs.
Proof.
  induction fs as [|f fs IH]; intros p Hp HF; [reflexivity|].
  inversion HF as [|? ? Hf HF']; subst. cbn [expected_from].
  rewrite land_ones64 by (apply lxor_lt64; assumption).
  rewrite lxor_cancel. now rewrite IH.
Qed.

(* full precision: bit-exact *)
Theorem expected_all_ones fs :
  Forall (fun f => f < 2 ^ 64) fs -> expected all_ones fs = fs.
Proof.
  destruct fs as [|f0 fs]; [reflexivity|]. intros HF.
  inversion HF as [|? ? Hf0 HF']; subst. cbn [expected]. now rewrite expected_from_all_ones.
Qed.

Lemma masked_step d p f mask :
  N.land d mask = N.land p mask ->
  N.land (N.lxor d (N.land (N.lxor f p) mask)) mask = N.land f mask.
Proof.
  intros H. apply N.bits_inj; intros i.
  assert (Hi := f_equal (fun z => N.testbit z i) H). cbn beta in Hi.
  rewrite !N.land_spec in Hi.
  rewrite !N.land_spec, !N.lxor_spec, !N.land_spec, !N.lxor_spec.
  destruct (N.testbit d i), (N.testbit p i), (N.testbit f i), (N.testbit mask i);
    cbn in *; congruence.
Qed.

Lemma expected_from_masked mask : forall fs d p,
  N.land d mask = N.land p mask ->
  Forall2 (fun f x => N.land x mask = N.land f mask) fs (expected_from mask d p fs).
Proof.
  induction fs as [|f fs IH]; intros d p H; cbn [expected_from]; constructor.
  - apply masked_step; exact H.
  - apply IH. apply masked_step; exact H.
Qed.

(* reduced mantissa: every decoded value agrees with the original on all bits kept by the mask *)
Theorem expected_masked mask fs :
  Forall2 (fun f x => N.land x mask = N.land f mask) fs (expected mask fs).
Proof.
  destruct fs as [|f0 fs]; constructor; [reflexivity|].
  apply expected_from_masked. reflexivity.
Qed.

(* the mask for [mantissa = Some m] keeps exactly the bits at positions >= 52 - m: sign, exponent
   and the m leading mantissa bits *)
Lemma mask_bits m i : m <= 52 ->
  N.testbit (all_ones - (2 ^ (52 - m) - 1)) i = (52 - m <=? i) && (i <? 64).
Proof.
  intros Hm.
  assert (E : all_ones - (2 ^ (52 - m) - 1) = N.shiftl (N.ones (64 - (52 - m))) (52 - m)).
  { rewrite N.shiftl_mul_pow2, N.ones_equiv. change all_ones with (N.pred (2 ^ 64)).
    assert (H64 : 2 ^ 64 = 2 ^ (64 - (52 - m)) * 2 ^ (52 - m)).
    { rewrite <- N.pow_add_r. f_equal. lia. }
    pose proof (N.pow_nonzero 2 (52 - m) ltac:(lia)).
    pose proof (N.pow_nonzero 2 (64 - (52 - m)) ltac:(lia)).
    rewrite H64. nia. }
  rewrite E.
  destruct (N.leb_spec (52 - m) i) as [Hi|Hi].
  - rewrite N.shiftl_spec_high' by exact Hi.
    destruct (N.ltb_spec i 64) as [Hi2|Hi2].
    + rewrite N.ones_spec_low by lia. reflexivity.
    + rewrite N.ones_spec_high by lia. reflexivity.
  - rewrite N.shiftl_spec_low by exact Hi. reflexivity.
Qed.

Theorem mask_keeps_top m mask f x :
  mask_of (Some m) = Some mask -> f < 2 ^ 64 -> x < 2 ^ 64 ->
  N.land x mask = N.land f mask ->
  N.shiftr x (52 - m) = N.shiftr f (52 - m).
Proof.
  unfold mask_of. destruct (N.leb_spec m 52) as [Hm|Hm]; [|discriminate].
  intros E Hf Hx H.
  assert (Em : mask = all_ones - (2 ^ (52 - m) - 1)) by congruence. subst mask. clear E.
  apply N.bits_inj. intros i. rewrite !N.shiftr_spec'.
  assert (Hb := f_equal (fun z => N.testbit z (i + (52 - m))) H). cbn beta in Hb.
  rewrite !N.land_spec, mask_bits in Hb by exact Hm.
  destruct (N.ltb_spec (i + (52 - m)) 64) as [Hi|Hi].
  - replace (52 - m <=? i + (52 - m)) with true in Hb by (symmetry; apply N.leb_le; lia).
    rewrite !andb_true_r in Hb. exact Hb.
  - rewrite !N.bits_above_log2; auto.
    + destruct (N.eq_dec f 0) as [->|Hf0]; [simpl; lia|].
      assert (N.log2 f < 64) by (apply N.log2_lt_pow2; lia). lia.
    + destruct (N.eq_dec x 0) as [->|Hx0]; [simpl; lia|].
      assert (N.log2 x < 64) by (apply N.log2_lt_pow2; lia). lia.
Qed.


(* ---------- byte packing: the bits read back from the bytes are the bits written plus zero
   padding of the last byte ---------- *)
Local Transparent bits_of.

Lemma bits_of_of_bits : forall bs, bits_of (of_bits bs) (length bs) = bs.
Proof.
  induction bs as [|b r IH]; [reflexivity|].
  cbn [of_bits length bits_of].
  assert (Hodd : N.odd ((if b then 1 else 0) + 2 * of_bits r) = b).
  { destruct b.
    - rewrite N.odd_add_mul_2. reflexivity.
    - rewrite N.odd_add_mul_2. reflexivity. }
  assert (Hdiv : N.div2 ((if b then 1 else 0) + 2 * of_bits r) = of_bits r).
  { rewrite N.div2_div. destruct b.
    - symmetry. apply N.div_unique with 1; lia.
    - rewrite N.add_0_l. rewrite N.mul_comm. apply N.div_mul. lia. }
  rewrite Hodd, Hdiv, IH. reflexivity.
Qed.

Lemma take_byte_spec : forall k s,
  length (fst (take_byte k s)) = k /\
  ((k <= length s)%nat -> fst (take_byte k s) ++ snd (take_byte k s) = s /\
                         length (snd (take_byte k s)) = (length s - k)%nat) /\
  ((length s < k)%nat -> snd (take_byte k s) = [] /\
                        exists p, fst (take_byte k s) = s ++ repeat false p).
Proof.
  induction k as [|k IH]; intros s.
  - cbn. split; [reflexivity|]. split; [intros _; split; [reflexivity|lia]|intros H; lia].
  - destruct s as [|b t]; cbn [take_byte].
    + destruct (IH []) as (H1 & H2 & H3).
      destruct (take_byte k []) as [bs r] eqn:E. cbn [fst snd length] in *.
      split; [lia|]. split; [intros H; lia|]. intros _.
      destruct k as [|k'].
      * cbn in E. injection E as <- <-. split; [reflexivity|]. exists 1%nat. reflexivity.
      * destruct H3 as [Hr [p Hp]]; [lia|]. split; [exact Hr|].
        exists (S p). cbn in *. rewrite Hp. reflexivity.
    + destruct (IH t) as (H1 & H2 & H3).
      destruct (take_byte k t) as [bs r] eqn:E. cbn [fst snd length] in *.
      split; [lia|]. split.
      * intros H. destruct H2 as [Ha Hb]; [lia|]. split; [cbn; rewrite Ha; reflexivity|lia].
      * intros H. destruct H3 as [Hr [p Hp]]; [lia|]. split; [exact Hr|].
        exists p. cbn. rewrite Hp. reflexivity.
Qed.

Lemma bytes_of_bits_nil fuel : bytes_of_bits fuel [] = [].
Proof. destruct fuel; reflexivity. Qed.

Lemma bits_of_bytes_of_bits_gen : forall fuel s, (length s <= fuel)%nat ->
  exists p, bits_of_bytes (bytes_of_bits fuel s) = s ++ repeat false p.
Proof.
  induction fuel as [|fuel IH]; intros s Hs.
  - destruct s; [|cbn in Hs; lia]. exists 0%nat. reflexivity.
  - destruct s as [|b t]; [exists 0%nat; reflexivity|].
    cbn [bytes_of_bits].
    destruct (take_byte_spec 8 (b :: t)) as (H1 & H2 & H3).
    destruct (take_byte 8 (b :: t)) as [bs r] eqn:E. cbn [fst snd] in *.
    cbn [bits_of_bytes].
    assert (Hb : bits_of (of_bits bs) 8 = bs) by (rewrite <- H1 at 1; apply bits_of_of_bits).
    rewrite Hb.
    destruct (Nat.le_gt_cases 8 (length (b :: t))) as [Hge|Hlt].
    + destruct (H2 Hge) as [Ha Hl].
      destruct (IH r) as [p Hp]; [cbn [length] in *; lia|].
      exists p. rewrite Hp, app_assoc, Ha. reflexivity.
    + destruct (H3 Hlt) as [Hr [p Hp]]. subst r.
      rewrite bytes_of_bits_nil. cbn [bits_of_bytes]. rewrite app_nil_r.
      exists p. exact Hp.
Qed.

Lemma bits_of_bytes_of_bits bits :
  exists pad, bits_of_bytes (bytes_of_bits (length bits) bits) = bits ++ pad.
Proof.
  destruct (bits_of_bytes_of_bits_gen (length bits) bits (Nat.le_refl _)) as [p Hp].
  exists (repeat false p). exact Hp.
Qed.

(* the coder at byte level *)
Theorem decode_bytes_encode_bytes mant mask maxr fs bytes :
  mask_of mant = Some mask ->
  Forall (fun f => f < 2 ^ 64) fs -> N.of_nat (length fs) < 2 ^ 64 ->
  encode_bytes mant maxr fs = Some bytes ->
  decode_bytes bytes = Some (expected mask fs).
Proof.
  intros Hm HF Hl. unfold encode_bytes. rewrite Hm. cbn [obind].
  destruct (encode mask maxr fs) as [bits|] eqn:Eb; [|discriminate]. cbn [obind].
  intros E. injection E as <-. unfold decode_bytes.
  destruct (bits_of_bytes_of_bits bits) as (pad & Ep). rewrite Ep.
  apply (decode_encode_suffix mask maxr fs bits pad HF Hl Eb).
Qed.
Global Opaque bits_of.
