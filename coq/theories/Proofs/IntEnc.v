(* Integer columns: IntegerColumn::new_boxed followed by the query-path decoder returns the values
   that were encoded (every rung of the width/offset ladder, delta and plain, with and without a
   null map), and new_boxed does not panic outside two characterised classes. *)
From Coq Require Import ZArith List Bool Lia.
From LV Require Import Model.CodecBase Model.IntEnc Model.Codec Proofs.CodecBase.
Import ListNotations.
Open Scope Z_scope.

Definition i64s (xs : list Z) : Prop := Forall (fun v => i64_min <= v <= i64_max) xs.

(* what the decoder must produce for values [xs] and an optional null map *)
Definition int_sval (xs : list Z) (null : option (list Z)) : sval :=
  match null with
  | None => Plain (DInts EI64 xs)
  | Some p => WithNulls (DInts EI64 xs) p
  end.

(* ---------------------------------------------------------------------------------------------- *)
(* encode / add *)

Lemma encode_vals_add t off : forall vs es,
  i64s vs -> encode_vals t off vs = Val es -> add_all off es = Val vs.
Proof.
  induction vs as [|v vs IH]; intros es Hv E.
  - cbn in E. injection E as <-. reflexivity.
  - cbn [encode_vals] in E. apply bind_val in E as (e & E1 & E).
    apply sub64_val in E1 as (-> & _).
    destruct ((0 <=? v - off) && (v - off <=? wmax t)); [|discriminate].
    apply bind_val in E as (es' & E2 & E). injection E as <-.
    inversion Hv as [|? ? Hv1 Hv2]; subst.
    unfold add_all. cbn [mapM]. rewrite add64_ok by lia. cbn [bind].
    fold (add_all off es'). rewrite (IH es' Hv2 E2). cbn [bind]. f_equal. f_equal. lia.
Qed.

Lemma add_all_zero : forall es vs, add_all 0 es = Val vs -> vs = es.
Proof.
  induction es as [|e es IH]; intros vs E.
  - cbn in E. now injection E as <-.
  - unfold add_all in E. cbn [mapM] in E. apply bind_val in E as (e' & E1 & E).
    apply bind_val in E as (es' & E2 & E). injection E as <-.
    unfold add64 in E1. destruct (in_i64 (e + 0)); [|discriminate]. injection E1 as <-.
    fold (add_all 0 es) in E2. rewrite (IH _ E2). f_equal. lia.
Qed.

Lemma encode_vals_length t off : forall vs es, encode_vals t off vs = Val es -> length es = length vs.
Proof.
  induction vs as [|v vs IH]; intros es E.
  - cbn in E. now injection E as <-.
  - cbn [encode_vals] in E. apply bind_val in E as (e & _ & E).
    destruct (_ && _); [|discriminate].
    apply bind_val in E as (es' & E2 & E). injection E as <-. cbn. f_equal. now apply IH.
Qed.

(* ---------------------------------------------------------------------------------------------- *)
(* delta transform / delta decode *)

Lemma delta_loop_decode : forall vs prev mn mx ds mm,
  i64s vs -> delta_loop prev mn mx vs = Val (ds, mm) -> delta_decode prev ds = Val vs.
Proof.
  induction vs as [|c vs IH]; intros prev mn mx ds mm Hv E.
  - cbn in E. injection E as <- <-. reflexivity.
  - cbn [delta_loop] in E. apply bind_val in E as (d & E1 & E).
    apply sub64_val in E1 as (-> & _).
    apply bind_val in E as ([ds' mm'] & E2 & E). injection E as <- <-.
    inversion Hv as [|? ? Hv1 Hv2]; subst.
    cbn [delta_decode]. rewrite add64_ok by lia. cbn [bind].
    replace (c - prev + prev) with c by lia.
    rewrite (IH _ _ _ _ _ Hv2 E2). reflexivity.
Qed.

Lemma delta_transform_decode xs mn mx ds mm :
  i64s xs -> delta_transform xs mn mx = Val (ds, mm) -> delta_decode 0 ds = Val xs.
Proof.
  intros Hv E. destruct xs as [|v0 r].
  - cbn in E. injection E as <- <-. reflexivity.
  - cbn [delta_transform] in E. apply bind_val in E as ([ds' mm'] & E1 & E). injection E as <- <-.
    inversion Hv as [|? ? Hv1 Hv2]; subst.
    cbn [delta_decode]. rewrite add64_ok by lia. cbn [bind]. replace (v0 + 0) with v0 by lia.
    rewrite (delta_loop_decode _ _ _ _ _ _ Hv2 E1). reflexivity.
Qed.

Lemma delta_loop_i64s : forall vs prev mn mx ds mm,
  delta_loop prev mn mx vs = Val (ds, mm) -> i64s ds.
Proof.
  induction vs as [|c vs IH]; intros prev mn mx ds mm E.
  - cbn in E. injection E as <- <-. constructor.
  - cbn [delta_loop] in E. apply bind_val in E as (d & E1 & E).
    apply sub64_val in E1 as (-> & Hd).
    apply bind_val in E as ([ds' mm'] & E2 & E). injection E as <- <-.
    constructor; [exact Hd|]. eapply IH; exact E2.
Qed.

(* ---------------------------------------------------------------------------------------------- *)
(* the decode programs of create_col and of the I64 layout *)

Lemma mapM_id_ints (l : list Z) : mapM (fun v => Val v) l = Val l.
Proof. induction l as [|x l IH]; cbn; [reflexivity|now rewrite IH]. Qed.

Definition undelta (delta : bool) (vs xs : list Z) : Prop :=
  if delta then delta_decode 0 vs = Val xs else vs = xs.

(* [es] are the stored values, [vs] what `+ off` makes of them, [xs] the original values *)
Lemma decode_int_codec t off delta null es vs xs len range :
  add_all off es = Val vs ->
  undelta delta vs xs ->
  decode_column (mk_column len range
                   (int_codec t off delta (match null with Some _ => true | None => false end))
                   (with_null (SInts t es) null))
  = Val (int_sval xs null).
Proof.
  intros Ha Hd. unfold undelta in Hd. unfold int_codec, decode_column.
  destruct (off =? 0) eqn:Eo.
  - apply Z.eqb_eq in Eo. subst off. apply add_all_zero in Ha. subst vs.
    destruct null as [p|]; destruct delta; cbn; try rewrite Hd; try rewrite mapM_id_ints; cbn;
      try (subst; reflexivity).
  - destruct null as [p|]; destruct delta; cbn; rewrite Ha; cbn; try rewrite Hd; cbn;
      try (subst; reflexivity).
Qed.

Lemma decode_i64_codec delta null vs xs len range :
  undelta delta vs xs ->
  decode_column (mk_column len range
                   (i64_codec delta (match null with Some _ => true | None => false end))
                   (with_null (SInts EI64 vs) null))
  = Val (int_sval xs null).
Proof.
  intros Hd. unfold undelta in Hd. unfold i64_codec, decode_column.
  destruct null as [p|]; destruct delta; cbn; try rewrite Hd; cbn; try (subst; reflexivity).
Qed.

(* ---------------------------------------------------------------------------------------------- *)
(* T1: whatever column new_boxed returns decodes to the values it was given *)

Theorem new_boxed_decode xs mn0 mx0 delta null col :
  i64s xs ->
  new_boxed xs mn0 mx0 delta null = Val col ->
  decode_column col = Val (int_sval xs null).
Proof.
  intros Hx E. unfold new_boxed in E.
  apply bind_val in E as ([vs [mn mx]] & E1 & E).
  apply bind_val in E as (iv & _ & E).
  assert (Hd : undelta delta vs xs).
  { unfold undelta. destruct delta.
    - eapply delta_transform_decode; eassumption.
    - now injection E1 as <- _. }
  assert (Hvs : i64s vs).
  { destruct delta.
    - destruct xs as [|v0 r]; cbn in E1.
      + injection E1 as <- _. constructor.
      + apply bind_val in E1 as ([ds' mm'] & E1 & E2). injection E2 as <- _.
        inversion Hx; subst. constructor; [assumption|]. eapply delta_loop_i64s; eassumption.
    - injection E1 as <- _. exact Hx. }
  destruct (choose mn mx iv) as [[t off]|].
  - unfold create_col in E.
    apply bind_val in E as (es & E2 & E).
    apply bind_val in E as (lo & _ & E).
    apply bind_val in E as (hi & _ & E).
    injection E as <-.
    eapply decode_int_codec; [eapply encode_vals_add; eassumption|exact Hd].
  - injection E as <-. now apply decode_i64_codec.
Qed.

(* ---------------------------------------------------------------------------------------------- *)
(* T2: the plain (non-delta) path returns a column unless min = i64::MIN and max = 0 *)

Definition bounded (mn mx : Z) (xs : list Z) : Prop := Forall (fun v => mn <= v <= mx) xs.

Lemma encode_vals_total t off : forall vs,
  Forall (fun v => i64_min <= v - off <= i64_max /\ 0 <= v - off <= wmax t) vs ->
  exists es, encode_vals t off vs = Val es.
Proof.
  induction vs as [|v vs IH]; intros H; [now exists []|].
  inversion H as [|? ? [H1 H2] H3]; subst.
  destruct (IH H3) as (es & E).
  exists ((v - off) :: es). cbn [encode_vals]. rewrite sub64_ok by lia. cbn [bind].
  replace ((0 <=? v - off) && (v - off <=? wmax t)) with true
    by (symmetry; apply andb_true_iff; split; apply Z.leb_le; lia).
  now rewrite E.
Qed.

Lemma interval_plain mn mx : mn <= mx -> interval mn mx = Val (mx - mn).
Proof.
  intros H. unfold interval. destruct ((mn <? 0) && (0 <? mx)); [reflexivity|].
  cbn zeta. destruct (Z.ltb_spec (mx - mn) 0); [lia|reflexivity].
Qed.

Lemma create_col_total t xs off mn0 mx0 delta null :
  Forall (fun v => i64_min <= v - off <= i64_max /\ 0 <= v - off <= wmax t) xs ->
  i64_min <= mn0 - off <= i64_max -> i64_min <= mx0 - off <= i64_max ->
  exists col, create_col t xs off mn0 mx0 delta null = Val col.
Proof.
  intros H1 H2 H3. unfold create_col.
  destruct (encode_vals_total t off xs H1) as (es & ->). cbn [bind].
  rewrite !sub64_ok by assumption. cbn [bind]. eauto.
Qed.

(* the ladder picks (t, off) such that every value in [mn, mx] fits *)
Lemma choose_fits mn mx t off :
  i64_min <= mn -> mx <= i64_max -> mn <= mx ->
  choose mn mx (mx - mn) = Some (t, off) ->
  (off = 0 \/ off = mn) /\ (off = 0 -> 0 <= mn) /\ mx - off <= wmax t /\ wmax t <= 4294967295.
Proof.
  intros H1 H2 H3. unfold choose.
  repeat match goal with
  | |- context [if ?c then _ else _] => destruct c eqn:?
  end; intros E; try discriminate; injection E as <- <-;
  repeat match goal with
  | H : (_ && _) = true |- _ => apply andb_true_iff in H; destruct H
  | H : (_ <=? _) = true |- _ => apply Z.leb_le in H
  end; cbn [wmax]; lia.
Qed.

(* History: before /repo 3e7ef89 this needed ~ (mn = i64_min /\ mx = 0) (finding F19). *)
Theorem new_boxed_plain_total xs mn mx null :
  i64_min <= mn -> mx <= i64_max -> mn <= mx -> bounded mn mx xs ->
  exists col, new_boxed xs mn mx false null = Val col.
Proof.
  intros H1 H2 H3 HB. unfold new_boxed. cbn [bind].
  rewrite interval_plain by assumption. cbn [bind].
  destruct (choose mn mx (mx - mn)) as [[t off]|] eqn:Ec; [|eauto].
  destruct (choose_fits _ _ _ _ H1 H2 H3 Ec) as (Ho & Hz & Hw & Hw').
  apply create_col_total.
  - eapply Forall_impl; [|exact HB]. cbn. intros v Hv.
    unfold i64_min, i64_max in *. destruct Ho as [-> | ->]; [specialize (Hz eq_refl)|]; lia.
  - unfold i64_min, i64_max in *. destruct Ho as [-> | ->]; [specialize (Hz eq_refl)|]; lia.
  - unfold i64_min, i64_max in *. destruct Ho as [-> | ->]; [specialize (Hz eq_refl)|]; lia.
Qed.

(* the former F19 witness [i64::MIN, 0] now gets the plain I64 layout *)
Lemma new_boxed_former_F19 :
  new_boxed [i64_min; 0] i64_min 0 false None =
  Val (mk_column 2 (Some (i64_min, 0)) [] [SInts EI64 [i64_min; 0]]).
Proof. reflexivity. Qed.

(* the statistics of an empty buffer (min = i64::MAX, max = i64::MIN) no longer overflow either *)
Lemma new_boxed_empty null : exists col, new_boxed [] i64_max i64_min false null = Val col.
Proof. destruct null; eexists; reflexivity. Qed.

(* ---------------------------------------------------------------------------------------------- *)
(* IntColBuffer statistics are exact *)

Lemma istats_push_all_app st a b :
  istats_push_all st (a ++ b) = istats_push_all (istats_push_all st a) b.
Proof. unfold istats_push_all. apply fold_left_app. Qed.

Lemma istats_minmax : forall data st,
  let st' := istats_push_all st data in
  st_min st' <= st_min st /\ st_max st <= st_max st' /\
  Forall (fun v => st_min st' <= v <= st_max st') data /\
  (st_min st' = st_min st \/ In (st_min st') data) /\
  (st_max st' = st_max st \/ In (st_max st') data).
Proof.
  induction data as [|e data IH]; intros st; cbn zeta.
  - cbn. repeat split; try lia; auto.
  - unfold istats_push_all. cbn [fold_left]. fold (istats_push_all (istats_push st e) data).
    specialize (IH (istats_push st e)). cbn zeta in IH.
    destruct IH as (I1 & I2 & I3 & I4 & I5).
    cbn [istats_push st_min st_max] in I1, I2, I4, I5.
    repeat split.
    + lia.
    + lia.
    + constructor; [lia|exact I3].
    + destruct I4 as [I4|I4]; [|right; now right].
      rewrite I4. destruct (Z.min_spec e (st_min st)) as [[_ ->]|[_ ->]]; [right; now left|now left].
    + destruct I5 as [I5|I5]; [|right; now right].
      rewrite I5. destruct (Z.max_spec e (st_max st)) as [[_ ->]|[_ ->]]; [now left|right; now left].
Qed.

Lemma istats_init_exact data :
  data <> [] -> i64s data ->
  let st := istats_push_all istats_init data in
  bounded (st_min st) (st_max st) data /\ In (st_min st) data /\ In (st_max st) data /\
  i64_min <= st_min st /\ st_max st <= i64_max /\ st_min st <= st_max st.
Proof.
  intros Hne Hd. cbn zeta.
  destruct (istats_minmax data istats_init) as (I1 & I2 & I3 & I4 & I5). cbn zeta in *.
  cbn [istats_init st_min st_max] in I1, I2, I4, I5.
  set (st := istats_push_all istats_init data) in *.
  assert (Hex : exists x, In x data) by (destruct data as [|x ?]; [congruence|exists x; now left]).
  destruct Hex as (x & Hx).
  assert (Hx' := proj1 (Forall_forall _ _) I3 x Hx). cbn in Hx'.
  assert (Hxi := proj1 (Forall_forall _ _) Hd x Hx). cbn in Hxi.
  assert (Hmin : In (st_min st) data).
  { destruct I4 as [I4|I4]; [|exact I4].
    (* st_min still at its initial i64::MAX: then x itself is i64::MAX *)
    replace (st_min st) with x by (unfold i64_max in *; lia). exact Hx. }
  assert (Hmax : In (st_max st) data).
  { destruct I5 as [I5|I5]; [|exact I5].
    replace (st_max st) with x by (unfold i64_min in *; lia). exact Hx. }
  assert (Hmn := proj1 (Forall_forall _ _) Hd _ Hmin). cbn in Hmn.
  assert (Hmx := proj1 (Forall_forall _ _) Hd _ Hmax). cbn in Hmx.
  repeat split; try assumption; try lia.
Qed.

(* ---------------------------------------------------------------------------------------------- *)
(* T3: the delta path.  The transform subtracts neighbours in i64; it returns a column when every
   step fits an i64 (which IntColBuffer's statistics now guarantee whenever they allow delta coding:
   [istats_allow_safe]; before /repo 481c464 they did not, finding F10) and the maximum is not within
   2^32 of i64::MAX (else `max - offset` of the range metadata in create_col can overflow; that needs a
   run of more than 2^31 values to be reached from statistics that select delta coding).
   History: before /repo 3e7ef89 two more guards were needed (first value <> i64::MIN, no step of
   exactly -2^63) because `max - min` could overflow. *)

Fixpoint diffs (prev : Z) (vs : list Z) : list Z :=
  match vs with [] => [] | c :: r => (c - prev) :: diffs c r end.

Fixpoint delta_safe (prev : Z) (vs : list Z) : Prop :=
  match vs with [] => True | c :: r => i64_min <= c - prev <= i64_max /\ delta_safe c r end.

Lemma delta_loop_total : forall vs prev mn mx,
  delta_safe prev vs ->
  exists mn' mx',
    delta_loop prev mn mx vs = Val (diffs prev vs, (mn', mx')) /\
    mn' <= mn /\ mx <= mx' /\
    Forall (fun d => mn' <= d <= mx') (diffs prev vs) /\
    (mn' = mn \/ In mn' (diffs prev vs)) /\ (mx' = mx \/ In mx' (diffs prev vs)).
Proof.
  induction vs as [|c vs IH]; intros prev mn mx Hs.
  - exists mn, mx. cbn. repeat split; try lia; auto.
  - destruct Hs as [Hd Hs]. cbn [delta_loop diffs]. rewrite sub64_ok by exact Hd. cbn [bind].
    set (d := c - prev) in *.
    set (mx1 := if mx <? d then d else mx). set (mn1 := if d <? mn then d else mn).
    destruct (IH c mn1 mx1 Hs) as (mn' & mx' & E & I1 & I2 & I3 & I4 & I5).
    rewrite E. cbn [bind]. exists mn', mx'.
    assert (Hmn1 : mn1 <= mn /\ mn1 <= d /\ (mn1 = mn \/ mn1 = d)) by (subst mn1; destruct (Z.ltb_spec d mn); lia).
    assert (Hmx1 : mx <= mx1 /\ d <= mx1 /\ (mx1 = mx \/ mx1 = d)) by (subst mx1; destruct (Z.ltb_spec mx d); lia).
    repeat split; try lia.
    + constructor; [lia|exact I3].
    + destruct I4 as [I4|I4]; [|right; now right].
      destruct Hmn1 as (_ & _ & [H|H]); [left; lia|right; left; lia].
    + destruct I5 as [I5|I5]; [|right; now right].
      destruct Hmx1 as (_ & _ & [H|H]); [left; lia|right; left; lia].
Qed.

Lemma diffs_monotone : forall vs prev,
  (Forall (fun d => 0 <= d) (diffs prev vs) -> Forall (fun x => prev <= x) vs) /\
  (Forall (fun d => d <= 0) (diffs prev vs) -> Forall (fun x => x <= prev) vs).
Proof.
  induction vs as [|c vs IH]; intros prev; [split; constructor|].
  destruct (IH c) as [I1 I2]. cbn [diffs]. split; intros H; inversion H as [|? ? H1 H2]; subst.
  - constructor; [lia|]. eapply Forall_impl; [|exact (I1 H2)]. cbn. intros; lia.
  - constructor; [lia|]. eapply Forall_impl; [|exact (I2 H2)]. cbn. intros; lia.
Qed.

Lemma delta_safe_diffs_i64 : forall r v0, delta_safe v0 r ->
  Forall (fun d => i64_min <= d <= i64_max) (diffs v0 r).
Proof.
  induction r as [|c r IH]; intros v0 Hs; [constructor|].
  destruct Hs as [H1 H2]. cbn [diffs]. constructor; [exact H1|now apply IH].
Qed.

Theorem new_boxed_delta_total v0 r mn0 mx0 null :
  i64s (v0 :: r) -> delta_safe v0 r ->
  bounded mn0 mx0 (v0 :: r) -> In mn0 (v0 :: r) -> In mx0 (v0 :: r) ->
  mx0 <= 9223372032559808511 ->                       (* i64::MAX - 2^32 *)
  exists col, new_boxed (v0 :: r) mn0 mx0 true null = Val col.
Proof.
  intros Hx Hs HB Hmn Hmx Htop.
  unfold new_boxed. cbn [delta_transform].
  destruct (delta_loop_total r v0 v0 v0 Hs) as (mn & mx & E & I1 & I2 & I3 & I4 & I5).
  rewrite E. cbn [bind].
  inversion Hx as [|? ? Hv0r Hxr]; subst.
  pose proof (delta_safe_diffs_i64 r v0 Hs) as Hin.
  assert (Hmnlo : i64_min <= mn).
  { destruct I4 as [->|I4]; [lia|]. assert (H := proj1 (Forall_forall _ _) Hin _ I4). cbn in H. lia. }
  assert (Hmxhi : mx <= i64_max).
  { destruct I5 as [->|I5]; [lia|]. assert (H := proj1 (Forall_forall _ _) Hin _ I5). cbn in H. lia. }
  rewrite interval_plain by lia. cbn [bind].
  destruct (choose mn mx (mx - mn)) as [[t off]|] eqn:Ec; [|eauto].
  destruct (choose_fits mn mx t off) as (Ho & Hz & Hw & Hw'); try lia; [exact Ec|].
  assert (Hb0 := proj1 (Forall_forall _ _) HB).
  assert (Hmn0 : mn0 <= v0) by (apply (Hb0 v0); now left).
  assert (Hmx0 : v0 <= mx0) by (apply (Hb0 v0); now left).
  assert (Hmn0i := proj1 (Forall_forall _ _) Hx _ Hmn). cbn in Hmn0i.
  assert (Hmx0i := proj1 (Forall_forall _ _) Hx _ Hmx). cbn in Hmx0i.
  apply create_col_total.
  - constructor.
    + unfold i64_min, i64_max in *. destruct Ho as [-> | ->]; [specialize (Hz eq_refl)|]; lia.
    + eapply Forall_impl; [|exact I3]. cbn. intros d Hd.
      unfold i64_min, i64_max in *. destruct Ho as [-> | ->]; [specialize (Hz eq_refl)|]; lia.
  - destruct Ho as [-> | ->]; [lia|].
    destruct (Z.lt_trichotomy mn 0) as [Hneg|[H0|Hpos]].
    + unfold i64_min, i64_max in *. lia.
    + lia.
    + assert (Hinc : Forall (fun x => v0 <= x) r).
      { apply (proj1 (diffs_monotone r v0)). eapply Forall_impl; [|exact I3]. cbn. intros; lia. }
      assert (v0 <= mn0).
      { destruct Hmn as [<-|Hmn]; [lia|]. exact (proj1 (Forall_forall _ _) Hinc _ Hmn). }
      unfold i64_min, i64_max in *. lia.
  - destruct Ho as [-> | ->]; [lia|].
    destruct (Z.lt_trichotomy mx 0) as [Hneg|[H0|Hpos]].
    + assert (Hdec : Forall (fun x => x <= v0) r).
      { apply (proj2 (diffs_monotone r v0)). eapply Forall_impl; [|exact I3]. cbn. intros; lia. }
      assert (mx0 <= v0).
      { destruct Hmx as [<-|Hmx]; [lia|]. exact (proj1 (Forall_forall _ _) Hdec _ Hmx). }
      unfold i64_min, i64_max in *. lia.
    + unfold i64_min, i64_max in *. cbn [wmax] in *. lia.
    + unfold i64_min, i64_max in *. cbn [wmax] in *. lia.
Qed.

(* IntColBuffer's statistics: delta coding stays allowed only if every step fits an i64 *)
Lemma istats_push_allow st e :
  st_allow (istats_push st e) = true ->
  st_allow st = true /\ (st_seen st = true -> i64_min <= e - st_last st <= i64_max).
Proof.
  cbn [istats_push st_allow]. destruct (st_seen st); cbn [andb].
  - destruct (in_i64 (e - st_last st)) eqn:E; cbn [negb]; [|discriminate].
    intros H. split; [exact H|]. intros _. now apply in_i64_iff.
  - intros H. split; [exact H|discriminate].
Qed.

Lemma istats_allow_safe_seen : forall data st,
  st_seen st = true -> st_allow (istats_push_all st data) = true ->
  st_allow st = true /\ delta_safe (st_last st) data.
Proof.
  induction data as [|e data IH]; intros st Hs H; [split; [exact H|exact I]|].
  unfold istats_push_all in H. cbn [fold_left] in H. fold (istats_push_all (istats_push st e) data) in H.
  destruct (IH (istats_push st e) eq_refl H) as [Ha Hd].
  destruct (istats_push_allow st e Ha) as [Ha' Hstep].
  split; [exact Ha'|]. cbn [delta_safe]. split; [now apply Hstep|exact Hd].
Qed.

Theorem istats_allow_safe v0 r :
  st_allow (istats_push_all istats_init (v0 :: r)) = true -> delta_safe v0 r.
Proof.
  intros H. unfold istats_push_all in H. cbn [fold_left] in H.
  fold (istats_push_all (istats_push istats_init v0) r) in H.
  exact (proj2 (istats_allow_safe_seen r (istats_push istats_init v0) eq_refl H)).
Qed.

(* the former F10 witness: the statistics now forbid delta coding for [i64::MIN+1, i64::MAX-1] and
   the column gets the plain I64 layout *)
Lemma int_finalize_former_F10 :
  let data := [i64_min + 1; i64_max - 1] in
  let st := istats_push_all istats_init data in
  st_allow st = false /\
  int_finalize data st None = Val (mk_column 2 (Some (i64_min + 1, i64_max - 1)) [] [SInts EI64 data]).
Proof. split; reflexivity. Qed.
