(* Crash cuts, part 2: every prefix of the effects of an ingestion, of a flush and of a recovery,
   applied to the directory of a reachable state at rest, recovers to the acknowledged content (or,
   for an ingestion once the segment file has its name, to that plus the request in flight,
   whole).  Here under the state invariant [Inv] alone, which leaves the catalogue panics of the
   replay open ([good_recovery]); Proofs/CrashSMTotal.v closes them for histories of well-formed
   requests ([recovers]). *)
From Coq Require Import NArith ZArith List Bool Lia.
From LV Require Import Model.TableSM Model.Catalogue Model.WalSM Model.CrashSM
     Proofs.TableSM Proofs.WalSMBase Proofs.WalSM Proofs.WalSMLog Proofs.CrashSM.
Import ListNotations.
Open Scope N_scope.

Ltac db_simpl := cbn [tabs next_wal earliest wal_size d_cursor d_wal acked cd_db cd_tmp
                      with_wal with_tabs with_cursor].

(* the recovery returned a database whose tables hold exactly [f] *)
Definition recovers (r : res db) (f : name -> list row) : Prop :=
  exists s', r = Val s' /\ forall n, content s' n = f n.

(* ... or it stopped at one of the catalogue look-ups of the replay *)
Definition good_recovery (r : res db) (f : name -> list row) : Prop :=
  recovers r f \/ (exists st, r = Panic st /\ cat_site st).

Lemma good_total : forall r f, good_recovery r f -> (exists s', r = Val s') -> recovers r f.
Proof. intros r f [H|[st [-> _]]] [s' E]; [exact H|discriminate]. Qed.

(* ---------------------------------------------------------------------------------------------- *)
(* ingestion *)

Lemma recover_with_extra_segment : forall c s id sg,
  Inv s -> id = next_wal s ->
  (exists s', recover c (with_wal s (d_wal s ++ [(id, sg)])) = Val s' /\
     forall n, content s' n = content s n ++ batch_rows n (sg_data sg)) \/
  (exists st, recover c (with_wal s (d_wal s ++ [(id, sg)])) = Panic st /\ cat_site st).
Proof.
  intros c s id sg I ->. set (s1 := with_wal s (d_wal s ++ [(next_wal s, sg)])).
  assert (Ecur : cursor_of s1 = earliest s).
  { unfold cursor_of, s1. db_simpl. pose proof (i_cursor _ I) as H. destruct (d_cursor s); congruence. }
  assert (Hids : map fst (d_wal s ++ [(next_wal s, sg)]) = seqN (earliest s) (S (length (d_wal s)))).
  { rewrite map_app. cbn [map fst]. rewrite (i_ids _ I), (i_next _ I). apply seqN_snoc. }
  assert (Ekept : kept s1 = d_wal s ++ [(next_wal s, sg)]).
  { unfold kept. rewrite Ecur. unfold s1. db_simpl. rewrite filter_all.
    - eapply sort_segs_sorted. exact Hids.
    - intros x HI. apply N.leb_le. eapply seqN_ge. rewrite <- Hids. apply in_map. exact HI. }
  destruct (recover_durable c s1) as [[s' [R C]]|P].
  - apply (i_keys _ I).
  - apply (inv_restore_ok _ I).
  - rewrite Ekept. eauto.
  - left. exists s'. split; auto. intro n. rewrite C, durable_wal_rows_kept, Ekept.
    unfold s1. db_simpl. unfold wal_rows. rewrite flat_map_app. cbn [flat_map snd]. rewrite app_nil_r, app_assoc.
    f_equal. change (flat_map (fun x => batch_rows n (sg_data (snd x))) (d_wal s)) with (wal_rows n (d_wal s)).
    rewrite <- (durable_wal_rows_inv _ _ I), (durable_decomposition _ _ I). symmetry. apply (i_acked _ I).
  - right. exact P.
Qed.

(* the directory after the first k effects of an ingestion: nothing / temp file incomplete / temp
   file whole / segment file in place *)
Lemma ingest_cut_shape : forall s id sg k,
  let d := cut (at_rest s) [EWalTmpCreate id; EWalTmpWrite id sg; EWalRename id sg] k in
  ((k < 3)%nat /\ cd_db d = s) \/
  ((3 <= k)%nat /\ cd_db d = with_wal s (d_wal s ++ [(id, sg)]) /\ cd_tmp d = None).
Proof.
  intros s id sg k. destruct k as [|[|[|k]]]; unfold cut, apply_effs; cbn [firstn fold_left apply_eff at_rest cd_db cd_tmp].
  - left. split; [lia|reflexivity].
  - left. split; [lia|reflexivity].
  - left. split; [lia|reflexivity].
  - replace (firstn k []) with (@nil eff) by (destruct k; reflexivity).
    cbn [fold_left cd_db cd_tmp]. right. split; [lia|auto].
Qed.

(* the cuts of an ingestion: up to the rename (temp file absent, incomplete or whole) recovery gives
   the acknowledged content, from the rename on that plus the request in flight *)
Theorem ingest_cuts : forall c b bytes s s' k,
  Inv s -> ingest c b bytes s = Val s' ->
  let full := match rev (acked s') with x :: _ => x | [] => [] end in
  good_recovery (recover_c c (cut (at_rest s) (ingest_effects (next_wal s) bytes full) k))
                (if (k <? 3)%nat then content s else content s').
Proof.
  intros c b bytes s s' k I H full.
  destruct (ingest_spec _ _ _ _ _ I H) as [_ [extra [Ea [Hc _]]]].
  assert (Efull : full = b ++ extra).
  { unfold full. rewrite Ea, rev_app_distr. reflexivity. }
  assert (Hafter : forall n, content s' n = content s n ++ batch_rows n full).
  { intro n. rewrite Efull. apply Hc. }
  set (sg := {| sg_bytes := bytes; sg_data := full |}).
  unfold recover_c, ingest_effects. fold sg.
  destruct (ingest_cut_shape s (next_wal s) sg k) as [[Hk ->]|[Hk [-> _]]].
  - assert (E : (k <? 3)%nat = true) by (apply Nat.ltb_lt; exact Hk). rewrite E.
    destruct (recover_outcome c s I) as [[s0 R]|[st [R P]]].
    + left. exists s0. split; auto. intro n. destruct (recover_spec _ _ _ I R) as [_ [C _]]. apply C.
    + right. exists st. split; auto.
  - assert (E : (k <? 3)%nat = false) by (apply Nat.ltb_ge; exact Hk). rewrite E.
    destruct (recover_with_extra_segment c s (next_wal s) sg I eq_refl) as [[s0 [R C]]|P].
    + left. exists s0. split; auto. intro n. rewrite C, Hafter. reflexivity.
    + right. exact P.
Qed.

(* ---------------------------------------------------------------------------------------------- *)
(* flush: the frame of the partition-file stores *)

Definition store_key (e : eff) : name * N :=
  match e with EPartStore n id _ => (n, id) | _ => ([], 0) end.

(* a store of a partition file whose id the catalogue entries of its table (in [s]) do not name *)
Definition fresh_store (s : db) (e : eff) : Prop :=
  exists n id rows t, e = EPartStore n id rows /\ lookup n (tabs s) = Some t /\
                      ~ In id (map pm_id (t_meta t)).

(* the directory [d] differs from that of [s] only in files the catalogue of [s] does not name *)
Record frame_a (s : db) (d : cdisk) : Prop := {
  fa_tmp : cd_tmp d = None;
  fa_keys : keys (tabs (cd_db d)) = keys (tabs s);
  fa_cursor : d_cursor (cd_db d) = d_cursor s;
  fa_wal : d_wal (cd_db d) = d_wal s;
  fa_tabs : forall n t, lookup n (tabs s) = Some t ->
            exists t', lookup n (tabs (cd_db d)) = Some t' /\ t_meta t' = t_meta t /\
                       forall m, In m (t_meta t) -> find_file (pm_id m) (t_files t') = find_file (pm_id m) (t_files t)
}.

Definition stored (d : cdisk) (e : eff) : Prop :=
  match e with
  | EPartStore n id rows => exists t, lookup n (tabs (cd_db d)) = Some t /\ find_file id (t_files t) = Some rows
  | _ => True
  end.

Lemma frame_a_rest : forall s, frame_a s (at_rest s).
Proof.
  intro s. constructor; cbn; auto. intros n t L. exists t. auto.
Qed.

Lemma apply_store_frame : forall s d e,
  frame_a s d -> fresh_store s e ->
  frame_a s (apply_eff d e) /\ stored (apply_eff d e) e /\
  (forall e', stored d e' -> store_key e' <> store_key e -> stored (apply_eff d e) e').
Proof.
  intros s d e [Ft Fk Fc Fw Fa] [n [id [rows [t [-> [L Hid]]]]]].
  destruct (Fa _ _ L) as [t' [L' [Hm Hf]]].
  cbn [apply_eff]. rewrite L'.
  set (t2 := set_tfiles t' (store_file id rows (t_files t'))).
  split; [constructor; db_simpl; auto|split].
  - rewrite keys_upd. exact Fk.
  - intros n0 t0 L0. destruct (list_eq_dec N.eq_dec n0 n) as [->|Hne].
    + rewrite L in L0. injection L0 as <-. exists t2. split; [eapply lookup_upd_same; eauto|].
      split; [exact Hm|]. intros m HI. unfold t2. cbn [t_files set_tfiles].
      rewrite find_file_store_other; auto.
      intro E. apply Hid. rewrite E. apply in_map. exact HI.
    + rewrite lookup_upd_other; auto.
  - cbn [stored]. db_simpl. exists t2. split; [eapply lookup_upd_same; eauto|].
    unfold t2. cbn [t_files set_tfiles]. apply find_file_store_same.
  - intros e' S Hk. destruct e' as [| | | |n' id' rows'| | |]; cbn [stored] in *; auto.
    db_simpl. destruct S as [t0 [L0 F0]]. destruct (list_eq_dec N.eq_dec n' n) as [->|Hne].
    + rewrite L' in L0. injection L0 as <-. exists t2. split; [eapply lookup_upd_same; eauto|].
      unfold t2. cbn [t_files set_tfiles]. rewrite find_file_store_other; auto.
      intro E. apply Hk. cbn. congruence.
    + exists t0. split; auto. rewrite lookup_upd_other; auto.
Qed.

Lemma apply_stores_frame : forall s todo d applied,
  frame_a s d -> (forall e, In e applied -> stored d e) ->
  NoDup (map store_key (applied ++ todo)) -> (forall e, In e todo -> fresh_store s e) ->
  frame_a s (apply_effs d todo) /\ forall e, In e (applied ++ todo) -> stored (apply_effs d todo) e.
Proof.
  induction todo as [|e todo IH]; intros d applied F S ND G.
  - cbn. rewrite app_nil_r. auto.
  - cbn [apply_effs fold_left].
    destruct (apply_store_frame s d e F (G e (or_introl eq_refl))) as [F' [Se Sk]].
    assert (ND' : NoDup (map store_key ((applied ++ [e]) ++ todo))) by (rewrite <- app_assoc; exact ND).
    destruct (IH (apply_eff d e) (applied ++ [e]) F') as [F2 S2]; auto.
    + intros e' HI. apply in_app_or in HI. destruct HI as [HI|[<-|[]]]; auto.
      apply Sk; auto. intro E.
      rewrite map_app in ND. cbn [map] in ND. apply NoDup_remove_2 in ND. apply ND.
      apply in_or_app. left. rewrite <- E. apply in_map. exact HI.
    + intros e' HI. apply G. right. exact HI.
    + split; auto. intros e' HI. apply S2. rewrite <- app_assoc. exact HI.
Qed.

(* recovery on a frame-A directory gives the content of [s] *)
Lemma recover_frame_a : forall c s d, Inv s -> frame_a s d ->
  good_recovery (recover_c c d) (content s).
Proof.
  intros c s d I [Ft Fk Fc Fw Fa]. unfold recover_c.
  set (s1 := cd_db d).
  assert (Ekept : kept s1 = d_wal s).
  { unfold kept, cursor_of. fold s1 in Fc, Fw. rewrite Fc, Fw. apply (inv_kept _ I). }
  assert (Hview : forall n, durable_part_rows (view (tabs s1) n) = durable_part_rows (view (tabs s) n)).
  { intro n. unfold view. destruct (lookup n (tabs s)) as [t|] eqn:L.
    - destruct (Fa _ _ L) as [t' [L' [Hm Hf]]]. fold s1 in L'. rewrite L'.
      rewrite !durable_part_rows_meta, Hm. apply meta_rows_ext. exact Hf.
    - assert (L' : lookup n (tabs s1) = None).
      { apply lookup_none. unfold s1. rewrite Fk. apply lookup_none. exact L. }
      rewrite L'. reflexivity. }
  destruct (recover_durable c s1) as [[s' [R C]]|P].
  - unfold s1. rewrite Fk. apply (i_keys _ I).
  - intros n t' L'. assert (HI : In n (keys (tabs s))).
    { rewrite <- Fk. eapply lookup_some_in. exact L'. }
    destruct (lookup_in_some _ _ HI) as [t L]. destruct (Fa _ _ L) as [t'' [L'' [Hm Hf]]].
    fold s1 in L''. rewrite L' in L''. injection L'' as <-.
    destruct (inv_restore_ok _ I _ _ L) as [ps E]. exists ps. rewrite Hm, (restore_parts_ext _ _ _ Hf). exact E.
  - rewrite Ekept. exists (earliest s), (length (d_wal s)). apply (i_ids _ I).
  - left. exists s'. split; auto. intro n.
    rewrite C, Hview, durable_wal_rows_kept, Ekept, <- (durable_wal_rows_inv _ _ I), (durable_decomposition _ _ I).
    symmetry. apply (i_acked _ I).
  - right. exact P.
Qed.

(* ---------------------------------------------------------------------------------------------- *)
(* flush: after the catalogue file was replaced *)

(* the directory holds the new catalogue (cursor [hi], the partitions of [l1]) and at least the
   files of those partitions; the log holds only segments below [hi] *)
Record frame_b (s : db) (l1 : tabsT) (d : cdisk) : Prop := {
  fb_tmp : cd_tmp d = None;
  fb_keys : keys (tabs (cd_db d)) = keys l1;
  fb_cursor : d_cursor (cd_db d) = Some (next_wal s);
  fb_wal : forall x, In x (d_wal (cd_db d)) -> In x (d_wal s);
  fb_tabs : forall n t1, lookup n l1 = Some t1 ->
            exists t', lookup n (tabs (cd_db d)) = Some t' /\ t_meta t' = map pmeta_of (t_parts t1) /\
                       forall p, In p (t_parts t1) -> find_file (p_id p) (t_files t') = Some (p_rows p)
}.

Lemma metas_for_new_metas : forall n (l1 : tabsT),
  metas_for n (new_metas l1) = match lookup n l1 with Some t1 => map pmeta_of (t_parts t1) | None => [] end.
Proof.
  induction l1 as [|[k v] l1 IH]; cbn; auto. destruct (name_eqb n k); auto.
Qed.

Lemma lookup_map_tabs : forall (f : name -> tstate -> tstate) n (l : tabsT),
  lookup n (map (fun nt => (fst nt, f (fst nt) (snd nt))) l) = option_map (f n) (lookup n l).
Proof.
  induction l as [|[k v] l IH]; cbn; auto. destruct (name_eqb n k) eqn:E; auto.
  apply name_eqb_eq in E. subst. reflexivity.
Qed.

Lemma keys_map_tabs : forall (f : name -> tstate -> tstate) (l : tabsT),
  keys (map (fun nt => (fst nt, f (fst nt) (snd nt))) l) = keys l.
Proof. intros. unfold keys. rewrite map_map. reflexivity. Qed.

Lemma apply_remove_frame_b : forall s l1 d e,
  frame_b s l1 d ->
  (match e with
   | EPartRemove n id => exists t1, lookup n l1 = Some t1 /\ ~ In id (map p_id (t_parts t1))
   | EWalRemove _ => True
   | _ => False
   end) ->
  frame_b s l1 (apply_eff d e).
Proof.
  intros s l1 d e [Bt Bk Bc Bw Ba] He. destruct e as [| | | | | |n id|id]; try contradiction.
  - destruct He as [t1 [L1 Hid]]. destruct (Ba _ _ L1) as [t' [L' [Hm Hf]]].
    cbn [apply_eff]. rewrite L'. constructor; db_simpl; auto.
    + rewrite keys_upd. exact Bk.
    + intros n0 t0 L0. destruct (list_eq_dec N.eq_dec n0 n) as [->|Hne].
      * rewrite L1 in L0. injection L0 as <-. eexists. split; [eapply lookup_upd_same; eauto|].
        cbn [t_meta t_files set_tfiles]. split; [exact Hm|]. intros p HI.
        rewrite find_file_remove_other; auto. intro E. apply Hid. rewrite E. apply in_map. exact HI.
      * rewrite lookup_upd_other; auto.
  - cbn [apply_eff]. constructor; db_simpl; auto.
    intros x HI. apply filter_In in HI. apply Bw. tauto.
Qed.

Lemma apply_removes_frame_b : forall s l1 es d,
  frame_b s l1 d ->
  (forall e, In e es -> match e with
                        | EPartRemove n id => exists t1, lookup n l1 = Some t1 /\ ~ In id (map p_id (t_parts t1))
                        | EWalRemove _ => True
                        | _ => False
                        end) ->
  frame_b s l1 (apply_effs d es).
Proof.
  induction es as [|e es IH]; intros d F H; [exact F|].
  cbn [apply_effs fold_left]. apply IH.
  - apply apply_remove_frame_b; auto. apply H. left. reflexivity.
  - intros e' HI. apply H. right. exact HI.
Qed.
