(* Routing: every column of a partition is found in exactly the sub-partition file it was written to. *)
From Coq Require Import NArith Arith List Bool Lia Sorting.Sorted Permutation.
From LV Require Import Model.Routing Proofs.Routing.
Import ListNotations.
Open Scope N_scope.

Definition names (l : list col) : list str := map fst l.

(* ---------- strictly sorted lists of names ---------- *)
Definition SS := StronglySorted slt.

Lemma SS_app_inv : forall l1 l2, SS (l1 ++ l2) ->
  SS l1 /\ SS l2 /\ (forall x y, In x l1 -> In y l2 -> slt x y).
Proof.
  induction l1 as [|a l1 IH]; intros l2 H.
  - repeat split; [constructor|exact H|intros x y []].
  - cbn in H. apply StronglySorted_inv in H as [H Ha].
    destruct (IH l2 H) as (H1 & H2 & H12).
    rewrite Forall_app in Ha. destruct Ha as [Ha1 Ha2].
    repeat split.
    + constructor; assumption.
    + exact H2.
    + intros x y [<-|Hx] Hy.
      * rewrite Forall_forall in Ha2. auto.
      * auto.
Qed.

Lemma last_in_nonempty {A} : forall (l : list A) d, l <> [] -> In (last l d) l.
Proof.
  induction l as [|a l IH]; intros d H; [congruence|].
  destruct l as [|b l]; [left; reflexivity|]. right. apply IH. discriminate.
Qed.

Lemma last_default_irrel {A} : forall (l : list A) a d1 d2, last (a :: l) d1 = last (a :: l) d2.
Proof.
  induction l as [|b l IH]; intros a d1 d2; [reflexivity|].
  change (last (b :: l) d1 = last (b :: l) d2). apply IH.
Qed.

Lemma SS_last_max : forall l d x, SS l -> In x l -> slt x (last l d) \/ x = last l d.
Proof.
  induction l as [|a l IH]; intros d x H Hx; [destruct Hx|].
  apply StronglySorted_inv in H as [H Ha].
  destruct l as [|b l].
  - destruct Hx as [<-|[]]. right. reflexivity.
  - change (last (a :: b :: l) d) with (last (b :: l) d).
    destruct Hx as [<-|Hx].
    + left. rewrite Forall_forall in Ha. apply Ha. apply (last_in_nonempty (b :: l)). discriminate.
    + apply IH; assumption.
Qed.

(* ---------- insertion sort ---------- *)
Lemma insert_perm c : forall l, Permutation (c :: l) (insert_sorted c l).
Proof.
  induction l as [|d r IH]; cbn [insert_sorted]; [apply Permutation_refl|].
  destruct (str_leb (fst c) (fst d)); [apply Permutation_refl|].
  eapply perm_trans; [apply perm_swap|]. apply perm_skip. exact IH.
Qed.

Lemma sort_perm : forall l, Permutation l (sort_cols l).
Proof.
  induction l as [|c l IH]; cbn; [constructor|].
  eapply perm_trans; [apply perm_skip; exact IH|]. apply insert_perm.
Qed.

Lemma insert_SS c : forall l, SS (names l) -> ~ In (fst c) (names l) -> SS (names (insert_sorted c l)).
Proof.
  induction l as [|d r IH]; intros Hs Hn; cbn [insert_sorted].
  - cbn. constructor; constructor.
  - cbn [names map] in Hs. apply StronglySorted_inv in Hs as [Hs Hd].
    destruct (str_leb (fst c) (fst d)) eqn:E.
    + apply str_leb_true in E. destruct E as [E|E]; [|exfalso; apply Hn; left; auto].
      cbn [names map]. constructor.
      * constructor; assumption.
      * constructor; [exact E|]. rewrite Forall_forall in *. intros x Hx. eapply slt_trans; eauto.
    + apply str_leb_false in E.
      cbn [names map]. constructor.
      * apply IH; [exact Hs|]. intros Hin. apply Hn. right. exact Hin.
      * rewrite Forall_forall in *. intros x Hx.
        assert (Hp : Permutation (names (c :: r)) (names (insert_sorted c r)))
          by (apply Permutation_map, insert_perm).
        apply Permutation_sym in Hp. apply (Permutation_in _ Hp) in Hx.
        destruct Hx as [<-|Hx]; [exact E|auto].
Qed.

Lemma sort_SS : forall l, NoDup (names l) -> SS (names (sort_cols l)).
Proof.
  induction l as [|c l IH]; intros Hnd; cbn; [constructor|].
  cbn [names map] in Hnd. inversion Hnd as [|? ? Hnin Hnd']; subst.
  apply insert_SS; [apply IH; exact Hnd'|].
  intros Hin. apply Hnin.
  apply (Permutation_in _ (Permutation_sym (Permutation_map fst (sort_perm l)))). exact Hin.
Qed.

(* ---------- the greedy grouping loop ---------- *)
Lemma group_loop_concat mx : forall cols cur bytes,
  concat (map fst (group_loop mx cols cur bytes)) = rev cur ++ cols.
Proof.
  induction cols as [|c r IH]; intros cur bytes; cbn [group_loop].
  - cbn. rewrite !app_nil_r. reflexivity.
  - destruct ((mx <? bytes + snd c) && negb (match cur with [] => true | _ => false end)).
    + cbn [map concat fst]. rewrite IH. cbn. reflexivity.
    + rewrite IH. cbn [rev]. rewrite <- app_assoc. reflexivity.
Qed.

Lemma group_loop_nonempty mx : forall cols cur bytes,
  (cur <> [] \/ cols <> []) -> Forall (fun g => fst g <> []) (group_loop mx cols cur bytes).
Proof.
  induction cols as [|c r IH]; intros cur bytes Hne; cbn [group_loop].
  - constructor; [|constructor]. cbn. destruct Hne as [H|H]; [|congruence].
    intros E. apply H. apply (f_equal (@rev col)) in E. rewrite rev_involutive in E. exact E.
  - destruct cur as [|d cur].
    + cbn [negb andb]. rewrite andb_false_r. apply IH. left. discriminate.
    + destruct ((mx <? bytes + snd c) && negb false).
      * constructor; [|apply IH; left; discriminate].
        cbn [fst]. intros E. apply (f_equal (@length col)) in E.
        rewrite rev_length in E. cbn in E. lia.
      * apply IH. left. discriminate.
Qed.

(* ---------- chunks of a strictly sorted name list ---------- *)
Definition lt_opt (p : option str) (x : str) : Prop :=
  match p with None => True | Some q => slt q x end.

Inductive Chunks : option str -> list subpart -> Prop :=
| Ch_nil p : Chunks p []
| Ch_cons p s r :
    lt_opt p (sp_last s) ->
    (forall c, In c (sp_cols s) -> lt_opt p c /\ (slt c (sp_last s) \/ c = sp_last s)) ->
    Chunks (Some (sp_last s)) r -> Chunks p (s :: r).

Section WithTables.
  Variable u_alnum : N -> bool.
  Variable u_lower : N -> bool.
  Variable to_lowercase : str -> str.
  Variable utf8_len : str -> N.
  Variable sha256 : str -> list N.

  Notation safe := (is_filesystem_safe u_alnum u_lower utf8_len).
  Definition mk (gs : list col * N) : subpart :=
    let last := last_name (fst gs) in
    {| sp_key := if safe last then last else hex (sha256 last);
       sp_last := last; sp_size := snd gs; sp_cols := map fst (fst gs) |}.

  Lemma last_name_map g : last_name g = last (names g) [].
  Proof.
    unfold last_name, names. induction g as [|a g IH]; [reflexivity|].
    destruct g as [|b g]; [reflexivity|]. exact IH.
  Qed.

  Lemma chunks_of_groups : forall gs p,
    Forall (fun g => fst g <> []) gs ->
    SS (names (concat (map fst gs))) ->
    (forall x, In x (names (concat (map fst gs))) -> lt_opt p x) ->
    Chunks p (map mk gs).
  Proof.
    induction gs as [|g gs IH]; intros p Hne Hss Hp; [constructor|].
    inversion Hne as [|? ? Hg Hne']; subst.
    cbn [map concat] in *. unfold names in Hss, Hp. rewrite map_app in Hss, Hp.
    destruct (SS_app_inv _ _ Hss) as (Hs1 & Hs2 & H12).
    assert (Hlast_in : In (last_name (fst g)) (map fst (fst g))).
    { rewrite last_name_map. apply last_in_nonempty.
      destruct (fst g); [congruence|discriminate]. }
    constructor.
    - cbn. apply Hp. apply in_or_app. left. exact Hlast_in.
    - cbn. intros c Hc. split.
      + apply Hp. apply in_or_app. left. exact Hc.
      + rewrite last_name_map. apply SS_last_max; assumption.
    - apply IH; [exact Hne'|exact Hs2|].
      cbn. intros x Hx. apply H12; [exact Hlast_in|exact Hx].
  Qed.

  (* ---------- route_scan on chunks ---------- *)
  Lemma route_scan_keep name : forall subs idx k j,
    Forall (fun s => slt k (sp_last s)) subs ->
    route_scan name subs idx (Some (k, j)) = Some (k, j).
  Proof.
    induction subs as [|s r IH]; intros idx k j Hall; cbn [route_scan]; [reflexivity|].
    inversion Hall as [|? ? Hs Hr]; subst.
    destruct (str_leb name (sp_last s)); [|apply IH; exact Hr].
    replace (str_leb (sp_last s) k) with false; [apply IH; exact Hr|].
    symmetry. apply str_leb_false. exact Hs.
  Qed.

  Lemma chunks_lasts_gt : forall subs p, Chunks (Some p) subs -> Forall (fun s => slt p (sp_last s)) subs.
  Proof.
    induction subs as [|s r IH]; intros p H; [constructor|].
    inversion H as [|? ? ? Hl Hc Hr]; subst. constructor; [exact Hl|].
    specialize (IH _ Hr). rewrite Forall_forall in *. intros x Hx. eapply slt_trans; [exact Hl|auto].
  Qed.

  Lemma chunks_cols_gt : forall subs p s c,
    Chunks (Some p) subs -> In s subs -> In c (sp_cols s) -> slt p c.
  Proof.
    induction subs as [|s0 r IH]; intros p s c H Hs Hc; [destruct Hs|].
    inversion H as [|? ? ? Hl Hcols Hr]; subst.
    destruct Hs as [<-|Hs].
    - apply (Hcols c Hc).
    - eapply slt_trans; [exact Hl|]. eapply IH; eauto.
  Qed.

  Theorem route_chunks : forall subs p idx i s c,
    Chunks p subs -> nth_error subs i = Some s -> In c (sp_cols s) ->
    route_scan c subs idx None = Some (sp_last s, idx + N.of_nat i).
  Proof.
    induction subs as [|s0 r IH]; intros p idx i s c H Hn Hc; [destruct i; discriminate|].
    inversion H as [|? ? ? Hl Hcols Hr]; subst.
    destruct i as [|i]; cbn [nth_error] in Hn.
    - injection Hn as ->. cbn [route_scan].
      destruct (Hcols c Hc) as [_ Hle].
      replace (str_leb c (sp_last s)) with true by (symmetry; apply str_leb_true; exact Hle).
      rewrite route_scan_keep by (apply chunks_lasts_gt; exact Hr).
      f_equal. f_equal. cbn. lia.
    - cbn [route_scan].
      assert (Hgt : slt (sp_last s0) c).
      { eapply chunks_cols_gt; [exact Hr| |exact Hc]. eapply nth_error_In; eauto. }
      replace (str_leb c (sp_last s0)) with false by (symmetry; apply str_leb_false; exact Hgt).
      rewrite (IH _ (idx + 1) i s c Hr Hn Hc). f_equal. f_equal. lia.
  Qed.

  Notation subpartition := (subpartition u_alnum u_lower utf8_len sha256).

  Lemma max_name_is_last : forall l acc,
    SS (acc :: names l) -> fold_left (fun a c => if str_ltb a (fst c) then fst c else a) l acc = last (names l) acc.
  Proof.
    induction l as [|c l IH]; intros acc H; [reflexivity|].
    cbn [fold_left names map]. cbn [names map] in H.
    apply StronglySorted_inv in H as [H Hacc]. inversion Hacc as [|? ? Hc _]; subst.
    replace (str_ltb acc (fst c)) with true by (symmetry; apply str_ltb_lt; exact Hc).
    rewrite IH by exact H.
    destruct l as [|c1 l]; [reflexivity|].
    cbn [names map]. change (last (fst c :: fst c1 :: map fst l) acc) with (last (fst c1 :: map fst l) acc).
    apply last_default_irrel.
  Qed.

  (* the sub-partition list produced for a set of distinctly named columns is a chunking *)
  Theorem subpartition_chunks mx columns :
    NoDup (names columns) -> Chunks None (subpartition mx columns).
  Proof.
    intros Hnd. unfold Routing.subpartition.
    set (sorted := sort_cols columns).
    assert (Hss : SS (names sorted)) by (apply sort_SS; exact Hnd).
    pose proof (group_loop_concat mx sorted [] 0) as Hcat. cbn [rev app] in Hcat.
    destruct sorted as [|c0 sorted'] eqn:Es.
    - cbn. constructor; [exact I| |constructor]. cbn. intros c [].
    - assert (Hne : Forall (fun g => fst g <> []) (group_loop mx (c0 :: sorted') [] 0))
        by (apply group_loop_nonempty; right; discriminate).
      assert (Hch : Chunks None (map mk (group_loop mx (c0 :: sorted') [] 0))).
      { apply chunks_of_groups; [exact Hne| |intros; exact I]. rewrite Hcat. exact Hss. }
      destruct (group_loop mx (c0 :: sorted') [] 0) as [|[g size] [|g2 gs]] eqn:Eg.
      + exact Hch.
      + (* one group: key "all", last = max name = last name of the group *)
        cbn [map concat fst app] in Hcat. rewrite app_nil_r in Hcat. subst g.
        inversion Hch as [|? ? ? Hl Hcols Hr]; subst.
        constructor; [exact I| |constructor].
        cbn [sp_cols sp_last]. cbn [mk sp_cols sp_last fst] in Hcols.
        assert (Em : max_name (c0 :: sorted') = last_name (c0 :: sorted')).
        { unfold max_name. cbn [fold_left].
          assert (E : (if str_ltb [] (fst c0) then fst c0 else []) = fst c0)
            by (unfold str_ltb; destruct (fst c0); reflexivity).
          rewrite E. rewrite (max_name_is_last sorted' (fst c0) Hss).
          rewrite last_name_map. cbn [names map].
          destruct sorted' as [|c1 l]; [reflexivity|].
          cbn [map]. change (last (fst c0 :: fst c1 :: map fst l) []) with (last (fst c1 :: map fst l) []).
          apply last_default_irrel. }
        rewrite Em. exact Hcols.
      + exact Hch.
  Qed.

  (* C15_route_present *)
  Theorem route_present mx columns i s c :
    NoDup (names columns) ->
    nth_error (subpartition mx columns) i = Some s -> In c (sp_cols s) ->
    route (subpartition mx columns) c = Some (N.of_nat i).
  Proof.
    intros Hnd Hn Hc. unfold route.
    rewrite (route_chunks _ None 0 i s c (subpartition_chunks mx columns Hnd) Hn Hc).
    reflexivity.
  Qed.

  (* every column is written to some group, and groups hold only supplied columns *)
  Theorem subpartition_covers mx columns c :
    In c (names columns) <-> exists s, In s (subpartition mx columns) /\ In c (sp_cols s).
  Proof.
    unfold Routing.subpartition.
    set (sorted := sort_cols columns).
    pose proof (group_loop_concat mx sorted [] 0) as Hcat. cbn [rev app] in Hcat.
    assert (Hperm : forall x, In x (names columns) <-> In x (names sorted)).
    { intros x. split; apply Permutation_in; [|apply Permutation_sym]; apply Permutation_map, sort_perm. }
    assert (Hgen : forall gs, concat (map fst gs) = sorted ->
              (In c (names sorted) <-> exists s, In s (map mk gs) /\ In c (sp_cols s))).
    { intros gs E. rewrite <- E. unfold names. rewrite concat_map, in_concat. split.
      - intros (l & Hl & Hc). apply in_map_iff in Hl as (g0 & <- & Hg0).
        apply in_map_iff in Hg0 as (g & <- & Hg).
        exists (mk g). split; [apply in_map; exact Hg|exact Hc].
      - intros (s & Hs & Hc). apply in_map_iff in Hs as (g & <- & Hg).
        exists (map fst (fst g)). split; [|exact Hc].
        apply in_map. apply in_map. exact Hg. }
    rewrite Hperm. specialize (Hgen _ Hcat).
    destruct (group_loop mx sorted [] 0) as [|[g size] [|g2 gs]] eqn:Eg; try exact Hgen.
    rewrite Hgen. cbn [map]. split; intros (s & [<-|[]] & Hc); eexists; (split; [left; reflexivity|exact Hc]).
  Qed.

  (* C15_route_absent: a name the partition does not contain is routed to no group, or to a group
     that does not contain it (so loading that file yields no such column) *)
  Theorem route_absent mx columns name :
    ~ In name (names columns) ->
    match route (subpartition mx columns) name with
    | None => True
    | Some i => forall s, nth_error (subpartition mx columns) (N.to_nat i) = Some s -> ~ In name (sp_cols s)
    end.
  Proof.
    intros Hn. destruct (route _ name) as [i|]; [|exact I].
    intros s Hs Hc. apply Hn. apply (subpartition_covers mx columns name).
    exists s. split; [eapply nth_error_In; exact Hs|exact Hc].
  Qed.

  (* C15_keys_distinct: the file keys within one partition are pairwise distinct unless two unsafe
     last names collide under sha256 or a digest's hex form equals a safe last name *)
  Hypothesis sha_bytes : forall s, Forall (fun b => b < 256) (sha256 s).

  Lemma chunks_lasts_distinct : forall subs p i j si sj,
    Chunks p subs -> nth_error subs i = Some si -> nth_error subs j = Some sj -> (i < j)%nat ->
    slt (sp_last si) (sp_last sj).
  Proof.
    induction subs as [|s r IH]; intros p i j si sj H Hi Hj Hlt; [destruct i; discriminate|].
    inversion H as [|? ? ? Hl Hc Hr]; subst.
    destruct i as [|i]; destruct j as [|j]; try lia; cbn [nth_error] in *.
    - injection Hi as ->. pose proof (chunks_lasts_gt _ _ Hr) as Hall.
      rewrite Forall_forall in Hall. apply Hall. eapply nth_error_In; eauto.
    - eapply IH; eauto. lia.
  Qed.

  Theorem keys_distinct mx columns i j si sj :
    NoDup (names columns) -> i <> j ->
    nth_error (subpartition mx columns) i = Some si ->
    nth_error (subpartition mx columns) j = Some sj ->
    sp_key si = sp_key sj ->
    (* both unsafe and colliding *)
    (safe (sp_last si) = false /\ safe (sp_last sj) = false /\ sp_last si <> sp_last sj /\
     sha256 (sp_last si) = sha256 (sp_last sj)) \/
    (* a hex digest that happens to be another group's safe name *)
    (safe (sp_last si) <> safe (sp_last sj) /\
     (hex (sha256 (sp_last si)) = sp_last sj \/ hex (sha256 (sp_last sj)) = sp_last si)).
  Proof.
    intros Hnd Hij Hi Hj Hk.
    pose proof (subpartition_chunks mx columns Hnd) as Hch.
    assert (Hne : sp_last si <> sp_last sj).
    { destruct (Nat.lt_total i j) as [Hlt|[->|Hlt]]; [|congruence|].
      - intros E. pose proof (chunks_lasts_distinct _ _ _ _ _ _ Hch Hi Hj Hlt) as Hs.
        rewrite E in Hs. exact (slt_irrefl _ Hs).
      - intros E. pose proof (chunks_lasts_distinct _ _ _ _ _ _ Hch Hj Hi Hlt) as Hs.
        rewrite E in Hs. exact (slt_irrefl _ Hs). }
    (* the keys of a multi-group partition are computed by mk; the single-group case has one entry *)
    unfold Routing.subpartition in Hi, Hj.
    destruct (group_loop mx (sort_cols columns) [] 0) as [|[g size] [|g2 gs]] eqn:Eg.
    - destruct i; discriminate.
    - destruct i as [|[|i]]; destruct j as [|[|j]]; cbn in Hi, Hj; try discriminate. congruence.
    - set (l := (g, size) :: g2 :: gs) in *.
      assert (Ei : exists gi, si = mk gi).
      { apply nth_error_In in Hi. apply in_map_iff in Hi as (gi & <- & _). eexists; reflexivity. }
      assert (Ej : exists gj, sj = mk gj).
      { apply nth_error_In in Hj. apply in_map_iff in Hj as (gj & <- & _). eexists; reflexivity. }
      destruct Ei as (gi & ->). destruct Ej as (gj & ->).
      cbn [mk sp_key sp_last] in *.
      destruct (safe (last_name (fst gi))) eqn:Si; destruct (safe (last_name (fst gj))) eqn:Sj.
      + congruence.
      + right. split; [congruence|]. right. auto.
      + right. split; [congruence|]. left. auto.
      + left. repeat split; auto. apply hex_inj in Hk; auto.
  Qed.
End WithTables.
