(* C10 — no deadlock among the table locks: in every reachable state in which some resource is held, a thread
   that holds a resource has an enabled step.  (Consequence of the global acquisition order: the holder of the
   highest-ranked held resource either does not need another lock, or needs a higher one, which is free.) *)
From Coq Require Import NArith List Bool Arith Lia.
From LV Require Import Model.ConcSM Proofs.ConcSMBase Proofs.ConcSMData Proofs.ConcSM Proofs.ConcSMOrder.
Import ListNotations.

(* the resource a program counter will acquire next (None: its next step needs no new lock) *)
Definition i_want (p : ipc) : option lk :=
  match p with I_idle => Some KWal | I_wal _ => Some KBuffer | _ => None end.

Definition f_want (p : fpc) : option lk :=
  match p with
  | F_idle => Some KWal | F_wal => Some KFrozen | F_fz1 => Some KBuffer | F_batch => Some KFrozen
  | F_b2 _ _ => Some KPW | F_plan => Some KPR | F_c0 _ _ => Some KPR | F_cb _ _ _ => Some KPW
  | _ => None
  end.

Definition q_want (p : qpc) : option lk :=
  match p with
  | Q_start _ => Some KFrozen | Q_l1 _ => Some KPR | Q_l2 _ => Some KBuffer
  | _ => None
  end.

Definition t_want (st : state) (t : thr) : option lk :=
  match t with
  | TI n => match nth_error (ing st) n with Some p => i_want p | None => None end
  | TF => f_want (fl st)
  | TQ n => match nth_error (qs st) n with Some p => q_want p | None => None end
  end.

Lemma rel_enabled st t k : LockInv st -> t_holds st t k = true -> mem_thr t (holders (lks st) k) = true.
Proof. intros LI H. apply mem_thr_in. apply LI. exact H. Qed.

Ltac fire a :=
  exists a; unfold step;
  repeat match goal with
         | H : nth_error _ _ = Some _ |- _ => rewrite H
         | H : fl _ = _ |- _ => rewrite H
         end;
  repeat match goal with
         | H : can_acquire _ _ = true |- _ => simpl in H
         | H : mem_thr _ (holders _ _) = true |- _ => simpl in H
         end;
  simpl;
  repeat match goal with
         | H : is_nil _ = true |- _ => rewrite H
         | H : is_nil _ && is_nil _ = true |- _ => rewrite H
         | H : mem_thr _ _ = true |- _ => rewrite H
         end;
  repeat match goal with
         | |- context [if is_nil ?x then _ else _] => destruct (is_nil x)
         | |- context [match lookup_all ?x ?y with _ => _ end] => destruct (lookup_all x y)
         end; simpl;
  repeat match goal with
         | H : mem_thr _ _ = true |- _ => rewrite H
         end;
  eexists; reflexivity.

Lemma progress_thread st t :
  LockInv st -> fl st <> F_panic ->
  (exists k, t_holds st t k = true) ->
  (forall k, t_want st t = Some k -> can_acquire (lks st) k = true) ->
  exists a st', step t a st = Some st'.
Proof.
  intros LI NP [k0 Hk0] W.
  destruct t as [n| |n]; simpl in Hk0, W.
  - destruct (nth_error (ing st) n) as [p|] eqn:Hn; [|discriminate].
    assert (R : forall k, i_holds p k = true -> mem_thr (TI n) (holders (lks st) k) = true).
    { intros k H. apply rel_enabled; [exact LI|]. simpl. rewrite Hn. exact H. }
    destruct p; simpl in Hk0; try (destruct k0; discriminate).
    + assert (C := W _ eq_refl). fire AILockBuf.
    + fire AIPush.
    + assert (M := R KBuffer eq_refl). fire AIUnlockBuf.
    + assert (M := R KWal eq_refl). fire AIAck.
  - assert (R : forall k, f_holds (fl st) k = true -> mem_thr TF (holders (lks st) k) = true).
    { intros k H. apply rel_enabled; [exact LI|]. exact H. }
    destruct (fl st) eqn:Efl; simpl in Hk0; try (destruct k0; discriminate); try congruence.
    + assert (C := W _ eq_refl). fire AFzLockFrozen.
    + assert (C := W _ eq_refl). fire AFzLockBuf.
    + fire AFzSwap.
    + assert (M := R KBuffer eq_refl). fire AFzUnlockBuf.
    + assert (M := R KFrozen eq_refl). fire AFzUnlockFrozen.
    + assert (M := R KWal eq_refl). fire AFUnlockWal.
    + fire ABTake.
    + assert (M := R KFrozen eq_refl). fire ABReturnNone.
    + assert (C := W _ eq_refl). fire ABLockParts.
    + fire ABInsert.
    + assert (M := R KPW eq_refl). fire ABUnlockParts.
    + assert (M := R KFrozen eq_refl). fire ABUnlockFrozen.
    + assert (M := R KPR eq_refl). fire (APlan None).
    + assert (M := R KPR eq_refl). fire ACReadDone.
    + fire ACSwap.
    + assert (M := R KPW eq_refl). fire ACUnlock.
  - destruct (nth_error (qs st) n) as [p|] eqn:Hn; [|discriminate].
    assert (R : forall k, q_holds p k = true -> mem_thr (TQ n) (holders (lks st) k) = true).
    { intros k H. apply rel_enabled; [exact LI|]. simpl. rewrite Hn. exact H. }
    destruct p; simpl in Hk0; try (destruct k0; discriminate).
    + assert (C := W _ eq_refl). fire AQLockParts.
    + assert (C := W _ eq_refl). fire AQLockBuf.
    + fire AQCopy.
    + assert (M := R KBuffer eq_refl). fire AQUnlockBuf.
    + assert (M := R KPR eq_refl). fire AQUnlockParts.
    + assert (M := R KFrozen eq_refl). fire AQUnlockFrozen.
Qed.

(* what a thread wants ranks above everything it holds *)
Lemma want_above_held st t k kw :
  t_holds st t k = true -> t_want st t = Some kw -> rank k < rank kw.
Proof.
  destruct t as [n| |n]; simpl.
  - destruct (nth_error (ing st) n) as [p|]; [|discriminate].
    destruct p, k; simpl; intros H E; try discriminate; injection E as <-; simpl; lia.
  - destruct (fl st), k; simpl; intros H E; try discriminate; injection E as <-; simpl; lia.
  - destruct (nth_error (qs st) n) as [p|]; [|discriminate].
    destruct p, k; simpl; intros H E; try discriminate; injection E as <-; simpl; lia.
Qed.

Lemma no_deadlock st :
  Inv st -> (exists t k, held_by st t k) ->
  exists t a st', (exists k, held_by st t k) /\ step t a st = Some st'.
Proof.
  intros HI [t0 [k0 H0]]. assert (NP := flusher_no_panic st HI). destruct HI as (LI & _ & _).
  unfold held_by in *.
  (* the holder of a resource of maximal rank *)
  assert (Hmax : exists t k, In t (holders (lks st) k) /\
                            forall k', rank k < rank k' -> holders (lks st) k' = []).
  { destruct (h_buffer (lks st)) as [|tb rb] eqn:Eb.
    - destruct (h_pw (lks st)) as [|tw rw] eqn:Ew.
      + destruct (h_pr (lks st)) as [|tr rr] eqn:Er.
        * destruct (h_frozen (lks st)) as [|tf rf] eqn:Ef.
          -- exists t0, KWal. split.
             ++ destruct k0; simpl in H0; rewrite ?Eb, ?Ew, ?Er, ?Ef in H0; try contradiction. exact H0.
             ++ intros k' Hr. destruct k'; simpl in *; try lia; assumption.
          -- exists tf, KFrozen. split; [simpl; rewrite Ef; left; reflexivity|].
             intros k' Hr. destruct k'; simpl in *; try lia; assumption.
        * exists tr, KPR. split; [simpl; rewrite Er; left; reflexivity|].
          intros k' Hr. destruct k'; simpl in *; try lia; assumption.
      + exists tw, KPW. split; [simpl; rewrite Ew; left; reflexivity|].
        intros k' Hr. destruct k'; simpl in *; try lia; assumption.
    - exists tb, KBuffer. split; [simpl; rewrite Eb; left; reflexivity|].
      intros k' Hr. destruct k'; simpl in *; lia. }
  destruct Hmax as (t & k & Hin & Habove).
  assert (Hh : t_holds st t k = true) by (apply LI; exact Hin).
  destruct (progress_thread st t LI NP) as (a & st' & Hs).
  - exists k. exact Hh.
  - intros kw Hw. assert (Hr := want_above_held st t k kw Hh Hw).
    destruct kw; simpl.
    + apply is_nil_true. apply (Habove KWal). simpl in *. lia.
    + apply is_nil_true. apply (Habove KFrozen). simpl in *. lia.
    + (* KPW: neither writer nor reader *)
      rewrite (proj2 (is_nil_true (h_pw (lks st)))), (proj2 (is_nil_true (h_pr (lks st)))); [reflexivity| |].
      * apply (Habove KPR). simpl in *. lia.
      * apply (Habove KPW). simpl in *. lia.
    + apply is_nil_true. apply (Habove KPW). simpl in *. lia.
    + apply is_nil_true. apply (Habove KBuffer). simpl in *. lia.
  - exists t, a, st'. split; [exists k; exact Hin|exact Hs].
Qed.

(* ---------------------------------------------------------------------------------------------- *)
(* the compaction swap                                                                              *)

Lemma map_fst_filter (f : nat -> bool) (l : list (nat * list (list N))) :
  map fst (filter (fun p => f (fst p)) l) = filter f (map fst l).
Proof.
  induction l as [|x r IH]; simpl; [reflexivity|].
  destruct (f (fst x)); simpl; rewrite IH; reflexivity.
Qed.

Lemma compaction_swap st st' :
  Inv st -> step TF ACSwap st = Some st' ->
  holders (lks st) KPR = [] /\
  (exists olds n m, fl st = F_c1 olds n m /\
     s_pids (view (dat st')) = filter (fun i => negb (mem_nat i olds)) (s_pids (view (dat st))) ++ [n]) /\
  s_batches (view (dat st')) = s_batches (view (dat st)).
Proof.
  intros HI H. assert (HI' := inv_step _ _ _ _ HI H).
  destruct HI as (LI & (_ & _ & RW) & DI). destruct HI' as (_ & _ & DI').
  destruct (step_TF _ _ _ H) as (lo & p' & d' & Htr & Hal & Hd & Hf & Hi & Hq).
  destruct (fl st) eqn:Efl; simpl in Htr; try discriminate. injection Htr as <- <- <-.
  split; [|split].
  - apply RW. intro E. assert (I : In TF (holders (lks st) KPW)) by (apply LI; simpl; rewrite Efl; reflexivity).
    simpl in I. rewrite E in I. exact I.
  - exists olds, newid, merged. split; [reflexivity|].
    rewrite Hd. simpl. rewrite map_app. simpl. f_equal.
    apply (map_fst_filter (fun i => negb (mem_nat i olds))).
  - assert (L := di_log _ _ _ _ DI). assert (L' := di_log _ _ _ _ DI').
    rewrite Hf in L'. simpl in L, L'. unfold view. simpl.
    rewrite L, L'. rewrite Hd. reflexivity.
Qed.

Lemma snapshot_never_both st n p k0 s olds new :
  Inv st -> nth_error (qs st) n = Some p -> q_snapshot p = Some (k0, s) ->
  In (olds, new) (swaps (dat st)) -> In new (s_pids s) -> forall o, In o olds -> ~ In o (s_pids s).
Proof.
  intros (_ & _ & DI) Hn Hs. assert (HQ := di_q _ _ _ _ DI n p Hn).
  destruct p; simpl in Hs; try discriminate; injection Hs as <- <-; simpl in HQ;
    destruct HQ as (_ & _ & _ & H4); apply H4.
Qed.
