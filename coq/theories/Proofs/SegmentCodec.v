(* List-level lifting of the per-arm codec-op maps of Gen/SegmentMap.v (regenerated from the source on
   every run): a column's whole codec -- the list of ops a partition file stores -- survives the file. *)
From Coq Require Import NArith List.
From LV Require Import Gen.SegmentMap.
Import ListNotations.

Fixpoint map_opt {A B} (f : A -> option B) (l : list A) : option (list B) :=
  match l with
  | [] => Some []
  | x :: r => match f x with
              | None => None
              | Some y => match map_opt f r with None => None | Some r' => Some (y :: r') end
              end
  end.

Lemma op_roundtrip : forall o w, ser_op o = Some w -> de_op w = Some o.
Proof.
  intros o w Hs; destruct o;
    repeat match goal with a : enc_type |- _ => destruct a end;
    cbn in Hs; try discriminate; injection Hs as <-; reflexivity.
Qed.

Theorem codec_roundtrip : forall ops ws, map_opt ser_op ops = Some ws -> map_opt de_op ws = Some ops.
Proof.
  induction ops as [|o r IH]; intros ws H; cbn [map_opt] in H.
  - injection H as <-. reflexivity.
  - destruct (ser_op o) as [w|] eqn:E; [|discriminate].
    destruct (map_opt ser_op r) as [r'|] eqn:Er; [|discriminate].
    injection H as <-. cbn [map_opt]. rewrite (op_roundtrip _ _ E), (IH _ eq_refl). reflexivity.
Qed.

Theorem codec_total : forall ops,
  Forall (fun o => o <> CO_Unknown) ops -> exists ws, map_opt ser_op ops = Some ws.
Proof.
  induction ops as [|o r IH]; intros HF; [eexists; reflexivity|].
  inversion HF as [|? ? Ho Hr]; subst. cbn [map_opt].
  assert (exists w, ser_op o = Some w) as (w & ->).
  { destruct o; repeat match goal with a : enc_type |- _ => destruct a end;
      try congruence; eexists; reflexivity. }
  destruct (IH Hr) as (ws & ->). eexists; reflexivity.
Qed.
