(* Proofs about Model/EncodedCmp.v and the WHERE semantics of Model/QuerySpec.v (property C03). *)
From Coq Require Import ZArith NArith List Bool Lia Sorting.Sorted.
From LV Require Import Model.QuerySpecList Proofs.QuerySpecList Model.CheckedArith Proofs.CheckedArith
     Model.QuerySpec Model.EncodedCmp.
Import ListNotations.
Open Scope Z_scope.

(* C03_int_encoded_cmp *)
Theorem int_encoded_cmp c offset v k e :
  encode_int offset k = Some e -> cmp_enc c (encode_val offset v) e = cmp_dec c v k.
Proof.
  unfold encode_int, encode_val, cmp_dec. destruct (in_i64 (k - offset)); [|discriminate].
  intros H. injection H as <-.
  destruct c; cbn [cmp_enc cmp_holds]; destruct (Z.compare_spec v k);
    repeat match goal with
           | |- context [?a =? ?b] => destruct (Z.eqb_spec a b)
           | |- context [?a <? ?b] => destruct (Z.ltb_spec a b)
           | |- context [?a <=? ?b] => destruct (Z.leb_spec a b)
           end; cbn; try reflexivity; lia.
Qed.

(* C03_int_const_overflow_guard: exactly the constants whose translation leaves i64 *)
Theorem encode_int_none_iff offset k :
  encode_int offset k = None <->
  (k - offset < -9223372036854775808 \/ 9223372036854775807 < k - offset).
Proof.
  unfold encode_int. destruct (in_i64 (k - offset)) eqn:E.
  - apply in_i64_iff in E. split; [discriminate|lia].
  - apply in_i64_false_iff in E. split; [intros _; exact E|reflexivity].
Qed.

(* in the release profile the subtraction wraps and the comparison is wrong: the column holds values
   near i64::MIN (offset = MIN + 1), the constant is 5, and `v > 5` comes out true for v = MIN + 2 *)
Lemma encode_int_wrapping_refuted :
  exists offset v k,
    in_i64 offset = true /\ in_i64 v = true /\ in_i64 k = true /\
    cmp_enc CGt (encode_val offset v) (encode_int_wrapping offset k) <> cmp_dec CGt v k.
Proof.
  exists (-9223372036854775807), (-9223372036854775806), 5. repeat split. vm_compute. discriminate.
Qed.

(* ---- byte strings -------------------------------------------------------------------------------- *)

Lemma bytes_eqb_eq a : forall b, bytes_eqb a b = true <-> a = b.
Proof.
  induction a as [|x a IH]; intros [|y b]; cbn [bytes_eqb]; try (split; [discriminate|discriminate]).
  - split; reflexivity.
  - rewrite andb_true_iff, N.eqb_eq, IH. split; [intros [-> ->]; reflexivity|intros H; injection H; auto].
Qed.

Lemma bytes_cmp_eq a : forall b, bytes_cmp a b = Eq <-> a = b.
Proof.
  induction a as [|x a IH]; intros [|y b]; cbn [bytes_cmp]; try (split; discriminate).
  - split; reflexivity.
  - destruct (N.compare_spec x y) as [->|H|H].
    + rewrite IH. split; [intros ->; reflexivity|intros E; injection E; auto].
    + split; [discriminate|intros E; injection E as -> _; lia].
    + split; [discriminate|intros E; injection E as -> _; lia].
Qed.

Lemma bytes_cmp_antisym a : forall b, bytes_cmp b a = CompOpp (bytes_cmp a b).
Proof.
  induction a as [|x a IH]; intros [|y b]; cbn [bytes_cmp CompOpp]; try reflexivity.
  rewrite (N.compare_antisym x y). destruct (N.compare x y); cbn [CompOpp]; [apply IH|reflexivity|reflexivity].
Qed.

Definition bytes_lt (a b : list N) : Prop := bytes_cmp a b = Lt.

(* a dictionary as mem_store/strings.rs builds it: sorted, duplicate-free *)
Definition dict_sorted (d : list (list N)) : Prop := StronglySorted bytes_lt d.

Lemma sorted_nth_lt d : dict_sorted d -> forall i j, (i < j < length d)%nat -> bytes_lt (nth i d []) (nth j d []).
Proof.
  unfold dict_sorted. induction d as [|s d IH]; intros S i j Hij; [cbn in Hij; lia|].
  inversion S as [|? ? S' Hs]; subst. destruct j as [|j]; [lia|]. cbn [nth length] in *.
  destruct i as [|i].
  - rewrite Forall_forall in Hs. apply Hs. apply nth_In. lia.
  - apply IH; [exact S'|lia].
Qed.

Lemma lookup_from_spec d : forall i c,
  (forall j, (j < length d)%nat -> nth j d [] = c -> inverse_dict_lookup_from i d c = i + Z.of_nat j
                                                   \/ exists j', (j' < j)%nat /\ nth j' d [] = c) /\
  ((forall j, (j < length d)%nat -> nth j d [] <> c) -> inverse_dict_lookup_from i d c = -1).
Proof.
  induction d as [|s d IH]; intros i c; cbn [inverse_dict_lookup_from length].
  - split; [intros j Hj; lia|reflexivity].
  - destruct (bytes_eqb s c) eqn:E.
    + apply bytes_eqb_eq in E. subst s. split.
      * intros [|j] Hj Hn; [left; lia|right; exists O; split; [lia|reflexivity]].
      * intros H. exfalso. apply (H O); [lia|reflexivity].
    + assert (Hne : s <> c) by (intros ->; rewrite (proj2 (bytes_eqb_eq c c) eq_refl) in E; discriminate).
      destruct (IH (i + 1) c) as [IH1 IH2]. split.
      * intros [|j] Hj Hn; [cbn in Hn; contradiction|]. cbn [nth] in Hn.
        destruct (IH1 j ltac:(lia) Hn) as [H|[j' [Hj' Hc]]]; [left; lia|].
        right. exists (S j'). split; [lia|exact Hc].
      * intros H. apply IH2. intros j Hj. apply (H (S j)). lia.
Qed.

(* a constant that is in a duplicate-free dictionary is found at its index; an absent one gives -1 *)
Lemma lookup_present d j :
  dict_sorted d -> (j < length d)%nat -> inverse_dict_lookup d (nth j d []) = Z.of_nat j.
Proof.
  intros S Hj. unfold inverse_dict_lookup.
  destruct (lookup_from_spec d 0 (nth j d [])) as [H _].
  destruct (H j Hj eq_refl) as [E|[j' [Hj' Hc]]]; [lia|]. exfalso.
  pose proof (sorted_nth_lt d S j' j ltac:(lia)) as L. unfold bytes_lt in L.
  rewrite Hc in L. rewrite (proj2 (bytes_cmp_eq _ _) eq_refl) in L. discriminate.
Qed.

Lemma lookup_absent d c : ~ In c d -> inverse_dict_lookup d c = -1.
Proof.
  intros H. unfold inverse_dict_lookup. apply (proj2 (lookup_from_spec d 0 c)).
  intros j Hj E. apply H. rewrite <- E. apply nth_In. exact Hj.
Qed.

(* C03_dict_eq: = and <> on indices agree with byte equality, for constants present or absent *)
Theorem dict_eq d idx c :
  dict_sorted d -> (idx < length d)%nat ->
  cmp_dict CEq idx (inverse_dict_lookup d c) = bytes_eqb (nth idx d []) c /\
  cmp_dict CNe idx (inverse_dict_lookup d c) = negb (bytes_eqb (nth idx d []) c).
Proof.
  intros S Hidx. unfold cmp_dict. cbn [cmp_enc].
  assert (H : (Z.of_nat idx =? inverse_dict_lookup d c) = bytes_eqb (nth idx d []) c).
  { destruct (In_dec (list_eq_dec N.eq_dec) c d) as [Hin|Hout].
    - destruct (In_nth d c [] Hin) as (j & Hj & Hc). subst c. rewrite (lookup_present d j S Hj).
      destruct (Nat.eq_dec idx j) as [->|Hne].
      + rewrite Z.eqb_refl. symmetry. apply bytes_eqb_eq. reflexivity.
      + replace (Z.of_nat idx =? Z.of_nat j) with false by (symmetry; apply Z.eqb_neq; lia).
        symmetry. apply not_true_is_false. intros E. apply bytes_eqb_eq in E.
        assert (L : bytes_lt (nth (Nat.min idx j) d []) (nth (Nat.max idx j) d []))
          by (apply sorted_nth_lt; [exact S|lia]).
        unfold bytes_lt in L. destruct (Nat.min_dec idx j) as [Em|Em]; destruct (Nat.max_dec idx j) as [EM|EM];
          rewrite Em, EM in L; try lia;
          try (rewrite E in L); try (rewrite <- E in L);
          rewrite (proj2 (bytes_cmp_eq _ _) eq_refl) in L; discriminate.
    - rewrite (lookup_absent d c Hout).
      replace (Z.of_nat idx =? -1) with false by (symmetry; apply Z.eqb_neq; lia).
      symmetry. apply not_true_is_false. intros E. apply bytes_eqb_eq in E. apply Hout. rewrite <- E.
      apply nth_In. exact Hidx. }
  rewrite H. split; reflexivity.
Qed.

(* C03_dict_order: < <= > >= on indices agree with byte order when the constant is in the dictionary *)
Theorem dict_order c d idx j :
  dict_sorted d -> (idx < length d)%nat -> (j < length d)%nat ->
  cmp_dict c idx (inverse_dict_lookup d (nth j d [])) = cmp_holds c (bytes_cmp (nth idx d []) (nth j d [])).
Proof.
  intros S Hidx Hj. rewrite (lookup_present d j S Hj). unfold cmp_dict.
  assert (H : Z.compare (Z.of_nat idx) (Z.of_nat j) = bytes_cmp (nth idx d []) (nth j d [])).
  { destruct (lt_eq_lt_dec idx j) as [[Hlt|Heq]|Hgt]; [| subst idx |].
    - rewrite (sorted_nth_lt d S idx j ltac:(lia)). apply Z.compare_lt_iff. lia.
    - rewrite Z.compare_refl. symmetry. apply bytes_cmp_eq. reflexivity.
    - rewrite bytes_cmp_antisym. rewrite (sorted_nth_lt d S j idx ltac:(lia)). cbn [CompOpp].
      apply Z.compare_gt_iff. lia. }
  rewrite <- H. destruct c; cbn [cmp_enc cmp_holds]; destruct (Z.compare_spec (Z.of_nat idx) (Z.of_nat j));
    repeat match goal with
           | |- context [?a =? ?b] => destruct (Z.eqb_spec a b)
           | |- context [?a <? ?b] => destruct (Z.ltb_spec a b)
           | |- context [?a <=? ?b] => destruct (Z.leb_spec a b)
           end; cbn; try reflexivity; lia.
Qed.

(* F7: with an absent constant the index comparison runs against -1 and is wrong *)
Lemma dict_order_refuted :
  exists d idx c,
    dict_sorted d /\ (idx < length d)%nat /\ ~ In c d /\
    cmp_dict CGt idx (inverse_dict_lookup d c) <> cmp_holds CGt (bytes_cmp (nth idx d []) c).
Proof.
  exists [[97%N]; [122%N]], O, [109%N]. split.
  - repeat constructor.
  - split; [cbn; lia|]. split.
    + intros [H|[H|[]]]; discriminate.
    + vm_compute. discriminate.
Qed.

(* ---- null-aware AND / OR ------------------------------------------------------------------------- *)

(* AND as planned (data AND, null maps AND-ed) keeps exactly the rows the three-valued AND keeps *)
Theorem engine_and_keeps a b :
  engine_keeps (engine_and a b) = spec_keeps (and3 (nbool_val a) (nbool_val b)).
Proof. destruct a as [[|] [|]], b as [[|] [|]]; reflexivity. Qed.

(* OR is refuted: NULL OR TRUE is dropped (F21) *)
Lemma engine_or_refuted :
  exists a b, engine_keeps (engine_or a b) <> spec_keeps (or3 (nbool_val a) (nbool_val b)).
Proof. exists (false, false), (true, true). vm_compute. discriminate. Qed.

(* ... and correct whenever both operands are present *)
Theorem engine_or_keeps_present a b :
  snd a = true -> snd b = true ->
  engine_keeps (engine_or a b) = spec_keeps (or3 (nbool_val a) (nbool_val b)).
Proof. destruct a as [[|] [|]], b as [[|] [|]]; intros; try discriminate; reflexivity. Qed.

(* ---- WHERE keeps exactly the rows for which the predicate is TRUE -------------------------------- *)

Definition pred_true (e : expr) (row : list val) : bool := spec_keeps (eval_expr row e).

Theorem filter_rows_exact e t rows :
  filter_rows (Some e) t = Ok rows -> rows = filter (pred_true e) t.
Proof.
  revert rows. induction t as [|row rest IH]; intros rows H; cbn [filter_rows filter] in *.
  - injection H as <-. reflexivity.
  - unfold pred_true at 1. destruct (eval_expr row e) as [[| | | |[|]|]| |] eqn:E; cbn [spec_keeps];
      try discriminate; try (apply IH; exact H).
    destruct (filter_rows (Some e) rest) as [rs| |]; cbn [rbind] in H; try discriminate.
    injection H as <-. f_equal. apply IH. reflexivity.
Qed.

Theorem filter_rows_none t : filter_rows None t = Ok t.
Proof.
  induction t as [|row rest IH]; cbn [filter_rows]; [reflexivity|]. rewrite IH. reflexivity.
Qed.

(* a comparison with a NULL operand is not true; IS NULL / IS NOT NULL test presence *)
Lemma cmp_with_null_not_true c l r row :
  eval_expr row l = EVal VNull \/ eval_expr row r = EVal VNull ->
  spec_keeps (eval_expr row (ECmp c l r)) = false.
Proof.
  intros [H|H]; cbn [eval_expr]; rewrite H.
  - destruct (eval_expr row r) as [v| |]; reflexivity.
  - destruct (eval_expr row l) as [[]| |]; reflexivity.
Qed.

Lemma is_null_tests_presence e row v :
  eval_expr row e = EVal v ->
  eval_expr row (EIsNull e) = EVal (VBool (match v with VNull => true | _ => false end)) /\
  eval_expr row (EIsNotNull e) = EVal (VBool (match v with VNull => false | _ => true end)).
Proof. intros H. cbn [eval_expr]. rewrite H. destruct v; split; reflexivity. Qed.
