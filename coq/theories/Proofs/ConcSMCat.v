(* C10 — the catalogue / column-handle protocol: refutation witnesses for the unguarded statements and the
   guarded safety theorem (queries that only reference columns every batch carries never panic, and neither does
   the flush thread). *)
From Coq Require Import List Bool Arith Lia.
From LV Require Import Model.ConcSMCat.
Import ListNotations.

(* ---------------------------------------------------------------------------------------------- *)
(* witnesses                                                                                        *)

Definition Cw : list nat := [0; 1].

(* F14a, first window: the merged partition is in the table but not yet in the catalogue *)
Definition witness_not_yet : list (option nat * cact) :=
  [(None, CBatch); (None, CClone); (None, CPersist); (None, CSkip);
   (None, CBatch); (None, CClone); (None, CPersist); (None, CBuild 0); (None, CSwap);
   (Some 0, CSnapshot 7); (Some 0, CGetCols)].

(* F14a, second window: a running query still holds partitions that prepare_compact removed from the catalogue *)
Definition witness_no_longer : list (option nat * cact) :=
  [(Some 0, CSnapshot 7);
   (None, CBatch); (None, CClone); (None, CPersist); (None, CBuild 0); (None, CSwap); (None, CPrepare);
   (Some 0, CGetCols)].

(* F14: a query inserts a placeholder handle into the partition the flush thread has just registered *)
Definition witness_placeholder : list (option nat * cact) :=
  [(None, CBatch); (Some 0, CSnapshot 7); (Some 0, CGetCols); (None, CClone)].

(* eviction: a PRESENT column of a partition that is registered in the table but not yet in the catalogue is
   evicted; the query's load (and the flush thread's unwrap) fail *)
Definition witness_evicted_query : list (option nat * cact) :=
  [(None, CBatch); (None, CEvict); (Some 0, CSnapshot 0); (Some 0, CGetCols)].
Definition witness_evicted_flush : list (option nat * cact) :=
  [(None, CBatch); (None, CEvict); (None, CClone)].

Lemma witness_evicted_query_panics :
  exists st, crun Cw witness_evicted_query (cinit Cw 0 1) = Some st /\ query_panicked st = true.
Proof. eexists. split; [vm_compute; reflexivity|vm_compute; reflexivity]. Qed.

Lemma witness_evicted_flush_panics :
  exists st, crun Cw witness_evicted_flush (cinit Cw 0 1) = Some st /\ flush_panicked st = true.
Proof. eexists. split; [vm_compute; reflexivity|vm_compute; reflexivity]. Qed.

Lemma witness_not_yet_panics :
  exists st, crun Cw witness_not_yet (cinit Cw 0 1) = Some st /\ query_panicked st = true.
Proof. eexists. split; [vm_compute; reflexivity|vm_compute; reflexivity]. Qed.

Lemma witness_no_longer_panics :
  exists st, crun Cw witness_no_longer (cinit Cw 2 1) = Some st /\ query_panicked st = true.
Proof. eexists. split; [vm_compute; reflexivity|vm_compute; reflexivity]. Qed.

Lemma witness_placeholder_panics :
  exists st, crun Cw witness_placeholder (cinit Cw 0 1) = Some st /\ flush_panicked st = true.
Proof. eexists. split; [vm_compute; reflexivity|vm_compute; reflexivity]. Qed.

(* ---------------------------------------------------------------------------------------------- *)
(* the guarded theorem                                                                              *)

Lemma NoDup_app_snoc {A} (a : list A) x : NoDup a -> ~ In x a -> NoDup (a ++ [x]).
Proof.
  induction a as [|y r IH]; simpl; intros ND NI.
  - constructor; [tauto|constructor].
  - inversion ND as [|? ? NI' ND']; subst. constructor.
    + intro I. apply in_app_or in I. destruct I as [I|[I|[]]]; [tauto|]. subst. tauto.
    + apply IH; tauto.
Qed.

Section Guarded.
  Variable C : list nat.

  Definition has_all (o : pobj) : Prop := forall c, In c C -> assoc c (p_h o) <> None.

  Lemma assoc_full c : In c C -> assoc c (full_handles C) <> None.
  Proof.
    unfold full_handles. induction C as [|x r IH]; simpl; [tauto|].
    intros [->|H].
    - rewrite Nat.eqb_refl. discriminate.
    - destruct (Nat.eqb c x); [discriminate|]. apply IH. exact H.
  Qed.

  Lemma all_res_full i e : all_res (mkP i e (full_handles C)) = true.
  Proof. unfold all_res, full_handles. simpl. induction C as [|x r IH]; simpl; auto. Qed.

  Lemma find_obj_in p os o : find_obj p os = Some o -> In o os /\ p_id o = p.
  Proof.
    induction os as [|x r IH]; simpl; [discriminate|].
    destruct (Nat.eqb p (p_id x)) eqn:E.
    - intro H. injection H as <-. apply Nat.eqb_eq in E. auto.
    - intro H. destruct (IH H). auto.
  Qed.

  Lemma nodup_ids_eq os o o' :
    NoDup (map p_id os) -> In o os -> In o' os -> p_id o = p_id o' -> o = o'.
  Proof.
    induction os as [|x r IH]; simpl; [tauto|]. intros ND. inversion ND as [|? ? NI ND']; subst.
    intros [->|H] [->|H'] E; auto.
    - exfalso. apply NI. rewrite E. apply in_map. exact H'.
    - exfalso. apply NI. rewrite <- E. apply in_map. exact H.
  Qed.

  (* how one object may change while queries and the flush thread read columns in C *)
  Definition R (o o' : pobj) : Prop :=
    p_id o' = p_id o /\ p_eph o' = p_eph o /\
    (forall c, assoc c (p_h o) <> None -> assoc c (p_h o') <> None) /\
    (p_eph o = true -> p_h o' = p_h o) /\
    (forall c, assoc c (p_h o') = Some HEvicted -> assoc c (p_h o) = Some HEvicted).

  Lemma R_refl o : R o o.
  Proof. repeat split; auto. Qed.

  Lemma R_trans a b c : R a b -> R b c -> R a c.
  Proof.
    intros (A1 & A2 & A3 & A4 & A5) (B1 & B2 & B3 & B4 & B5). repeat split.
    - congruence.
    - congruence.
    - auto.
    - intro E. rewrite B4 by congruence. auto.
    - auto.
  Qed.

  Lemma Forall2_R_refl os : Forall2 R os os.
  Proof. induction os; constructor; auto using R_refl. Qed.

  Lemma Forall2_R_trans a : forall b c, Forall2 R a b -> Forall2 R b c -> Forall2 R a c.
  Proof.
    induction a as [|x r IH]; intros b c H1 H2; inversion H1; subst; inversion H2; subst; constructor.
    - eapply R_trans; eauto.
    - eapply IH; eauto.
  Qed.

  Lemma Forall2_R_ids a b : Forall2 R a b -> map p_id b = map p_id a.
  Proof. induction 1 as [|x y r s H _ IH]; simpl; [reflexivity|]. destruct H as (E & _). congruence. Qed.

  Lemma Forall2_in_r a b o' : Forall2 R a b -> In o' b -> exists o, In o a /\ R o o'.
  Proof.
    induction 1 as [|x y r s H _ IH]; simpl; [tauto|]. intros [<-|I].
    - exists x. auto.
    - destruct (IH I) as (o & Io & Ro). exists o. auto.
  Qed.

  Lemma Forall2_in_l a b o : Forall2 R a b -> In o a -> exists o', In o' b /\ R o o'.
  Proof.
    induction 1 as [|x y r s H _ IH]; simpl; [tauto|]. intros [<-|I].
    - exists y. auto.
    - destruct (IH I) as (o' & Io & Ro). exists o'. auto.
  Qed.

  Lemma add_handle_R p col h os o :
    NoDup (map p_id os) -> find_obj p os = Some o -> p_eph o = false -> h <> HEvicted ->
    Forall2 R os (add_handle p col h os).
  Proof.
    intros ND F NE NH. destruct (find_obj_in _ _ _ F) as (Io & Ip).
    unfold add_handle.
    assert (G : forall l, incl l os -> Forall2 R l (map (fun o0 => if Nat.eqb p (p_id o0)
                 then mkP (p_id o0) (p_eph o0) ((col, h) :: p_h o0) else o0) l)).
    { induction l as [|x r IH]; simpl; intro I; constructor.
      - destruct (Nat.eqb p (p_id x)) eqn:E; [|apply R_refl].
        apply Nat.eqb_eq in E. assert (x = o).
        { apply (nodup_ids_eq os); auto. apply I. left. reflexivity. congruence. }
        subst x. repeat split; simpl; auto.
        + intros c Hc. destruct (Nat.eqb c col); [discriminate|exact Hc].
        + congruence.
        + intros c. destruct (Nat.eqb c col); [|auto]. intro E0. congruence.
      - apply IH. intros y Hy. apply I. right. exact Hy. }
    apply G. apply incl_refl.
  Qed.

  Lemma add_handle_has p col h os o' :
    In o' (add_handle p col h os) -> p_id o' = p -> assoc col (p_h o') <> None.
  Proof.
    unfold add_handle. intro I. apply in_map_iff in I. destruct I as (x & E & _).
    destruct (Nat.eqb p (p_id x)) eqn:Ep.
    - subst o'. simpl. rewrite Nat.eqb_refl. discriminate.
    - subst o'. intro E. apply Nat.eqb_neq in Ep. congruence.
  Qed.

  (* object-level invariant w.r.t. a catalogue *)
  Definition ObjOK (ct : list (nat * list nat)) (o : pobj) : Prop :=
    (p_eph o = true -> p_h o = full_handles C) /\
    (p_eph o = false -> has_all o \/ assoc (p_id o) ct <> None) /\
    (forall c, assoc c (p_h o) <> Some HEvicted).

  Lemma ObjOK_R ct o o' : ObjOK ct o -> R o o' -> ObjOK ct o'.
  Proof.
    intros (A & B & NE) (R1 & R2 & R3 & R4 & R5). split; [|split].
    - intro E. rewrite R2 in E. rewrite R4 by exact E. auto.
    - intro E. rewrite R2 in E. destruct (B E) as [H|H].
      + left. intros c Hc. apply R3. apply H. exact Hc.
      + right. rewrite R1. exact H.
    - intros c E. exact (NE c (R5 c E)).
  Qed.

  Lemma get_cols_ok os ct p col :
    NoDup (map p_id os) -> (forall o, In o os -> ObjOK ct o) -> In col C ->
    match get_cols os ct p col with
    | GCok os' => Forall2 R os os' /\ (forall o', In o' os' -> p_id o' = p -> assoc col (p_h o') <> None)
    | GCpanic => False
    | GCstuck => True
    end.
  Proof.
    intros ND OK Hc. unfold get_cols.
    destruct (find_obj p os) as [o|] eqn:F; [|exact I].
    destruct (find_obj_in _ _ _ F) as (Io & Ip). destruct (OK o Io) as (A & B & NE).
    destruct (assoc col (p_h o)) as [h|] eqn:Ea.
    - assert (G : Forall2 R os os /\ (forall o', In o' os -> p_id o' = p -> assoc col (p_h o') <> None)).
      { split; [apply Forall2_R_refl|]. intros o' I' E'.
        assert (o' = o) by (apply (nodup_ids_eq os); auto; congruence). subst o'. congruence. }
      destruct h; [exact G|exact G|]. exfalso. exact (NE col Ea).
    - destruct (p_eph o) eqn:Ee.
      + exfalso. rewrite (A eq_refl) in Ea. exact (assoc_full col Hc Ea).
      + destruct (B eq_refl) as [H|H]; [exfalso; exact (H col Hc Ea)|].
        rewrite Ip in H. destruct (assoc p ct) as [stored|]; [|congruence].
        split; [eapply add_handle_R; eauto; destruct (memn col stored); discriminate|].
        intros o' I' E'. eapply add_handle_has; eauto.
  Qed.

  Lemma get_cols_all_ok ct work : forall os,
    NoDup (map p_id os) -> (forall o, In o os -> ObjOK ct o) -> (forall pc, In pc work -> In (snd pc) C) ->
    match get_cols_all os ct work with
    | GCok os' => Forall2 R os os' /\
                  (forall p c o', In (p, c) work -> In o' os' -> p_id o' = p -> assoc c (p_h o') <> None)
    | GCpanic => False
    | GCstuck => True
    end.
  Proof.
    induction work as [|[p c] r IH]; simpl; intros os ND OK HC.
    - split; [apply Forall2_R_refl|]. intros ? ? ? [].
    - assert (G := get_cols_ok os ct p c ND OK (HC (p, c) (or_introl eq_refl))).
      destruct (get_cols os ct p c) as [os1| |]; [|contradiction|exact I].
      destruct G as (F1 & H1).
      assert (ND1 : NoDup (map p_id os1)) by (rewrite (Forall2_R_ids _ _ F1); exact ND).
      assert (OK1 : forall o, In o os1 -> ObjOK ct o).
      { intros o' I'. destruct (Forall2_in_r _ _ _ F1 I') as (o & Io & Ro). eapply ObjOK_R; eauto. }
      specialize (IH os1 ND1 OK1 (fun pc H => HC pc (or_intror H))).
      destruct (get_cols_all os1 ct r) as [os2| |]; [|contradiction|exact I].
      destruct IH as (F2 & H2). split; [eapply Forall2_R_trans; eauto|].
      intros p0 c0 o2 [E|I0] I2 E2.
      + injection E as <- <-. destruct (Forall2_in_r _ _ _ F2 I2) as (o1 & I1 & (R1 & _ & R3 & _)).
        apply R3. apply H1; [exact I1|congruence].
      + eapply H2; eauto.
  Qed.

  (* the global invariant *)
  Definition olds_of (p : cfpc) : list nat :=
    match p with CF_built olds | CF_swapped olds _ => olds | _ => [] end.

  Record CInv (st : cstate) : Prop := mkCInv {
    ci_nodup : NoDup (map p_id (objs st));
    ci_fresh : forall o, In o (objs st) -> p_id o < cnext st;
    ci_obj : forall o, In o (objs st) -> ObjOK (cat st) o;
    ci_olds : forall o, In o (objs st) -> In (p_id o) (olds_of (cfl st)) -> p_eph o = true \/ has_all o;
    ci_new : forall p, cfl st = CF_batched p -> forall o, In o (objs st) -> p_id o = p -> p_eph o = true;
    ci_fl : cfl st <> CF_panic;
    ci_q : forall q, In q (cqs st) -> match q with CQ_panic => False | CQ_run _ col => In col C | CQ_idle => True end }.

  Lemma in_updq n x l q : In q (updq n x l) -> q = x \/ In q l.
  Proof.
    revert n. induction l as [|y r IH]; intros [|n]; simpl; try tauto.
    - intros [H|H]; auto.
    - intros [H|H]; auto. destruct (IH _ H); auto.
  Qed.

  Lemma cinv_objs_R st os' :
    CInv st -> Forall2 R (objs st) os' ->
    NoDup (map p_id os') /\ (forall o, In o os' -> p_id o < cnext st) /\
    (forall o, In o os' -> ObjOK (cat st) o) /\
    (forall o, In o os' -> In (p_id o) (olds_of (cfl st)) -> p_eph o = true \/ has_all o) /\
    (forall p, cfl st = CF_batched p -> forall o, In o os' -> p_id o = p -> p_eph o = true).
  Proof.
    intros [] F. split; [|split; [|split; [|split]]].
    - rewrite (Forall2_R_ids _ _ F). assumption.
    - intros o' I'. destruct (Forall2_in_r _ _ _ F I') as (o & Io & (R1 & _)). rewrite R1. auto.
    - intros o' I'. destruct (Forall2_in_r _ _ _ F I') as (o & Io & Ro). eapply ObjOK_R; eauto.
    - intros o' I' Ho. destruct (Forall2_in_r _ _ _ F I') as (o & Io & (R1 & R2 & R3 & R4)).
      rewrite R1 in Ho. destruct (ci_olds0 o Io Ho) as [H|H].
      + left. congruence.
      + right. intros c Hc. apply R3. apply H. exact Hc.
    - intros p Ep o' I' E'. destruct (Forall2_in_r _ _ _ F I') as (o & Io & (R1 & R2 & _)).
      rewrite R2. eapply ci_new0; eauto. congruence.
  Qed.

  Lemma assoc_app_l {A} k (l1 l2 : list (nat * A)) : assoc k l1 <> None -> assoc k (l1 ++ l2) <> None.
  Proof.
    induction l1 as [|[j v] r IH]; simpl; [congruence|].
    destruct (Nat.eqb k j); auto.
  Qed.

  Lemma assoc_app_r {A} k (l1 l2 : list (nat * A)) : assoc k l2 <> None -> assoc k (l1 ++ l2) <> None.
  Proof.
    induction l1 as [|[j v] r IH]; simpl; [auto|].
    destruct (Nat.eqb k j); [discriminate|auto].
  Qed.

  Lemma assoc_filter_keep k olds (l : list (nat * list nat)) :
    memn k olds = false -> assoc k l <> None ->
    assoc k (filter (fun e => negb (memn (fst e) olds)) l) <> None.
  Proof.
    intro Hk. induction l as [|[j v] r IH]; simpl; [congruence|].
    destruct (Nat.eqb k j) eqn:E.
    - apply Nat.eqb_eq in E. subst j. rewrite Hk. simpl. rewrite Nat.eqb_refl. discriminate.
    - intro H. destruct (negb (memn j olds)); simpl; [rewrite E|]; auto.
  Qed.

  Lemma memn_in x l : memn x l = true <-> In x l.
  Proof.
    induction l as [|y r IH]; simpl; [split; [discriminate|tauto]|].
    rewrite orb_true_iff, IH, Nat.eqb_eq. split; intros [H|H]; auto.
  Qed.

  Lemma full_not_evicted c : assoc c (full_handles C) <> Some HEvicted.
  Proof.
    unfold full_handles. induction C as [|x r IH]; simpl; [discriminate|].
    destruct (Nat.eqb c x); [discriminate|exact IH].
  Qed.

  Lemma has_all_full i e : has_all (mkP i e (full_handles C)).
  Proof. intros c Hc. simpl. apply assoc_full. exact Hc. Qed.

  Lemma cinv_step st t a st' :
    CInv st -> (forall c, a = CSnapshot c -> In c C) -> a <> CEvict -> cstep C t a st = Some st' -> CInv st'.
  Proof.
    intros HI Hcol Hne H0.
    assert (H : match t with None => fstep C a st | Some n => qstep n a st end = Some st').
    { unfold cstep in H0. destruct a; try exact H0. congruence. }
    clear H0. destruct t as [n|]; simpl in H.
    - (* querier *)
      unfold qstep in H. destruct (nth_error (cqs st) n) as [q|] eqn:Hn; [|discriminate].
      assert (Hq := ci_q _ HI q (nth_error_In _ _ Hn)).
      destruct q as [|todo col|]; [|destruct todo as [|p r]|]; destruct a; simpl in H; try discriminate.
      + injection H as <-. destruct HI. constructor; simpl; auto.
        intros q Iq. apply in_updq in Iq. destruct Iq as [->|Iq]; [apply Hcol; reflexivity|exact (ci_q0 q Iq)].
      + injection H as <-. destruct HI. constructor; simpl; auto.
        intros q Iq. apply in_updq in Iq. destruct Iq as [->|Iq]; [exact I|exact (ci_q0 q Iq)].
      + assert (G := get_cols_ok (objs st) (cat st) p col (ci_nodup _ HI) (ci_obj _ HI) Hq).
        destruct (get_cols (objs st) (cat st) p col) as [os'| |]; [|contradiction|discriminate].
        destruct G as (F & _). injection H as <-.
        destruct (cinv_objs_R st os' HI F) as (A1 & A2 & A3 & A4 & A5).
        destruct HI. constructor; simpl; auto.
        intros q Iq. apply in_updq in Iq. destruct Iq as [->|Iq]; [exact Hq|exact (ci_q0 q Iq)].
    - (* flush thread *)
      unfold fstep in H. destruct (cfl st) eqn:Efl; destruct a; try discriminate.
      + (* CBatch *)
        injection H as <-. destruct HI. constructor; simpl.
        * rewrite map_app. simpl. apply NoDup_app_snoc; [assumption|].
          intro I. apply in_map_iff in I. destruct I as (o & E & Io). specialize (ci_fresh0 o Io). lia.
        * intros o I. apply in_app_or in I. destruct I as [I|[<-|[]]]; [specialize (ci_fresh0 o I); lia|simpl; lia].
        * intros o I. apply in_app_or in I. destruct I as [I|[<-|[]]]; [auto|].
          split; [|split]; simpl; [reflexivity|discriminate|apply full_not_evicted].
        * intros o _ [].
        * intros p E o I Ep. injection E as <-. apply in_app_or in I. destruct I as [I|[<-|[]]]; [|reflexivity].
          specialize (ci_fresh0 o I). lia.
        * discriminate.
        * assumption.
      + (* CClone *)
        destruct (find_obj p (objs st)) as [o|] eqn:F; [|discriminate]. injection H as <-.
        destruct (find_obj_in _ _ _ F) as (Io & Ip).
        assert (Ee : p_eph o = true) by (eapply (ci_new _ HI); eauto).
        assert (Hh : p_h o = full_handles C) by (apply (ci_obj _ HI o Io); exact Ee).
        assert (AR : all_res o = true).
        { destruct o as [i e h]. simpl in *. subst h. apply all_res_full. }
        rewrite AR. destruct HI. constructor; simpl; auto; try discriminate.
      + (* CPersist *)
        injection H as <-. destruct HI. constructor; simpl; auto; try discriminate; try (intros o _ []; fail).
        intros o Io. destruct (ci_obj0 o Io) as (A & B & NE). split; [exact A|split; [|exact NE]].
        intro E. destruct (B E) as [H|H]; [left; exact H|right; apply assoc_app_l; exact H].
      + (* CSkip *)
        injection H as <-. destruct HI. constructor; simpl; auto; try discriminate; try (intros o _ []; fail).
      + (* CBuild *)
        remember (skipn i (tparts st)) as olds eqn:Eo.
        destruct olds as [|o0 orest]; [discriminate|].
        assert (G := get_cols_all_ok (cat st) (list_prod (o0 :: orest) C) (objs st) (ci_nodup _ HI) (ci_obj _ HI)).
        assert (HC : forall pc, In pc (list_prod (o0 :: orest) C) -> In (snd pc) C).
        { intros [p c] I. apply in_prod_iff in I. exact (proj2 I). }
        specialize (G HC).
        destruct (get_cols_all (objs st) (cat st) (list_prod (o0 :: orest) C)) as [os'| |]; [|contradiction|discriminate].
        destruct G as (F & Hall). injection H as <-.
        destruct (cinv_objs_R st os' HI F) as (A1 & A2 & A3 & A4 & A5).
        destruct HI. constructor; simpl; auto; try discriminate.
        intros o Io Hin. right. intros c Hc. apply (Hall (p_id o) c o); auto.
        apply in_prod_iff. split; assumption.
      + (* CSwap *)
        injection H as <-. destruct HI. constructor; simpl.
        * rewrite map_app. simpl. apply NoDup_app_snoc; [assumption|].
          intro I. apply in_map_iff in I. destruct I as (o & E & Io). specialize (ci_fresh0 o Io). lia.
        * intros o I. apply in_app_or in I. destruct I as [I|[<-|[]]]; [specialize (ci_fresh0 o I); lia|simpl; lia].
        * intros o I. apply in_app_or in I. destruct I as [I|[<-|[]]]; [auto|].
          split; [|split]; simpl; [discriminate| |apply full_not_evicted]. intros _. left. apply has_all_full.
        * intros o I Ho. apply in_app_or in I. destruct I as [I|[<-|[]]].
          -- rewrite Efl in ci_olds0. apply ci_olds0; assumption.
          -- right. apply has_all_full.
        * discriminate.
        * discriminate.
        * assumption.
      + (* CPrepare *)
        injection H as <-. destruct HI. constructor; simpl; auto; try discriminate; try (intros o _ []; fail).
        intros o Io. destruct (ci_obj0 o Io) as (A & B & NE). split; [exact A|split; [|exact NE]].
        intro E. destruct (memn (p_id o) olds) eqn:Em.
        * apply memn_in in Em. rewrite Efl in ci_olds0. simpl in ci_olds0.
          destruct (ci_olds0 o Io Em) as [H|H]; [congruence|left; exact H].
        * destruct (B E) as [H|H]; [left; exact H|right].
          apply assoc_app_l. apply assoc_filter_keep; assumption.
  Qed.

  Lemma assoc_map_in {A} (f : nat -> A) k l : In k l -> assoc k (map (fun i => (i, f i)) l) <> None.
  Proof.
    induction l as [|x r IH]; simpl; [tauto|]. intros [->|H].
    - rewrite Nat.eqb_refl. discriminate.
    - destruct (Nat.eqb k x); [discriminate|auto].
  Qed.

  Lemma cinv_init nd nq : CInv (cinit C nd nq).
  Proof.
    unfold cinit. constructor; simpl.
    - rewrite map_map. simpl. rewrite map_id. apply seq_NoDup.
    - intros o I. apply in_map_iff in I. destruct I as (i & <- & Hi). apply in_seq in Hi. simpl. lia.
    - intros o I. apply in_map_iff in I. destruct I as (i & <- & Hi). split; [|split]; simpl; [discriminate| |discriminate].
      intros _. right. apply (assoc_map_in (fun _ => C)). exact Hi.
    - intros o _ [].
    - discriminate.
    - discriminate.
    - intros q I. apply repeat_spec in I. subst. exact I.
  Qed.

  Lemma cinv_run sched : forall st st',
    CInv st -> (forall c, In c (sched_cols sched) -> In c C) -> sched_evicts sched = false ->
    crun C sched st = Some st' -> CInv st'.
  Proof.
    induction sched as [|[t a] r IH]; simpl; intros st st' HI HC HE H.
    - injection H as <-. exact HI.
    - destruct (cstep C t a st) as [st1|] eqn:E; [|discriminate].
      apply (IH st1 st'); [|destruct a; simpl in HC; auto|destruct a; simpl in HE; auto; discriminate|exact H].
      eapply cinv_step; [exact HI| | |exact E].
      + intros c ->. apply HC. simpl. left. reflexivity.
      + intros ->. simpl in HE. discriminate.
  Qed.

  Lemma cinv_no_panic st : CInv st -> query_panicked st = false /\ flush_panicked st = false.
  Proof.
    intros HI. split.
    - unfold query_panicked. destruct (existsb _ (cqs st)) eqn:E; [|reflexivity].
      apply existsb_exists in E. destruct E as (q & Iq & Hq). destruct q; try discriminate.
      exfalso. exact (ci_q _ HI CQ_panic Iq).
    - unfold flush_panicked. destruct (cfl st) eqn:E; try reflexivity.
      exfalso. exact (ci_fl _ HI E).
  Qed.
End Guarded.
