(* C10 — the catalogue / column-handle protocol after the repairs 3a6284a and 7a0a728:
   - no query ever panics (all schedules, absent columns and evictions included);
   - without evictions nobody panics, no query is answered with an existing column reported as absent, the
     compaction loses nothing and every catalogue entry stores every column (all schedules, absent-column
     queries included): in particular the two F14a windows and the F14 schedule are now safe;
   - with an eviction (F14b) the last three are refuted by witness schedules. *)
From Coq Require Import List Bool Arith Lia.
From LV Require Import Model.ConcSMCat.
Import ListNotations.

(* ---------------------------------------------------------------------------------------------- *)
(* schedules                                                                                        *)

Definition Cw : list nat := [0; 1].

(* the former F14a / F14 witnesses (column 7 is in no partition) *)
Definition sched_not_yet : list (option nat * cact) :=
  [(None, CBatch); (None, CClone); (None, CPersist); (None, CSkip);
   (None, CBatch); (None, CClone); (None, CPersist); (None, CBuild 0); (None, CSwap);
   (Some 0, CSnapshot 7); (Some 0, CGetCols); (Some 0, CGetCols)].

Definition sched_no_longer : list (option nat * cact) :=
  [(Some 0, CSnapshot 7);
   (None, CBatch); (None, CClone); (None, CPersist); (None, CBuild 0); (None, CSwap); (None, CPrepare);
   (Some 0, CGetCols); (Some 0, CGetCols); (Some 0, CGetCols)].

Definition sched_placeholder : list (option nat * cact) :=
  [(None, CBatch); (Some 0, CSnapshot 7); (Some 0, CGetCols); (None, CClone); (None, CPersist)].

(* F14b: column 0 (which every batch carries) of the freshly registered partition 0 is evicted before
   persist_partitions *)
Definition witness_evicted_query : list (option nat * cact) :=
  [(None, CBatch); (None, CEvict 0 0); (Some 0, CSnapshot 0); (Some 0, CGetCols)].
Definition witness_evicted_flush : list (option nat * cact) :=
  [(None, CBatch); (None, CEvict 0 0); (None, CClone)].
Definition witness_evicted_lost : list (option nat * cact) :=
  [(None, CBatch); (None, CEvict 0 0); (Some 0, CSnapshot 0); (Some 0, CGetCols); (None, CClone); (None, CPersist)].

Lemma sched_not_yet_ok :
  exists st, crun Cw sched_not_yet (cinit Cw 0 1) = Some st /\
             query_panicked st = false /\ query_wrong st = false /\ cqs st = [CQ_idle].
Proof. eexists. split; [vm_compute; reflexivity|vm_compute; repeat split]. Qed.

Lemma sched_no_longer_ok :
  exists st, crun Cw sched_no_longer (cinit Cw 2 1) = Some st /\
             query_panicked st = false /\ query_wrong st = false /\ cqs st = [CQ_idle].
Proof. eexists. split; [vm_compute; reflexivity|vm_compute; repeat split]. Qed.

Lemma sched_placeholder_ok :
  exists st, crun Cw sched_placeholder (cinit Cw 0 1) = Some st /\
             flush_panicked st = false /\ cat st = [(0, [0; 1])].
Proof. eexists. split; [vm_compute; reflexivity|vm_compute; repeat split]. Qed.

Lemma witness_evicted_query_wrong :
  exists st, crun Cw witness_evicted_query (cinit Cw 0 1) = Some st /\ query_wrong st = true.
Proof. eexists. split; [vm_compute; reflexivity|vm_compute; reflexivity]. Qed.

Lemma witness_evicted_flush_panics :
  exists st, crun Cw witness_evicted_flush (cinit Cw 0 1) = Some st /\ flush_panicked st = true.
Proof. eexists. split; [vm_compute; reflexivity|vm_compute; reflexivity]. Qed.

Lemma witness_evicted_lost_loses :
  exists st, crun Cw witness_evicted_lost (cinit Cw 0 1) = Some st /\
             flush_panicked st = false /\ data_lost Cw st = true /\ cat st = [(0, [1])].
Proof. eexists. split; [vm_compute; reflexivity|vm_compute; repeat split]. Qed.

(* ---------------------------------------------------------------------------------------------- *)
(* small facts                                                                                      *)

Lemma NoDup_app_snoc {A} (a : list A) x : NoDup a -> ~ In x a -> NoDup (a ++ [x]).
Proof.
  induction a as [|y r IH]; simpl; intros ND NI.
  - constructor; [tauto|constructor].
  - inversion ND as [|? ? NI' ND']; subst. constructor.
    + intro I. apply in_app_or in I. destruct I as [I|[I|[]]]; [tauto|]. subst. tauto.
    + apply IH; tauto.
Qed.

Lemma memn_in x l : memn x l = true <-> In x l.
Proof.
  induction l as [|y r IH]; simpl; [split; [discriminate|tauto]|].
  rewrite orb_true_iff, IH, Nat.eqb_eq. split; intros [H|H]; auto.
Qed.

Lemma memn_false x l : memn x l = false <-> ~ In x l.
Proof.
  split.
  - intros H I. apply memn_in in I. congruence.
  - intro H. destruct (memn x l) eqn:E; [|reflexivity]. apply memn_in in E. contradiction.
Qed.

Lemma find_obj_in p os o : find_obj p os = Some o -> In o os /\ p_id o = p.
Proof.
  induction os as [|x r IH]; simpl; [discriminate|].
  destruct (Nat.eqb p (p_id x)) eqn:E.
  - intro H. injection H as <-. apply Nat.eqb_eq in E. auto.
  - intro H. destruct (IH H). auto.
Qed.

Lemma nodup_ids_eq os o o' :
  NoDup (map p_id os) -> In o os -> In o' os -> p_id o = p_id o' -> o = o'.
Proof.
  induction os as [|x r IH]; simpl; [tauto|]. intros ND. inversion ND as [|? ? NI ND']; subst.
  intros [->|H] [->|H'] E; auto.
  - exfalso. apply NI. rewrite E. apply in_map. exact H'.
  - exfalso. apply NI. rewrite <- E. apply in_map. exact H.
Qed.

Lemma find_add_handle p col h os o :
  find_obj p os = Some o ->
  find_obj p (add_handle p col h os) = Some (mkP (p_id o) (p_eph o) ((col, h) :: p_h o)).
Proof.
  unfold add_handle. induction os as [|x r IH]; simpl; [discriminate|].
  destruct (Nat.eqb p (p_id x)) eqn:E; simpl.
  - intro H. injection H as <-. rewrite E. reflexivity.
  - intro H. rewrite E. apply IH. exact H.
Qed.

Lemma in_add_handle p col h os o' :
  In o' (add_handle p col h os) ->
  exists x, In x os /\ o' = (if Nat.eqb p (p_id x) then mkP (p_id x) (p_eph x) ((col, h) :: p_h x) else x).
Proof.
  unfold add_handle. intro I. apply in_map_iff in I. destruct I as (x & E & Ix). exists x. auto.
Qed.

Lemma assoc_in {A} k (l : list (nat * A)) v : assoc k l = Some v -> In (k, v) l.
Proof.
  induction l as [|[j w] r IH]; simpl; [discriminate|].
  destruct (Nat.eqb k j) eqn:E.
  - intro H. injection H as <-. apply Nat.eqb_eq in E. subst. auto.
  - auto.
Qed.

Lemma assoc_app_l {A} k (l1 l2 : list (nat * A)) : assoc k l1 <> None -> assoc k (l1 ++ l2) <> None.
Proof.
  induction l1 as [|[j v] r IH]; simpl; [congruence|].
  destruct (Nat.eqb k j); auto.
Qed.

Lemma assoc_filter_keep k olds (l : list (nat * list nat)) :
  memn k olds = false -> assoc k l <> None ->
  assoc k (filter (fun e => negb (memn (fst e) olds)) l) <> None.
Proof.
  intro Hk. induction l as [|[j v] r IH]; simpl; [congruence|].
  destruct (Nat.eqb k j) eqn:E.
  - apply Nat.eqb_eq in E. subst j. rewrite Hk. simpl. rewrite Nat.eqb_refl. discriminate.
  - intro H. destruct (negb (memn j olds)); simpl; [rewrite E|]; auto.
Qed.

Lemma in_updq n x l q : In q (updq n x l) -> q = x \/ In q l.
Proof.
  revert n. induction l as [|y r IH]; intros [|n]; simpl; try tauto.
  - intros [H|H]; auto.
  - intros [H|H]; auto. destruct (IH _ H); auto.
Qed.

Lemma get_cols_never_panics os ct p col : get_cols os ct p col <> GCpanic.
Proof.
  unfold get_cols. destruct (find_obj p os) as [o|]; [|discriminate].
  destruct (assoc col (p_h o)) as [[| |]|]; try discriminate;
    try (destruct (assoc p ct); discriminate).
  destruct (p_eph o); [discriminate|]. destruct (assoc p ct); discriminate.
Qed.

(* ---------------------------------------------------------------------------------------------- *)
(* no query ever panics (unconditionally)                                                           *)

Section AnyColumns.
  Variable C : list nat.

  Definition NoQPanic (st : cstate) : Prop := forall q, In q (cqs st) -> q <> CQ_panic.

  Lemma noqpanic_step t a st st' : NoQPanic st -> cstep C t a st = Some st' -> NoQPanic st'.
  Proof.
    intros HI H. unfold cstep in H.
    assert (G : match t with None => fstep C a st | Some n => qstep C n a st end = Some st' -> NoQPanic st').
    { clear H. destruct t as [n|].
      - unfold qstep. destruct (nth_error (cqs st) n) as [q|]; [|discriminate].
        destruct q as [|todo col| |]; [|destruct todo as [|p r]| |]; destruct a; try discriminate.
        + intro H. injection H as <-. intros q Iq. simpl in Iq. apply in_updq in Iq.
          destruct Iq as [->|Iq]; [discriminate|auto].
        + intro H. injection H as <-. intros q Iq. simpl in Iq. apply in_updq in Iq.
          destruct Iq as [->|Iq]; [discriminate|auto].
        + assert (NP := get_cols_never_panics (objs st) (cat st) p col).
          destruct (get_cols (objs st) (cat st) p col) as [os'| |]; [|congruence|discriminate].
          intro H. injection H as <-. intros q Iq. simpl in Iq. apply in_updq in Iq.
          destruct Iq as [->|Iq]; [destruct (memn col C && sees_empty os' p col); discriminate|auto].
      - unfold fstep. intro H.
        assert (E : cqs st' = cqs st).
        { destruct (cfl st); destruct a; try discriminate;
            repeat match type of H with
                   | context [match ?x with _ => _ end] => destruct x; try discriminate
                   end; injection H as <-; reflexivity. }
        intros q Iq. rewrite E in Iq. auto. }
    destruct a; try (apply G; exact H).
    injection H as <-. exact HI.
  Qed.

  Lemma noqpanic_run sched : forall st st', NoQPanic st -> crun C sched st = Some st' -> NoQPanic st'.
  Proof.
    induction sched as [|[t a] r IH]; simpl; intros st st' HI H.
    - injection H as <-. exact HI.
    - destruct (cstep C t a st) as [st1|] eqn:E; [|discriminate].
      eapply IH; [|exact H]. eapply noqpanic_step; eauto.
  Qed.

  Lemma query_never_panics nd nq sched st :
    crun C sched (cinit C nd nq) = Some st -> query_panicked st = false.
  Proof.
    intro H. assert (NP : NoQPanic st).
    { eapply noqpanic_run; [|exact H]. intros q Iq. simpl in Iq. apply repeat_spec in Iq. subst. discriminate. }
    unfold query_panicked. destruct (existsb _ (cqs st)) eqn:E; [|reflexivity].
    apply existsb_exists in E. destruct E as (q & Iq & Hq). destruct q; try discriminate.
    exfalso. exact (NP _ Iq eq_refl).
  Qed.
End AnyColumns.

(* ---------------------------------------------------------------------------------------------- *)
(* without evictions                                                                                *)

Section Guarded.
  Variable C : list nat.

  Definition has_all_res (o : pobj) : Prop := forall c, In c C -> assoc c (p_h o) = Some HRes.

  Lemma assoc_full c : In c C -> assoc c (full_handles C) = Some HRes.
  Proof.
    unfold full_handles. induction C as [|x r IH]; simpl; [tauto|].
    intros [->|H].
    - rewrite Nat.eqb_refl. reflexivity.
    - destruct (Nat.eqb c x); [reflexivity|]. apply IH. exact H.
  Qed.

  Lemma assoc_full_inv c h : assoc c (full_handles C) = Some h -> h = HRes /\ In c C.
  Proof.
    unfold full_handles. induction C as [|x r IH]; simpl; [discriminate|].
    destruct (Nat.eqb c x) eqn:E.
    - intro H. injection H as <-. apply Nat.eqb_eq in E. auto.
    - intro H. destruct (IH H). auto.
  Qed.

  (* object-level invariant w.r.t. a catalogue *)
  Definition ObjOK (ct : list (nat * list nat)) (o : pobj) : Prop :=
    (forall c h, assoc c (p_h o) = Some h -> h <> HEvicted /\ (In c C -> h = HRes)) /\
    (p_eph o = true -> has_all_res o) /\
    (p_eph o = false -> has_all_res o \/ assoc (p_id o) ct <> None).

  Definition CatOK (ct : list (nat * list nat)) : Prop :=
    forall p stored, In (p, stored) ct -> forall c, In c C -> memn c stored = true.

  (* how one object may change *)
  Definition R (o o' : pobj) : Prop :=
    p_id o' = p_id o /\ p_eph o' = p_eph o /\
    (forall c, In c C -> assoc c (p_h o) = Some HRes -> assoc c (p_h o') = Some HRes).

  Lemma R_refl o : R o o.
  Proof. repeat split; auto. Qed.

  Lemma R_trans a b c : R a b -> R b c -> R a c.
  Proof. intros (A1 & A2 & A3) (B1 & B2 & B3). repeat split; [congruence|congruence|auto]. Qed.

  Lemma Forall2_R_refl os : Forall2 R os os.
  Proof. induction os; constructor; auto using R_refl. Qed.

  Lemma Forall2_R_trans a : forall b c, Forall2 R a b -> Forall2 R b c -> Forall2 R a c.
  Proof.
    induction a as [|x r IH]; intros b c H1 H2; inversion H1; subst; inversion H2; subst; constructor.
    - eapply R_trans; eauto.
    - eapply IH; eauto.
  Qed.

  Lemma Forall2_R_ids a b : Forall2 R a b -> map p_id b = map p_id a.
  Proof. induction 1 as [|x y r s H _ IH]; simpl; [reflexivity|]. destruct H as (E & _). congruence. Qed.

  Lemma Forall2_in_r a b o' : Forall2 R a b -> In o' b -> exists o, In o a /\ R o o'.
  Proof.
    induction 1 as [|x y r s H _ IH]; simpl; [tauto|]. intros [<-|I].
    - exists x. auto.
    - destruct (IH I) as (o & Io & Ro). exists o. auto.
  Qed.

  (* adding a handle for a column that has none *)
  Lemma add_handle_ok ct p col h os o :
    NoDup (map p_id os) -> (forall x, In x os -> ObjOK ct x) ->
    find_obj p os = Some o -> assoc col (p_h o) = None ->
    h <> HEvicted -> (In col C -> h = HRes) ->
    Forall2 R os (add_handle p col h os) /\
    (forall o', In o' (add_handle p col h os) -> ObjOK ct o') /\
    (forall o', In o' (add_handle p col h os) -> p_id o' = p -> assoc col (p_h o') = Some h).
  Proof.
    intros ND OK F Hn NE HC. destruct (find_obj_in _ _ _ F) as (Io & Ip).
    assert (U : forall x, In x os -> Nat.eqb p (p_id x) = true -> x = o).
    { intros x Ix E. apply Nat.eqb_eq in E. apply (nodup_ids_eq os); auto. congruence. }
    split; [|split].
    - unfold add_handle.
      assert (G : forall l, incl l os -> Forall2 R l (map (fun o0 => if Nat.eqb p (p_id o0)
                   then mkP (p_id o0) (p_eph o0) ((col, h) :: p_h o0) else o0) l)).
      { induction l as [|x r IH]; simpl; intro I; constructor.
        - destruct (Nat.eqb p (p_id x)) eqn:E; [|apply R_refl].
          assert (x = o) by (apply U; [apply I; left; reflexivity|exact E]). subst x.
          repeat split; simpl; auto. intros c Hc Hr.
          destruct (Nat.eqb c col) eqn:Ec; [|exact Hr]. apply Nat.eqb_eq in Ec. subst c. congruence.
        - apply IH. intros y Hy. apply I. right. exact Hy. }
      apply G. apply incl_refl.
    - intros o' I'. destruct (in_add_handle _ _ _ _ _ I') as (x & Ix & ->).
      destruct (Nat.eqb p (p_id x)) eqn:E; [|auto].
      assert (x = o) by (apply U; assumption). subst x.
      destruct (OK o Io) as (K & Fu & Ne). split; [|split]; simpl.
      + intros c k. destruct (Nat.eqb c col) eqn:Ec.
        * intro H. injection H as <-. apply Nat.eqb_eq in Ec. subst c. auto.
        * apply K.
      + intros Ee c Hc. simpl. destruct (Nat.eqb c col) eqn:Ec.
        * apply Nat.eqb_eq in Ec. subst c. rewrite (Fu Ee col Hc) in Hn. discriminate.
        * apply Fu; assumption.
      + intros Ee. destruct (Ne Ee) as [H|H]; [|right; exact H].
        left. intros c Hc. simpl. destruct (Nat.eqb c col) eqn:Ec.
        * apply Nat.eqb_eq in Ec. subst c. rewrite (H col Hc) in Hn. discriminate.
        * apply H; assumption.
    - intros o' I' E'. destruct (in_add_handle _ _ _ _ _ I') as (x & Ix & ->).
      destruct (Nat.eqb p (p_id x)) eqn:E.
      + simpl. rewrite Nat.eqb_refl. reflexivity.
      + apply Nat.eqb_neq in E. congruence.
  Qed.

  Lemma get_cols_ok os ct p col :
    NoDup (map p_id os) -> (forall o, In o os -> ObjOK ct o) -> CatOK ct ->
    match get_cols os ct p col with
    | GCok os' => Forall2 R os os' /\ (forall o', In o' os' -> ObjOK ct o') /\
                  (In col C -> forall o', In o' os' -> p_id o' = p -> assoc col (p_h o') = Some HRes)
    | GCpanic => False
    | GCstuck => True
    end.
  Proof.
    intros ND OK CO. unfold get_cols.
    destruct (find_obj p os) as [o|] eqn:F; [|exact I].
    destruct (find_obj_in _ _ _ F) as (Io & Ip). destruct (OK o Io) as (K & Fu & Ne).
    destruct (assoc col (p_h o)) as [h|] eqn:Ea.
    - assert (G : Forall2 R os os /\ (forall o', In o' os -> ObjOK ct o') /\
                  (In col C -> forall o', In o' os -> p_id o' = p -> assoc col (p_h o') = Some HRes)).
      { split; [apply Forall2_R_refl|split; [exact OK|]]. intros Hc o' I' E'.
        assert (o' = o) by (apply (nodup_ids_eq os); auto; congruence). subst o'.
        rewrite Ea. f_equal. apply (K col h Ea). exact Hc. }
      destruct h; [exact G|exact G|]. exfalso. exact (proj1 (K col _ Ea) eq_refl).
    - destruct (p_eph o) eqn:Ee.
      + assert (NC : ~ In col C) by (intro Hc; rewrite (Fu eq_refl col Hc) in Ea; discriminate).
        destruct (add_handle_ok ct p col HEmpty os o ND OK F Ea) as (A1 & A2 & A3); [discriminate|tauto|].
        split; [exact A1|split; [exact A2|tauto]].
      + destruct (assoc p ct) as [stored|] eqn:Ec.
        * assert (HC : In col C -> (if memn col stored then HRes else HEmpty) = HRes).
          { intro Hc. rewrite (CO p stored (assoc_in _ _ _ Ec) col Hc). reflexivity. }
          destruct (add_handle_ok ct p col (if memn col stored then HRes else HEmpty) os o ND OK F Ea)
            as (A1 & A2 & A3); [destruct (memn col stored); discriminate|exact HC|].
          split; [exact A1|split; [exact A2|]]. intros Hc o' I' E'. rewrite (A3 o' I' E'). f_equal. auto.
        * assert (NC : ~ In col C).
          { intro Hc. destruct (Ne eq_refl) as [H|H]; [rewrite (H col Hc) in Ea; discriminate|].
            rewrite Ip in H. congruence. }
          destruct (add_handle_ok ct p col HEmpty os o ND OK F Ea) as (A1 & A2 & A3); [discriminate|tauto|].
          split; [exact A1|split; [exact A2|tauto]].
  Qed.

  Lemma sees_empty_false os p col :
    (forall o', In o' os -> p_id o' = p -> assoc col (p_h o') = Some HRes) -> sees_empty os p col = false.
  Proof.
    intro H. unfold sees_empty. destruct (find_obj p os) as [o|] eqn:F; [|reflexivity].
    destruct (find_obj_in _ _ _ F) as (Io & Ip). rewrite (H o Io Ip). reflexivity.
  Qed.

  Lemma get_cols_all_ok ct work : forall os,
    NoDup (map p_id os) -> (forall o, In o os -> ObjOK ct o) -> CatOK ct ->
    (forall pc, In pc work -> In (snd pc) C) ->
    match get_cols_all C os ct work with
    | GAok os' => Forall2 R os os' /\ (forall o', In o' os' -> ObjOK ct o') /\
                  (forall p c o', In (p, c) work -> In o' os' -> p_id o' = p -> assoc c (p_h o') = Some HRes)
    | GAlost _ => False
    | GAstuck => True
    end.
  Proof.
    induction work as [|[p c] r IH]; simpl; intros os ND OK CO HC.
    - split; [apply Forall2_R_refl|split; [exact OK|]]. intros ? ? ? [].
    - assert (Hc : In c C) by (apply (HC (p, c)); left; reflexivity).
      assert (G := get_cols_ok os ct p c ND OK CO).
      destruct (get_cols os ct p c) as [os1| |]; [|exact I|exact I].
      destruct G as (F1 & OK1 & H1).
      rewrite (sees_empty_false os1 p c (H1 Hc)), andb_false_r.
      assert (ND1 : NoDup (map p_id os1)) by (rewrite (Forall2_R_ids _ _ F1); exact ND).
      specialize (IH os1 ND1 OK1 CO (fun pc H => HC pc (or_intror H))).
      destruct (get_cols_all C os1 ct r) as [os2|os2|]; [|contradiction|exact I].
      destruct IH as (F2 & OK2 & H2). split; [eapply Forall2_R_trans; eauto|split; [exact OK2|]].
      intros p0 c0 o2 [E|I0] I2 E2.
      + injection E as <- <-. destruct (Forall2_in_r _ _ _ F2 I2) as (o1 & I1 & (R1 & _ & R3)).
        apply R3; [exact Hc|]. apply (H1 Hc o1 I1). congruence.
      + eapply H2; eauto.
  Qed.

  (* the columns the flush thread persists *)
  Lemma clone_cols_ok h : forall seen,
    (forall c k, ~ In c seen -> assoc c h = Some k -> k <> HEvicted) ->
    exists cols, clone_cols seen h = Some cols /\
                 (forall c, ~ In c seen -> assoc c h = Some HRes -> memn c cols = true).
  Proof.
    induction h as [|[c0 k0] r IH]; simpl; intros seen NE.
    - exists []. split; [reflexivity|]. intros c _ H. discriminate.
    - destruct (memn c0 seen) eqn:Em.
      + apply memn_in in Em. destruct (IH seen) as (cols & E & Hc).
        { intros c k Hs Ha. apply (NE c k Hs). destruct (Nat.eqb c c0) eqn:Ec; [|exact Ha].
          apply Nat.eqb_eq in Ec. subst. contradiction. }
        exists cols. split; [exact E|]. intros c Hs Ha. apply Hc; [exact Hs|].
        destruct (Nat.eqb c c0) eqn:Ec; [|exact Ha]. apply Nat.eqb_eq in Ec. subst. contradiction.
      + apply memn_false in Em.
        assert (K0 : k0 <> HEvicted) by (apply (NE c0 k0 Em); rewrite Nat.eqb_refl; reflexivity).
        destruct (IH (c0 :: seen)) as (cols & E & Hc).
        { intros c k Hs Ha. apply (NE c k); [intro; apply Hs; right; assumption|].
          destruct (Nat.eqb c c0) eqn:Ec; [|exact Ha]. apply Nat.eqb_eq in Ec. subst. exfalso. apply Hs. left. reflexivity. }
        rewrite E. destruct k0; [| |congruence].
        * exists (c0 :: cols). split; [reflexivity|]. intros c Hs Ha. simpl.
          destruct (Nat.eqb c c0) eqn:Ec; [reflexivity|]. simpl. apply Hc; [|exact Ha].
          intros [<-|I]; [rewrite Nat.eqb_refl in Ec; discriminate|contradiction].
        * exists cols. split; [reflexivity|]. intros c Hs Ha.
          destruct (Nat.eqb c c0) eqn:Ec; [discriminate|]. apply Hc; [|exact Ha].
          intros [<-|I]; [rewrite Nat.eqb_refl in Ec; discriminate|contradiction].
  Qed.

  (* the global invariant *)
  Definition olds_of (p : cfpc) : list nat :=
    match p with CF_built olds | CF_swapped olds _ => olds | _ => [] end.

  Record CInv (st : cstate) : Prop := mkCInv {
    ci_nodup : NoDup (map p_id (objs st));
    ci_fresh : forall o, In o (objs st) -> p_id o < cnext st;
    ci_cat : CatOK (cat st);
    ci_obj : forall o, In o (objs st) -> ObjOK (cat st) o;
    ci_olds : forall o, In o (objs st) -> In (p_id o) (olds_of (cfl st)) -> has_all_res o;
    ci_new : forall p, cfl st = CF_batched p -> forall o, In o (objs st) -> p_id o = p -> p_eph o = true;
    ci_cloned : forall p cols, cfl st = CF_cloned p cols -> forall c, In c C -> memn c cols = true;
    ci_fl : cfl st <> CF_panic /\ cfl st <> CF_lost;
    ci_q : forall q, In q (cqs st) -> q <> CQ_panic /\ q <> CQ_wrong }.

  Lemma cinv_objs_R st os' :
    CInv st -> Forall2 R (objs st) os' ->
    NoDup (map p_id os') /\ (forall o, In o os' -> p_id o < cnext st) /\
    (forall o, In o os' -> In (p_id o) (olds_of (cfl st)) -> has_all_res o) /\
    (forall p, cfl st = CF_batched p -> forall o, In o os' -> p_id o = p -> p_eph o = true).
  Proof.
    intros [] F. split; [|split; [|split]].
    - rewrite (Forall2_R_ids _ _ F). assumption.
    - intros o' I'. destruct (Forall2_in_r _ _ _ F I') as (o & Io & (R1 & _)). rewrite R1. auto.
    - intros o' I' Ho. destruct (Forall2_in_r _ _ _ F I') as (o & Io & (R1 & R2 & R3)).
      rewrite R1 in Ho. intros c Hc. apply R3; [exact Hc|]. apply (ci_olds0 o Io Ho). exact Hc.
    - intros p Ep o' I' E'. destruct (Forall2_in_r _ _ _ F I') as (o & Io & (R1 & R2 & _)).
      rewrite R2. eapply ci_new0; eauto. congruence.
  Qed.

  Lemma objok_full ct i e : e = true \/ assoc i ct <> None -> ObjOK ct (mkP i e (full_handles C)).
  Proof.
    intro H. split; [|split]; simpl.
    - intros c h Ha. destruct (assoc_full_inv c h Ha) as (-> & _). split; [discriminate|reflexivity].
    - intros _ c Hc. apply assoc_full. exact Hc.
    - intros _. left. intros c Hc. apply assoc_full. exact Hc.
  Qed.

  Lemma objok_cat ct ct' o :
    ObjOK ct o -> (p_eph o = false -> ~ has_all_res o -> assoc (p_id o) ct <> None -> assoc (p_id o) ct' <> None) ->
    (p_eph o = false -> has_all_res o \/ assoc (p_id o) ct <> None -> has_all_res o \/ assoc (p_id o) ct' <> None) ->
    ObjOK ct' o.
  Proof. intros (K & Fu & Ne) _ H. split; [exact K|split; [exact Fu|]]. intro E. apply H; auto. Qed.

  Lemma cinv_step st t a st' :
    CInv st -> (forall p c, a <> CEvict p c) -> cstep C t a st = Some st' -> CInv st'.
  Proof.
    intros HI Hne H0.
    assert (H : match t with None => fstep C a st | Some n => qstep C n a st end = Some st').
    { unfold cstep in H0. destruct a; try exact H0. exfalso. eapply Hne. reflexivity. }
    clear H0. destruct t as [n|]; simpl in H.
    - (* querier *)
      unfold qstep in H. destruct (nth_error (cqs st) n) as [q|] eqn:Hn; [|discriminate].
      destruct q as [|todo col| |]; [|destruct todo as [|p r]| |]; destruct a; simpl in H; try discriminate.
      + injection H as <-. destruct HI. constructor; simpl; auto.
        intros q Iq. apply in_updq in Iq. destruct Iq as [->|Iq]; [split; discriminate|auto].
      + injection H as <-. destruct HI. constructor; simpl; auto.
        intros q Iq. apply in_updq in Iq. destruct Iq as [->|Iq]; [split; discriminate|auto].
      + assert (G := get_cols_ok (objs st) (cat st) p col (ci_nodup _ HI) (ci_obj _ HI) (ci_cat _ HI)).
        destruct (get_cols (objs st) (cat st) p col) as [os'| |]; [|contradiction|discriminate].
        destruct G as (F & OK' & Hres). injection H as <-.
        destruct (cinv_objs_R st os' HI F) as (A1 & A2 & A4 & A5).
        destruct HI. constructor; simpl; auto.
        intros q Iq. apply in_updq in Iq. destruct Iq as [->|Iq]; [|auto].
        destruct (memn col C) eqn:Em; simpl; [|split; discriminate].
        apply memn_in in Em. rewrite (sees_empty_false os' p col (Hres Em)). split; discriminate.
    - (* flush thread *)
      unfold fstep in H. destruct (cfl st) eqn:Efl; destruct a; try discriminate.
      + (* CBatch *)
        injection H as <-. destruct HI. constructor; simpl; auto; try (split; discriminate); try discriminate.
        * rewrite map_app. simpl. apply NoDup_app_snoc; [assumption|].
          intro I. apply in_map_iff in I. destruct I as (o & E & Io). specialize (ci_fresh0 o Io). lia.
        * intros o I. apply in_app_or in I. destruct I as [I|[<-|[]]]; [specialize (ci_fresh0 o I); lia|simpl; lia].
        * intros o I. apply in_app_or in I. destruct I as [I|[<-|[]]]; [auto|]. apply objok_full. left. reflexivity.
        * intros o _ [].
        * intros p E o I Ep. injection E as <-. apply in_app_or in I. destruct I as [I|[<-|[]]]; [|reflexivity].
          specialize (ci_fresh0 o I). lia.
      + (* CClone *)
        destruct (find_obj p (objs st)) as [o|] eqn:F; [|discriminate]. injection H as <-.
        destruct (find_obj_in _ _ _ F) as (Io & Ip).
        assert (Ee : p_eph o = true) by (eapply (ci_new _ HI); eauto).
        destruct (ci_obj _ HI o Io) as (K & Fu & _).
        destruct (clone_cols_ok (p_h o) []) as (cols & Ec & Hc).
        { intros c k _ Ha. apply (K c k Ha). }
        rewrite Ec. destruct HI. constructor; simpl; auto; try (split; discriminate); try discriminate.
        * intros o0 _ [].
        * intros p0 cols0 E c Hin. injection E as <- <-. apply Hc; [tauto|]. apply Fu; assumption.
      + (* CPersist *)
        injection H as <-. assert (CL := ci_cloned _ HI p cols Efl).
        destruct HI. constructor; simpl; auto; try (split; discriminate); try discriminate.
        * intros p0 stored I c Hc. apply in_app_or in I. destruct I as [I|[E|[]]]; [eapply ci_cat0; eauto|].
          injection E as <- <-. apply CL. exact Hc.
        * intros o Io. destruct (ci_obj0 o Io) as (K & Fu & Ne). split; [exact K|split; [exact Fu|]].
          intro E. destruct (Ne E) as [H|H]; [left; exact H|right; apply assoc_app_l; exact H].
        * intros o _ [].
      + (* CSkip *)
        injection H as <-. destruct HI. constructor; simpl; auto; try (split; discriminate); try discriminate.
        intros o _ [].
      + (* CBuild *)
        remember (skipn i (tparts st)) as olds eqn:Eo.
        destruct olds as [|o0 orest]; [discriminate|].
        assert (G := get_cols_all_ok (cat st) (list_prod (o0 :: orest) C) (objs st)
                       (ci_nodup _ HI) (ci_obj _ HI) (ci_cat _ HI)).
        assert (HC : forall pc, In pc (list_prod (o0 :: orest) C) -> In (snd pc) C).
        { intros [p c] I. apply in_prod_iff in I. exact (proj2 I). }
        specialize (G HC).
        destruct (get_cols_all C (objs st) (cat st) (list_prod (o0 :: orest) C)) as [os'|os'|]; [|contradiction|discriminate].
        destruct G as (F & OK' & Hall). injection H as <-.
        destruct (cinv_objs_R st os' HI F) as (A1 & A2 & A4 & A5).
        destruct HI. constructor; simpl; auto; try (split; discriminate); try discriminate.
        intros o Io Hin c Hc. apply (Hall (p_id o) c o); auto.
        apply in_prod_iff. split; assumption.
      + (* CSwap *)
        injection H as <-. destruct HI. constructor; simpl; auto; try (split; discriminate); try discriminate.
        * rewrite map_app. simpl. apply NoDup_app_snoc; [assumption|].
          intro I. apply in_map_iff in I. destruct I as (o & E & Io). specialize (ci_fresh0 o Io). lia.
        * intros o I. apply in_app_or in I. destruct I as [I|[<-|[]]]; [specialize (ci_fresh0 o I); lia|simpl; lia].
        * intros o I. apply in_app_or in I. destruct I as [I|[<-|[]]]; [auto|].
          split; [|split]; simpl.
          -- intros c h Ha. destruct (assoc_full_inv c h Ha) as (-> & _). split; [discriminate|reflexivity].
          -- discriminate.
          -- intros _. left. intros c Hc. apply assoc_full. exact Hc.
        * intros o I Ho. apply in_app_or in I. destruct I as [I|[<-|[]]].
          -- rewrite Efl in ci_olds0. apply ci_olds0; assumption.
          -- intros c Hc. simpl. apply assoc_full. exact Hc.
      + (* CPrepare *)
        injection H as <-. destruct HI. constructor; simpl; auto; try (split; discriminate); try discriminate.
        * intros p0 stored I c Hc. apply in_app_or in I. destruct I as [I|[E|[]]].
          -- apply filter_In in I. eapply ci_cat0; [exact (proj1 I)|exact Hc].
          -- injection E as <- <-. apply memn_in. exact Hc.
        * intros o Io. destruct (ci_obj0 o Io) as (K & Fu & Ne). split; [exact K|split; [exact Fu|]].
          intro E. destruct (memn (p_id o) olds) eqn:Em.
          -- apply memn_in in Em. rewrite Efl in ci_olds0. simpl in ci_olds0. left. apply ci_olds0; assumption.
          -- destruct (Ne E) as [H|H]; [left; exact H|right].
             apply assoc_app_l. apply assoc_filter_keep; assumption.
        * intros o _ [].
  Qed.

  Lemma assoc_map_in {A} (f : nat -> A) k l : In k l -> assoc k (map (fun i => (i, f i)) l) <> None.
  Proof.
    induction l as [|x r IH]; simpl; [tauto|]. intros [->|H].
    - rewrite Nat.eqb_refl. discriminate.
    - destruct (Nat.eqb k x); [discriminate|auto].
  Qed.

  Lemma cinv_init nd nq : CInv (cinit C nd nq).
  Proof.
    unfold cinit. constructor; simpl.
    - rewrite map_map. simpl. rewrite map_id. apply seq_NoDup.
    - intros o I. apply in_map_iff in I. destruct I as (i & <- & Hi). apply in_seq in Hi. simpl. lia.
    - intros p stored I c Hc. apply in_map_iff in I. destruct I as (i & E & _). injection E as <- <-.
      apply memn_in. exact Hc.
    - intros o I. apply in_map_iff in I. destruct I as (i & <- & Hi). split; [|split]; simpl.
      + intros c h Ha. discriminate.
      + discriminate.
      + intros _. right. apply (assoc_map_in (fun _ => C)). exact Hi.
    - intros o _ [].
    - discriminate.
    - discriminate.
    - split; discriminate.
    - intros q I. apply repeat_spec in I. subst. split; discriminate.
  Qed.

  Lemma cinv_run sched : forall st st',
    CInv st -> sched_evicts sched = false -> crun C sched st = Some st' -> CInv st'.
  Proof.
    induction sched as [|[t a] r IH]; simpl; intros st st' HI HE H.
    - injection H as <-. exact HI.
    - destruct (cstep C t a st) as [st1|] eqn:E; [|discriminate].
      apply (IH st1 st'); [|destruct a; simpl in HE; auto; discriminate|exact H].
      eapply cinv_step; [exact HI| |exact E].
      intros p c ->. simpl in HE. discriminate.
  Qed.

  Lemma cinv_safe st :
    CInv st -> query_panicked st = false /\ query_wrong st = false /\ flush_panicked st = false /\ data_lost C st = false.
  Proof.
    intros HI. split; [|split; [|split]].
    - unfold query_panicked. destruct (existsb _ (cqs st)) eqn:E; [|reflexivity].
      apply existsb_exists in E. destruct E as (q & Iq & Hq). destruct q; try discriminate.
      exfalso. exact (proj1 (ci_q _ HI _ Iq) eq_refl).
    - unfold query_wrong. destruct (existsb _ (cqs st)) eqn:E; [|reflexivity].
      apply existsb_exists in E. destruct E as (q & Iq & Hq). destruct q; try discriminate.
      exfalso. exact (proj2 (ci_q _ HI _ Iq) eq_refl).
    - unfold flush_panicked. destruct (cfl st) eqn:E; try reflexivity.
      exfalso. exact (proj1 (ci_fl _ HI) E).
    - unfold data_lost. destruct (ci_fl _ HI) as (_ & NL).
      assert (CC : cat_complete C st = true).
      { unfold cat_complete. apply forallb_forall. intros [p stored] I. apply forallb_forall. intros c Hc.
        simpl. eapply (ci_cat _ HI); eauto. }
      rewrite CC. destruct (cfl st); try reflexivity. congruence.
  Qed.
End Guarded.
