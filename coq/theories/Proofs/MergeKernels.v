(* Proofs about Model/MergeKernels.v (properties C04 and C02).

   The kernels only use the comparator of the key type; the proofs are carried out for integer keys
   ([Z.leb] as cmp_eq, [Z.eqb] as ==), i.e. keys are identified with their rank in the key order.
   Group-by results are association lists (key, aggregate) strictly sorted by key. *)
From Coq Require Import ZArith List Bool Lia Sorting.Sorted.
From LV Require Import Model.QuerySpecList Proofs.QuerySpecList Model.CheckedArith Proofs.CheckedArith
     Model.MergeKernels.
Import ListNotations.
Open Scope Z_scope.

Definition ssorted (l : list Z) : Prop := StronglySorted Z.lt l.

Lemma ssorted_tail x l : ssorted (x :: l) -> ssorted l.
Proof. intros H. inversion H; assumption. Qed.

Lemma ssorted_head x l : ssorted (x :: l) -> Forall (Z.lt x) l.
Proof. intros H. inversion H; assumption. Qed.

Lemma Forall_lt_trans p x l : p < x -> Forall (Z.lt x) l -> Forall (Z.lt p) l.
Proof. intros H F. eapply Forall_impl; [|exact F]. intros a Ha. cbn in *. lia. Qed.

(* the textbook three-way merge of two strictly sorted key lists, with the ops it implies *)
Fixpoint md_simple (l : list Z) : list Z -> list Z * list mop :=
  fix aux (r : list Z) : list Z * list mop :=
    match l, r with
    | [], _ => (r, map (fun _ => TakeRight) r)
    | _, [] => (l, map (fun _ => TakeLeft) l)
    | x :: l', y :: r' =>
        if x =? y then let '(ks, ops) := md_simple l' r' in (x :: ks, TakeLeft :: MergeRight :: ops)
        else if x <=? y then let '(ks, ops) := md_simple l' r in (x :: ks, TakeLeft :: ops)
        else let '(ks, ops) := aux r' in (y :: ks, TakeRight :: ops)
    end.

Lemma md_simple_nil_l r : md_simple [] r = (r, map (fun _ => TakeRight) r).
Proof. destruct r; reflexivity. Qed.

Lemma md_simple_nil_r l : md_simple l [] = (l, map (fun _ => TakeLeft) l).
Proof. destruct l; reflexivity. Qed.

Lemma md_simple_cons x l' y r' :
  md_simple (x :: l') (y :: r') =
    if x =? y then let '(ks, ops) := md_simple l' r' in (x :: ks, TakeLeft :: MergeRight :: ops)
    else if x <=? y then let '(ks, ops) := md_simple l' (y :: r') in (x :: ks, TakeLeft :: ops)
    else let '(ks, ops) := md_simple (x :: l') r' in (y :: ks, TakeRight :: ops).
Proof. reflexivity. Qed.

(* the index loop of merge_deduplicate.rs, with its `result.last()` test, computes the three-way
   merge on strictly sorted inputs *)
Lemma md_loop_refines fuel :
  forall l r,
    (length l + length r < fuel)%nat -> ssorted l -> ssorted r ->
    md_loop Z.leb Z.eqb fuel l r None = md_simple l r /\
    forall p, Forall (Z.lt p) l ->
      (Forall (Z.lt p) r -> md_loop Z.leb Z.eqb fuel l r (Some p) = md_simple l r) /\
      (forall r', r = p :: r' ->
         md_loop Z.leb Z.eqb fuel l r (Some p) = let '(ks, ops) := md_simple l r' in (ks, MergeRight :: ops)).
Proof.
  induction fuel as [|fuel IH]; intros l r Hf Sl Sr; [lia|].
  destruct l as [|x l'], r as [|y r'].
  - cbn. split; [reflexivity|]. intros p _. split; [reflexivity|]. intros r' E. discriminate.
  - cbn [md_loop last_is]. rewrite md_simple_nil_l, qmap_eq. split; [reflexivity|].
    intros p _. split.
    + intros Fr. inversion Fr as [|? ? Hy _]; subst.
      replace (p =? y) with false by (symmetry; apply Z.eqb_neq; lia). reflexivity.
    + intros r'' E. injection E as Ey Er. subst y r''. rewrite Z.eqb_refl, md_simple_nil_l. reflexivity.
  - cbn [md_loop]. rewrite md_simple_nil_r, qmap_eq. split; [reflexivity|].
    intros p _. split; [reflexivity|]. intros r' E. discriminate.
  - cbn [length] in Hf.
    pose proof (ssorted_tail _ _ Sl) as Sl'. pose proof (ssorted_tail _ _ Sr) as Sr'.
    pose proof (ssorted_head _ _ Sl) as Hxl. pose proof (ssorted_head _ _ Sr) as Hyr.
    (* the step taken when the `last` test fails *)
    assert (Step : (if x <=? y
                    then let '(ks, ops) := md_loop Z.leb Z.eqb fuel l' (y :: r') (Some x) in (x :: ks, TakeLeft :: ops)
                    else let '(ks, ops) := md_loop Z.leb Z.eqb fuel (x :: l') r' (Some y) in (y :: ks, TakeRight :: ops))
                   = md_simple (x :: l') (y :: r')).
    { rewrite md_simple_cons. destruct (x =? y) eqn:Exy.
      - apply Z.eqb_eq in Exy. subst y. rewrite Z.leb_refl.
        destruct (IH l' (x :: r') ltac:(cbn [length]; lia) Sl' Sr) as [_ H].
        destruct (H x Hxl) as [_ H2]. rewrite (H2 r' eq_refl).
        destruct (md_simple l' r') as [ks ops]. reflexivity.
      - apply Z.eqb_neq in Exy. destruct (x <=? y) eqn:Ele.
        + apply Z.leb_le in Ele.
          destruct (IH l' (y :: r') ltac:(cbn [length]; lia) Sl' Sr) as [_ H].
          destruct (H x Hxl) as [H1 _]. rewrite H1; [reflexivity|].
          constructor; [lia|]. apply Forall_lt_trans with (x := y); [lia|exact Hyr].
        + apply Z.leb_gt in Ele.
          destruct (IH (x :: l') r' ltac:(cbn [length]; lia) Sl Sr') as [_ H].
          assert (Fy : Forall (Z.lt y) (x :: l')).
          { constructor; [lia|]. apply Forall_lt_trans with (x := x); [lia|exact Hxl]. }
          destruct (H y Fy) as [H1 _]. rewrite (H1 Hyr). reflexivity. }
    split; [cbn [md_loop last_is]; exact Step|].
    intros p Fp. split.
    + intros Fr. inversion Fr as [|? ? Hy _]; subst. cbn [md_loop last_is].
      replace (p =? y) with false by (symmetry; apply Z.eqb_neq; lia). exact Step.
    + intros r'' E. injection E as Ey Er. subst y r''. cbn [md_loop last_is]. rewrite Z.eqb_refl.
      destruct (IH (x :: l') r' ltac:(cbn [length]; lia) Sl Sr') as [_ H].
      destruct (H p Fp) as [H1 _]. rewrite (H1 Hyr). reflexivity.
Qed.

Theorem merge_deduplicate_is_three_way_merge l r :
  ssorted l -> ssorted r -> merge_deduplicate Z.leb Z.eqb l r = md_simple l r.
Proof.
  intros Sl Sr. unfold merge_deduplicate.
  apply (md_loop_refines (S (length l + length r)) l r ltac:(lia) Sl Sr).
Qed.

(* ---- association lists: the merged result ------------------------------------------------------- *)

Definition assoc := list (Z * Z).
Definition keys (m : assoc) : list Z := map fst m.
Definition vals (m : assoc) : list Z := map snd m.

(* the exact (unbounded) combination of two partial aggregates *)
Definition exact_comb (k : agg_kind) (a b : Z) : Z :=
  match k with AggSum | AggCount => a + b | AggMax => Z.max a b | AggMin => Z.min a b end.

(* union of two group-by results, combining the aggregates of keys present on both sides *)
Fixpoint umerge (k : agg_kind) (l : assoc) : assoc -> assoc :=
  fix aux (r : assoc) : assoc :=
    match l, r with
    | [], _ => r
    | _, [] => l
    | (x, vx) :: l', (y, vy) :: r' =>
        if x =? y then (x, exact_comb k vx vy) :: umerge k l' r'
        else if x <=? y then (x, vx) :: umerge k l' r
        else (y, vy) :: aux r'
    end.

Lemma umerge_nil_l k r : umerge k [] r = r.
Proof. destruct r; reflexivity. Qed.

Lemma umerge_nil_r k l : umerge k l [] = l.
Proof. destruct l as [|[? ?] ?]; reflexivity. Qed.

Lemma umerge_cons k x vx l' y vy r' :
  umerge k ((x, vx) :: l') ((y, vy) :: r') =
    if x =? y then (x, exact_comb k vx vy) :: umerge k l' r'
    else if x <=? y then (x, vx) :: umerge k l' ((y, vy) :: r')
    else (y, vy) :: umerge k ((x, vx) :: l') r'.
Proof. reflexivity. Qed.

(* values on which Combinable<i64>::combine is the exact combination: in i64 and different from the
   I64_NULL sentinel (see C06 for what happens at the sentinel) *)
Definition plain_val (v : Z) : Prop := in_i64 v = true /\ v <> i64_null.

Lemma combine_i64_exact k a b v :
  plain_val a -> plain_val b -> combine_i64 k a b = CbOk v -> v = exact_comb k a b.
Proof.
  intros [_ Na] [_ Nb] E. unfold combine_i64 in E.
  destruct (a =? i64_null) eqn:Ea; [apply Z.eqb_eq in Ea; contradiction|].
  destruct (b =? i64_null) eqn:Eb; [apply Z.eqb_eq in Eb; contradiction|].
  destruct k; cbn [exact_comb]; try (destruct (in_i64 (a + b)); [|discriminate]); congruence.
Qed.

Lemma keys_ops_simple k (L R : assoc) :
  fst (md_simple (keys L) (keys R)) = keys (umerge k L R).
Proof.
  revert R. induction L as [|[x vx] L' IHL]; intros R.
  - cbn [keys map]. rewrite md_simple_nil_l, umerge_nil_l. reflexivity.
  - induction R as [|[y vy] R' IHR].
    + cbn [keys map]. rewrite md_simple_nil_r, umerge_nil_r. reflexivity.
    + cbn [keys map fst]. rewrite md_simple_cons, umerge_cons.
      destruct (x =? y).
      * specialize (IHL R'). unfold keys in IHL. destruct (md_simple (map fst L') (map fst R')) as [ks ops].
        cbn [fst map] in *. rewrite IHL. reflexivity.
      * destruct (x <=? y).
        -- specialize (IHL ((y, vy) :: R')). unfold keys in IHL. cbn [map fst] in IHL.
           destruct (md_simple (map fst L') (y :: map fst R')) as [ks ops]. cbn [fst map] in *.
           rewrite IHL. reflexivity.
        -- unfold keys in IHR. cbn [map fst] in IHR.
           destruct (md_simple (x :: map fst L') (map fst R')) as [ks ops]. cbn [fst map] in *.
           rewrite IHR. reflexivity.
Qed.

(* replaying the ops on the aggregate columns: if no Overflow / panic is reported, the values are
   those of the union with exact combination *)
Lemma ma_loop_replay k (L : assoc) :
  forall (R : assoc) acc vs,
    Forall plain_val (vals L) -> Forall plain_val (vals R) ->
    ma_loop k (snd (md_simple (keys L) (keys R))) (vals L) (vals R) acc = AOk vs ->
    vs = rev acc ++ vals (umerge k L R).
Proof.
  induction L as [|[x vx] L' IHL]; intros R acc vs PL PR E.
  - cbn [keys vals map] in *. rewrite md_simple_nil_l in E. cbn [snd] in E. rewrite umerge_nil_l.
    clear PL PR. revert acc vs E. induction R as [|[y vy] R' IHR]; intros acc vs E; cbn [map ma_loop vals keys fst snd] in *.
    + rewrite qrev_eq in E. injection E as <-. rewrite app_nil_r. reflexivity.
    + apply IHR in E. rewrite E. cbn [rev]. rewrite <- app_assoc. reflexivity.
  - revert acc vs E. induction R as [|[y vy] R' IHR]; intros acc vs E.
    + cbn [keys vals map] in *. rewrite md_simple_nil_r in E. cbn [snd map ma_loop] in E.
      rewrite umerge_nil_r.
      assert (G : forall (M : assoc) acc vs,
                 ma_loop k (map (fun _ => TakeLeft) (map fst M)) (map snd M) [] acc = AOk vs ->
                 vs = rev acc ++ map snd M).
      { clear. induction M as [|[a va] M' IHM]; intros acc vs E; cbn [map ma_loop] in *.
        - rewrite qrev_eq in E. injection E as <-. rewrite app_nil_r. reflexivity.
        - apply IHM in E. rewrite E. cbn [rev]. rewrite <- app_assoc. reflexivity. }
      apply (G ((x, vx) :: L')). exact E.
    + cbn [keys vals map fst snd] in E. rewrite md_simple_cons in E. rewrite umerge_cons.
      cbn [vals map snd] in PL, PR.
      inversion PL as [|? ? Pvx PL']; subst. inversion PR as [|? ? Pvy PR']; subst.
      destruct (x =? y).
      * destruct (md_simple (map fst L') (map fst R')) as [ks ops] eqn:Em. cbn [snd ma_loop] in E.
        destruct (combine_i64 k vx vy) as [v| |] eqn:Ec; try discriminate.
        assert (Hops : ops = snd (md_simple (keys L') (keys R'))) by (unfold keys; rewrite Em; reflexivity).
        rewrite Hops in E. apply (IHL R' (v :: acc) vs PL' PR') in E.
        rewrite E. cbn [rev vals map snd]. rewrite <- app_assoc. cbn [app].
        rewrite (combine_i64_exact k vx vy v Pvx Pvy Ec). reflexivity.
      * destruct (x <=? y).
        -- destruct (md_simple (map fst L') (y :: map fst R')) as [ks ops] eqn:Em. cbn [snd ma_loop] in E.
           assert (Hops : ops = snd (md_simple (keys L') (keys ((y, vy) :: R'))))
             by (unfold keys; cbn [map fst]; rewrite Em; reflexivity).
           rewrite Hops in E.
           apply (IHL ((y, vy) :: R') (vx :: acc) vs PL' PR) in E.
           rewrite E. cbn [rev vals map snd]. rewrite <- app_assoc. reflexivity.
        -- destruct (md_simple (x :: map fst L') (map fst R')) as [ks ops] eqn:Em. cbn [snd ma_loop] in E.
           assert (Hops : ops = snd (md_simple (keys ((x, vx) :: L')) (keys R')))
             by (unfold keys; cbn [map fst]; rewrite Em; reflexivity).
           rewrite Hops in E. cbn [vals map snd] in IHR.
           apply (IHR PR' (vy :: acc) vs) in E.
           rewrite E. cbn [rev vals map snd]. rewrite <- app_assoc. reflexivity.
Qed.

(* C04_merge_dedup: merge_deduplicate on the key columns + merge_aggregate on an aggregate column
   = the union of the two group-by results with exact combination, whenever the kernel does not
   report Overflow *)
Theorem merge_dedup_aggregate_is_union k (L R : assoc) vs :
  ssorted (keys L) -> ssorted (keys R) ->
  Forall plain_val (vals L) -> Forall plain_val (vals R) ->
  let '(ks, ops) := merge_deduplicate Z.leb Z.eqb (keys L) (keys R) in
  merge_aggregate k ops (vals L) (vals R) = AOk vs ->
  ks = keys (umerge k L R) /\ vs = vals (umerge k L R).
Proof.
  intros SL SR PL PR. rewrite (merge_deduplicate_is_three_way_merge _ _ SL SR).
  pose proof (keys_ops_simple k L R) as Hk.
  destruct (md_simple (keys L) (keys R)) as [ks ops] eqn:Em. cbn [fst] in Hk.
  intros E. split; [exact Hk|].
  unfold merge_aggregate in E.
  destruct (vals L) as [|vl VL] eqn:EL.
  - destruct L as [|[? ?] ?]; [|discriminate]. injection E as <-. rewrite umerge_nil_l. reflexivity.
  - destruct (vals R) as [|vr VR] eqn:ER.
    + destruct R as [|[? ?] ?]; [|discriminate]. injection E as <-. rewrite umerge_nil_r. exact (eq_sym EL).
    + rewrite <- EL, <- ER in E. assert (Hops : ops = snd (md_simple (keys L) (keys R))) by (rewrite Em; reflexivity).
      rewrite Hops in E. rewrite <- EL in PL. rewrite <- ER in PR.
      apply (ma_loop_replay k L R [] vs PL PR) in E. exact E.
Qed.

(* ---- the union is the group-by of the concatenation --------------------------------------------- *)

(* group-by of a list of (key, value) rows as a sorted association list: insert row by row *)
Fixpoint ins (k : agg_kind) (x vx : Z) (m : assoc) : assoc :=
  match m with
  | [] => [(x, vx)]
  | (y, vy) :: m' =>
      if x =? y then (y, exact_comb k vx vy) :: m'
      else if x <? y then (x, vx) :: m
      else (y, vy) :: ins k x vx m'
  end.

Fixpoint group_by (k : agg_kind) (rows : list (Z * Z)) : assoc :=
  match rows with
  | [] => []
  | (x, vx) :: rest => ins k x vx (group_by k rest)
  end.

Lemma exact_comb_comm k a b : exact_comb k a b = exact_comb k b a.
Proof. destruct k; cbn [exact_comb]; lia. Qed.

Lemma exact_comb_assoc k a b c : exact_comb k a (exact_comb k b c) = exact_comb k (exact_comb k a b) c.
Proof. destruct k; cbn [exact_comb]; lia. Qed.

Lemma ins_keys_lt k p x vx m : p < x -> Forall (Z.lt p) (keys m) -> Forall (Z.lt p) (keys (ins k x vx m)).
Proof.
  intros Hp. induction m as [|[y vy] m' IH]; intros F; cbn [ins keys map fst] in *.
  - constructor; [exact Hp|constructor].
  - inversion F as [|? ? Hy F']; subst.
    destruct (x =? y); [constructor; assumption|].
    destruct (x <? y); [constructor; [exact Hp|constructor; assumption]|].
    constructor; [exact Hy|]. apply IH. exact F'.
Qed.

Lemma ins_sorted k x vx m : ssorted (keys m) -> ssorted (keys (ins k x vx m)).
Proof.
  unfold ssorted. induction m as [|[y vy] m' IH]; intros S; cbn [ins keys map fst] in *.
  - constructor; [constructor|constructor].
  - inversion S as [|? ? S' Hy]; subst.
    destruct (x =? y) eqn:E1; [constructor; assumption|].
    destruct (x <? y) eqn:E2.
    + apply Z.ltb_lt in E2. constructor; [exact S|]. constructor; [exact E2|].
      eapply Forall_impl; [|exact Hy]. intros a Ha. cbn in *. lia.
    + apply Z.ltb_ge in E2. apply Z.eqb_neq in E1. constructor; [apply IH; exact S'|].
      cbn [fst]. apply ins_keys_lt; [lia|exact Hy].
Qed.

Lemma group_by_sorted k rows : ssorted (keys (group_by k rows)).
Proof.
  induction rows as [|[x vx] rest IH]; cbn [group_by]; [constructor|apply ins_sorted; exact IH].
Qed.

(* inserting a row on the left commutes with the union *)
Lemma ins_umerge k x vx (L : assoc) :
  forall R, ssorted (keys L) -> ssorted (keys R) ->
            ins k x vx (umerge k L R) = umerge k (ins k x vx L) R.
Proof.
  induction L as [|[a va] L' IHL]; intros R SL SR.
  - rewrite umerge_nil_l. cbn [ins].
    induction R as [|[b vb] R' IHR]; [reflexivity|].
    cbn [ins]. rewrite umerge_cons, umerge_nil_l.
    destruct (x =? b) eqn:E1; [apply Z.eqb_eq in E1; subst; rewrite exact_comb_comm; reflexivity|].
    apply Z.eqb_neq in E1. destruct (x <? b) eqn:E2.
    + apply Z.ltb_lt in E2. replace (x <=? b) with true by (symmetry; apply Z.leb_le; lia). reflexivity.
    + apply Z.ltb_ge in E2. replace (x <=? b) with false by (symmetry; apply Z.leb_gt; lia).
      f_equal. apply IHR. exact (ssorted_tail _ _ SR).
  - induction R as [|[b vb] R' IHR].
    + rewrite !umerge_nil_r. reflexivity.
    + cbn [keys map fst] in SL, SR.
      pose proof (ssorted_tail _ _ SL) as SL'. pose proof (ssorted_tail _ _ SR) as SR'.
      pose proof (ssorted_head _ _ SL) as HaL. pose proof (ssorted_head _ _ SR) as HbR.
      rewrite umerge_cons. cbn [ins].
      destruct (a =? b) eqn:Eab.
      * apply Z.eqb_eq in Eab. subst b. cbn [ins].
        destruct (x =? a) eqn:Exa.
        -- rewrite umerge_cons, Z.eqb_refl. rewrite exact_comb_assoc. reflexivity.
        -- destruct (x <? a) eqn:Exl.
           ++ apply Z.ltb_lt in Exl. rewrite umerge_cons.
              replace (x =? a) with false by (symmetry; apply Z.eqb_neq; lia).
              replace (x <=? a) with true by (symmetry; apply Z.leb_le; lia).
              rewrite umerge_cons, Z.eqb_refl. reflexivity.
           ++ rewrite umerge_cons, Z.eqb_refl. f_equal. apply IHL; assumption.
      * apply Z.eqb_neq in Eab. destruct (a <=? b) eqn:Elab.
        -- apply Z.leb_le in Elab. cbn [ins].
           destruct (x =? a) eqn:Exa.
           ++ rewrite umerge_cons. replace (a =? b) with false by (symmetry; apply Z.eqb_neq; lia).
              replace (a <=? b) with true by (symmetry; apply Z.leb_le; lia). reflexivity.
           ++ apply Z.eqb_neq in Exa. destruct (x <? a) eqn:Exl.
              ** apply Z.ltb_lt in Exl. rewrite umerge_cons.
                 replace (x =? b) with false by (symmetry; apply Z.eqb_neq; lia).
                 replace (x <=? b) with true by (symmetry; apply Z.leb_le; lia).
                 rewrite umerge_cons.
                 replace (a =? b) with false by (symmetry; apply Z.eqb_neq; lia).
                 replace (a <=? b) with true by (symmetry; apply Z.leb_le; lia). reflexivity.
              ** rewrite umerge_cons.
                 replace (a =? b) with false by (symmetry; apply Z.eqb_neq; lia).
                 replace (a <=? b) with true by (symmetry; apply Z.leb_le; lia).
                 f_equal. apply IHL; assumption.
        -- apply Z.leb_gt in Elab. cbn [ins].
           destruct (x =? b) eqn:Exb.
           ++ apply Z.eqb_eq in Exb. subst x.
              replace (b =? a) with false by (symmetry; apply Z.eqb_neq; lia).
              replace (b <? a) with true by (symmetry; apply Z.ltb_lt; lia).
              rewrite umerge_cons, Z.eqb_refl. reflexivity.
           ++ apply Z.eqb_neq in Exb. destruct (x <? b) eqn:Exlb.
              ** apply Z.ltb_lt in Exlb.
                 replace (x =? a) with false by (symmetry; apply Z.eqb_neq; lia).
                 replace (x <? a) with true by (symmetry; apply Z.ltb_lt; lia).
                 rewrite umerge_cons.
                 replace (x =? b) with false by (symmetry; apply Z.eqb_neq; lia).
                 replace (x <=? b) with true by (symmetry; apply Z.leb_le; lia).
                 rewrite umerge_cons.
                 replace (a =? b) with false by (symmetry; apply Z.eqb_neq; lia).
                 replace (a <=? b) with false by (symmetry; apply Z.leb_gt; lia). reflexivity.
              ** apply Z.ltb_ge in Exlb.
                 (* x > b: insertion goes past (b, vb) on the union side; on the L side compare with a *)
                 rewrite IHR by assumption. cbn [ins].
                 destruct (x =? a) eqn:Exa.
                 --- rewrite umerge_cons.
                     replace (a =? b) with false by (symmetry; apply Z.eqb_neq; lia).
                     replace (a <=? b) with false by (symmetry; apply Z.leb_gt; lia). reflexivity.
                 --- destruct (x <? a) eqn:Exla.
                     +++ apply Z.ltb_lt in Exla. rewrite umerge_cons.
                         replace (x =? b) with false by (symmetry; apply Z.eqb_neq; lia).
                         replace (x <=? b) with false by (symmetry; apply Z.leb_gt; lia). reflexivity.
                     +++ rewrite umerge_cons.
                         replace (a =? b) with false by (symmetry; apply Z.eqb_neq; lia).
                         replace (a <=? b) with false by (symmetry; apply Z.leb_gt; lia). reflexivity.
Qed.

(* C04_combine_is_group_eval: merging the group-by results of two row sets = the group-by of the
   concatenated rows (COUNT / SUM / MIN / MAX, exact aggregates) *)
Theorem group_by_app k a b :
  group_by k (a ++ b) = umerge k (group_by k a) (group_by k b).
Proof.
  induction a as [|[x vx] a' IH]; cbn [app group_by].
  - rewrite umerge_nil_l. reflexivity.
  - rewrite IH. apply ins_umerge; apply group_by_sorted.
Qed.

(* binary merge trees over partitions *)
Inductive gtree := GLeaf (rows : list (Z * Z)) | GNode (l r : gtree).

Fixpoint gtree_rows (t : gtree) : list (Z * Z) :=
  match t with GLeaf rows => rows | GNode l r => gtree_rows l ++ gtree_rows r end.

Fixpoint gtree_out (k : agg_kind) (t : gtree) : assoc :=
  match t with
  | GLeaf rows => group_by k rows
  | GNode l r => umerge k (gtree_out k l) (gtree_out k r)
  end.

(* C04_each_group_once / C02_any_tree (aggregate kind) *)
Theorem group_by_any_tree k t : gtree_out k t = group_by k (gtree_rows t).
Proof.
  induction t as [rows|l IHl r IHr]; cbn [gtree_out gtree_rows]; [reflexivity|].
  rewrite IHl, IHr. symmetry. apply group_by_app.
Qed.

(* every key of the result occurs exactly once (strictly sorted keys), and is a key of some row *)
Lemma ins_keys_in k x vx m z : In z (keys (ins k x vx m)) <-> z = x \/ In z (keys m).
Proof.
  induction m as [|[y vy] m' IH]; cbn [ins keys map fst In].
  - intuition (subst; auto).
  - destruct (x =? y) eqn:E1.
    + apply Z.eqb_eq in E1. subst. cbn [map fst In]. intuition (subst; auto).
    + destruct (x <? y); cbn [map fst In]; [intuition (subst; auto)|].
      unfold keys in IH. rewrite IH. intuition (subst; auto).
Qed.

Theorem group_by_keys k rows z : In z (keys (group_by k rows)) <-> In z (map fst rows).
Proof.
  induction rows as [|[x vx] rest IH]; cbn [group_by map fst In]; [tauto|].
  rewrite ins_keys_in, IH. intuition (subst; auto).
Qed.

(* ---- the value of a group is the aggregate over exactly the rows of that group ------------------- *)

Fixpoint lookup (x : Z) (m : assoc) : option Z :=
  match m with
  | [] => None
  | (y, vy) :: m' => if x =? y then Some vy else lookup x m'
  end.

(* aggregate of a non-empty list of values, None for the empty list *)
Fixpoint agg_list (k : agg_kind) (vs : list Z) : option Z :=
  match vs with
  | [] => None
  | v :: r => match agg_list k r with None => Some v | Some a => Some (exact_comb k v a) end
  end.

Definition group_values (x : Z) (rows : list (Z * Z)) : list Z :=
  map snd (filter (fun r => fst r =? x) rows).

Lemma lookup_not_in x m : Forall (Z.lt x) (keys m) -> lookup x m = None.
Proof.
  induction m as [|[y vy] m' IH]; intros F; cbn [lookup keys map fst] in *; [reflexivity|].
  inversion F as [|? ? Hy F']; subst.
  replace (x =? y) with false by (symmetry; apply Z.eqb_neq; lia). apply IH. exact F'.
Qed.

Lemma lookup_ins k x vx m z :
  ssorted (keys m) ->
  lookup z (ins k x vx m) =
    if z =? x then Some (match lookup x m with Some v => exact_comb k vx v | None => vx end)
    else lookup z m.
Proof.
  unfold ssorted. induction m as [|[y vy] m' IH]; intros S; cbn [ins lookup keys map fst] in *.
  - destruct (z =? x); reflexivity.
  - inversion S as [|? ? S' Hy]; subst.
    destruct (x =? y) eqn:Exy.
    + apply Z.eqb_eq in Exy. subst y. cbn [lookup]. destruct (z =? x); reflexivity.
    + apply Z.eqb_neq in Exy. destruct (x <? y) eqn:Elt.
      * apply Z.ltb_lt in Elt. cbn [lookup].
        rewrite (lookup_not_in x m') by (eapply Forall_impl; [|exact Hy]; intros a Ha; cbn in *; lia).
        destruct (z =? x) eqn:Ezx; [reflexivity|]. reflexivity.
      * cbn [lookup]. rewrite (IH S').
        destruct (z =? y) eqn:Ezy.
        -- apply Z.eqb_eq in Ezy. subst z.
           replace (y =? x) with false by (symmetry; apply Z.eqb_neq; lia). reflexivity.
        -- reflexivity.
Qed.

(* C04: every group carries the aggregate of exactly its rows; keys without rows are absent *)
Theorem group_by_value k rows x :
  lookup x (group_by k rows) = agg_list k (group_values x rows).
Proof.
  induction rows as [|[y vy] rest IH]; [reflexivity|].
  cbn [group_by]. rewrite lookup_ins by apply group_by_sorted.
  unfold group_values in *. cbn [filter fst].
  destruct (x =? y) eqn:Exy.
  - apply Z.eqb_eq in Exy. subst y. rewrite Z.eqb_refl. cbn [map snd agg_list].
    rewrite <- IH. destruct (lookup x (group_by k rest)); reflexivity.
  - rewrite Z.eqb_sym, Exy. exact IH.
Qed.
