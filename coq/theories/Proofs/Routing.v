From Coq Require Import NArith Arith List Bool Lia Sorting.Sorted Permutation.
From LV Require Import Model.Routing.
Import ListNotations.
Open Scope N_scope.

(* ---------- lexicographic order on strings ---------- *)
Lemma lex_cmp_eq : forall a b, lex_cmp a b = Eq <-> a = b.
Proof.
  induction a as [|x a IH]; destruct b as [|y b]; cbn; split; intros H; try discriminate; auto.
  - destruct (N.compare_spec x y) as [->|?|?]; try discriminate. f_equal. apply IH. exact H.
  - injection H as -> ->. rewrite N.compare_refl. apply IH. reflexivity.
Qed.

Lemma lex_cmp_refl a : lex_cmp a a = Eq.
Proof. apply lex_cmp_eq. reflexivity. Qed.

Lemma lex_cmp_antisym : forall a b, lex_cmp b a = CompOpp (lex_cmp a b).
Proof.
  induction a as [|x a IH]; destruct b as [|y b]; cbn; auto.
  rewrite (N.compare_antisym x y). destruct (N.compare x y); cbn; auto.
Qed.

Lemma lex_lt_trans : forall a b c, lex_cmp a b = Lt -> lex_cmp b c = Lt -> lex_cmp a c = Lt.
Proof.
  induction a as [|x a IH]; destruct b as [|y b]; destruct c as [|z c]; cbn; try discriminate; auto.
  destruct (N.compare_spec x y) as [->|Hxy|Hxy]; try discriminate.
  - destruct (N.compare_spec y z) as [->|Hyz|Hyz]; try discriminate; auto.
    apply IH.
  - intros _. destruct (N.compare_spec y z) as [->|Hyz|Hyz]; try discriminate; intros _.
    + destruct (N.compare_spec x z); try lia; reflexivity.
    + destruct (N.compare_spec x z); try lia; reflexivity.
Qed.

Definition slt (a b : str) : Prop := lex_cmp a b = Lt.

Lemma str_ltb_lt a b : str_ltb a b = true <-> slt a b.
Proof. unfold str_ltb, slt. destruct (lex_cmp a b); split; congruence. Qed.

Lemma str_leb_true a b : str_leb a b = true <-> (slt a b \/ a = b).
Proof.
  unfold str_leb, slt. destruct (lex_cmp a b) eqn:E; split; intros H; auto; try discriminate.
  - right. apply lex_cmp_eq. exact E.
  - destruct H as [H|H]; [discriminate|]. apply lex_cmp_eq in H. congruence.
Qed.

Lemma str_leb_false a b : str_leb a b = false <-> slt b a.
Proof.
  unfold str_leb, slt. rewrite (lex_cmp_antisym a b).
  destruct (lex_cmp a b); cbn; split; congruence.
Qed.

Lemma slt_irrefl a : ~ slt a a.
Proof. unfold slt. rewrite lex_cmp_refl. discriminate. Qed.

Lemma slt_trans a b c : slt a b -> slt b c -> slt a c.
Proof. apply lex_lt_trans. Qed.

Lemma slt_asym a b : slt a b -> ~ slt b a.
Proof. intros H1 H2. apply (slt_irrefl a). eapply slt_trans; eauto. Qed.

Lemma slt_total a b : slt a b \/ a = b \/ slt b a.
Proof.
  unfold slt. rewrite (lex_cmp_antisym a b). destruct (lex_cmp a b) eqn:E; cbn; auto.
  right. left. apply lex_cmp_eq. exact E.
Qed.

(* ---------- partition_filename is injective ---------- *)
Definition is_digit (c : N) : Prop := 48 <= c <= 57.

Lemma dec_digits_digits : forall fuel n acc,
  Forall is_digit acc -> Forall is_digit (dec_digits fuel n acc).
Proof.
  induction fuel as [|f IH]; intros n acc Hacc; cbn [dec_digits]; [exact Hacc|].
  destruct (N.ltb_spec n 10).
  - constructor; [unfold is_digit; lia|exact Hacc].
  - apply IH. constructor; [|exact Hacc].
    unfold is_digit. pose proof (N.mod_lt n 10 ltac:(lia)) as Hm. remember (n mod 10) as x. split; lia.
Qed.

Lemma pad0_digits k : forall s, Forall is_digit s -> Forall is_digit (pad0 k s).
Proof.
  induction k as [|k IH]; intros s Hs; cbn [pad0]; [exact Hs|].
  constructor; [unfold is_digit; lia|apply IH; exact Hs].
Qed.

Lemma fmt05_digits id : Forall is_digit (fmt05 id).
Proof. unfold fmt05, decimal. apply pad0_digits, dec_digits_digits. constructor. Qed.

(* splitting at the first non-digit is deterministic *)
Lemma digits_prefix_unique : forall (d1 d2 r1 r2 : str),
  Forall is_digit d1 -> Forall is_digit d2 ->
  d1 ++ c_underscore :: r1 = d2 ++ c_underscore :: r2 -> d1 = d2 /\ r1 = r2.
Proof.
  induction d1 as [|x d1 IH]; intros d2 r1 r2 H1 H2 E.
  - destruct d2 as [|y d2]; cbn in E.
    + injection E as ->. auto.
    + injection E as Ey _. inversion H2 as [|? ? Hy _]; subst. unfold is_digit, c_underscore in Hy. lia.
  - destruct d2 as [|y d2]; cbn in E.
    + injection E as Ex _. inversion H1 as [|? ? Hx _]; subst. unfold is_digit, c_underscore in Hx. lia.
    + injection E as -> E. inversion H1; inversion H2; subst.
      destruct (IH d2 r1 r2) as [-> ->]; auto.
Qed.

Theorem partition_filename_inj id1 k1 id2 k2 :
  partition_filename id1 k1 = partition_filename id2 k2 -> fmt05 id1 = fmt05 id2 /\ k1 = k2.
Proof.
  unfold partition_filename. cbn [app]. intros E.
  apply digits_prefix_unique in E; auto using fmt05_digits.
  destruct E as [E1 E2]. split; [exact E1|].
  apply app_inv_tail in E2. exact E2.
Qed.

Lemma In_firstn_incl {A} n : forall (l : list A) x, In x (firstn n l) -> In x l.
Proof.
  induction n as [|n IH]; intros l x H; [destruct H|].
  destruct l as [|y l]; [destruct H|]. cbn [firstn] in H. destruct H as [->|H]; [left; reflexivity|right; auto].
Qed.

Lemma app_eq_tail {A} (h1 h2 t1 t2 : list A) :
  length t1 = length t2 -> h1 ++ t1 = h2 ++ t2 -> t1 = t2.
Proof.
  intros Hl E.
  assert (Hh : length h1 = length h2).
  { apply (f_equal (@length A)) in E. rewrite !app_length in E. lia. }
  apply (f_equal (skipn (length h1))) in E.
  rewrite skipn_app, Nat.sub_diag, skipn_all in E. rewrite Hh in E.
  rewrite skipn_app, Nat.sub_diag, skipn_all in E. exact E.
Qed.

(* ---------- sanitize_table_name ---------- *)
Section WithTables.
  Variable u_alnum : N -> bool.
  Variable u_lower : N -> bool.
  Variable to_lowercase : str -> str.
  Variable utf8_len : str -> N.
  Variable sha256 : str -> list N.
  Hypothesis sha_len : forall s, length (sha256 s) = 32%nat.
  Hypothesis sha_bytes : forall s, Forall (fun b => b < 256) (sha256 s).

  Notation sanitize := (sanitize_table_name to_lowercase sha256).
  Notation safe := (is_filesystem_safe u_alnum u_lower utf8_len).

  Definition allowed (c : N) : bool :=
    is_ascii_alnum c || (c =? c_underscore) || (c =? c_dash) || (c =? c_dot).

  Lemma trim_start_no_lead s : match trim_start s with
                               | c :: _ => c <> c_dash /\ c <> c_dot
                               | [] => True
                               end.
  Proof.
    induction s as [|c r IH]; cbn [trim_start]; [exact I|].
    destruct ((c =? c_dash) || (c =? c_dot)) eqn:E; [exact IH|].
    apply orb_false_iff in E as [E1 E2]. apply N.eqb_neq in E1, E2. auto.
  Qed.

  Lemma trim_start_incl s : incl (trim_start s) s.
  Proof.
    induction s as [|c r IH]; cbn [trim_start]; [apply incl_refl|].
    destruct ((c =? c_dash) || (c =? c_dot)); [apply incl_tl; exact IH|apply incl_refl].
  Qed.

  (* the cleaned core of a table name *)
  Definition core (table : str) : str :=
    let name := trim_start (filter allowed (to_lowercase table)) in
    if Nat.ltb 189 (length name) then firstn 189 name else name.

  Lemma sanitize_unfold table :
    sanitize table = if str_eqb (core table) table then core table
                     else [c_dash] ++ core table ++ [c_dash] ++ hex (sha256 table).
  Proof. reflexivity. Qed.

  Lemma core_no_lead table : match core table with
                             | c :: _ => c <> c_dash /\ c <> c_dot
                             | [] => True
                             end.
  Proof.
    unfold core. set (t := trim_start _). pose proof (trim_start_no_lead (filter allowed (to_lowercase table))) as H.
    fold t in H. destruct (Nat.ltb 189 (length t)); [|exact H].
    destruct t as [|c r]; [exact I|]. exact H.
  Qed.

  Lemma core_allowed table : Forall (fun c => allowed c = true) (core table).
  Proof.
    unfold core. set (f := filter allowed (to_lowercase table)).
    assert (Hf : Forall (fun c => allowed c = true) f).
    { apply Forall_forall. intros c Hc. apply filter_In in Hc. apply Hc. }
    assert (Ht : Forall (fun c => allowed c = true) (trim_start f)).
    { apply Forall_forall. intros c Hc. apply trim_start_incl in Hc.
      rewrite Forall_forall in Hf. auto. }
    destruct (Nat.ltb 189 (length (trim_start f))); [|exact Ht].
    apply Forall_forall. intros c Hc. rewrite Forall_forall in Ht. apply Ht.
    eapply In_firstn_incl. exact Hc.
  Qed.

  Lemma core_length table : (length (core table) <= 189)%nat.
  Proof.
    unfold core. set (t := trim_start _).
    destruct (Nat.ltb_spec 189 (length t)); [rewrite firstn_length; lia|lia].
  Qed.

  Lemma hex_length l : length (hex l) = (2 * length l)%nat.
  Proof. induction l as [|b r IH]; cbn [hex length]; lia. Qed.

  Lemma hex_digit_inj a b : a < 16 -> b < 16 -> hex_digit a = hex_digit b -> a = b.
  Proof.
    unfold hex_digit. intros Ha Hb.
    destruct (N.ltb_spec a 10); destruct (N.ltb_spec b 10); lia.
  Qed.

  Lemma hex_inj : forall l1 l2,
    Forall (fun b => b < 256) l1 -> Forall (fun b => b < 256) l2 -> hex l1 = hex l2 -> l1 = l2.
  Proof.
    induction l1 as [|a l1 IH]; destruct l2 as [|b l2]; cbn [hex]; intros H1 H2 E; try discriminate; auto.
    inversion H1; inversion H2; subst.
    injection E as E1 E2 E3.
    apply hex_digit_inj in E1; [|apply N.div_lt_upper_bound; lia|apply N.div_lt_upper_bound; lia].
    apply hex_digit_inj in E2; [|apply N.mod_lt; lia|apply N.mod_lt; lia].
    f_equal; [|apply IH; auto].
    rewrite (N.div_mod a 16), (N.div_mod b 16) by lia. lia.
  Qed.

  Lemma str_eqb_eq a b : str_eqb a b = true <-> a = b.
  Proof. unfold str_eqb. rewrite <- lex_cmp_eq. destruct (lex_cmp a b); split; congruence. Qed.

  (* C15_sanitize_injective: equal directory names come from equal table names, or from two
     different names with the same sha256 *)
  Theorem sanitize_injective a b :
    sanitize a = sanitize b -> a = b \/ sha256 a = sha256 b.
  Proof.
    rewrite !sanitize_unfold.
    destruct (str_eqb (core a) a) eqn:Ea; destruct (str_eqb (core b) b) eqn:Eb.
    - apply str_eqb_eq in Ea, Eb. intros E. left. congruence.
    - apply str_eqb_eq in Ea. intros E. exfalso.
      pose proof (core_no_lead a) as Hl. rewrite E in Hl. cbn in Hl. destruct Hl as [Hl _]. congruence.
    - apply str_eqb_eq in Eb. intros E. exfalso.
      pose proof (core_no_lead b) as Hl. rewrite <- E in Hl. cbn in Hl. destruct Hl as [Hl _]. congruence.
    - intros E. right.
      assert (Hh : hex (sha256 a) = hex (sha256 b)).
      { apply (app_eq_tail ([c_dash] ++ core a ++ [c_dash]) ([c_dash] ++ core b ++ [c_dash])).
        - rewrite !hex_length, !sha_len. reflexivity.
        - rewrite <- !app_assoc. exact E. }
      apply hex_inj in Hh; auto.
  Qed.

  Definition component_safe (s : str) : Prop :=
    ~ In c_slash s /\ ~ In 0 s /\ s <> [c_dot] /\ s <> [c_dot; c_dot] /\
    (match s with c :: _ => c <> c_dot | [] => True end) /\ (length s <= 255)%nat.

  Lemma allowed_not_slash c : allowed c = true -> c <> c_slash /\ c <> 0.
  Proof.
    unfold allowed, is_ascii_alnum, c_slash, c_underscore, c_dash, c_dot. intros H.
    split; intros ->; vm_compute in H; discriminate.
  Qed.

  Lemma hex_digit_range n : n < 16 -> allowed (hex_digit n) = true.
  Proof.
    intros Hn. unfold hex_digit, allowed, is_ascii_alnum.
    destruct (N.ltb_spec n 10).
    - replace ((48 <=? 48 + n) && (48 + n <=? 57)) with true; [reflexivity|].
      symmetry. apply andb_true_iff. split; apply N.leb_le; lia.
    - replace ((97 <=? 87 + n) && (87 + n <=? 122)) with true; [rewrite !orb_true_r; reflexivity|].
      symmetry. apply andb_true_iff. split; apply N.leb_le; lia.
  Qed.

  Lemma hex_allowed l : Forall (fun b => b < 256) l -> Forall (fun c => allowed c = true) (hex l).
  Proof.
    induction l as [|b r IH]; intros Hl; cbn [hex]; [constructor|].
    inversion Hl; subst. constructor; [|constructor; [|apply IH; auto]].
    - apply hex_digit_range. apply N.div_lt_upper_bound; lia.
    - apply hex_digit_range. apply N.mod_lt. lia.
  Qed.

  (* C15_sanitize_safe: a sanitized table name is a single harmless path component *)
  Theorem sanitize_safe table : component_safe (sanitize table).
  Proof.
    rewrite sanitize_unfold.
    pose proof (core_allowed table) as Hall. pose proof (core_no_lead table) as Hlead.
    pose proof (core_length table) as Hlen.
    destruct (str_eqb (core table) table).
    - unfold component_safe. rewrite Forall_forall in Hall. repeat split.
      + intros Hin. apply Hall in Hin. apply allowed_not_slash in Hin. tauto.
      + intros Hin. apply Hall in Hin. apply allowed_not_slash in Hin. tauto.
      + intros E. rewrite E in Hlead. tauto.
      + intros E. rewrite E in Hlead. tauto.
      + destruct (core table); [exact I|tauto].
      + lia.
    - assert (Hall' : Forall (fun c => allowed c = true)
                             ([c_dash] ++ core table ++ [c_dash] ++ hex (sha256 table))).
      { apply Forall_app. split; [constructor; [reflexivity|constructor]|].
        apply Forall_app. split; [exact Hall|].
        apply Forall_app. split; [constructor; [reflexivity|constructor]|].
        apply hex_allowed, sha_bytes. }
      unfold component_safe. rewrite Forall_forall in Hall'. repeat split.
      + intros Hin. apply Hall' in Hin. apply allowed_not_slash in Hin. tauto.
      + intros Hin. apply Hall' in Hin. apply allowed_not_slash in Hin. tauto.
      + cbn. discriminate.
      + cbn. intros E. injection E as E. unfold c_dash, c_dot in E. discriminate.
      + cbn. unfold c_dash, c_dot. discriminate.
      + rewrite !app_length, hex_length, sha_len. cbn [length]. lia.
  Qed.
End WithTables.
