(* Generic compression of data section 0 (Column::lz4_or_pco_encode / lz4_or_pco_decode and the
   LZ4 / Pco decode operators).  lz4_flex and pco are external code: they appear here as section
   variables with the minimal assumed behaviour (decode after encode is the identity on the sections
   the compressor is applied to).  Under that assumption every choice of compression — none, lz4,
   pco, pco-fp32 — is transparent: the decoded cells are those of the uncompressed column, so the
   theorems of Props/C01.v, which are stated for uncompressed columns, carry over. *)
From Coq Require Import ZArith List Bool.
From LV Require Import Model.CodecBase Model.Codec.
Import ListNotations.
Open Scope Z_scope.

Section Compression.
Variable comp : Type.                              (* lz4 | pco | pco with the fp32 representation *)
Variable enc : comp -> section -> list Z.          (* compressed bytes *)
Variable dec : comp -> list Z -> section.
Variable applicable : comp -> section -> Prop.     (* e.g. fp32 only if every value is f32-exact *)
Hypothesis dec_enc : forall k s, applicable k s -> dec k (enc k s) = s.

(* a column whose section 0 may be stored compressed *)
Record ccolumn := mk_ccolumn { cc_col : column; cc_comp : option comp }.

Definition compress (choice : option comp) (c : column) : ccolumn :=
  match choice, c_data c with
  | Some k, s0 :: rest =>
      mk_ccolumn (mk_column (c_len c) (c_range c) (c_ops c) (SInts EU8 (enc k s0) :: rest)) (Some k)
  | _, _ => mk_ccolumn c None
  end.

Definition decompress (cc : ccolumn) : column :=
  match cc_comp cc, c_data (cc_col cc) with
  | Some k, SInts EU8 bytes :: rest =>
      let c := cc_col cc in mk_column (c_len c) (c_range c) (c_ops c) (dec k bytes :: rest)
  | _, _ => cc_col cc
  end.

Theorem compression_transparent choice c :
  (forall k s0 rest, choice = Some k -> c_data c = s0 :: rest -> applicable k s0) ->
  decompress (compress choice c) = c.
Proof.
  intros Happ. unfold compress, decompress. destruct c as [len range ops data]. cbn [c_data] in *.
  destruct choice as [k|]; [|reflexivity].
  destruct data as [|s0 rest]; [reflexivity|]. cbn.
  rewrite dec_enc by (eapply Happ; reflexivity). reflexivity.
Qed.

Corollary compressed_cells choice c :
  (forall k s0 rest, choice = Some k -> c_data c = s0 :: rest -> applicable k s0) ->
  column_cells (decompress (compress choice c)) = column_cells c.
Proof. intros H. now rewrite compression_transparent. Qed.

End Compression.
