(* Database-level proofs, part 3: the acknowledged log is what the clients sent (plus catalogue
   rows in catalogue tables only); the durable decomposition; sites that cannot panic from a
   reachable state. *)
From Coq Require Import NArith ZArith List Bool Lia.
From LV Require Import Model.TableSM Model.Catalogue Model.WalSM
     Proofs.TableSM Proofs.WalSMBase Proofs.WalSM.
Import ListNotations.
Open Scope N_scope.

(* a table name clients may use: not a catalogue table *)
Definition user_table (n : name) : bool := negb (is_meta_columns n) && negb (is_meta_tables n).

Definition meta_named (b : batch) : Prop :=
  Forall (fun tb => user_table (tb_name tb) = false) b.

Lemma is_prefix_app : forall p n, is_prefix p (p ++ n) = true.
Proof. induction p as [|x p IH]; cbn; intro n; auto. rewrite N.eqb_refl. cbn. apply IH. Qed.

Lemma meta_columns_of_meta : forall t, user_table (meta_columns_of t) = false.
Proof.
  intro t. unfold user_table, is_meta_columns, meta_columns_of. rewrite is_prefix_app. reflexivity.
Qed.

Lemma meta_tables_meta : user_table s_meta_tables = false.
Proof. reflexivity. Qed.

Lemma meta_named_rows : forall b n, meta_named b -> user_table n = true -> batch_rows n b = [].
Proof.
  induction b as [|tb b IH]; intros n H Hn; [reflexivity|].
  inversion H as [|? ? H1 H2]; subst. rewrite batch_rows_cons.
  destruct (name_eqb (tb_name tb) n) eqn:E.
  - apply name_eqb_eq in E. subst. congruence.
  - cbn. apply IH; auto.
Qed.

Lemma meta_named_app : forall a b, meta_named a -> meta_named b -> meta_named (a ++ b).
Proof. intros. apply Forall_app. split; auto. Qed.

Lemma meta_tables_batch_meta : forall created, meta_named (meta_tables_batch created).
Proof.
  intro created. unfold meta_tables_batch. destruct created; constructor; [|constructor].
  exact meta_tables_meta.
Qed.

Lemma meta_columns_batch_meta : forall t fresh, meta_named (meta_columns_batch t fresh).
Proof.
  intros t fresh. unfold meta_columns_batch. destruct fresh; constructor; [|constructor].
  apply meta_columns_of_meta.
Qed.

Lemma prepare_colrows_meta : forall seed b l created colrows l' created' colrows',
  prepare seed b l created colrows = Val (l', created', colrows') ->
  meta_named colrows -> meta_named colrows'.
Proof.
  induction b as [|tb rest IH]; cbn [prepare]; intros l created colrows l' created' colrows'.
  - intros H Hm. injection H as E1 E2 E3. subst. exact Hm.
  - destruct (create_if_empty seed (tb_name tb) l) as [l1 c1].
    destruct (create_if_empty seed (meta_columns_of (tb_name tb)) l1) as [l2 c2].
    destruct (ensure_cols (tb_name tb) l2) as [l3| | | |]; cbn [bind]; try discriminate.
    destruct (lookup (tb_name tb) l3) as [t|]; [|discriminate].
    destruct (t_cols t); [|discriminate].
    intros H Hm. eapply IH; [exact H|]. apply meta_named_app; auto. apply meta_columns_batch_meta.
Qed.

(* the rows clients sent to table n, in order *)
Definition ingested (ops : list op) (n : name) : list row :=
  flat_map (fun o => match o with OIngest b _ => batch_rows n b | _ => [] end) ops.

Lemma ingest_extra_meta : forall c b bytes s s' extra,
  ingest c b bytes s = Val s' -> acked s' = acked s ++ [b ++ extra] -> meta_named extra.
Proof.
  intros c b bytes s s' extra. unfold ingest.
  destruct (c_max_wal_bytes c <? wal_size s); [discriminate|].
  destruct (prepare code_seed b (tabs s) [] []) as [[[l1 created] colrows]| | | |] eqn:Ep;
    cbn [bind]; try discriminate.
  destruct (apply_batch _ l1) as [l2| | | |]; cbn [bind]; try discriminate.
  intro H. injection H as <-. cbn [acked]. intro E. apply app_inv_head in E.
  injection E as E. apply app_inv_head in E. subst extra.
  apply meta_named_app; [apply meta_tables_batch_meta|].
  eapply prepare_colrows_meta; [exact Ep|constructor].
Qed.

Lemma step_acked : forall c s o s' n,
  Inv s -> step true c s o = Val s' -> user_table n = true ->
  acked_rows (acked s') n = acked_rows (acked s) n ++ ingested [o] n.
Proof.
  intros c s o s' n I H Hn. unfold ingested. cbn [flat_map]. rewrite app_nil_r.
  destruct o as [b bytes|bg orc| |]; cbn [step] in H.
  - destruct (ingest_spec _ _ _ _ _ I H) as [_ [extra [Ea _]]].
    pose proof (ingest_extra_meta _ _ _ _ _ _ H Ea) as Hm.
    rewrite Ea. unfold acked_rows. rewrite flat_map_app. cbn [flat_map]. rewrite app_nil_r.
    rewrite batch_rows_app, (meta_named_rows _ _ Hm Hn), app_nil_r. reflexivity.
  - destruct (bg && negb (bg_enabled c s)); [discriminate|].
    destruct (flush_spec _ _ _ _ I H) as [_ [_ [Ea _]]]. rewrite Ea, app_nil_r. reflexivity.
  - injection H as <-. rewrite app_nil_r. reflexivity.
  - destruct (recover_spec _ _ _ I H) as [_ [_ [Ea _]]]. rewrite Ea, app_nil_r. reflexivity.
Qed.

Lemma run_acked : forall c ops s s' n,
  Inv s -> run true c ops s = Val s' -> user_table n = true ->
  acked_rows (acked s') n = acked_rows (acked s) n ++ ingested ops n.
Proof.
  induction ops as [|o ops IH]; cbn [run]; intros s s' n I H Hn.
  - injection H as <-. unfold ingested. cbn. rewrite app_nil_r. reflexivity.
  - destruct (step true c s o) as [s1| | | |] eqn:E; cbn [bind] in H; try discriminate.
    rewrite (IH _ _ _ (step_inv _ _ _ _ I E) H Hn), (step_acked _ _ _ _ _ I E Hn).
    unfold ingested. cbn [flat_map]. rewrite !app_nil_r, app_assoc. reflexivity.
Qed.

(* ---------------------------------------------------------------------------------------------- *)
(* what is durable: the rows of the partitions the catalogue file lists, read from their files, and
   the rows of the log segments at or above the cursor *)

Definition durable_part_rows (t : tstate) : list row :=
  flat_map (fun m => match find_file (pm_id m) (t_files t) with Some r => r | None => [] end) (t_meta t).

Lemma durable_part_rows_inv : forall t, tinv t -> durable_part_rows t = part_rows (t_parts t).
Proof.
  intros t [[_ _ Hn] Hf _ Hm _]. unfold durable_part_rows. rewrite Hm, Hf.
  assert (H : forall ps, (forall p, In p ps -> find_file (p_id p) (map file_of (t_parts t)) = Some (p_rows p)) ->
            flat_map (fun m => match find_file (pm_id m) (map file_of (t_parts t)) with
                               | Some r => r | None => [] end) (map pmeta_of ps) = part_rows ps).
  { induction ps as [|p ps IH]; intro H; [reflexivity|]. cbn [map flat_map pmeta_of pm_id].
    rewrite (H p (or_introl eq_refl)). unfold part_rows. cbn [flat_map]. f_equal.
    apply IH. intros; apply H; right; auto. }
  apply H. intros p HI. apply find_file_map; auto.
Qed.

Definition durable_wal_rows (s : db) (n : name) : list row :=
  let cursor := match d_cursor s with Some k => k | None => 0 end in
  wal_rows n (sort_segs (filter (fun x => cursor <=? fst x) (d_wal s))).

Lemma durable_wal_rows_inv : forall s n, Inv s -> durable_wal_rows s n = wal_rows n (d_wal s).
Proof.
  intros s n I. unfold durable_wal_rows.
  assert (Ecur : match d_cursor s with Some k => k | None => 0 end = earliest s).
  { pose proof (i_cursor _ I) as H. destruct (d_cursor s); congruence. }
  rewrite Ecur, filter_all.
  - rewrite (sort_segs_sorted _ _ _ (i_ids _ I)). reflexivity.
  - intros x HI. apply N.leb_le. eapply seqN_ge. rewrite <- (i_ids _ I). apply in_map. exact HI.
Qed.

Lemma durable_decomposition : forall s n, Inv s ->
  durable_part_rows (view (tabs s) n) ++ durable_wal_rows s n = acked_rows (acked s) n.
Proof.
  intros s n I. rewrite (durable_part_rows_inv _ (i_tabs _ I n)), (durable_wal_rows_inv _ _ I).
  rewrite <- (i_acked _ I), content_view. unfold table_content.
  rewrite (ti_frozen _ (i_tabs _ I n)), (i_bufs _ I). reflexivity.
Qed.

(* ---------------------------------------------------------------------------------------------- *)
(* what cannot go wrong from a reachable state *)

Lemma restore_tables_total : forall seed (l : tabsT),
  NoDup (keys l) -> (forall n, tinv (view l n)) -> exists l', restore_tables seed l = Val l'.
Proof.
  induction l as [|[k t] l IH]; cbn [restore_tables]; intros ND T; [eauto|].
  inversion ND as [|? ? Hk ND']; subst.
  assert (T' : forall n, tinv (view l n)).
  { intro n. specialize (T n). unfold view in *. cbn in T.
    destruct (name_eqb n k) eqn:E; auto.
    apply name_eqb_eq in E. subst. apply lookup_none in Hk. rewrite Hk. apply tinv_empty. }
  destruct (IH ND' T') as [r ->]. cbn [bind].
  assert (Tk : tinv t). { specialize (T k). unfold view in T. cbn in T. rewrite name_eqb_refl in T. exact T. }
  destruct (t_meta t); [eauto|].
  destruct (restore_spec (seed_cols seed k None) t Tk) as [t' [R _]]. rewrite R. cbn. eauto.
Qed.

Definition val_or_panic {A} (r : res A) : Prop := (exists a, r = Val a) \/ (exists st, r = Panic st).

Lemma ensure_cols_shape : forall n (l : tabsT), val_or_panic (ensure_cols n l).
Proof.
  intros n l. unfold ensure_cols, val_or_panic. destruct (lookup n l); [|right; eauto].
  destruct (t_cols t); [left; eauto|].
  destruct (lookup (meta_columns_of n) l); [|right; eauto].
  destruct (string_column s_column_name (table_content t0)); [left|right]; eauto.
Qed.

Lemma replay_batch_shape : forall seed b (l : tabsT), val_or_panic (replay_batch seed b l).
Proof.
  induction b as [|tb rest IH]; cbn [replay_batch]; intro l; [left; eauto|].
  destruct (create_if_empty seed (tb_name tb) l) as [l1 c1].
  destruct (ensure_cols_shape (tb_name tb) l1) as [[l2 ->]|[st ->]]; cbn [bind]; [|right; eauto].
  destruct (lookup (tb_name tb) l2); [|right; eauto].
  destruct (ingest_rows t (tb_cols tb) (tb_rows tb)); [apply IH|right; eauto].
Qed.

Lemma replay_shape : forall seed w ex (l : tabsT), val_or_panic (replay seed w ex l).
Proof.
  induction w as [|[id sg] w IH]; cbn [replay]; intros ex l; [left; eauto|].
  destruct (match ex with Some e => id =? e | None => true end); [|right; eauto].
  destruct (replay_batch_shape seed (sg_data sg) l) as [[l1 ->]|[st ->]]; cbn [bind]; [apply IH|right; eauto].
Qed.

Lemma prepare_shape : forall seed b (l : tabsT) created colrows,
  val_or_panic (prepare seed b l created colrows).
Proof.
  induction b as [|tb rest IH]; cbn [prepare]; intros l created colrows; [left; eauto|].
  destruct (create_if_empty seed (tb_name tb) l) as [l1 c1].
  destruct (create_if_empty seed (meta_columns_of (tb_name tb)) l1) as [l2 c2].
  destruct (ensure_cols_shape (tb_name tb) l2) as [[l3 ->]|[st ->]]; cbn [bind]; [|right; eauto].
  destruct (lookup (tb_name tb) l3); [|right; eauto].
  destruct (t_cols t); [apply IH|right; eauto].
Qed.

Lemma apply_batch_shape : forall b (l : tabsT), val_or_panic (apply_batch b l).
Proof.
  induction b as [|tb rest IH]; cbn [apply_batch]; intro l; [left; eauto|].
  destruct (lookup (tb_name tb) l); [|right; eauto].
  destruct (ingest_rows t (tb_cols tb) (tb_rows tb)); [apply IH|right; eauto].
Qed.

(* ingestion: a state, Blocked (exactly when the accounted log size exceeds the limit), or a panic *)
Lemma ingest_blocked : forall c b bytes s,
  ingest c b bytes s = Blocked <-> c_max_wal_bytes c <? wal_size s = true.
Proof.
  intros c b bytes s. unfold ingest. destruct (c_max_wal_bytes c <? wal_size s); [tauto|].
  split; [|discriminate].
  destruct (prepare_shape code_seed b (tabs s) [] []) as [[[[l1 created] colrows] ->]|[st ->]];
    cbn [bind]; [|discriminate].
  destruct (apply_batch_shape (b ++ meta_tables_batch created ++ colrows) l1) as [[l2 ->]|[st ->]];
    cbn [bind]; discriminate.
Qed.

Lemma replay_panic : forall seed w ex (l : tabsT) st,
  replay seed w ex l = Panic st ->
  st = SNonContiguous \/ st = SNoTable \/ st = SCatalogue \/ st = SColsNotInit.
Proof.
  induction w as [|[id sg] w IH]; cbn [replay]; intros ex l st; [discriminate|].
  destruct (match ex with Some e => id =? e | None => true end); [|intro H; injection H as <-; auto].
  destruct (replay_batch seed (sg_data sg) l) as [l1| |s0| |] eqn:Eb; cbn [bind]; try discriminate.
  - apply IH.
  - intro H. injection H as <-. apply replay_batch_panic in Eb. tauto.
Qed.

(* a restart of a reachable state ends in a state, or in the catalogue-loading panic sites that
   the catalogue invariant (Proofs/Catalogue*.v) excludes *)
Lemma recover_outcome : forall c s, Inv s ->
  (exists s', recover c s = Val s') \/
  (exists st, recover c s = Panic st /\ (st = SNoTable \/ st = SCatalogue \/ st = SColsNotInit)).
Proof.
  intros c s I. unfold recover.
  set (cursor := match d_cursor s with Some k => k | None => 0 end).
  assert (Ecur : cursor = earliest s).
  { unfold cursor. pose proof (i_cursor _ I) as H. destruct (d_cursor s); congruence. }
  assert (Ekeep : sort_segs (filter (fun x => cursor <=? fst x) (d_wal s)) = d_wal s).
  { rewrite filter_all.
    - eapply sort_segs_sorted. apply (i_ids _ I).
    - intros x HI. apply N.leb_le. rewrite Ecur. eapply seqN_ge. rewrite <- (i_ids _ I).
      apply in_map. exact HI. }
  rewrite Ekeep.
  destruct (restore_tables_total code_seed (tabs s) (i_keys _ I) (i_tabs _ I)) as [l0 ->]. cbn [bind].
  destruct (create_if_empty code_seed s_meta_tables l0) as [l1 b1].
  destruct (replay_shape code_seed (d_wal s) None l1) as [[l2 E]|[st E]]; rewrite E; cbn [bind].
  - left. eauto.
  - right. exists st. split; auto.
    destruct (replay_panic _ _ _ _ _ E) as [->|H]; auto.
    exfalso. eapply replay_contiguous; [apply (i_ids _ I)|left; reflexivity|exact E].
Qed.
