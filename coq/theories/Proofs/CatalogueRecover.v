(* Catalogue, part 5: a restart preserves the catalogue invariant.  After the tables were restored
   from the partitions (column-name sets not loaded) the log segments are replayed one by one; the
   invariant [rec_rel lg l] - the table map l is an image of the log prefix lg - is re-established
   after every segment. *)
From Coq Require Import NArith ZArith List Bool Lia.
From LV Require Import Model.TableSM Model.Catalogue Model.WalSM
     Proofs.TableSM Proofs.WalSMBase Proofs.WalSM Proofs.WalSMLog Proofs.Catalogue
     Proofs.CatalogueLog Proofs.CatalogueInv.
Import ListNotations.
Open Scope N_scope.

Record rec_rel (lg : list batch) (l : tabsT) : Prop := {
  rr_content : forall n, table_content (view l n) = acked_rows lg n;
  rr_cols : forall t tt cs, user_table t = true -> lookup t l = Some tt -> t_cols tt = Some cs ->
            same_names cs (log_names lg t);
  rr_meta : forall n tt, user_table n = false -> lookup n l = Some tt -> t_cols tt <> None
}.

Lemma replay_batch_app : forall seed a b (l : tabsT),
  replay_batch seed (a ++ b) l = bind (replay_batch seed a l) (replay_batch seed b).
Proof.
  induction a as [|tb a IH]; intros b l; [reflexivity|]. cbn [app replay_batch].
  destruct (create_if_empty seed (tb_name tb) l) as [l1 c1].
  destruct (ensure_cols (tb_name tb) l1) as [l2| | | |]; cbn [bind]; auto.
  destruct (lookup (tb_name tb) l2); auto.
  destruct (ingest_rows t (tb_cols tb) (tb_rows tb)); auto.
Qed.

(* one entry of a replayed buffer *)
Lemma replay_entry : forall seed tb (l l' : tabsT),
  replay_batch seed [tb] l = Val l' ->
  exists l1 c1 l2 t cs,
    create_if_empty seed (tb_name tb) l = (l1, c1) /\ ensure_cols (tb_name tb) l1 = Val l2 /\
    lookup (tb_name tb) l2 = Some t /\ t_cols t = Some cs /\
    l' = upd (tb_name tb) (set_cols (set_buf t (t_buf t ++ tb_rows tb)) (Some (add_names cs (tb_cols tb)))) l2.
Proof.
  intros seed tb l l'. cbn [replay_batch].
  destruct (create_if_empty seed (tb_name tb) l) as [l1 c1] eqn:Ecr.
  destruct (ensure_cols (tb_name tb) l1) as [l2| | | |] eqn:Ee; cbn [bind]; try discriminate.
  destruct (lookup (tb_name tb) l2) as [t|] eqn:L; [|discriminate].
  unfold ingest_rows. destruct (t_cols t) as [cs|] eqn:Ec; [|discriminate].
  intro H. injection H as <-. exists l1, c1, l2, t, cs. repeat split; auto.
Qed.

Lemma replay_batch_cons : forall seed tb rest (l : tabsT),
  replay_batch seed (tb :: rest) l = bind (replay_batch seed [tb] l) (replay_batch seed rest).
Proof. intros. apply (replay_batch_app seed [tb] rest l). Qed.

(* a meta-named buffer does not touch client tables *)
Lemma replay_meta_frame : forall seed extra (l l' : tabsT) t,
  meta_named extra -> user_table t = true -> replay_batch seed extra l = Val l' -> lookup t l' = lookup t l.
Proof.
  induction extra as [|tb extra IH]; intros l l' t M Hu.
  - cbn. intro H. injection H as <-. reflexivity.
  - rewrite replay_batch_cons. destruct (replay_batch seed [tb] l) as [l1| | | |] eqn:E1; cbn [bind]; try discriminate.
    intro H. inversion M as [|? ? Hm M']; subst.
    rewrite (IH _ _ _ M' Hu H).
    destruct (replay_entry _ _ _ _ E1) as [la [ca [lb [tx [cs [Ec [Ee [Lx [_ ->]]]]]]]]].
    assert (Hne : t <> tb_name tb) by (intro; subst; congruence).
    rewrite lookup_upd_other; auto. rewrite (ensure_cols_other _ _ _ t Ee Hne).
    destruct (create_if_empty_spec _ _ _ _ _ Ec) as [_ [H2 [H3 _]]].
    destruct (lookup t l) as [tt|] eqn:L; [apply H2; exact L|apply H3; auto].
Qed.

(* non-client tables keep a loaded column-name set *)
Lemma replay_meta_cols : forall seed b (l l' : tabsT),
  (forall n tt, user_table n = false -> lookup n l = Some tt -> t_cols tt <> None) ->
  replay_batch seed b l = Val l' ->
  forall n tt, user_table n = false -> lookup n l' = Some tt -> t_cols tt <> None.
Proof.
  induction b as [|tb b IH]; intros l l' Hm.
  - cbn. intro H. injection H as <-. exact Hm.
  - rewrite replay_batch_cons. destruct (replay_batch seed [tb] l) as [l1| | | |] eqn:E1; cbn [bind]; try discriminate.
    intro H. eapply IH; [|exact H].
    destruct (replay_entry _ _ _ _ E1) as [la [ca [lb [tx [cs [Ec [Ee [Lx [_ ->]]]]]]]]].
    intros n tt Hu L. destruct (list_eq_dec N.eq_dec n (tb_name tb)) as [->|Hne].
    + rewrite (lookup_upd_same _ _ _ _ Lx) in L. injection L as <-. cbn. discriminate.
    + rewrite lookup_upd_other in L; auto. rewrite (ensure_cols_other _ _ _ n Ee Hne) in L.
      destruct (create_if_empty_spec _ _ _ _ _ Ec) as [_ [H2 [H3 _]]].
      destruct (lookup n l) as [t0|] eqn:L0.
      * rewrite (H2 _ _ L0) in L. injection L as <-. eapply Hm; eauto.
      * rewrite (H3 _ L0 Hne) in L. discriminate.
Qed.

Section Segment.
  Variable lg : list batch.
  Hypothesis LOK : log_ok lg.
  Let LN := log_names lg.

  (* column-name sets of client tables while the client entries [done] have been replayed *)
  Definition cols_after (done : batch) (l : tabsT) : Prop :=
    forall t tt cs, user_table t = true -> lookup t l = Some tt -> t_cols tt = Some cs ->
      same_names cs (LN t ++ match find_tb t done with Some tb => tb_cols tb | None => [] end).

  (* catalogue tables still hold the rows of lg *)
  Definition cat_frozen (l : tabsT) : Prop :=
    forall t, user_table t = true ->
      table_content (view l (meta_columns_of t)) = acked_rows lg (meta_columns_of t).

  Lemma find_tb_snoc_other : forall t d tb, tb_name tb <> t -> find_tb t (d ++ [tb]) = find_tb t d.
  Proof.
    intros t d tb H. unfold find_tb. rewrite find_app'. destruct (find _ d); auto. cbn.
    apply name_eqb_neq in H. rewrite H. reflexivity.
  Qed.

  Lemma find_tb_snoc_same : forall d tb, ~ In (tb_name tb) (map tb_name d) -> find_tb (tb_name tb) (d ++ [tb]) = Some tb.
  Proof.
    intros d tb H. unfold find_tb. rewrite find_app'.
    destruct (find (fun x => name_eqb (tb_name x) (tb_name tb)) d) eqn:E.
    - apply find_some in E. destruct E as [HI He]. apply name_eqb_eq in He. exfalso. apply H. rewrite <- He.
      apply in_map. exact HI.
    - cbn. rewrite name_eqb_refl. reflexivity.
  Qed.

  Lemma replay_client_entries : forall seed rest done (l l' : tabsT),
    NoDup (map tb_name (done ++ rest)) ->
    Forall (fun tb => user_table (tb_name tb) = true) rest ->
    (forall n, user_table n = true -> table_content (view l n) = acked_rows lg n ++ batch_rows n done) ->
    cols_after done l -> cat_frozen l ->
    replay_batch seed rest l = Val l' ->
    cols_after (done ++ rest) l' /\ cat_frozen l'.
  Proof.
    induction rest as [|tb rest IH]; intros done l l' ND Hu Hcont Hc Hf.
    - cbn. intro H. injection H as <-. rewrite app_nil_r. auto.
    - rewrite replay_batch_cons. destruct (replay_batch seed [tb] l) as [l1| | | |] eqn:E1; cbn [bind]; try discriminate.
      intro H. inversion Hu as [|? ? Hu1 Hu2]; subst.
      destruct (replay_entry _ _ _ _ E1) as [la [ca [lb [tx [cs [Ec [Ee [Lx [Ecs El1]]]]]]]]].
      assert (Hnotin : ~ In (tb_name tb) (map tb_name done)).
      { rewrite map_app in ND. cbn [map] in ND. apply NoDup_remove_2 in ND. intro HI. apply ND.
        apply in_or_app. left. exact HI. }
      destruct (create_if_empty_spec _ _ _ _ _ Ec) as [_ [H2 [H3 [H4 _]]]].
      pose proof (grows_view _ _ (grows_create _ _ _ _ _ Ec)) as GVa.
      pose proof (ensure_cols_spec _ _ _ Ee) as [Mb _].
      pose proof (grows_view _ _ (grows_of_modc _ _ Mb)) as GVb.
      (* the column set after ensure_cols is the catalogue of lg *)
      assert (Hcs : same_names cs (LN (tb_name tb))).
      { unfold ensure_cols in Ee. destruct (lookup (tb_name tb) la) as [ta|] eqn:La; [|discriminate].
        destruct (t_cols ta) as [csa|] eqn:Eca.
        - injection Ee as <-. rewrite La in Lx. injection Lx as <-. rewrite Eca in Ecs. injection Ecs as <-.
          destruct (lookup (tb_name tb) l) as [t0|] eqn:L0.
          + rewrite (H2 _ _ L0) in La. injection La as <-.
            pose proof (Hc _ _ _ Hu1 L0 Eca) as Hs. unfold find_tb in Hs.
            destruct (find (fun x => name_eqb (tb_name x) (tb_name tb)) done) eqn:Ef.
            * apply find_some in Ef. destruct Ef as [HI He]. apply name_eqb_eq in He. exfalso. apply Hnotin.
              rewrite <- He. apply in_map. exact HI.
            * rewrite app_nil_r in Hs. exact Hs.
          + (* created just now: no rows in lg, empty catalogue *)
            unfold create_if_empty in Ec. rewrite L0 in Ec. injection Ec as <- _.
            rewrite lookup_app_new, L0, name_eqb_refl in La. injection La as E. rewrite <- E in Eca. cbn in Eca.
            rewrite (user_table_seed _ _ _ Hu1) in Eca. injection Eca as <-.
            assert (En : LN (tb_name tb) = []).
            { unfold LN. apply log_names_absent; auto. specialize (Hcont _ Hu1). unfold view in Hcont.
              rewrite L0 in Hcont. cbn in Hcont. symmetry in Hcont. apply app_eq_nil in Hcont. tauto. }
            rewrite En. intro x. tauto.
        - destruct (lookup (meta_columns_of (tb_name tb)) la) as [mc|] eqn:Lm; [|discriminate].
          destruct (string_column s_column_name (table_content mc)) as [names|] eqn:En; [|discriminate].
          injection Ee as <-. rewrite (lookup_upd_same _ _ _ _ La) in Lx. injection Lx as <-.
          cbn in Ecs. injection Ecs as <-.
          assert (Em : table_content mc = acked_rows lg (meta_columns_of (tb_name tb))).
          { rewrite <- (Hf _ Hu1). pose proof (GVa (meta_columns_of (tb_name tb))) as M. unfold view in M at 2.
            rewrite Lm in M. apply modc_content. exact M. }
          rewrite Em, (log_string_column _ _ LOK Hu1) in En. injection En as <-.
          intro x. rewrite add_names_in. cbn. unfold LN. tauto. }
      subst l1.
      set (t' := set_cols (set_buf tx (t_buf tx ++ tb_rows tb)) (Some (add_names cs (tb_cols tb)))) in *.
      assert (Hother : forall n, n <> tb_name tb -> lookup n (upd (tb_name tb) t' lb) = lookup n lb)
        by (intros; apply lookup_upd_other; auto).
      assert (Hview_other : forall n, n <> tb_name tb -> modc (view l n) (view (upd (tb_name tb) t' lb) n)).
      { intros n Hne. unfold view at 2. rewrite (Hother _ Hne). fold (view lb n).
        eapply modc_trans; [apply GVa|apply GVb]. }
      replace (done ++ tb :: rest) with ((done ++ [tb]) ++ rest) by (rewrite <- app_assoc; reflexivity).
      apply (IH (done ++ [tb]) (upd (tb_name tb) t' lb) l'); auto.
      + rewrite <- app_assoc. exact ND.
      + intros n Hun. rewrite batch_rows_app, batch_rows_cons. cbn [batch_rows flat_map]. rewrite app_nil_r.
        destruct (list_eq_dec N.eq_dec n (tb_name tb)) as [->|Hne].
        * rewrite name_eqb_refl. unfold view. rewrite (lookup_upd_same _ _ _ _ Lx). unfold t', table_content.
          cbn [t_parts t_frozen t_buf set_cols set_buf].
          pose proof (modc_trans _ _ _ (GVa (tb_name tb)) (GVb (tb_name tb))) as M. unfold view in M at 2.
          rewrite Lx in M. destruct (modc_fields _ _ M) as [Fb [Ff [Fp _]]].
          specialize (Hcont _ Hun). unfold table_content in Hcont. rewrite Fb, Ff, Fp.
          rewrite !app_assoc. rewrite !app_assoc in Hcont. rewrite Hcont. rewrite <- !app_assoc. reflexivity.
        * assert (E : name_eqb (tb_name tb) n = false) by (apply name_eqb_neq; congruence).
          rewrite E, app_nil_r. rewrite <- (Hcont _ Hun). apply modc_content. apply Hview_other. exact Hne.
      + intros t tt cs0 Hut L Hcs0. destruct (list_eq_dec N.eq_dec t (tb_name tb)) as [->|Hne].
        * rewrite (lookup_upd_same _ _ _ _ Lx) in L. injection L as <-. unfold t' in Hcs0. cbn in Hcs0.
          injection Hcs0 as <-. rewrite (find_tb_snoc_same _ _ Hnotin).
          intro x. rewrite add_names_in, in_app_iff, (Hcs x). tauto.
        * rewrite find_tb_snoc_other; [|congruence]. rewrite (Hother _ Hne) in L.
          pose proof (modc_trans _ _ _ (GVa t) (GVb t)) as M. unfold view in M at 2. rewrite L in M.
          unfold view in M. destruct (lookup t l) as [t0|] eqn:L0.
          -- destruct M as [cx ->]. cbn in Hcs0. 
             (* columns of other tables are untouched by this entry *)
             assert (Hsame : t_cols (set_cols t0 cx) = t_cols t0).
             { rewrite (ensure_cols_other _ _ _ t Ee Hne) in L. rewrite (H2 _ _ L0) in L. injection L as E.
               rewrite <- E. reflexivity. }
             cbn in Hsame. subst cx. eapply Hc; eauto.
          -- rewrite (ensure_cols_other _ _ _ t Ee Hne), (H3 _ L0 Hne) in L. discriminate.
      + intros t Hut. rewrite <- (Hf _ Hut). apply modc_content. apply Hview_other.
        intro E. rewrite <- E in Hu1. rewrite meta_columns_of_meta in Hu1. discriminate.
  Qed.

  (* replaying one segment of the log *)
  Lemma replay_segment : forall seed full (l l' : tabsT),
    rec_rel lg l -> seg_ok lg full -> replay_batch seed full l = Val l' -> rec_rel (lg ++ [full]) l'.
  Proof.
    intros seed full l l' [Rc Rcols Rm] S H.
    pose proof S as [b [extra [Ef [W [M [_ Hs]]]]]]. subst full.
    destruct (replay_batch_spec _ _ _ _ H) as [_ [A _]].
    constructor.
    - intro n. rewrite acked_rows_snoc, <- (Rc n). apply table_content_appended. apply A.
    - rewrite replay_batch_app in H. destruct (replay_batch seed b l) as [lb| | | |] eqn:Eb; cbn [bind] in H; try discriminate.
      destruct (replay_client_entries seed b [] l lb) as [Hc Hf]; auto.
      + cbn [app]. apply (wb_names _ W).
      + apply (wb_user _ W).
      + intros n Hu. cbn. rewrite app_nil_r. apply Rc.
      + intros t tt cs Hu L Hcs. cbn. rewrite app_nil_r. eapply Rcols; eauto.
      + intros t Hu. apply Rc.
      + cbn [app] in Hc. intros t tt cs Hu L Hcs. rewrite (replay_meta_frame _ _ _ _ t M Hu H) in L.
        specialize (Hc _ _ _ Hu L Hcs). rewrite log_names_snoc. destruct (Hs t Hu) as [_ En]. rewrite En.
        fold (LN t). destruct (find_tb t b) as [tb|].
        * intro x. rewrite (Hc x), !in_app_iff, new_names_in.
          destruct (in_dec (list_eq_dec N.eq_dec) x (LN t)); tauto.
        * exact Hc.
    - eapply replay_meta_cols; eauto.
  Qed.

End Segment.

(* the whole log directory *)
Lemma replay_log : forall seed w lg expect (l l' : tabsT),
  log_ok (lg ++ map (fun x => sg_data (snd x)) w) -> rec_rel lg l ->
  replay seed w expect l = Val l' -> rec_rel (lg ++ map (fun x => sg_data (snd x)) w) l'.
Proof.
  induction w as [|[id sg] w IH]; intros lg expect l l' LOK R.
  - cbn. intro H. injection H as <-. rewrite app_nil_r. exact R.
  - cbn [replay map snd]. destruct (match expect with Some e => id =? e | None => true end); [|discriminate].
    destruct (replay_batch seed (sg_data sg) l) as [l1| | | |] eqn:E1; cbn [bind]; try discriminate.
    intro H. cbn [map snd] in LOK.
    assert (LOK1 : log_ok (lg ++ [sg_data sg])).
    { apply (log_ok_prefix _ (map (fun x => sg_data (snd x)) w)). rewrite <- app_assoc. exact LOK. }
    assert (S : seg_ok lg (sg_data sg) /\ log_ok lg).
    { remember (lg ++ [sg_data sg]) as x eqn:Ex. destruct LOK1 as [|lg0 f0 H0 S0]; [destruct lg; discriminate|].
      apply app_inj_tail in Ex. destruct Ex as [-> ->]. auto. }
    destruct S as [S LOK0].
    replace (lg ++ sg_data sg :: map (fun x => sg_data (snd x)) w)
      with ((lg ++ [sg_data sg]) ++ map (fun x => sg_data (snd x)) w) by (rewrite <- app_assoc; reflexivity).
    eapply IH; [rewrite <- app_assoc; exact LOK| |exact H].
    eapply replay_segment; eauto.
Qed.

Lemma restore_tables_cols_gen : forall seed (l l0 : tabsT),
  restore_tables seed l = Val l0 -> forall n tt, lookup n l0 = Some tt -> t_cols tt = seed_cols seed n None.
Proof.
  induction l as [|[k t] l IH]; cbn [restore_tables]; intros l0.
  - intro H. injection H as <-. intros n tt L. discriminate.
  - destruct (restore_tables seed l) as [r| | | |] eqn:Er; cbn [bind]; try discriminate.
    destruct (t_meta t).
    + intro H. injection H as <-. apply IH. reflexivity.
    + unfold restore. destruct (restore_parts _ _); cbn [of_opt bind]; [|discriminate].
      intro H. injection H as <-. intros n tt L. cbn in L. destruct (name_eqb n k) eqn:E.
      * apply name_eqb_eq in E. subst. injection L as <-. reflexivity.
      * eapply IH; eauto.
Qed.
