(* Catalogue, part 6: restart preserves the catalogue invariant; the invariant holds in every state
   reachable by a history of well-formed requests; consequences. *)
From Coq Require Import NArith ZArith List Bool Lia.
From LV Require Import Model.TableSM Model.Catalogue Model.WalSM
     Proofs.TableSM Proofs.WalSMBase Proofs.WalSM Proofs.WalSMLog Proofs.Catalogue
     Proofs.CatalogueLog Proofs.CatalogueInv Proofs.CatalogueFlush Proofs.CatalogueRecover.
Import ListNotations.
Open Scope N_scope.

Lemma acked_rows_app : forall a b n, acked_rows (a ++ b) n = acked_rows a n ++ acked_rows b n.
Proof. intros. unfold acked_rows. apply flat_map_app. Qed.

Lemma acked_rows_wal : forall w n, acked_rows (map (fun x => sg_data (snd x)) w) n = wal_rows n w.
Proof.
  induction w as [|x w IH]; intro n; [reflexivity|]. cbn [map]. unfold acked_rows, wal_rows in *.
  cbn [flat_map]. rewrite IH. reflexivity.
Qed.

Lemma restore_tables_cols : forall seed (l l0 : tabsT),
  restore_tables seed l = Val l0 -> forall n tt, lookup n l0 = Some tt -> t_cols tt = seed_cols seed n None.
Proof.
  induction l as [|[k t] l IH]; cbn [restore_tables]; intros l0.
  - intro H. injection H as <-. intros n tt L. discriminate.
  - destruct (restore_tables seed l) as [r| | | |] eqn:Er; cbn [bind]; try discriminate.
    destruct (t_meta t).
    + intro H. injection H as <-. apply IH. reflexivity.
    + unfold restore. destruct (restore_parts _ _); cbn [of_opt bind]; [|discriminate].
      intro H. injection H as <-. intros n tt L. cbn in L. destruct (name_eqb n k) eqn:E.
      * apply name_eqb_eq in E. subst. injection L as <-. reflexivity.
      * eapply IH; eauto.
Qed.

Lemma restore_tables_keys : forall seed (l l0 : tabsT),
  restore_tables seed l = Val l0 -> forall n, In n (keys l0) -> In n (keys l).
Proof.
  induction l as [|[k t] l IH]; cbn [restore_tables]; intros l0.
  - intro H. injection H as <-. intros n [].
  - destruct (restore_tables seed l) as [r| | | |] eqn:Er; cbn [bind]; try discriminate.
    destruct (t_meta t).
    + intro H. injection H as <-. intros n HI. right. eapply IH; eauto.
    + destruct (restore _ t); cbn [of_opt bind]; [|discriminate].
      intro H. injection H as <-. intros n [<-|HI]; [left; reflexivity|right; eapply IH; eauto].
Qed.

Lemma replay_batch_keys : forall seed b (l l' : tabsT),
  replay_batch seed b l = Val l' -> forall n, In n (keys l') -> In n (keys l) \/ In n (map tb_name b).
Proof.
  induction b as [|tb b IH]; intros l l'.
  - cbn. intro H. injection H as <-. auto.
  - rewrite replay_batch_cons. destruct (replay_batch seed [tb] l) as [l1| | | |] eqn:E1; cbn [bind]; try discriminate.
    intros H n HI. destruct (IH _ _ H n HI) as [HI1|HI1]; [|right; right; exact HI1].
    destruct (replay_entry _ _ _ _ E1) as [la [ca [lb [tx [cs [Ec [Ee [Lx [_ ->]]]]]]]]].
    rewrite keys_upd in HI1. pose proof (ensure_cols_spec _ _ _ Ee) as [[K _] _]. rewrite K in HI1.
    destruct (create_if_empty_spec _ _ _ _ _ Ec) as [_ [_ [_ [_ [_ Kc]]]]].
    destruct (Kc _ HI1) as [H0| ->]; [left; exact H0|right; left; reflexivity].
Qed.

Lemma replay_keys : forall seed w expect (l l' : tabsT),
  replay seed w expect l = Val l' ->
  forall n, In n (keys l') -> In n (keys l) \/ exists x, In x w /\ In n (map tb_name (sg_data (snd x))).
Proof.
  induction w as [|[id sg] w IH]; intros expect l l'.
  - cbn. intro H. injection H as <-. auto.
  - cbn [replay]. destruct (match expect with Some e => id =? e | None => true end); [|discriminate].
    destruct (replay_batch seed (sg_data sg) l) as [l1| | | |] eqn:E1; cbn [bind]; try discriminate.
    intros H n HI. destruct (IH _ _ _ H n HI) as [HI1|[x [Hx Hn]]].
    + destruct (replay_batch_keys _ _ _ _ E1 n HI1) as [H0|H0]; [left; exact H0|].
      right. exists (id, sg). split; [left; reflexivity|exact H0].
    + right. exists x. split; [right; exact Hx|exact Hn].
Qed.

Lemma log_ok_in : forall log full, log_ok log -> In full log -> exists pre, seg_ok pre full.
Proof.
  intros log full H. induction H as [|log f H IH S]; intro HI; [destruct HI|].
  apply in_app_or in HI. destruct HI as [HI|[<-|[]]]; eauto.
Qed.

Lemma in_batch_rows : forall b tb, In tb b -> tb_rows tb <> [] -> batch_rows (tb_name tb) b <> [].
Proof.
  induction b as [|x b IH]; intros tb HI Hr; [destruct HI|]. rewrite batch_rows_cons.
  destruct HI as [->|HI].
  - rewrite name_eqb_refl. destruct (tb_rows tb); [contradiction|discriminate].
  - specialize (IH _ HI Hr). destruct (batch_rows (tb_name tb) b); [contradiction|].
    destruct (name_eqb (tb_name x) (tb_name tb)); [destruct (tb_rows x)|]; discriminate.
Qed.

Lemma wal_rows_in : forall w x n, In x w -> batch_rows n (sg_data (snd x)) <> [] -> wal_rows n w <> [].
Proof.
  induction w as [|y w IH]; intros x n HI Hr; [destruct HI|]. unfold wal_rows. cbn [flat_map].
  destruct HI as [->|HI].
  - destruct (batch_rows n (sg_data (snd x))); [contradiction|discriminate].
  - specialize (IH _ _ HI Hr). unfold wal_rows in IH.
    destruct (flat_map _ w); [contradiction|]. destruct (batch_rows n (sg_data (snd y))); discriminate.
Qed.

Lemma user_seed_none : forall seed n, user_table n = true -> seed_cols seed n None = None.
Proof. intros. apply user_table_seed. exact H. Qed.

Lemma meta_seed_restored : forall seed n, user_table n = false -> seed_cols seed n None <> None.
Proof.
  intros seed n H. unfold user_table in H. unfold seed_cols.
  destruct (is_meta_columns n); [discriminate|]. destruct (is_meta_tables n); [discriminate|]. discriminate.
Qed.

Lemma recover_cat : forall c s s', Inv s -> Cat s -> recover c s = Val s' -> Cat s'.
Proof.
  intros c s s' I C R.
  destruct (recover_spec _ _ _ I R) as [I' [Hcont [Hack [Hwal _]]]].
  revert R. unfold recover.
  set (cursor := match d_cursor s with Some k => k | None => 0 end).
  assert (Ecur : cursor = earliest s).
  { unfold cursor. pose proof (i_cursor _ I) as H. destruct (d_cursor s); congruence. }
  assert (Ekeep : sort_segs (filter (fun x => cursor <=? fst x) (d_wal s)) = d_wal s).
  { rewrite filter_all.
    - eapply sort_segs_sorted. apply (i_ids _ I).
    - intros x HI. apply N.leb_le. rewrite Ecur. eapply seqN_ge. rewrite <- (i_ids _ I). apply in_map. exact HI. }
  rewrite Ekeep.
  destruct (restore_tables code_seed (tabs s)) as [l0| | | |] eqn:E0; cbn [bind]; try discriminate.
  destruct (create_if_empty code_seed s_meta_tables l0) as [l1 b1] eqn:E1.
  destruct (replay code_seed (d_wal s) None l1) as [l2| | | |] eqn:E2; cbn [bind]; try discriminate.
  intro H. injection H as <-.
  destruct (c_wal _ C) as [pre Epre].
  destruct (restore_tables_spec _ _ _ (i_keys _ I) (i_tabs _ I) E0) as [ND0 H0].
  destruct (create_if_empty_spec _ _ _ _ _ E1) as [_ [C2 [C3 [C4 _]]]].
  pose proof (grows_view _ _ (grows_create _ _ _ _ _ E1)) as GV1.
  (* the restored tables are an image of the flushed prefix of the log *)
  assert (Hparts : forall n, part_rows (t_parts (view (tabs s) n)) = acked_rows pre n).
  { intro n. pose proof (i_acked _ I n) as Ha. rewrite Epre, acked_rows_app in Ha.
    unfold wal_log in Ha. rewrite acked_rows_wal, <- (i_bufs _ I n), content_view in Ha.
    unfold table_content in Ha. rewrite (ti_frozen _ (i_tabs _ I n)) in Ha. cbn [app] in Ha.
    apply app_inv_tail in Ha. exact Ha. }
  assert (R1 : rec_rel pre l1).
  { constructor.
    - intro n. destruct (H0 n) as [_ [Hp [Hb Hf]]]. destruct (modc_fields _ _ (GV1 n)) as [Fb [Ff [Fp _]]].
      unfold table_content. rewrite Fp, Ff, Fb, Hp, Hb, Hf, !app_nil_r. apply Hparts.
    - intros t tt cs Hu L Hcs. exfalso. destruct (lookup t l0) as [t0|] eqn:L0.
      + rewrite (C2 _ _ L0) in L. injection L as <-.
        rewrite (restore_tables_cols _ _ _ E0 _ _ L0), (user_seed_none _ _ Hu) in Hcs. discriminate.
      + assert (Hne : t <> s_meta_tables) by (intro; subst; discriminate).
        rewrite (C3 _ L0 Hne) in L. discriminate.
    - intros n tt Hu L. destruct (lookup n l0) as [t0|] eqn:L0.
      + rewrite (C2 _ _ L0) in L. injection L as <-.
        rewrite (restore_tables_cols _ _ _ E0 _ _ L0). apply meta_seed_restored. exact Hu.
      + destruct (list_eq_dec N.eq_dec n s_meta_tables) as [->|Hne].
        * destruct (C4 L0) as [c0 Hc0]. unfold create_if_empty in E1. rewrite L0 in E1. injection E1 as <- _.
          rewrite lookup_app_new, L0, name_eqb_refl in L. injection L as <-. cbn [t_cols empty_table]. apply seed_cols_some.
        * rewrite (C3 _ L0 Hne) in L. discriminate. }
  assert (LOK : log_ok (pre ++ map (fun x => sg_data (snd x)) (d_wal s))).
  { fold (wal_log s). rewrite <- Epre. apply (c_log _ C). }
  pose proof (replay_log _ _ _ _ _ _ LOK R1 E2) as R2. fold (wal_log s) in R2. rewrite <- Epre in R2.
  constructor; cbn [acked tabs d_wal].
  - apply (c_log _ C).
  - exists pre. exact Epre.
  - apply (rr_cols _ _ R2).
  - intros t tt Hu L.
    (* the table existed before the restart *)
    assert (Hin : In t (keys (tabs s))).
    { destruct (replay_keys _ _ _ _ _ E2 t (lookup_some_in _ _ _ L)) as [HI|[x [Hx Hn]]].
      - destruct (create_if_empty_spec _ _ _ _ _ E1) as [_ [_ [_ [_ [_ Kc]]]]].
        destruct (Kc _ HI) as [HI0| ->]; [|discriminate]. eapply restore_tables_keys; eauto.
      - apply in_map_iff in Hn. destruct Hn as [tb [En Htb]].
        assert (Hfull : In (sg_data (snd x)) (acked s)).
        { rewrite Epre. apply in_or_app. right. unfold wal_log.
          apply (in_map (fun y => sg_data (snd y))). exact Hx. }
        destruct (log_ok_in _ _ (c_log _ C) Hfull) as [p0 [b [extra [Ef [W [M _]]]]]].
        rewrite Ef in Htb. apply in_app_or in Htb. destruct Htb as [Htb|Htb].
        + assert (Hr : batch_rows t (sg_data (snd x)) <> []).
          { rewrite Ef, batch_rows_app, <- En. pose proof (wb_nonempty _ W) as Hne. rewrite Forall_forall in Hne.
            destruct (Hne _ Htb) as [_ Hrows]. pose proof (in_batch_rows _ _ Htb Hrows) as Hb.
            destruct (batch_rows (tb_name tb) b); [contradiction|discriminate]. }
          pose proof (wal_rows_in _ _ _ Hx Hr) as Hw. rewrite <- (i_bufs _ I t) in Hw.
          unfold view in Hw. destruct (lookup t (tabs s)) eqn:Lt; [eapply lookup_some_in; eauto|].
          exfalso. apply Hw. reflexivity.
        + exfalso. unfold meta_named in M. rewrite Forall_forall in M. apply M in Htb. congruence. }
    destruct (lookup_in_some _ _ Hin) as [t0 L0].
    pose proof (Hcont t) as Hc. cbn [tabs] in Hc.
    change (content {| tabs := l2; next_wal := fold_left (fun a x => N.max a (fst x + 1)) (d_wal s) cursor;
                       earliest := cursor; wal_size := fold_left (fun a x => a + sg_bytes (snd x)) (d_wal s) 0;
                       d_cursor := d_cursor s; d_wal := d_wal s; acked := acked s |} t <> []).
    rewrite Hc. eapply (c_nonempty _ C); eauto.
  - apply (rr_meta _ _ R2).
Qed.

(* ---------------------------------------------------------------------------------------------- *)
(* histories of well-formed requests *)

Definition wf_op (o : op) : Prop := match o with OIngest b _ => wf_batch b | _ => True end.

Lemma step_cat : forall c s o s', Inv s -> Cat s -> wf_op o -> step true c s o = Val s' -> Cat s'.
Proof.
  intros c s o s' I C W H. destruct o as [b bytes|bg orc| |]; cbn [step] in H.
  - eapply ingest_cat; eauto.
  - destruct (bg && negb (bg_enabled c s)); [discriminate|]. eapply flush_cat; eauto.
  - injection H as <-. exact C.
  - eapply recover_cat; eauto.
Qed.

Lemma run_cat : forall c ops s s', Inv s -> Cat s -> Forall wf_op ops -> run true c ops s = Val s' -> Cat s'.
Proof.
  induction ops as [|o ops IH]; cbn [run]; intros s s' I C W H.
  - injection H as <-. exact C.
  - inversion W; subst. destruct (step true c s o) as [s1| | | |] eqn:E; cbn [bind] in H; try discriminate.
    eapply IH; [| |eassumption|exact H].
    + eapply step_inv; eauto.
    + eapply step_cat; eauto.
Qed.

Lemma reachable_cat : forall c ops s, Forall wf_op ops -> run true c ops (init c) = Val s -> Cat s.
Proof. intros. eapply run_cat; [apply inv_init|apply cat_init| |]; eauto. Qed.

(* the catalogue a client observes *)
Lemma catalogue_exact : forall s t, Inv s -> Cat s -> user_table t = true ->
  exists names, string_column s_column_name (content s (meta_columns_of t)) = Some names /\
    NoDup names /\ (forall x, In x names <-> mentioned (acked s) t x).
Proof.
  intros s t I C Hu. exists (log_names (acked s) t). split; [|split].
  - rewrite (i_acked _ I). apply log_string_column; [apply (c_log _ C)|exact Hu].
  - apply log_names_nodup; [apply (c_log _ C)|exact Hu].
  - intro x. apply log_names_exact; [apply (c_log _ C)|exact Hu].
Qed.

(* mentioned in the log = mentioned by a client request *)
Definition mentioned_ops (ops : list op) (t x : name) : Prop :=
  exists b bytes tb, In (OIngest b bytes) ops /\ In tb b /\ tb_name tb = t /\ In x (tb_cols tb).

Lemma run_mentioned : forall c ops s s' t x,
  Inv s -> run true c ops s = Val s' -> user_table t = true ->
  (mentioned (acked s') t x <-> mentioned (acked s) t x \/ mentioned_ops ops t x).
Proof.
  induction ops as [|o ops IH]; cbn [run]; intros s s' t x I H Hu.
  - injection H as <-. split; [auto|]. intros [H|[b [by0 [tb [[] _]]]]]. exact H.
  - destruct (step true c s o) as [s1| | | |] eqn:E; cbn [bind] in H; try discriminate.
    rewrite (IH _ _ _ _ (step_inv _ _ _ _ I E) H Hu).
    assert (Hstep : mentioned (acked s1) t x <->
                    mentioned (acked s) t x \/ (exists b bytes tb, o = OIngest b bytes /\ In tb b /\ tb_name tb = t /\ In x (tb_cols tb))).
    { destruct o as [b bytes|bg orc| |]; cbn [step] in E.
      - destruct (ingest_spec _ _ _ _ _ I E) as [_ [extra [Ea _]]].
        pose proof (ingest_extra_meta _ _ _ _ _ _ E Ea) as M. rewrite Ea. split.
        + intros [f [tb [Hf [Htb [Hn Hx]]]]]. apply in_app_or in Hf. destruct Hf as [Hf|[<-|[]]].
          * left. exists f, tb. auto.
          * apply in_app_or in Htb. destruct Htb as [Htb|Htb].
            -- right. exists b, bytes, tb. auto.
            -- exfalso. unfold meta_named in M. rewrite Forall_forall in M. apply M in Htb. congruence.
        + intros [[f [tb [Hf Hr]]]|[b0 [by0 [tb [Eo [Htb [Hn Hx]]]]]]].
          * exists f, tb. split; [apply in_or_app; left; exact Hf|exact Hr].
          * injection Eo as <- <-. exists (b ++ extra), tb. split; [apply in_or_app; right; left; reflexivity|].
            split; [apply in_or_app; left; exact Htb|auto].
      - destruct (bg && negb (bg_enabled c s)); [discriminate|].
        destruct (flush_spec _ _ _ _ I E) as [_ [_ [Ea _]]]. rewrite Ea. split; [auto|].
        intros [H0|[b0 [by0 [tb [Eo _]]]]]; [exact H0|discriminate].
      - injection E as <-. split; [auto|]. intros [H0|[b0 [by0 [tb [Eo _]]]]]; [exact H0|discriminate].
      - destruct (recover_spec _ _ _ I E) as [_ [_ [Ea _]]]. rewrite Ea. split; [auto|].
        intros [H0|[b0 [by0 [tb [Eo _]]]]]; [exact H0|discriminate]. }
    rewrite Hstep. unfold mentioned_ops. split.
    + intros [[H0|[b [by0 [tb [-> Hr]]]]]|[b [by0 [tb [Ho Hr]]]]].
      * left. exact H0.
      * right. exists b, by0, tb. split; [left; reflexivity|exact Hr].
      * right. exists b, by0, tb. split; [right; exact Ho|exact Hr].
    + intros [H0|[b [by0 [tb [[->|Ho] Hr]]]]].
      * left. left. exact H0.
      * left. right. exists b, by0, tb. split; [reflexivity|exact Hr].
      * right. exists b, by0, tb. split; [exact Ho|exact Hr].
Qed.
